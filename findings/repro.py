"""Direct reproductions of the defects found in the pinned tinyflux commit.

Usage:  PYTHONPATH=/repo /venv/bin/python findings/repro.py [F1 F2 ...]
Each function returns None when the property holds on the tree under test and a
short string describing the failure otherwise.  They talk to the real
implementation only (no model), and are the replay of the corresponding entry
in known_findings.json.
"""
import os, re, sys, tempfile, glob
from datetime import datetime, timezone, timedelta

from tinyflux import TinyFlux, Point, TagQuery, FieldQuery, TimeQuery, MeasurementQuery
from tinyflux.storages import MemoryStorage, CSVStorage

T0 = datetime(2020, 1, 1, tzinfo=timezone.utc)
T = TagQuery
F = FieldQuery


def t(i):
    return T0 + timedelta(seconds=i)


def mem(auto_index=True):
    return TinyFlux(storage=MemoryStorage, auto_index=auto_index)


def F1():
    db = mem()
    for i in range(3):
        db.insert(Point(time=t(i), fields={"a": i}))
    db.remove_all()
    db.insert(Point(time=t(5), fields={"a": 5}))
    db.insert(Point(time=t(6), fields={"a": 6}))
    got = db.count(TimeQuery() >= t(6))
    if got != 1:
        return f"count(Time >= t6) after remove_all + 2 inserts = {got}, expected 1"


def F2():
    db = mem()
    for i in range(3):
        db.insert(Point(time=t(i), fields={"a": i}))
    db.remove(F().a == 0)
    got = db.count(TimeQuery() >= t(1))
    if got != 2:
        return f"count(Time >= t1) after removing the first of three points = {got}, expected 2"
    # out-of-order data re-indexed, then partial remove
    db = mem()
    for i in (2, 0, 1):
        db.insert(Point(time=t(i), fields={"a": i}))
    db.all()
    db.remove(F().a == 2)
    got = [p.fields["a"] for p in db.search(TimeQuery() <= t(0))]
    if got != [0]:
        return f"search(Time <= t0) after remove on re-indexed data = {got}, expected [0]"


def F3():
    db = mem()
    db.insert(Point(time=t(0), fields={"a": 1}))
    db.insert(Point(time=t(1), fields={"a": 2}))
    c = db.count(~(F().a == 1))
    if c != 1:
        return f"count(~(a == 1)) = {c}, expected 1"
    n = db.remove(~(F().a == 1))
    if n != 1 or len(db) != 1:
        return f"remove(~(a == 1)) returned {n}, len now {len(db)}; expected 1 and 1"


def F4():
    db = mem()
    db.insert(Point(time=t(0), fields={"a": 1}))
    db.insert(Point(time=t(1), fields={"a": 2}))
    q = F().a.map(lambda x: x + 1) == 2
    c = db.count(q)
    if c != 1 or db.search(q)[0].fields["a"] != 1:
        return f"count(a.map(+1) == 2) = {c}, expected 1 (the point with a == 1)"


def F5():
    db = mem()
    db.insert(Point(time=t(0), fields={"a": 1}))
    db.insert(Point(time=t(1), tags={"k": "v"}))
    c = db.count(T().noop())
    if c != 2:
        return f"count(TagQuery().noop()) = {c}, expected 2"
    c = db.count(F().noop() & (T().k == "v"))
    if c != 1:
        return f"count(FieldQuery().noop() & (k == v)) = {c}, expected 1"


def F6():
    db = mem()
    db.insert(Point(time=t(0), measurement="m1", fields={"a": 1}))
    db.insert(Point(time=t(1), measurement="m2", fields={"a": 2}))
    got = db.get_field_values("a", "m1")
    if got != [1]:
        return f"get_field_values('a', 'm1') = {got}, expected [1]"


def F7():
    d = tempfile.mkdtemp()
    try:
        db = TinyFlux(os.path.join(d, "db.csv"), auto_index=False)
        db.insert(Point(time=t(0), tags={"k": "line1\nline2"}))
        n = len(db)
        db.close()
        if n != 1:
            return f"len(db) = {n} for one row whose tag value contains a line break, expected 1"
    finally:
        import shutil
        shutil.rmtree(d)


def F8a():
    d = tempfile.mkdtemp()
    try:
        path = os.path.join(d, "db.csv")
        db = TinyFlux(path, encoding="utf-16")
        for i in range(3):
            db.insert(Point(time=t(i), tags={"k": f"é{i}"}))
        db.remove(T().k == "é1")
        try:
            got = [p.tags["k"] for p in db.all()]
        except UnicodeError as e:
            return f"utf-16 database unreadable after remove: {type(e).__name__}"
        finally:
            db.close()
        if got != ["é0", "é2"]:
            return f"utf-16 contents after remove = {got}"
    finally:
        import shutil
        shutil.rmtree(d)


def F8b():
    d = tempfile.mkdtemp()
    try:
        path = os.path.join(d, "db.csv")
        db = TinyFlux(path, flush_on_insert=False)
        for i in range(3):
            db.insert(Point(time=t(i), tags={"k": f"v{i}"}))
        db.remove(T().k == "v1")
        got = [p.tags["k"] for p in db.all()]
        db.close()
        if got != ["v0", "v2"]:
            return f"flush_on_insert=False: contents after remove = {got}, expected ['v0', 'v2']"
    finally:
        import shutil
        shutil.rmtree(d)


def _tmp_listing():
    return set(os.listdir(tempfile.gettempdir()))


def F8c():
    d = tempfile.mkdtemp()
    old = tempfile.tempdir
    tempfile.tempdir = tempfile.mkdtemp()
    try:
        db = TinyFlux(os.path.join(d, "db.csv"))
        for i in range(3):
            db.insert(Point(time=t(i), tags={"k": f"v{i}"}))
        before = _tmp_listing()
        db.remove(T().k == "v1")
        db.update(T().k == "v0", tags={"k": "w"})
        db.remove(T().k == "nope")
        after = _tmp_listing()
        db.close()
        if after != before:
            return f"{len(after - before)} temporary file(s) left behind by remove/update"
    finally:
        import shutil
        shutil.rmtree(tempfile.tempdir)
        tempfile.tempdir = old
        shutil.rmtree(d)


def F10():
    db = mem()
    db.insert(Point(time=t(0), fields={"a": 1}))
    tz = timezone(timedelta(hours=-8))
    new = datetime(2021, 1, 1, 12, tzinfo=tz)
    db.update(F().a == 1, time=new)
    got = db.all()[0].time
    if got != new or got.utcoffset() != timedelta(0):
        return f"update(time=12:00-08:00) stored {got!r}"
    d = tempfile.mkdtemp()
    try:
        db = TinyFlux(os.path.join(d, "db.csv"))
        db.insert(Point(time=t(0), fields={"a": 1}))
        db.update(F().a == 1, time=new)
        got = db.all()[0].time
        db.close()
        if got != new:
            return f"CSV: update(time=12:00-08:00) stored {got.isoformat()}, a different instant"
    finally:
        import shutil
        shutil.rmtree(d)


def F11():
    p = Point(time=t(0), tags={"k": None})
    for q in (T().k.matches("a"), T().k.search("a")):
        try:
            r = q(p)
        except Exception as e:
            return f"regex query on a None tag value raised {type(e).__name__}"
        if r is not False:
            return f"regex query on None tag value = {r!r}"


def F12a():
    q1 = T().k.matches("a", flags=re.I)
    q2 = T().k.matches("a")
    p = Point(time=t(0), tags={"k": "A"})
    if q1 == q2 and q1(p) != q2(p):
        return "matches('a', re.I) == matches('a') but they evaluate differently on tag value 'A'"


def F12b():
    a = T().a == "x"
    b = (T().b == "y") | (T().c == "z")
    if not ((a & b) == (b & a)):
        return "(a & b) != (b & a) for a simple a and a compound b"
    if not ((a | b) == (b | a)):
        return "(a | b) != (b | a) for a simple a and a compound b"


def F13():
    db = mem()
    db.insert(Point(time=t(0), tags={"k": "v"}, fields={"a": 1}))
    try:
        db.update(F().a == 1, tags=lambda x: {"k": 1})
    except (ValueError, TypeError):
        pass
    try:
        db.update(F().a == 1, fields=lambda x: {"a": "str"})
    except (ValueError, TypeError):
        pass
    p = db.all()[0]
    if p.tags["k"] != "v" or p.fields["a"] != 1:
        return f"callable update stored ill-typed values: tags={p.tags} fields={p.fields}"


def F14():
    db = mem(auto_index=False)
    db.reindex()
    try:
        db.insert_multiple([Point(time=t(0), fields={"a": 1}), "not a point"])
    except TypeError:
        pass
    c = db.count(F().a == 1)
    if c != 1:
        return f"after aborted insert_multiple (auto_index=False) count = {c}, expected 1; index.valid={db.index.valid}"


def F15():
    d = tempfile.mkdtemp()
    old = tempfile.tempdir
    tempfile.tempdir = tempfile.mkdtemp()
    try:
        db = TinyFlux(os.path.join(d, "db.csv"))
        db.insert(Point(time=t(0), fields={"a": 1}))
        before = _tmp_listing()

        def boom(x):
            raise RuntimeError("boom")

        try:
            db.update(F().a == 1, fields=boom)
        except RuntimeError:
            pass
        after = _tmp_listing()
        db.close()
        if after != before:
            return f"{len(after - before)} temporary file(s) left behind by an update that raised"
    finally:
        import shutil
        shutil.rmtree(tempfile.tempdir)
        tempfile.tempdir = old
        shutil.rmtree(d)


def F16():
    db = mem(auto_index=False)
    db.insert(Point(time=t(0), fields={"a": 1}))
    db.insert(Point(time=t(1), fields={"a": 2}))

    def f(fs):
        if fs["a"] == 2:
            raise RuntimeError("boom")
        return {"a": 10}

    try:
        db.update_all(fields=f)
    except RuntimeError:
        pass
    got = [p.fields["a"] for p in db.all()]
    if got != [1, 2]:
        return f"update_all whose callable raised on the 2nd point left {got}, expected [1, 2]"


def F16b():
    db = mem()
    p = Point(time=t(0), fields={"a": 1})
    db.insert(p)
    db.insert(p)
    n = db.update_all(fields=lambda fs: {"a": fs["a"] + 1})
    got = [q.fields["a"] for q in db.all()]
    if got != [2, 2]:
        return f"same Point object inserted twice then update_all(+1) gives {got}, expected [2, 2]"


def F17():
    d = tempfile.mkdtemp()
    try:
        path = os.path.join(d, "db.csv")
        db = TinyFlux(path)
        db.insert(Point(time=t(0), tags={"k": "_none"}))
        db.insert(Point(time=t(1), measurement=""))
        db.close()
        db = TinyFlux(path)
        ps = db.all()
        db.close()
        if ps[0].tags["k"] != "_none":
            return f"tag value '_none' read back as {ps[0].tags['k']!r}"
        if ps[1].measurement != "":
            return f"measurement '' read back as {ps[1].measurement!r}"
    finally:
        import shutil
        shutil.rmtree(d)


def F18():
    d = tempfile.mkdtemp()
    try:
        path = os.path.join(d, "db.csv")
        db = TinyFlux(path)
        db.insert(Point(time=t(0), fields={"a": 2**53 + 1}))
        got = db.all()[0].fields["a"]
        db.close()
        if got != 2**53 + 1:
            return f"int field 2**53+1 read back as {got!r}"
    finally:
        import shutil
        shutil.rmtree(d)


def F19():
    import tinyflux.storages as st
    d = tempfile.mkdtemp()
    try:
        db = TinyFlux(os.path.join(d, "db.csv"))
        db.insert(Point(time=t(0), fields={"a": 0}))
        real = st.os.fsync

        def bad(fd):
            st.os.fsync = real
            raise OSError(5, "injected")

        st.os.fsync = bad
        try:
            db.insert(Point(time=t(1), fields={"a": 1}))
        except OSError:
            pass
        finally:
            st.os.fsync = real
        c = db.count(F().a >= 0)
        stored = len(list(db))
        db.close()
        if c != stored:
            return f"after an fsync failure during insert: count via index = {c}, rows in storage = {stored}"
    finally:
        import shutil
        shutil.rmtree(d)


def F20():
    db = mem()
    db.insert(Point(time=t(0), measurement="ab"))
    db.insert(Point(time=t(1), measurement=""))
    q = MeasurementQuery().map(lambda s: s[0]) == "a"
    try:
        c = db.count(q)
    except Exception as e:
        return f"count(Measurement.map(s[0]) == 'a') raised {type(e).__name__} via the index"
    if c != 1:
        return f"count = {c}, expected 1"


def F21():
    db = mem()
    db.insert(Point(time=t(0)))
    db.insert(Point(time=t(10)))
    q = TimeQuery().map(lambda x: x + timedelta(seconds=10)) == t(10)
    got = [p.time for p in db.search(q)]
    if got != [t(0)]:
        return f"search(Time.map(+10s) == t10) = {got}, expected [t0]"


def F22():
    db = mem()
    p = Point(time=t(0), tags={"k": "v"})
    p.tags["x"] = 1
    try:
        db.insert(p)
    except (ValueError, TypeError):
        return None
    if any(not (v is None or isinstance(v, str)) for q in db.all() for v in q.tags.values()):
        return "a Point whose tag dict was mutated to hold an int was stored"


def F24():
    db = mem()
    db.insert(Point(time=t(0), tags={"a": "x", "b": "y"}))
    db.insert(Point(time=t(1), tags={"a": "x"}))
    q = T().map(lambda d: str(len(d))) == "2"
    c = db.count(q)
    if c != 1:
        return f"count(TagQuery().map(str(len)) == '2') = {c}, expected 1"


def F23():
    d = tempfile.mkdtemp()
    try:
        path = os.path.join(d, "db.csv")
        db = TinyFlux(path)
        db.insert(Point(time=t(0), tags={"a": "x" * 140000}))
        try:
            got = db.all()
        except Exception as e:  # noqa
            return f"a tag value of 140000 characters was accepted by insert; afterwards every read raises {type(e).__name__}: {e}"
        finally:
            db.close()
        if len(got) != 1 or len(got[0].tags["a"]) != 140000:
            return "long tag value did not survive"
    finally:
        import shutil
        shutil.rmtree(d, ignore_errors=True)


def F30():
    common, cf = {"site": "a"}, {"n": 1}
    db = TinyFlux(storage=MemoryStorage)
    db.insert_multiple([Point(time=t(i), tags=common, fields=cf) for i in range(3)])
    n = db.update(TimeQuery() == t(0), tags={"checked": "yes"})
    got = [dict(p.tags) for p in db.all()]
    if n != 1 or got != [{"site": "a", "checked": "yes"}, {"site": "a"}, {"site": "a"}]:
        return f"three points built from one tags mapping; update of the first alone returned {n} and left tags {got}"
    db.update_all(fields=lambda f: {"n": f["n"] + 1})
    ns = [p.fields["n"] for p in db.all()]
    if ns != [2, 2, 2]:
        return f"update_all(n -> n + 1) on three points sharing one fields mapping gave n = {ns}"


def F31():
    db = TinyFlux(storage=MemoryStorage)
    db.insert(Point(time=datetime.max.replace(tzinfo=timezone.utc), fields={"a": 1}))
    try:
        db.insert(Point(time=t(0), fields={"a": 2}))
    except Exception as e:  # noqa
        n = len(db.all())
        return f"insert after a point at datetime.max raised {type(e).__name__}: {e}; {n} points stored, index valid={db.index.valid} with {len(db.index)} items"
    if db.count(FieldQuery().a > 0) != 2:
        return "count after the two inserts is not 2"


def F32():
    d = tempfile.mkdtemp()
    try:
        path = os.path.join(d, "db.csv")
        db = TinyFlux(path, lineterminator="\n")
        db.insert(Point(time=t(0), tags={"a": "x\ry"}, fields={"f": 1}))
        try:
            got = db.all()
        except Exception as e:  # noqa
            return f"lineterminator='\\n' and a tag value with a bare CR: insert accepted it, every read now raises {type(e).__name__}: {e}"
        finally:
            db.close()
        if len(got) != 1 or got[0].tags != {"a": "x\ry"}:
            return f"read back {[(p.tags) for p in got]}"
    finally:
        import shutil
        shutil.rmtree(d, ignore_errors=True)


def F33():
    from zoneinfo import ZoneInfo
    z = ZoneInfo("America/New_York")
    a = datetime(2021, 11, 7, 1, 30, tzinfo=z)
    b = a.replace(fold=1)
    qa, qb = TimeQuery() <= a, TimeQuery() <= b
    p = Point(time=b.astimezone(timezone.utc), fields={"a": 1})
    if (qa == qb or hash(qa) == hash(qb)) and qa(p) != qb(p):
        return f"TimeQuery() <= 01:30 (fold=0) and <= 01:30 (fold=1) compare equal / hash alike but answer {qa(p)} and {qb(p)} on the later instant"


def F34():
    from zoneinfo import ZoneInfo
    z = ZoneInfo("America/New_York")
    a = datetime(2021, 11, 7, 1, 30, tzinfo=z)
    p = Point(time=a, fields={"a": 1})
    if not (TimeQuery() == a)(p) or (TimeQuery() != a)(p):
        return "TimeQuery() == t is False on a Point whose (zoned, repeated-hour) time is t"


def F35():
    import os, shutil, tempfile
    d = tempfile.mkdtemp()
    cwd = os.getcwd()
    try:
        os.makedirs(os.path.join(d, "one"))
        os.makedirs(os.path.join(d, "two"))
        os.chdir(os.path.join(d, "one"))
        db = TinyFlux("rel.csv")
        for i in range(3):
            db.insert(Point(time=datetime(2020, 1, 1, 0, 0, i, tzinfo=timezone.utc), tags={"k": str(i)}, fields={"a": i}))
        os.chdir(os.path.join(d, "two"))
        n = db.remove(TagQuery().k == "1")
        db.close()
        db2 = TinyFlux(os.path.join(d, "one", "rel.csv"))
        try:
            held = [p.tags["k"] for p in db2.all()]
        finally:
            db2.close()
        if held != ["0", "2"] or os.listdir(os.path.join(d, "two")):
            return (f"opened as 'rel.csv' in one/, after os.chdir('../two') remove() returned {n}; one/rel.csv still holds {held}, "
                    f"two/ now holds {os.listdir(os.path.join(d, 'two'))}")
    finally:
        os.chdir(cwd)
        shutil.rmtree(d, ignore_errors=True)


def F36():
    db = TinyFlux(storage=MemoryStorage)
    db.insert(Point(time=T0, tags={"a": "1", "b": "2"}, fields={"x": 1, "y": 2}))
    n = db.update_all(unset_tags=(k for k in ["a"]), unset_fields=iter(["x"]))
    p = db.all()[0]
    if n != 1 or p.tags != {"b": "2"} or p.fields != {"y": 2}:
        return f"update_all(unset_tags=<generator of 'a'>, unset_fields=iter(['x'])) returned {n} and left tags {p.tags}, fields {p.fields}"


def F37():
    import shutil
    d = tempfile.mkdtemp()
    try:
        db = TinyFlux(os.path.join(d, "db.csv"), auto_index=False)
        db.insert_multiple([Point(time=t(i), tags={"k": str(i)}, fields={"a": i}) for i in range(5)])
        seen = []
        for q in db:
            seen.append(q.tags["k"])
            len(db)                       # any storage-backed read inside the loop
        db.close()
        if seen != ["0", "1", "2", "3", "4"]:
            return f"`for p in db: len(db)` on a CSV database of 5 points (no index) yielded only {seen}: reads share the one file handle with a running iteration"
    finally:
        shutil.rmtree(d, ignore_errors=True)


def F38():
    a = datetime(3000, 1, 1, tzinfo=timezone.utc)
    b = a + timedelta(microseconds=1)
    db = TinyFlux(storage=MemoryStorage)
    db.insert_multiple([Point(time=a, tags={"k": "a"}), Point(time=b, tags={"k": "b"})])
    n = db.count(TimeQuery() == a)
    ts = db.get_timestamps()
    if n != 1 or ts != [a, b]:
        return (f"two points one microsecond apart in the year 3000: count(TimeQuery() == t) through the index is {n}, get_timestamps() gives "
                f"{[x.isoformat() for x in ts]} (the index keeps float seconds, which stop resolving microseconds around the year 2242)")


def F39():
    db = TinyFlux(storage=MemoryStorage)
    db.insert(Point(time=t(0), measurement="", tags={"k": "e"}))
    db.insert(Point(time=t(1), measurement="x", tags={"k2": "x"}))
    h = db.measurement("")
    seen = [p.measurement for p in h.all()]
    n = h.count(TagQuery().noop())
    if seen != [""] or n != 1:
        return (f"db.measurement('') is not restricted to the measurement named '': all() returns points of {seen}, count(noop) = {n}; remove / update "
                f"through it act on every measurement (every filter in database.py is written `if measurement:`)")


def F40():
    import operator
    later = datetime(2021, 1, 1, tzinfo=timezone.utc)
    out = {}
    for auto in (True, False):
        db = TinyFlux(storage=MemoryStorage, auto_index=auto)
        db.insert(Point(time=T0, fields={"a": 1}))
        for name, q in (("test(operator.lt, later)", TimeQuery().test(operator.lt, later)), ("== None", TimeQuery() == None), ("!= None", TimeQuery() != None)):  # noqa: E711
            try:
                out[(auto, name)] = db.count(q)
            except Exception as e:  # noqa
                out[(auto, name)] = type(e).__name__
    bad = {n: (out[(True, n)], out[(False, n)]) for (a, n) in out if a and out[(True, n)] != out[(False, n)]}
    if bad:
        return f"time tests answered differently by the index and by a storage scan (index, scan): {bad}"


def F41():
    import time as _time
    old = os.environ.get("TZ")
    os.environ["TZ"] = "America/Los_Angeles"
    _time.tzset()
    try:
        early = datetime(1, 1, 1, 2, tzinfo=timezone.utc)
        db = TinyFlux(storage=MemoryStorage)
        db.insert(Point(time=early, fields={"a": 1}))
        out = []
        try:
            if db.get_timestamps() != [early]:
                out.append("get_timestamps() is wrong")
        except Exception as e:  # noqa
            out.append(f"get_timestamps() raises {type(e).__name__}: {e}")
        try:
            if db.count(TimeQuery().test(lambda x: True)) != 1:
                out.append("count(TimeQuery().test(...)) is wrong")
        except Exception as e:  # noqa
            out.append(f"count(TimeQuery().test(...)) raises {type(e).__name__}")
        db.insert(Point(time=T0, fields={"a": 2}))
        if not db.index.valid:
            out.append("a later in-order insert invalidates the index")
        if out:
            return "process zone America/Los_Angeles, one point at 0001-01-01T02:00Z: " + "; ".join(out)
    finally:
        if old is None:
            os.environ.pop("TZ", None)
        else:
            os.environ["TZ"] = old
        _time.tzset()


def F42():
    from collections.abc import Mapping

    class M(Mapping):
        def __init__(self, d):
            self._d = dict(d)

        def __getitem__(self, k):
            return self._d[k]

        def __iter__(self):
            return iter(self._d)

        def __len__(self):
            return len(self._d)
    db = TinyFlux(storage=MemoryStorage)
    db.insert(Point(time=t(0), tags={"a": "b"}, fields={"x": 1}))
    db.insert(Point(time=t(1), tags=M({"a": "b"}), fields={"x": 2}))
    c = [0]

    def f(fields):
        c[0] += 1
        return {"x": 5} if c[0] == 1 else {"x": "bad"}
    raised = None
    try:
        db.update(TagQuery().a == "b", fields=f)
    except Exception as e:  # noqa
        raised = type(e).__name__
    held = [dict(p.fields) for p in db.all()]
    if raised != "ValueError" or held != [{"x": 1}, {"x": 2}]:
        return f"an update rejected at the second point (whose tag set is a Mapping that is no dict) raised {raised} and left the fields {held}"


def F43():
    # the access-mode gates under `python -O`: a child interpreter runs harness/c15_optimized.py against the same tree
    import json, shutil, subprocess, tempfile
    import tinyflux
    root = os.path.dirname(os.path.dirname(os.path.abspath(tinyflux.__file__)))
    here = os.path.dirname(os.path.dirname(os.path.abspath(__file__)))
    d = tempfile.mkdtemp(prefix="f43_")
    try:
        out = subprocess.run([sys.executable, "-O", os.path.join(here, "harness", "c15_optimized.py"), d], capture_output=True, text=True,
                             env={"PYTHONPATH": root, "PYTHONHASHSEED": "0", "PYTHONDONTWRITEBYTECODE": "1"}).stdout
        found = json.loads([l for l in out.splitlines() if l.startswith("[")][-1])
    finally:
        shutil.rmtree(d, ignore_errors=True)
    if found:
        x = found[0]
        return (f"under python -O, {x['operation']} on a database opened with access_mode={x['access_mode']!r} raised {x['raised']} and left the file "
                f"{'unchanged' if x['file_unchanged'] else 'CHANGED'} ({len(found)} such calls)")


def F44():
    from enum import Enum

    class Unit(str, Enum):
        ON = "on"
    d = tempfile.mkdtemp()
    path = os.path.join(d, "db.csv")
    db = TinyFlux(path)
    db.insert(Point(time=T0, measurement=Unit.ON, tags={Unit.ON: Unit.ON}, fields={Unit.ON: 1.0}))
    db.close()
    p = TinyFlux(path).all()[0]
    got = (p.measurement, dict(p.tags), dict(p.fields))
    if got != ("on", {"on": "on"}, {"on": 1.0}):
        return f"a point whose strings are members of a str-mixin enum (text 'on') reads back from CSV as {got}"


def F45():
    d = tempfile.mkdtemp()
    os.makedirs(os.path.join(d, "real", "sub"))
    os.makedirs(os.path.join(d, "work"))
    os.symlink(os.path.join(d, "real", "sub"), os.path.join(d, "work", "link"))
    path = os.path.join(d, "work", "link", "..", "db.csv")          # the kernel: d/real/db.csv; os.path.abspath: d/work/db.csv
    db = TinyFlux(path)
    db.insert(Point(time=T0, tags={"a": "1"}))
    db.insert(Point(time=T0, tags={"a": "2"}))
    db.remove(TagQuery().a == "1")
    db.close()
    got = [dict(p.tags) for p in TinyFlux(path).all()]
    if got != [{"a": "2"}] or os.path.exists(os.path.join(d, "work", "db.csv")):
        return f"opened as work/link/../db.csv (work/link -> real/sub), after remove(a == '1') the file opened holds {got}; work/db.csv exists: {os.path.exists(os.path.join(d, 'work', 'db.csv'))}"


def F46():
    """newline= other than '' / '\n' (a documented constructor argument, handed to open()): line breaks inside strings are translated"""
    out = []
    for nl in (None, "\r\n"):
        d = tempfile.mkdtemp()
        path = os.path.join(d, "db.csv")
        db = TinyFlux(path, newline=nl)
        db.insert(Point(time=T0, tags={"a": "x\ry\nz"}))
        db.close()
        got = TinyFlux(path, newline=nl).all()[0].tags["a"]
        if got != "x\ry\nz":
            out.append(f"newline={nl!r}: 'x\\ry\\nz' reads back as {got!r}")
    return "; ".join(out) or None


def F47():
    """test(func, *args): arguments that compare equal but are different values (1 / True / 1.0, 0.0 / -0.0) give EQUAL queries that a function can tell apart"""
    f = lambda v, a: type(a).__name__ == "int"
    q1, q2 = FieldQuery().x.test(f, 1), FieldQuery().x.test(f, 1.0)
    p = Point(time=T0, fields={"x": 1})
    if q1 == q2 and q1(p) != q2(p):
        return f"FieldQuery().x.test(f, 1) == FieldQuery().x.test(f, 1.0) and hash alike, but answer {q1(p)} and {q2(p)} on the same point (f looks at the type of its argument)"


ALL = [k for k in list(globals()) if re.fullmatch(r"F\d+[a-c]?", k)]

if __name__ == "__main__":
    names = sys.argv[1:] or ALL
    bad = 0
    for n in names:
        r = globals()[n]()
        print(f"{n}: {'ok' if r is None else 'DEFECT: ' + r}")
        bad += r is not None
    sys.exit(1 if bad else 0)
