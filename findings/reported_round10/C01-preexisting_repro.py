import os, tempfile
from datetime import datetime, timedelta, timezone
from tinyflux import TinyFlux, Point, TimeQuery, FieldQuery, TagQuery, MeasurementQuery
from tinyflux.storages import MemoryStorage

def run(name, f):
    try:
        print(name, '->', f())
    except Exception as e:
        print(name, 'RAISED', type(e).__name__, e)

# 1. far-future adjacent microseconds
def t1():
    out = {}
    t = datetime(5000, 1, 1, 0, 0, 0, 1, tzinfo=timezone.utc)
    for ai in (True, False):
        db = TinyFlux(storage=MemoryStorage, auto_index=ai)
        db.insert(Point(time=t, fields={'a': 1}))
        db.insert(Point(time=t + timedelta(microseconds=1), fields={'a': 2}))
        out[ai] = (db.count(TimeQuery() == t), db.count(TimeQuery() > t), db.count(TimeQuery() < t + timedelta(microseconds=1)))
    return out
run('far-future', t1)

def t1b():
    out = {}
    t = datetime(2300, 1, 1, 0, 0, 0, 1, tzinfo=timezone.utc)
    for ai in (True, False):
        db = TinyFlux(storage=MemoryStorage, auto_index=ai)
        db.insert(Point(time=t, fields={'a': 1}))
        db.insert(Point(time=t + timedelta(microseconds=1), fields={'a': 2}))
        out[ai] = (db.count(TimeQuery() == t), db.count(TimeQuery() > t), db.count(TimeQuery() < t + timedelta(microseconds=1)))
    return out
run('year-2300', t1b)

# 2. big int
def t2():
    out = {}
    d = tempfile.mkdtemp()
    t = datetime(2020,1,1,tzinfo=timezone.utc)
    big = 2**53 + 1
    for ai in (True, False):
        db = TinyFlux(os.path.join(d, f'a{ai}.csv'), auto_index=ai)
        db.insert(Point(time=t, fields={'a': big}))
        out['csv', ai] = (db.count(FieldQuery().a == big), db.search(FieldQuery().a.exists())[0].fields)
        dbm = TinyFlux(storage=MemoryStorage, auto_index=ai)
        dbm.insert(Point(time=t, fields={'a': big}))
        out['mem', ai] = (dbm.count(FieldQuery().a == big), dbm.search(FieldQuery().a.exists())[0].fields)
    return out
run('bigint', t2)

# 3. tag "_none"
def t3():
    out = {}
    d = tempfile.mkdtemp()
    t = datetime(2020,1,1,tzinfo=timezone.utc)
    for ai in (True, False):
        db = TinyFlux(os.path.join(d, f'b{ai}.csv'), auto_index=ai)
        db.insert(Point(time=t, tags={'a': '_none'}))
        out['csv', ai] = (db.count(TagQuery().a == '_none'), db.search(TagQuery().a.exists())[0].tags)
    return out
run('tag _none', t3)

# 4. measurement ''
def t4():
    out = {}
    d = tempfile.mkdtemp()
    t = datetime(2020,1,1,tzinfo=timezone.utc)
    for ai in (True, False):
        db = TinyFlux(os.path.join(d, f'c{ai}.csv'), auto_index=ai)
        db.insert(Point(time=t, measurement='', tags={'a': 'x'}))
        out['csv', ai] = (db.count(MeasurementQuery() == ''), db.search(TagQuery().a.exists())[0].measurement)
    return out
run("measurement ''", t4)

# 5. long tag
def t5():
    d = tempfile.mkdtemp()
    t = datetime(2020,1,1,tzinfo=timezone.utc)
    db = TinyFlux(os.path.join(d, 'd.csv'))
    db.insert(Point(time=t, tags={'a': 'x'*140000}))
    db.insert(Point(time=t - timedelta(days=1), tags={'a': 'y'}))
    return db.count(TagQuery().a.exists())
run('long tag', t5)

# 6. non-bool test in compound
def t6():
    out = {}
    t = datetime(2020,1,1,tzinfo=timezone.utc)
    for ai in (True, False):
        db = TinyFlux(storage=MemoryStorage, auto_index=ai)
        db.insert(Point(time=t, fields={'a': 2}, tags={'b': 'x'}))
        q = FieldQuery().a.test(lambda v: v) & (TagQuery().b == 'x')
        out[ai] = db.count(q)
    return out
run('nonbool test', t6)
