"""Reproducers for C03 violations of the UNCHANGED library (see preexisting.md)."""
from datetime import datetime, timedelta, timezone

from tinyflux import Point, TimeQuery, TinyFlux
from tinyflux.storages import MemoryStorage

U = timezone.utc
bad = 0

# P1: far-future instants 1 microsecond apart collide in the index's float
# timestamps, so an index-assisted update also rewrites a point that does not
# match the query (and counts it). The scan path (auto_index=False) is right.
t1 = datetime(2300, 1, 1, 0, 0, 0, 1, tzinfo=U)
t2 = t1 + timedelta(microseconds=1)
for ai in (True, False):
    db = TinyFlux(storage=MemoryStorage, auto_index=ai)
    db.insert(Point(time=datetime(2000, 1, 1, tzinfo=U), tags={"n": "0"}))
    db.insert(Point(time=t1, tags={"n": "1"}))
    db.insert(Point(time=t2, tags={"n": "2"}))
    n = db.update(TimeQuery() == t1, tags={"hit": "y"})
    tags = [p.tags for p in db.all(sorted=False)]
    print(f"P1 auto_index={ai}: count={n} tags={tags}")
    if n != 1 or "hit" in tags[2]:
        bad += 1

# P2: a static measurement "" is silently ignored (falsy), a callable
# returning "" is applied: static values and callables do not behave alike.
t = datetime(2024, 1, 1, tzinfo=U)
res = []
for m in ("", lambda _old: ""):
    db = TinyFlux(storage=MemoryStorage)
    db.insert(Point(time=t, measurement="m", tags={"n": "1"}))
    n = db.update_all(measurement=m, tags={"z": "1"})
    res.append((n, db.all()[0].measurement))
print("P2 static '' ->", res[0], " callable '' ->", res[1])
if res[0] != res[1]:
    bad += 1

# P3: unset_tags="" (the key "" given as a single string) is ignored, while
# unset_tags=[""] removes the key "".
res = []
for u in ("", [""]):
    db = TinyFlux(storage=MemoryStorage)
    db.insert(Point(time=t, tags={"": "1", "a": "b"}))
    n = db.update_all(unset_tags=u, tags={"q": "1"})
    res.append((n, db.all()[0].tags))
print("P3 unset_tags='' ->", res[0], " unset_tags=[''] ->", res[1])
if res[0] != res[1]:
    bad += 1

# P4: the Measurement handle for the measurement "" is not scoped at all:
# its update_all()/update() rewrite the points of every measurement.
for ai in (True, False):
    db = TinyFlux(storage=MemoryStorage, auto_index=ai)
    db.insert(Point(time=t, measurement="", tags={"n": "1"}))
    db.insert(Point(time=t + timedelta(seconds=1), measurement="other", tags={"n": "2"}))
    n = db.measurement("").update_all(tags={"z": "1"})
    rows = [(p.measurement, p.tags) for p in db.all(sorted=False)]
    print(f"P4 auto_index={ai}: count={n} rows={rows}")
    if n != 1 or "z" in rows[1][1]:
        bad += 1

print("violations:", bad)
raise SystemExit(1 if bad else 0)
