"""Unchanged library: a valid, incrementally maintained index differs from a rebuild."""
import os, sys, tempfile
from datetime import datetime, timezone
from tinyflux import FieldQuery, MeasurementQuery, Point, TagQuery, TinyFlux

t0 = datetime(2020, 1, 1, tzinfo=timezone.utc)
tmp = tempfile.mkdtemp()
cases = {
    "tag value '_none'": (Point(time=t0, tags={"a": "_none"}),
                          lambda db: (db.get_tag_values(), db.count(TagQuery().a == "_none"))),
    "measurement ''": (Point(time=t0, measurement=""),
                       lambda db: (db.get_measurements(), db.count(MeasurementQuery() == ""))),
    "int field 2**53+1": (Point(time=t0, fields={"x": 2**53 + 1}),
                          lambda db: (db.get_field_values("x"), db.count(FieldQuery().x == 2**53 + 1))),
}
bad = 0
for n, (name, (point, probe)) in enumerate(cases.items()):
    path = os.path.join(tmp, f"{n}.csv")
    db = TinyFlux(path); db.insert(point)
    live = (db.index.valid, probe(db)); db.close()
    fresh = TinyFlux(path); rebuilt = (fresh.index.valid, probe(fresh)); fresh.close()
    if live != rebuilt:
        bad += 1
        print(f"{name}: valid maintained index {live} != rebuilt {rebuilt}")
sys.exit(1 if bad else 0)
