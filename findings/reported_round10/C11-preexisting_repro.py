"""Reproducers for C11 violations of the UNCHANGED library (see preexisting.md).

Prints one line per finding; exits 1 if any finding reproduces.
"""
import copy
import os
import sys
import tempfile
from datetime import datetime, timedelta, timezone

from tinyflux import Point, TagQuery, TinyFlux
from tinyflux.storages import MemoryStorage

t0 = datetime(2024, 5, 1, tzinfo=timezone.utc)
found = 0

# P1: CSVStorage, update() writes a tag value longer than csv.field_size_limit()
# (131072): the rewrite is swapped in, THEN the index rebuild raises.
d = tempfile.mkdtemp()
db = TinyFlux(os.path.join(d, "db.csv"))
db.insert(Point(time=t0, tags={"a": "b"}, fields={"x": 1}))
db.insert(Point(time=t0 + timedelta(minutes=1), tags={"a": "c"}, fields={"x": 2}))
before = db.all(sorted=False)
try:
    db.update(TagQuery().a == "c", tags={"a": "z" * 140000})
    print("P1: update did not raise")
except Exception as exc:
    try:
        same = db.all(sorted=False) == before
        print(f"P1: update raised {exc!r}; contents unchanged: {same}")
        found += not same
    except Exception as exc2:
        print(f"P1: update raised {exc!r}; afterwards db.all() raises {exc2!r}")
        found += 1

# P2: MemoryStorage, the update callable raises a BaseException that is not an
# Exception (KeyboardInterrupt: Ctrl-C during a long update): no rollback.
db = TinyFlux(storage=MemoryStorage)
for i in range(3):
    db.insert(Point(time=t0 + timedelta(hours=i), tags={"a": "b"}, fields={"x": i}))
before = copy.deepcopy(db.all(sorted=False))
calls = [0]


def f(tags):
    calls[0] += 1
    if calls[0] == 3:
        raise KeyboardInterrupt
    return {"k": "v"}


try:
    db.update_all(tags=f)
except BaseException as exc:
    after = db.all(sorted=False)
    scan = sum(1 for p in after if p.tags.get("k") == "v")
    idx = db.count(TagQuery().k == "v")
    print(
        f"P2: update_all raised {exc!r}; contents unchanged: {after == before}; "
        f"index valid={db.index.valid}, count(k=='v') index={idx} scan={scan}"
    )
    found += after != before

sys.exit(1 if found else 0)
