"""Reproducers on the UNCHANGED library (exit 1 = violations seen)."""
import os, sys, tempfile
from datetime import datetime, timezone
from tinyflux import TinyFlux, Point

UTC = timezone.utc
bad = 0
d = tempfile.mkdtemp()

def pair(name):
    return (TinyFlux(os.path.join(d, name + "_i.csv")),
            TinyFlux(os.path.join(d, name + "_s.csv"), auto_index=False))

# 1. far-future times: the index keeps float POSIX timestamps, whose
#    resolution beyond ~year 2242 is coarser than a microsecond.
for t in (datetime(2500, 1, 1, 0, 0, 0, 333333, tzinfo=UTC),
          datetime(3000, 1, 1, 0, 0, 0, 1, tzinfo=UTC)):
    a, b = pair("t%d" % t.year)
    for db in (a, b):
        db.insert(Point(time=t, measurement="m", fields={"x": 1}))
    ga, gb = a.get_timestamps(), b.get_timestamps()
    if not (ga == gb == [t]):
        bad += 1
        print("far-future time", t.isoformat(), "index:", ga[0].isoformat(),
              "scan:", gb[0].isoformat())

# 2. integer field values above 2**53: index keeps the int, the CSV keeps a float.
a, b = pair("big")
v = 2**53 + 1
for db in (a, b):
    db.insert(Point(time=datetime(2020, 1, 1, tzinfo=UTC), measurement="m", fields={"x": v}))
ga, gb = a.get_field_values("x"), b.get_field_values("x")
if not (ga == gb == [v]):
    bad += 1
    print("big int field", v, "index:", ga, "scan:", gb)

# 3. the tag value "_none" and the measurement "".
a, b = pair("none")
for db in (a, b):
    db.insert(Point(time=datetime(2020, 1, 1, tzinfo=UTC), measurement="", tags={"k": "_none"}, fields={"x": 1}))
ga, gb = a.get_tag_values(), b.get_tag_values()
if not (ga == gb == {"k": ["_none"]}):
    bad += 1
    print("tag value '_none'", "index:", ga, "scan:", gb)
ga, gb = a.get_measurements(), b.get_measurements()
if not (ga == gb == [""]):
    bad += 1
    print("measurement ''", "index:", ga, "scan:", gb)

sys.exit(1 if bad else 0)
