"""Reproducers for behaviour of the UNCHANGED library that deviates from C08."""
import time as _time
from datetime import datetime, timedelta, timezone

from tinyflux import FieldQuery, Point, TimeQuery, TinyFlux
from tinyflux.storages import MemoryStorage

UTC = timezone.utc

# 1. Naive comparison value: the index reads it as local time, the storage
#    scan (auto_index=False, or any query the index cannot answer exactly)
#    compares aware with naive -> TypeError swallowed -> False.
t0 = datetime(2020, 1, 1, 12, 0, 0, tzinfo=UTC)
naive_later = (t0 + timedelta(days=1)).astimezone().replace(tzinfo=None)
for auto_index in (True, False):
    db = TinyFlux(storage=MemoryStorage, auto_index=auto_index)
    db.insert(Point(time=t0, fields={"a": 1}))
    print(
        f"1. auto_index={auto_index}: count(time < naive a day later) =",
        db.count(TimeQuery() < naive_later),
        "| with a map() in another operand:",
        db.count(
            (TimeQuery() < naive_later) & (FieldQuery().a.map(lambda v: v) == 1)
        ),
    )

# 2. A Point built with keyword arguments but no time is stamped when the
#    Point is constructed, not when it is inserted.
db = TinyFlux(storage=MemoryStorage)
p = Point(fields={"a": 1})
_time.sleep(0.2)
before = datetime.now(UTC)
db.insert(p)
print("2. time of a timeless Point(fields=...) is", (before - db.all()[0].time),
      "BEFORE the insert call started (Point() with no kwargs is stamped at insert)")

# 3. MemoryStorage stores the caller's Point object: re-using one Point object
#    for several inserts rewrites the instants stored earlier.
db = TinyFlux(storage=MemoryStorage)
p = Point(measurement="m")
for i in range(3):
    p.time = t0 + timedelta(seconds=i)
    p.fields = {"i": i}
    db.insert(p)
print("3. stored instants after inserting t0, t0+1s, t0+2s through one Point object:",
      [x.time.isoformat() for x in db.all()],
      "| get_timestamps():", [x.isoformat() for x in db.get_timestamps()])
