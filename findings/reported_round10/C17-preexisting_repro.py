"""Reproducers on the UNCHANGED library (see preexisting.md)."""
import math
from tinyflux import FieldQuery, TagQuery, MeasurementQuery, Point

p = Point(measurement="m", tags={"a": "x"}, fields={"v": 2.5, "n": 7})

# P1: test() arguments that compare equal but are distinguishable values.
def same_sign(v, ref):
    return math.copysign(1.0, v) == math.copysign(1.0, ref)

q1 = FieldQuery().v.test(same_sign, 0.0)
q2 = FieldQuery().v.test(same_sign, -0.0)
print("P1a", q1 == q2, hash(q1) == hash(q2), q1(p), q2(p))

def rounded_is(v, ndigits):
    return round(v, ndigits) == 2.5

q3 = FieldQuery().v.test(rounded_is, 1)
q4 = FieldQuery().v.test(rounded_is, 1.0)
print("P1b", q3 == q4, hash(q3) == hash(q4), q3(p), end=" ")
try:
    print(q4(p))
except Exception as e:
    print("raises", type(e).__name__)

def every(v, k):
    return v % k == 0 if type(k) is int else False

q5 = FieldQuery().n.test(every, 1)
q6 = FieldQuery().n.test(every, True)
print("P1c", q5 == q6, hash(q5) == hash(q6), q5(p), q6(p))

# P2: unhashable test() arguments: equal queries whose hash raises.
def one_of(v, allowed):
    return v in allowed

q7 = FieldQuery().n.test(one_of, [7, 8])
q8 = FieldQuery().n.test(one_of, [7, 8])
print("P2 eq", q7 == q8, "is_hashable", q7.is_hashable(), end=" ")
try:
    print(hash(q7) == hash(q8))
except Exception as e:
    print("hash raises", type(e).__name__, e)
try:
    q7 & (MeasurementQuery() == "m")
except Exception as e:
    print("P2 & raises", type(e).__name__, e)

# P3: a noop() taken after map() is hashable and equal-combinable.
m = FieldQuery().v.map(lambda x: x * 2).noop()
c = MeasurementQuery() == "m"
print("P3", m.is_hashable(), (m & c) == (TagQuery().noop() & c),
      hash(m & c) == hash(TagQuery().noop() & c))
