"""Reproducers for two C11 violations of the UNCHANGED library (CSVStorage).

Exits 1 if either is observed (it is, on the pinned commit), 0 otherwise.
"""
import os
import sys
import tempfile
from datetime import datetime, timezone

from tinyflux import Point, TagQuery, TinyFlux

T0 = datetime(2020, 1, 1, tzinfo=timezone.utc)
found = []


def fresh(path):
    db = TinyFlux(path)
    db.insert(Point(time=T0, tags={"a": "x"}, fields={"v": 1}))
    db.insert(Point(time=T0.replace(day=2), tags={"a": "y"}, fields={"v": 2}))
    return db


d = tempfile.mkdtemp()

# 1. A tag value longer than csv.field_size_limit() (131072 characters).
db = fresh(os.path.join(d, "a.csv"))
before = db.all(sorted=False)
try:
    db.update(TagQuery().a == "y", tags=lambda t: {"a": "z" * 140000})
    print("1: update returned normally")
except Exception as e:
    print("1: update raised", type(e).__name__, e)
    try:
        same = db.all(sorted=False) == before
        print("1: contents unchanged:", same)
        if not same:
            found.append("1: contents changed by a raising update")
    except Exception as e2:
        print("1: db.all() now raises", type(e2).__name__, e2)
        found.append("1: database unreadable after a raising update")

# 2. Something (here a directory) already sits at '<db>.swap'.
path = os.path.join(d, "b.csv")
db = fresh(path)
before = db.all(sorted=False)
os.mkdir(path + ".swap")
try:
    db.update(TagQuery().a == "y", tags={"a": "q"})
    print("2: update returned normally")
except Exception as e:
    print("2: update raised", type(e).__name__, e)
    try:
        print("2: contents unchanged:", db.all(sorted=False) == before)
    except Exception as e2:
        print("2: db.all() now raises", type(e2).__name__, e2)
        found.append("2: database unusable after a raising update")

sys.exit(1 if found else 0)
