"""Unchanged library: a naive TimeQuery comparison value is answered two ways."""
import os, sys, time
os.environ["TZ"] = "America/Los_Angeles"; time.tzset()
from datetime import datetime, timedelta, timezone
from tinyflux import Point, TimeQuery, TinyFlux
from tinyflux.storages import MemoryStorage

db = TinyFlux(storage=MemoryStorage)
base = datetime(2020, 1, 1, 12, tzinfo=timezone.utc)
for i in range(3):
    db.insert(Point(time=base + timedelta(hours=i), tags={"i": str(i)}))

some = TimeQuery() >= datetime(2020, 1, 1, 5, 0)   # naive = 13:00Z in Los Angeles
every = TimeQuery() >= datetime(2020, 1, 1, 1, 0)  # naive = 09:00Z, before all points
r = (len(db.search(some)), db.count(some), len(db.search(every)), db.count(every),
     db.get(every) is not None, db.contains(every))
print("search/count (some), search/count/get/contains (every):", r)
# count says 3 match, search returns none of them.
sys.exit(1 if r[2] != r[3] else 0)
