"""Unchanged library: index path and query(point) disagree for a truthy non-bool test result."""
import sys
from datetime import datetime, timedelta, timezone
from tinyflux import TinyFlux, Point, TagQuery
from tinyflux.storages import MemoryStorage

T0 = datetime(2024, 5, 1, tzinfo=timezone.utc)
q = TagQuery().name.test(lambda v: v.count("a")) & (TagQuery().kind == "k")
out = []
for auto_index in (True, False):
    db = TinyFlux(storage=MemoryStorage, auto_index=auto_index)
    for n, name in enumerate(["salad", "apple", "cherry"]):   # counts 2, 1, 0 (2 & True == 0)
        db.insert(Point(time=T0 + timedelta(minutes=n), tags={"name": name, "kind": "k"}))
    selected = [p.tags["name"] for p in db.all() if q(p)]
    removed = db.remove(q)
    left = [p.tags["name"] for p in db.all()]
    print(f"auto_index={auto_index}: query(point) truthy for {selected}; remove() -> {removed}; left {left}")
    out.append((removed, left))
sys.exit(0 if out[0] == out[1] else 1)
