"""Reproducer for C05 violations of the UNCHANGED library (prints one line per case)."""
import copy, os, tempfile
from datetime import datetime, timezone
from tinyflux import Point, TinyFlux

T = datetime(2020, 1, 1, tzinfo=timezone.utc)


def rt(p, **storage_args):
    want = copy.deepcopy(p)
    with tempfile.TemporaryDirectory() as d:
        path = os.path.join(d, "a.csv")
        try:
            db = TinyFlux(path, **storage_args)
            db.insert(p)
            db.close()
        except Exception as e:
            return "insert raised %r" % (e,)
        try:
            db = TinyFlux(path, **storage_args)
            got = db.all()
            db.close()
        except Exception as e:
            return "reopen/read raised %.90r" % (e,)
    return "ok" if got == [want] else "DIFFERENT: %.120r" % (got,)


print("1 tag value of 131073 chars      :", rt(Point(time=T, tags={"a": "x" * 131073})))
print("2 lone CR, lineterminator='\\n'   :", rt(Point(time=T, tags={"a": "x\ry"}), lineterminator="\n"))
print("2 trailing CR, lineterminator='\\n':", rt(Point(time=T, tags={"a": "x\r"}), lineterminator="\n"))
print("3 lone CR, newline=None          :", rt(Point(time=T, tags={"a": "x\ry"}), newline=None))
print("3 LF, newline='\\r\\n'             :", rt(Point(time=T, tags={"a": "x\ny"}), newline="\r\n"))
print("4 int field 2**53+1              :", rt(Point(time=T, fields={"a": 2**53 + 1})))
print("4 int field 10**400              :", rt(Point(time=T, fields={"a": 10**400})))
print("5 measurement ''                 :", rt(Point(time=T, measurement="", fields={"a": 1})))
print("6 tag value '_none'              :", rt(Point(time=T, tags={"a": "_none"})))
