"""Reproducers for behaviour of the UNCHANGED library that touches C15.

Run:  PYTHONPATH=<worktree> python preexisting_repro.py        (cases B, C, D)
      PYTHONPATH=<worktree> python -O preexisting_repro.py     (case A as well)
Prints one line per case; exits 0 always (it is a report, not a check).
"""

import os
import tempfile
from datetime import datetime, timezone

from tinyflux import FieldQuery, Point, TagQuery, TimeQuery, TinyFlux

root = tempfile.mkdtemp(prefix="c15pre-")
T = datetime(2024, 1, 1, tzinfo=timezone.utc)


def fresh(name, **kw):
    path = os.path.join(root, name)
    return path, TinyFlux(path, **kw)


def rd(path):
    return open(path, "rb").read()


# A. `python -O`: the access gates are `assert` statements.
path, db = fresh("a.csv")
db.insert(Point(time=T, tags={"k": "a"}))
db.insert(Point(time=T.replace(year=2025), tags={"k": "b"}))
db.close()
before = rd(path)
ro = TinyFlux(path, access_mode="r")
try:
    rst = ro.remove(TagQuery().k == "a")
    outcome = f"returned {rst}"
except OSError as e:
    outcome = f"raised {type(e).__name__}"
print(
    f"A (__debug__={__debug__}): remove() on access_mode='r' {outcome}; "
    f"file unchanged: {rd(path) == before}"
)
ro.close()

# B. the index keys time on float seconds: from 2242-03-16 on (2**33 s),
#    instants one microsecond apart collide.
path, db = fresh("b.csv")
base = datetime(2300, 1, 1, tzinfo=timezone.utc)
stored = probe = None
for us in range(0, 20):
    a, b = base.replace(microsecond=us), base.replace(microsecond=us + 1)
    if a.timestamp() == b.timestamp():
        stored, probe = a, b
        break
db.insert(Point(time=stored, tags={"k": "a"}))
db.insert(Point(time=T, tags={"k": "b"}))
q = TimeQuery() == probe
before = rd(path)
scan = [p for p in db if q(p)]
rst = db.remove(q)
print(
    f"B: probe {probe.isoformat()} != stored {stored.isoformat()}; query "
    f"matches {len(scan)} stored points when evaluated on them; remove() "
    f"returned {rst}; file unchanged: {rd(path) == before}"
)
db.close()

# C. flush_on_insert=False: a read op moves pending rows to the disk.
path, db = fresh("c.csv", flush_on_insert=False)
db.insert(Point(time=T, tags={"k": "a"}))
before = rd(path)
db.all()
print(
    f"C: flush_on_insert=False: bytes on disk before all(): {len(before)}, "
    f"after all(): {len(rd(path))}"
)
db.close()

# D. compact rows and updates that store what was stored already.
for label, point, kwargs in [
    ("tag None -> '_none'", Point(time=T, tags={"k": None}),
     dict(tags={"k": "_none"})),
    ("field nan -> nan", Point(time=T, tags={"k": "a"}, fields={"v": float("nan")}),
     dict(fields={"v": float("nan")})),
    ("field 2**53 -> 2**53+1", Point(time=T, tags={"k": "a"}, fields={"v": 2**53}),
     dict(fields={"v": 2**53 + 1})),
]:
    path, db = fresh("d.csv")
    db.remove_all()
    db.insert(point, compact_key_prefixes=True)
    db.insert(Point(time=T.replace(year=2025), tags={"z": "z"}), compact_key_prefixes=True)
    before, pts = rd(path), repr(db.all())
    rst = db.update(TagQuery().k.exists(), **kwargs)
    print(
        f"D ({label}): update() returned {rst}; points read back equal: "
        f"{repr(db.all()) == pts}; file unchanged: {rd(path) == before}"
    )
    db.close()
