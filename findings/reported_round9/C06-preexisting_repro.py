"""Reproducers for C06 violations of the UNCHANGED library (see preexisting.md).

Each case inserts points in non-decreasing time order with auto_index on (CSV
storage), then compares the live (valid) index with a fresh TinyFlux opened on
the same file. Prints one line per case; exits 1 if any case deviates.
"""
import os, sys, tempfile
from datetime import datetime, timezone
from tinyflux import TinyFlux, Point, FieldQuery, TagQuery

U = timezone.utc
T = datetime(2020, 1, 1, tzinfo=U)
bad = 0


def case(name, points, read):
    global bad
    path = os.path.join(tempfile.mkdtemp(), "db.csv")
    db = TinyFlux(path)
    valid = []
    for p in points:
        db.insert(p)
        valid.append(db.index.valid)
    try:
        live = read(db)
    except Exception as e:  # noqa
        live = repr(e)
    try:
        ref = TinyFlux(path)
        rebuilt = read(ref)
    except Exception as e:  # noqa
        rebuilt = repr(e)
    ok = all(valid) and live == rebuilt
    bad += not ok
    print(f"{'ok ' if ok else 'BAD'} {name}: valid-after-each-insert={valid} "
          f"live={live!r} rebuilt={rebuilt!r}")


case("int field beyond 2**53",
     [Point(time=T, fields={"a": 2**53 + 1})],
     lambda d: d.count(FieldQuery().a == 2**53 + 1))
case('tag value "_none"',
     [Point(time=T, tags={"k": "_none"})],
     lambda d: d.count(TagQuery().k == "_none"))
case('measurement ""',
     [Point(time=T, measurement="")],
     lambda d: d.get_measurements())
case("type-sensitive test() on an int field",
     [Point(time=T, fields={"a": 3})],
     lambda d: d.count(FieldQuery().a.test(lambda v: isinstance(v, int))))
t3000 = datetime(3000, 1, 1, 0, 0, 0, 2, tzinfo=U)
case("tie in the year 3000 (in-order insert invalidates)",
     [Point(time=t3000, fields={"a": 1}), Point(time=t3000, fields={"a": 2})],
     lambda d: d.count(FieldQuery().a >= 1))
case("year 1 then a later time (in-order insert invalidates)",
     [Point(time=datetime(1, 1, 1, tzinfo=U), fields={"a": 1}),
      Point(time=datetime(1, 1, 2, tzinfo=U), fields={"a": 2})],
     lambda d: d.count(FieldQuery().a >= 1))
case("tag value longer than csv.field_size_limit()",
     [Point(time=T, tags={"k": "x" * 200000})],
     lambda d: d.count(TagQuery().k.exists()))
sys.exit(1 if bad else 0)
