"""Reproducers for behaviour of the UNCHANGED library that contradicts C03."""
import enum, os, tempfile
from datetime import datetime, timedelta, timezone
from tinyflux import Point, TagQuery, TimeQuery, TinyFlux
from tinyflux.storages import MemoryStorage

# P1: index keeps float timestamps; beyond ~year 2255 neighbouring microseconds
# collide, so an index-assisted update(TimeQuery() == t) also changes t + 1us.
db = TinyFlux(storage=MemoryStorage)
t = datetime(3000, 1, 1, tzinfo=timezone.utc)
db.insert(Point(time=datetime(2000, 1, 1, tzinfo=timezone.utc), tags={"n": "z"}))
db.insert(Point(time=t, tags={"n": "a"}))
db.insert(Point(time=t + timedelta(microseconds=1), tags={"n": "b"}))
n = db.update(TimeQuery() == t, tags={"hit": "1"})
print("P1 count", n, [p.tags for p in db.all(sorted=False)])

# P2: a handle for the measurement named "" is not scoped at all.
db = TinyFlux(storage=MemoryStorage)
db.insert(Point(time=t, measurement="a", tags={"n": "a"}))
db.insert(Point(time=t, measurement="b", tags={"n": "b"}))
n = db.measurement("").update_all(tags={"hit": "1"})
print("P2 count", n, [(p.measurement, p.tags) for p in db.all(sorted=False)])

# P3: the (valid) tag/field key "" cannot be unset with the string form.
db = TinyFlux(storage=MemoryStorage)
db.insert(Point(time=t, tags={"": "x", "k": "v"}))
n = db.update_all(tags={"k": "w"}, unset_tags="")
print("P3 count", n, db.all(sorted=False)[0].tags)

# P4: a tag value that is a str instance with its own __str__ (str-mixin Enum)
# is written as str(value) by CSVStorage: update stores 'Color.RED', not 'red'.
class Color(str, enum.Enum):
    RED = "red"
with tempfile.TemporaryDirectory() as d:
    db = TinyFlux(os.path.join(d, "db.csv"))
    db.insert(Point(time=t, tags={"k": "v"}))
    n = db.update_all(tags={"color": Color.RED})
    print("P4 count", n, db.all(sorted=False)[0].tags, "== 'red'?", db.all()[0].tags["color"] == "red")
    db.close()
