"""Reproducers for C07 violations of the UNCHANGED library (see preexisting.md)."""
import os
import tempfile
from datetime import datetime, timedelta, timezone

from tinyflux import Point, TinyFlux
from tinyflux.storages import MemoryStorage

U = timezone.utc
T = datetime(2020, 1, 1, tzinfo=U)
d = tempfile.mkdtemp()

print("P1 csv.field_size_limit")
db = TinyFlux(os.path.join(d, "p1.csv"))
db.insert(Point(time=T, tags={"k": "x" * 200000}))
print("  len(db) via index:", len(db), "| tag value length via index:",
      [len(v) for v in db.get_tag_values()["k"]])
try:
    db.all()
except Exception as e:
    print("  db.all():", type(e).__name__, e)
try:
    TinyFlux(os.path.join(d, "p1.csv"))
except Exception as e:
    print("  reopen:", type(e).__name__, e)

print("P2 index timestamps are floats")
t = datetime(9000, 1, 1, 0, 0, 0, 123457, tzinfo=U)
for ai in (True, False):
    db = TinyFlux(storage=MemoryStorage, auto_index=ai)
    db.insert(Point(time=t))
    print("  auto_index=%s get_timestamps() == [t]: %s  %s"
          % (ai, db.get_timestamps() == [t], db.get_timestamps()[0].isoformat()))

print("P3 nested iteration over a CSV database")
for kind in ("memory", "csv"):
    db = (TinyFlux(storage=MemoryStorage) if kind == "memory"
          else TinyFlux(os.path.join(d, "p3.csv")))
    for i in range(4):
        db.insert(Point(time=T + timedelta(days=i), fields={"v": i}))
    print("  %s: pairs from nested loops: %d (16 expected); zip(db, measurement): %s"
          % (kind, len([(a, b) for a in db for b in db]),
             [(a.fields["v"], b.fields["v"]) for a, b in zip(db, db.measurement("_default"))]))

print("P4 measurement named ''")
db = TinyFlux(storage=MemoryStorage)
db.insert(Point(time=T, measurement="", tags={"a": "1"}, fields={"x": 1}))
db.insert(Point(time=T + timedelta(1), measurement="other", tags={"b": "2"}, fields={"y": 2}))
m = db.measurement("")
print("  len(m) =", len(m), "| m.get_tag_keys() =", m.get_tag_keys(),
      "| m.get_field_keys() =", m.get_field_keys(),
      "| len(m.get_timestamps()) =", len(m.get_timestamps()))

print("P5 int field beyond 2**53 on CSV: index vs scan")
p = os.path.join(d, "p5.csv")
db = TinyFlux(p)
db.insert(Point(time=T, fields={"big": 2 ** 63 + 1}))
db2 = TinyFlux(p, auto_index=False)
print("  index:", db.get_field_values("big"), "scan:", db2.get_field_values("big"),
      "equal:", db.get_field_values("big") == db2.get_field_values("big"))
