"""Reproducers for C05 violations of the UNCHANGED pinned library (exit 1 if any reproduces)."""
import os, sys, tempfile
from datetime import datetime, timezone
from tinyflux import Point, TinyFlux

T = datetime(2020, 1, 1, tzinfo=timezone.utc)

def round_trip(p, **storage_kwargs):
    with tempfile.TemporaryDirectory() as d:
        path = os.path.join(d, "db.csv")
        want = Point(time=p.time, measurement=p.measurement, tags=dict(p.tags), fields=dict(p.fields))
        db = TinyFlux(path, **storage_kwargs); db.insert(p); db.close()
        try:
            db = TinyFlux(path, **storage_kwargs)
            got = db.all(); db.close()
        except Exception as e:
            return want, "raised %r" % (e,)
        return want, got

cases = [
    ("1. lineterminator='\\n' + bare CR in a tag value (Python < 3.13: CR is not quoted, row is split)",
     Point(time=T, tags={"a": "x\ry"}, fields={"f": 1.5}), {"lineterminator": "\n"}),
    ("2. string longer than csv.field_size_limit() == 131072 characters",
     Point(time=T, tags={"a": "x" * 140000}), {}),
    ("3. empty measurement comes back as '_none'",
     Point(time=T, measurement="", fields={"f": 1.0}), {}),
    ("4. tag value '_none' comes back as None",
     Point(time=T, tags={"a": "_none"}), {}),
    ("5. int field beyond 2**53 is rounded through float",
     Point(time=T, fields={"n": 2**53 + 1}), {}),
]
bad = 0
for label, p, kw in cases:
    want, got = round_trip(p, **kw)
    ok = got == [want]
    bad += not ok
    print(("ok      " if ok else "VIOLATED"), label, "" if ok else "-> " + str(got)[:120])
sys.exit(1 if bad else 0)
