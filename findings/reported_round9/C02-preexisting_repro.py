"""Reproducers for two C02 violations of the UNCHANGED library."""
import sys
from datetime import datetime, timedelta, timezone

from tinyflux import Point, TagQuery, TimeQuery, TinyFlux
from tinyflux.storages import MemoryStorage

bad = []

# P1: far-future times one microsecond apart share a float timestamp in the
# index, so an index-answered TimeQuery == t removes the neighbour too.
for auto_index in (True, False):
    db = TinyFlux(storage=MemoryStorage, auto_index=auto_index)
    t0 = datetime(2500, 1, 1, 0, 0, 0, 1, tzinfo=timezone.utc)
    for k in range(4):
        db.insert(Point(time=t0 + timedelta(microseconds=k), tags={"k": str(k)}))
    t = t0 + timedelta(microseconds=1)
    n = db.remove(TimeQuery() == t)
    left = [p.tags["k"] for p in db.all(sorted=False)]
    print(f"P1 auto_index={auto_index}: removed {n}, left {left}")
    if n != 1 or left != ["0", "2", "3"]:
        bad.append(f"P1 auto_index={auto_index}")

# P2: the empty string is a valid measurement name, but as a filter it is
# falsy and ignored: removal "in measurement ''" deletes from every measurement.
db = TinyFlux(storage=MemoryStorage)
t0 = datetime(2024, 1, 1, tzinfo=timezone.utc)
db.insert(Point(time=t0, measurement="", tags={"a": "1", "id": "x"}))
db.insert(Point(time=t0, measurement="m", tags={"a": "1", "id": "y"}))
n = db.measurement("").remove(TagQuery().a == "1")
left = [p.tags["id"] for p in db.all(sorted=False)]
print(f"P2: removed {n}, left {left}")
if n != 1 or left != ["y"]:
    bad.append("P2")

print("violations:", bad)
sys.exit(1 if bad else 0)
