"""Reproducers for C04 violations of the UNCHANGED library (pinned commit).

Each case prints PRE-EXISTING VIOLATION or ok.  Exit code is the number of
violations observed.
"""
import enum
import os
import sys
import tempfile
from datetime import datetime, timedelta, timezone

from tinyflux import FieldQuery, Point, TagQuery, TinyFlux

T0 = datetime(2020, 1, 1, tzinfo=timezone.utc)
bad = 0


def fresh(path, **kw):
    r = TinyFlux(path, access_mode="r", **kw)
    try:
        return r.all(sorted=False)
    finally:
        r.close()


def report(name, ok, detail=""):
    global bad
    if not ok:
        bad += 1
    print(("ok                    " if ok else "PRE-EXISTING VIOLATION"), name, detail)


d = tempfile.mkdtemp()

# P1: a tag value (or key, or measurement) that is a str-mixin Enum member.
class Color(str, enum.Enum):
    RED = "red"


path = os.path.join(d, "p1.csv")
db = TinyFlux(path)
p = Point(time=T0, measurement="m", tags={"color": Color.RED})
db.insert(p)
plain = Point(time=T0, measurement="m", tags={"color": "red"})
assert p == plain and db.count(TagQuery().color == "red") == 1
report("P1 str-Enum tag value", fresh(path) == [plain], repr(fresh(path)))
db.close()

# P2: a string longer than csv.field_size_limit() (131072 chars).
path = os.path.join(d, "p2.csv")
db = TinyFlux(path)
db.insert(Point(time=T0, tags={"blob": "x" * 131073}))
try:
    ok = len(fresh(path)) == 1
    detail = ""
except Exception as e:  # _csv.Error: field larger than field limit (131072)
    ok, detail = False, f"reopen raises {type(e).__name__}: {e}"
report("P2 tag value of 131073 chars", ok, detail)
db.close()

# P3: update() with a callable that consults the same database (default
# configuration, valid index).  search() re-seeks the one shared file handle,
# the outer rewrite loop then sees EOF and the remaining rows are dropped.
path = os.path.join(d, "p3.csv")
db = TinyFlux(path)
for i in range(6):
    db.insert(Point(time=T0 + timedelta(seconds=i), tags={"id": str(i)}, fields={"v": float(i)}))
n = db.update(
    TagQuery().id == "1",
    fields=lambda f: {"rank": float(len(db.search(FieldQuery().v < f["v"])))},
)
ids = [q.tags["id"] for q in fresh(path)]
report("P3 update() callable reading the db", ids == [str(i) for i in range(6)], f"updated={n}, ids left in file={ids}")
db.close()

# P4: a database whose name is another database's name + ".swap".
path = os.path.join(d, "p4.csv")
other = TinyFlux(path + ".swap")
other.insert(Point(time=T0, tags={"who": "other"}))
db = TinyFlux(path)
for i in range(3):
    db.insert(Point(time=T0 + timedelta(seconds=i), tags={"id": str(i)}))
db.remove(TagQuery().id == "1")
report("P4 sibling database '<name>.swap'", os.path.exists(path + ".swap"), "(file of the other database deleted by the rewrite)")
db.close()

sys.exit(bad)
