"""Reproducers for what the UNCHANGED library already does (see preexisting.md)."""
from datetime import datetime, timezone
from tinyflux import TinyFlux, Point, TagQuery
from tinyflux.storages import MemoryStorage

T = datetime(2024, 1, 1, tzinfo=timezone.utc)


def fresh():
    db = TinyFlux(storage=MemoryStorage)
    db.insert(Point(time=T, measurement="m", tags={"a": "b"}, fields={"x": 1}))
    return db


# P1: falsy wrongly-typed update arguments are ignored, not rejected.
for kw in (
    dict(time=0), dict(time=0.0), dict(time=False), dict(time=b""), dict(time=[]),
    dict(measurement=0), dict(measurement=False), dict(measurement=[]), dict(measurement={}),
    dict(tags=0), dict(tags=False), dict(tags=b""), dict(tags=[]),
    dict(fields=0), dict(fields=""), dict(fields=[]),
):
    db = fresh()
    try:
        n = db.update(TagQuery().a == "b", unset_tags="zzz", **kw)
        print("P1 accepted:", kw, "->", n)
    except (ValueError, TypeError) as e:
        print("P1 rejected:", kw, type(e).__name__)

# P2: falsy non-string measurement on insert / Measurement API is ignored.
db = TinyFlux(storage=MemoryStorage)
for m in (0, 0.0, False, b"", [], {}):
    try:
        db.insert(Point(time=T), measurement=m)
        print("P2 accepted: insert(measurement=%r)" % (m,))
    except (ValueError, TypeError) as e:
        print("P2 rejected:", m, type(e).__name__)
try:
    db.measurement(0).insert(Point(time=T))
    print("P2 accepted: db.measurement(0).insert ->", db.all()[-1].measurement)
except (ValueError, TypeError) as e:
    print("P2 rejected measurement(0)", type(e).__name__)

# P3: the Point keeps the caller's mapping; MemoryStorage keeps the Point.
d = {"x": 1}
p = Point(time=T, fields=d)
db = TinyFlux(storage=MemoryStorage)
db.insert(p)
d["x"] = "oops"          # the user's own dict, after a fully valid insert
print("P3 later read:", db.all()[0].fields, db.get_field_values("x"))

# P4: a tags/fields callable may return an iterable of pairs (not a mapping).
db = fresh()
print("P4 accepted:", db.update_all(tags=lambda t: [("k", "v")]), db.all()[0].tags)
