"""Reproducers for C15 violations of the UNCHANGED library (see preexisting.md).

Run:  PYTHONPATH=<repo> python preexisting_repro.py          (P1, P3, P4, P5)
      PYTHONPATH=<repo> python -O preexisting_repro.py       (adds P2)
Prints one line per case; "VIOLATED" means the file changed although C15 says
it must not.
"""

import os
import shutil
import sys
import tempfile
from datetime import datetime, timedelta, timezone

from tinyflux import Point, TagQuery, TimeQuery, TinyFlux

T0 = datetime(2024, 1, 1, tzinfo=timezone.utc)


def rd(path):
    """Return the bytes of a file."""
    with open(path, "rb") as f:
        return f.read()


def verdict(name, before, after, extra=""):
    """Print the outcome of one case."""
    print(
        "%-4s %s %s"
        % (name, "VIOLATED" if before != after else "holds   ", extra)
    )


def p1(d):
    """A read completes an append that raised (I/O fault inside flush)."""
    try:
        import resource
    except ImportError:
        print("P1   skipped (no resource module)")
        return

    pid = os.fork()

    if pid:
        os.waitpid(pid, 0)
        return

    # Child: the file size limit only applies here.
    path = os.path.join(d, "p1.csv")
    db = TinyFlux(path)

    for i in range(3):
        db.insert(Point(time=T0 + timedelta(seconds=i), tags={"k": "v%d" % i}))

    soft, hard = resource.getrlimit(resource.RLIMIT_FSIZE)
    resource.setrlimit(
        resource.RLIMIT_FSIZE, (os.path.getsize(path) + 20, hard)
    )

    try:
        db.insert(Point(time=T0 + timedelta(seconds=3), tags={"k": "v3"}))
        raised = None
    except OSError as e:
        raised = e

    resource.setrlimit(resource.RLIMIT_FSIZE, (soft, hard))  # space is back
    before = rd(path)
    n = db.count(TagQuery().k == "v3")  # a READ operation
    after = rd(path)
    verdict(
        "P1",
        before,
        after,
        "insert raised %r; then count() returned %d and the file grew "
        "%d -> %d bytes" % (raised, n, len(before), len(after)),
    )
    sys.stdout.flush()
    os._exit(0)


def p2(d):
    """The access gates are assert statements: gone under python -O."""
    if __debug__:
        print("P2   skipped (run with python -O)")
        return

    path = os.path.join(d, "p2.csv")
    db = TinyFlux(path)
    db.insert(Point(time=T0, tags={"k": "a"}))
    db.insert(Point(time=T0 + timedelta(seconds=1), tags={"k": "b"}))
    db.close()
    before = rd(path)
    db = TinyFlux(path, access_mode="r")

    try:
        rst = "returned %r" % db.update(TagQuery().k == "a", tags={"k": "z"})
    except Exception as e:
        rst = "raised %r" % e

    verdict("P2", before, rd(path), "update() on an access_mode='r' db " + rst)


def p3(d):
    """The index compares float timestamps: == on far-future instants."""
    path = os.path.join(d, "p3.csv")
    db = TinyFlux(path)
    t1 = datetime(9000, 1, 1, 0, 0, 0, 1, tzinfo=timezone.utc)
    t2 = datetime(9000, 1, 1, 0, 0, 0, 2, tzinfo=timezone.utc)  # not stored
    db.insert(Point(time=T0, tags={"k": "a"}))
    db.insert(Point(time=t1, tags={"k": "b"}))
    before = rd(path)
    n = db.update(TimeQuery() == t2, tags={"k": "changed"})
    verdict(
        "P3",
        before,
        rd(path),
        "update(TimeQuery() == <instant no point has>) returned %d" % n,
    )


def p4(d):
    """Setting a NaN field to NaN counts as a change (compact rows show it)."""
    path = os.path.join(d, "p4.csv")
    db = TinyFlux(path)
    db.insert(
        Point(time=T0, tags={"k": "a"}, fields={"x": float("nan")}),
        compact_key_prefixes=True,
    )
    before = rd(path)
    n = db.update(TagQuery().k == "a", fields={"x": float("nan")})
    verdict("P4", before, rd(path), "update(x=nan) on x=nan returned %d" % n)


def p5(d):
    """flush_on_insert=False: the row reaches the file during the next read."""
    path = os.path.join(d, "p5.csv")
    db = TinyFlux(path, flush_on_insert=False)
    db.insert(Point(time=T0, tags={"k": "a"}))
    before = rd(path)
    db.all()
    after = rd(path)
    verdict(
        "P5", before, after, "all() grew the file %d -> %d bytes"
        % (len(before), len(after))
    )


if __name__ == "__main__":
    d = tempfile.mkdtemp(prefix="c15pre-")

    try:
        for case in (p1, p2, p3, p4, p5):
            case(d)
            sys.stdout.flush()
    finally:
        shutil.rmtree(d, ignore_errors=True)
