"""Pre-existing (unchanged library): relative path + os.chdir + a rewrite.

Exits 1 when the file the database was opened on no longer holds the
database's contents after a completed remove().
"""
import os
import sys
import tempfile
from datetime import datetime, timedelta, timezone

from tinyflux import Point, TagQuery, TinyFlux

t0 = datetime(2024, 1, 1, tzinfo=timezone.utc)
cwd = os.getcwd()
rc = 0
with tempfile.TemporaryDirectory() as d:
    one, two = os.path.join(d, "one"), os.path.join(d, "two")
    os.makedirs(one)
    os.makedirs(two)
    try:
        os.chdir(one)
        db = TinyFlux("rel.csv")  # i.e. one/rel.csv
        db.insert(Point(time=t0, tags={"k": "1"}, fields={"v": 1}))
        db.insert(Point(time=t0 + timedelta(seconds=1), tags={"k": "2"}))
        os.chdir(two)  # the application changes directory
        assert db.remove(TagQuery().k == "1") == 1  # completes normally
        db.insert(Point(time=t0 + timedelta(seconds=2), tags={"k": "3"}))
        logical = [p.tags["k"] for p in db.all(sorted=False)]
        db.close()
        with TinyFlux(os.path.join(one, "rel.csv"), access_mode="r") as ro:
            on_file = [p.tags["k"] for p in ro.all(sorted=False)]
        print("database contents:", logical)
        print("one/rel.csv holds:", on_file)
        print("two/ now contains:", os.listdir(two))
        if on_file != logical:
            print("VIOLATED: the file the database was opened on is stale; "
                  "the rewrite went to a new file in the new cwd")
            rc = 1
    finally:
        os.chdir(cwd)
sys.exit(rc)
