"""Reproducer for C06 violations of the UNCHANGED library (see preexisting.md).

Each case inserts valid Points through the public API into a fresh CSV
database (auto_index on). The index reports valid; its answers are compared
with those of a second TinyFlux opened on the same file (index rebuilt from
storage). Prints one line per case; exits 1 if any case differs.
"""
import os
import sys
import tempfile
from datetime import datetime, timedelta, timezone

from tinyflux import (
    FieldQuery,
    MeasurementQuery,
    Point,
    TagQuery,
    TinyFlux,
)

T0 = datetime(2024, 1, 1, tzinfo=timezone.utc)


def answers(db, qs):
    return {
        "counts": [db.count(q) for q in qs],
        "measurements": db.get_measurements(),
        "tag_values": db.get_tag_values(),
        "field_values": {k: db.get_field_values(k) for k in db.get_field_keys()},
    }


def case(name, points, qs):
    path = os.path.join(tempfile.mkdtemp(), "db.csv")
    with TinyFlux(path) as db:
        for p in points:
            db.insert(p)
        valid = db.index.valid
        live = answers(db, qs)
        with TinyFlux(path) as fresh:
            rebuilt = answers(fresh, qs)
    diff = {k: (live[k], rebuilt[k]) for k in live if live[k] != rebuilt[k]}
    print(f"{name}: index valid={valid};", "DIFFERS " + repr(diff) if diff else "same")
    return bool(diff)


bad = 0
bad += case(
    "tag value '_none'",
    [Point(time=T0, tags={"k": "_none"})],
    [TagQuery().k == "_none", TagQuery().k == None],  # noqa: E711
)
bad += case(
    "int field beyond 2**53",
    [Point(time=T0, fields={"x": 2**53 + 1})],
    [FieldQuery().x == 2**53 + 1, FieldQuery().x == 2**53],
)
bad += case(
    "empty measurement name",
    [Point(time=T0, measurement="")],
    [MeasurementQuery() == "", MeasurementQuery() == "_none"],
)

# In-order inserts far in the future invalidate the index.
path = os.path.join(tempfile.mkdtemp(), "db.csv")
with TinyFlux(path) as db:
    t1 = datetime(9000, 1, 1, 0, 0, 0, 17, tzinfo=timezone.utc)
    db.insert(Point(time=t1))
    db.insert(Point(time=t1 + timedelta(microseconds=1)))
    print("in-order inserts in year 9000: index valid =", db.index.valid)
    bad += not db.index.valid

sys.exit(1 if bad else 0)
