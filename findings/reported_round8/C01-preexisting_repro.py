"""Reproducers for C01 violations of the UNCHANGED library (see preexisting.md)."""
import os, tempfile
from datetime import datetime, timezone, timedelta
from tinyflux import TinyFlux, Point, TagQuery, FieldQuery, TimeQuery, MeasurementQuery
from tinyflux.storages import MemoryStorage

t0 = datetime(2024, 1, 1, tzinfo=timezone.utc)
d = tempfile.mkdtemp()

def dbs(name):
    for ai in (True, False):
        yield f"csv ai={ai}", TinyFlux(os.path.join(d, f"{name}_{ai}.csv"), auto_index=ai)
        yield f"mem ai={ai}", TinyFlux(storage=MemoryStorage, auto_index=ai)

print("P1: tag value '_none' (CSV turns it into None)")
for label, db in dbs("p1"):
    db.insert(Point(time=t0, tags={"k": "_none"}, fields={"v": 1}))
    q = TagQuery().k == "_none"
    print("  ", label, "count", db.count(q), "search", [p.tags for p in db.search(q)])

print("P2: int field above 2**53 (CSV stores str(float(v)))")
big = 2**53 + 1
for label, db in dbs("p2"):
    db.insert(Point(time=t0, fields={"v": big}))
    q = FieldQuery().v == big
    print("  ", label, "count", db.count(q), "search", [p.fields for p in db.search(q)])

print("P3: two times one microsecond apart in year 2300 (index compares float timestamps)")
a = datetime(2300, 1, 1, 0, 0, 0, 1, tzinfo=timezone.utc)
b = a + timedelta(microseconds=1)
print("   float timestamps equal:", a.timestamp() == b.timestamp())
for label, db in dbs("p3"):
    db.insert(Point(time=a, tags={"n": "a"})); db.insert(Point(time=b, tags={"n": "b"}))
    q = TimeQuery() == a
    print("  ", label, "count", db.count(q), "search", [p.tags["n"] for p in db.search(q)])

print("P4: measurement '' (CSV stores '_none'; measurement filter '' is ignored)")
for label, db in dbs("p4"):
    db.insert(Point(time=t0, measurement="", fields={"v": 1}))
    q = MeasurementQuery() == ""
    print("  ", label, "count", db.count(q), "search", [p.measurement for p in db.search(q)])
