"""Reproducers for C03 violations of the UNCHANGED library (see preexisting.md).
Prints one line per finding; exits 1 if any reproduces."""
import sys
from datetime import datetime, timedelta, timezone

from tinyflux import Point, TagQuery, TimeQuery, TinyFlux
from tinyflux.storages import MemoryStorage

found = []
us = timedelta(microseconds=1)

# P1: index-assisted update with TimeQuery == t also updates the point at t+1us
#     when both instants have the same float timestamp (years > ~2242).
db = TinyFlux(storage=MemoryStorage)
t = datetime(3000, 1, 1, tzinfo=timezone.utc)
db.insert(Point(time=t, tags={"a": "1"}))
db.insert(Point(time=t + us, tags={"a": "2"}))
db.insert(Point(time=t + timedelta(days=1), tags={"a": "3"}))
n = db.update(TimeQuery() == t, tags={"hit": "y"})
hit = [p.tags["a"] for p in db.all(sorted=False) if "hit" in p.tags]
if n != 1 or hit != ["1"]:
    found.append(f"P1 far-future TimeQuery: returned {n}, points hit {hit}")

# P2: unset_tags / unset_fields given as a one-shot iterable (documented type
#     Iterable[str]) is consumed by argument validation; nothing is removed.
db = TinyFlux(storage=MemoryStorage)
t = datetime(2020, 1, 1, tzinfo=timezone.utc)
db.insert(Point(time=t, tags={"a": "1", "b": "2"}, fields={"x": 1}))
n = db.update_all(unset_tags=(k for k in ["a"]))
if n != 1 or "a" in db.all()[0].tags:
    found.append(f"P2 one-shot unset_tags: returned {n}, tags {db.all()[0].tags}")

# P3: a measurement named "" (a valid str): its handle's update/update_all is
#     not scoped (`if _measurement:` is false) and touches every measurement.
db = TinyFlux(storage=MemoryStorage)
db.insert(Point(time=t, measurement="", tags={"a": "1"}))
db.insert(Point(time=t + us, measurement="m", tags={"a": "1"}))
n = db.measurement("").update_all(tags={"hit": "y"})
hit = [p.measurement for p in db.all(sorted=False) if "hit" in p.tags]
if n != 1 or hit != [""]:
    found.append(f"P3 measurement '' handle: returned {n}, measurements hit {hit}")

# P4: MemoryStorage, the same Point object inserted twice: a callable update is
#     applied twice to it (both rows show +2), a static one is counted once.
db = TinyFlux(storage=MemoryStorage)
p = Point(time=t, fields={"x": 0})
db.insert(p)
db.insert(p)
n = db.update_all(fields=lambda f: {"x": f["x"] + 1})
xs = [q.fields["x"] for q in db.all(sorted=False)]
if n != 2 or xs != [1, 1]:
    found.append(f"P4 same Point object twice: returned {n}, x values {xs}")

for f in found:
    print(f)
sys.exit(1 if found else 0)
