"""Round trips that already fail on the UNCHANGED library (see preexisting.md)."""
import copy, os, tempfile
from datetime import datetime, timezone
from tinyflux import Point, TinyFlux

T = datetime(2020, 1, 1, 12, 0, 0, 123456, tzinfo=timezone.utc)

def rt(p, **kw):
    with tempfile.TemporaryDirectory() as d:
        path = os.path.join(d, "db.csv")
        try:
            db = TinyFlux(path, **kw); db.insert(copy.deepcopy(p)); db.close()
        except Exception as e:
            return f"insert raised {type(e).__name__}: {str(e)[:60]}"
        try:
            db = TinyFlux(path, **kw); got = db.all(); db.close()
        except Exception as e:
            return f"read raised {type(e).__name__}: {str(e)[:60]}"
    if got == [p]:
        return "ok"
    return f"read back {got!r}"[:160]

cases = [
    ("int field > 2**53", Point(time=T, fields={"a": 2**53 + 1}), {}),
    ("int field > float max", Point(time=T, fields={"a": 10**400}), {}),
    ("tag value '_none'", Point(time=T, tags={"a": "_none"}), {}),
    ("empty measurement", Point(time=T, measurement=""), {}),
    ("cell > 131072 chars", Point(time=T, tags={"a": "x" * 131073}), {}),
    ("lone CR, lineterminator='\\n'", Point(time=T, tags={"a": "x\ry"}), {"lineterminator": "\n"}),
    ("lone CR, newline=None", Point(time=T, tags={"a": "x\ry"}), {"newline": None}),
    ("non-latin-1 text, encoding='latin-1'", Point(time=T, tags={"a": "€"}), {"encoding": "latin-1"}),
]
for name, p, kw in cases:
    print(f"{name:40s} {rt(p, **kw)}")
