(* QuerySem.v — the values tinyflux/queries.py stores in `_hash`, as Python objects: None, str, the empty and non-empty
   tuple, a two-element frozenset, and the leaves (attribute name, key path, comparison value, regex / function identity).
   Python's == and truthiness on them.  gen/QueryGen.v (generated from queries.py) builds hash keys out of these; the
   model's hash trees (Query.hv, hv_eqb, qeq) are proved to be exactly these keys under == (proofs/QueryGenP.v).
   Definitions only. *)
From Coq Require Import List ZArith NArith Bool Arith.
From TF Require Import Base Query.
Import ListNotations.

Inductive pyh :=
| PNone                                   (* None *)
| PStr (s : str)                          (* a string literal of the source *)
| PAttr (a : attr)                        (* self._point_attr *)
| PPath (ks : list str)                   (* self._path: a tuple of key strings (a path with a function in it is never hashed) *)
| PVal (v : value)                        (* the comparison value *)
| PN (n : N)                              (* a regex pattern, its flags, a test function with its arguments: identity in the twin table *)
| PNil                                    (* () *)
| PCons (h t : pyh)                       (* (h, *t) *)
| PFrozen2 (x y : pyh).                   (* frozenset([x, y]) *)

(* == : tuples component-wise and of equal length, frozensets as sets, different kinds never equal *)
Fixpoint pyh_eqb (x y : pyh) : bool :=
  match x, y with
  | PNone, PNone => true
  | PStr a, PStr b => str_eqb a b
  | PAttr a, PAttr b => attr_eqb a b
  | PPath a, PPath b => strs_eqb a b
  | PVal a, PVal b => value_eqb a b
  | PN a, PN b => N.eqb a b
  | PNil, PNil => true
  | PCons h t, PCons h' t' => pyh_eqb h h' && pyh_eqb t t'
  | PFrozen2 a b, PFrozen2 c d =>
      (pyh_eqb a c || pyh_eqb a d) && (pyh_eqb b c || pyh_eqb b d) &&
      (pyh_eqb a c || pyh_eqb b c) && (pyh_eqb a d || pyh_eqb b d)
  | _, _ => false
  end.

(* bool(x): None and () are falsy *)
Definition pyh_truthy (x : pyh) : bool := match x with PNone | PNil => false | _ => true end.
Definition pyh_is_none (x : pyh) : bool := match x with PNone => true | _ => false end.

(* the ways a BaseQuery becomes a SimpleQuery *)
Inductive meth := Meq | Mne | Mlt | Mle | Mgt | Mge.
Definition cmp_of_meth (m : meth) : cmp := match m with Meq => Ceq | Mne => Cne | Mlt => Clt | Mle => Cle | Mgt => Cgt | Mge => Cge end.
Definition meth_of_cmp (c : cmp) : meth := match c with Ceq => Meq | Cne => Mne | Clt => Mlt | Cle => Mle | Cgt => Mgt | Cge => Mge end.

Inductive boolop := BAnd | BOr | BNot.      (* operator.and_ / or_ / not_ *)

(* operator.and_ / or_ / not_ applied to the results of the operands (a result that is an exception propagates); the wrong arity is a TypeError *)
Definition apply_boolop2 (op : boolop) (a b : res) : res :=
  match op with BAnd => res_and a b | BOr => res_or a b | BNot => RRaise end.
Definition apply_boolop1 (op : boolop) (a : res) : res :=
  match op with BNot => res_not a | _ => RRaise end.
