(* Property C10 — a Measurement handle is exactly the database restricted to that measurement.
   handle_step (DB.v) follows measurement.py method by method (every call forwarded to the
   database with the handle's name; len / iteration / all filter the stored rows by name).
   C10_*_is_restricted: each handle operation IS the database operation with measurement = name
   (these hold by computation: they pin the forwarding, including update's argument order,
   which the correspondence check compares with the implementation value by value).
   C10_*_confined: the restricted operation never returns or modifies a point of another
   measurement.  `name <> []`: the code's `if measurement:` treats the empty name as "no filter". *)
From Coq Require Import List ZArith NArith Bool.
From TF Require Import Base Query Index DB Spec proofs.IndexDefs proofs.RepP proofs.DBReadP proofs.DBRemoveP
     proofs.DBStepP proofs.DBRunP proofs.DBSpecP proofs.HandleGenP IndexSem DbSem proofs.DbGetGenP.
From TF Require gen.HandleGen gen.DbGetGen.
Import ListNotations.

Theorem C10_handle_is_restricted : forall E C norm s name h o, restrict name h = Some o ->
  handle_step E C norm s name h = step E C norm s o.
Proof. intros E C norm s name h o H. destruct h; inversion H; reflexivity. Qed.
(* the forwarding REGENERATED from tinyflux/measurement.py and the signatures of tinyflux/database.py on every run
   (gen/HandleGen.v) is the model's: which database operation each handle method becomes, argument by argument *)
Theorem C10_source_forwarding_is_the_model : forall name h, HandleGen.forward name h = restrict name h.
Proof. exact gen_forward_eq. Qed.
Theorem C10_source_insert_multiple_is_the_model : forall name ps,
  Some (HandleGen.forward_insert_multiple name ps) = restrict name (HInsert ps).
Proof. exact gen_forward_insert_multiple_eq. Qed.
Theorem C10_iter_is_restricted : forall E C norm s name,
  handle_step E C norm s name HIter = (s, OPoints (filter (fun p => str_eqb (p_meas p) name) (st_rows s))).
Proof. reflexivity. Qed.
Theorem C10_search_confined : forall E q name srt db p, name <> [] -> In p (spec_search E q (Some name) srt db) -> p_meas p = name.
Proof. exact handle_search_confined. Qed.
Theorem C10_remove_confined : forall E C norm s q name, Inv s -> wf_query E q -> index_safe q -> name <> [] ->
  filter (fun p => negb (str_eqb (p_meas p) name)) (st_rows (fst (handle_step E C norm s name (HRemove q))))
  = filter (fun p => negb (str_eqb (p_meas p) name)) (st_rows s).
Proof. exact handle_remove_confined. Qed.
Theorem C10_update_confined : forall E C norm s q u name l n, name <> [] ->
  spec_update_rows C norm (hit E q (Some name)) u (st_rows s) = Some (l, n) ->
  forall k p, nth_error (st_rows s) k = Some p -> str_eqb (p_meas p) name = false -> nth_error l k = Some p.
Proof. exact handle_update_confined. Qed.
Theorem C10_insert_sets_name : forall E C norm s ps name, Inv s -> wf_insert norm ps (Some name) -> name <> [] ->
  let r := handle_step E C norm s name (HInsert ps) in
  st_rows (fst r) = st_rows s ++ map (fun p => set_meas p name) (prefix_points ps).
Proof. exact handle_insert_named. Qed.

(* the two methods of class Measurement that do NOT forward - len(handle) and iteration over a handle - COMPILED from tinyflux/measurement.py on every
   run (gen/DbGetGen.v; self._db the database object, self._name the handle's name; a generator function is what it yields, in order): iteration
   yields exactly the stored points of that measurement, in storage order; the length is their number (whenever a valid index object describes the
   rows: DInv); and iterating the database itself yields every stored point *)
Theorem C10_source_handle_iter_is_restricted : forall d name, DbGetGen.gen_meas___iter__ d name = filter (fun p => str_eqb (p_meas p) name) (db_rows d).
Proof. exact source_handle_iter. Qed.
Theorem C10_source_handle_len_is_restricted : forall d name, DInv d -> DbGetGen.gen_meas___len__ d name = length (filter (fun p => str_eqb (p_meas p) name) (db_rows d)).
Proof. exact source_handle_len_exact. Qed.
Theorem C10_source_db_iter : forall d, DbGetGen.gen_db___iter__ d = db_rows d.
Proof. exact source_db_iter. Qed.

Print Assumptions C10_handle_is_restricted.
Print Assumptions C10_source_forwarding_is_the_model.
Print Assumptions C10_source_insert_multiple_is_the_model.
Print Assumptions C10_iter_is_restricted.
Print Assumptions C10_search_confined.
Print Assumptions C10_remove_confined.
Print Assumptions C10_update_confined.
Print Assumptions C10_insert_sets_name.
Print Assumptions C10_source_handle_iter_is_restricted.
Print Assumptions C10_source_handle_len_is_restricted.
Print Assumptions C10_source_db_iter.
