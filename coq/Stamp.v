(* Stamp.v — the float timestamps the index keeps: datetime.timestamp() of an aware datetime
   is (dt - epoch) / timedelta(seconds=1), one correctly rounded division of the integer
   number of microseconds by 10^6.  The executable model of the index (Index.v) carries exact
   Z microseconds; this file states, with the kernel's primitive IEEE floats, what makes that
   a faithful carrier: the float stamps of two instants one microsecond apart are strictly
   ordered throughout the supported range (years 1700-2240).  Definitions and a finite sweep
   (a TEST, evaluated by vm_compute, not a theorem about all instants). *)
From Coq Require Import List ZArith NArith Bool Uint63 PrimFloat.
Import ListNotations.

Definition f_of_Z (z : Z) : float :=
  match z with
  | Z0 => zero
  | Zpos _ => of_uint63 (Uint63.of_Z z)
  | Zneg _ => opp (of_uint63 (Uint63.of_Z (- z)))
  end.
Definition million : float := of_uint63 1000000%uint63.
Definition stamp (us : Z) : float := div (f_of_Z us) million.

(* the supported range: 1700-01-01 .. 2240-01-01, in microseconds since the epoch *)
Definition lo_us : Z := (-8520336000000000)%Z.
Definition hi_us : Z := 8520336000000000%Z.
Definition in_range (t : Z) : bool := Z.leb lo_us t && Z.leb t hi_us.

(* t and t+1 get strictly ordered stamps, and equal instants equal stamps *)
Definition adjacent_ok (t : Z) : bool :=
  negb (in_range t && in_range (t + 1)) || (ltb (stamp t) (stamp (t + 1)) && eqb (stamp t) (stamp t)).

(* where the spacing of floats changes: +-2^k seconds and +-2^k microseconds, a few microseconds around each *)
Definition around (c : Z) : list Z := map (fun d => c + d)%Z [-3; -2; -1; 0; 1; 2; 3]%Z.
Definition boundaries : list Z :=
  flat_map (fun k => around (2 ^ Z.of_nat k * 1000000) ++ around (- (2 ^ Z.of_nat k * 1000000)) ++
                     around (2 ^ Z.of_nat k) ++ around (- 2 ^ Z.of_nat k))%Z (seq 0 54)
  ++ around lo_us ++ around hi_us ++ around 0%Z.
(* a spread of other instants: a linear congruential walk through the range *)
Fixpoint walk (n : nat) (x : Z) : list Z :=
  match n with O => [] | S m => (x mod (2 * hi_us) - hi_us)%Z :: walk m ((x * 6364136223846793005 + 1442695040888963407) mod 18446744073709551616)%Z end.
Definition samples : list Z := boundaries ++ walk 20000 88172645463325252%Z.
