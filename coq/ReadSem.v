(* ReadSem.v — the primitives gen/ReadGen.v (generated from tinyflux/database.py: the read_op decorator, TinyFlux.reindex, and the four
   query-driven reads contains / count / get / search) is written with.  Definitions only. *)
From Coq Require Import List ZArith NArith Bool Arith.
From TF Require Import Base Query Index DB InsertSem.
Import ListNotations.

(* MeasurementQuery() == measurement *)
Definition meas_query (m : option str) : query := QS AMeas [] (TCmp Ceq (VStr (match m with Some n => n | None => [] end))).
(* the measurement argument as the storage loops use it: `measurement and <row's measurement> != measurement` - when a loop carries no such
   filter the translator passes None *)
Definition m_filter (present : bool) (m : option str) : option str := if present then m else None.

Section Sem.
Variable E : env.

(* self._index.search(x)._items : None = the search raised *)
Definition index_items (s : state) (x : query) : option (list nat) := isearch E (st_idx s) x.
(* len(self._index) *)
Definition index_len (s : state) : nat := ix_n (st_idx s).
(* self._index.build(<every stored point, deserialised>) *)
Definition rebuild (s : state) : state := mkState (st_rows s) (ix_build (st_rows s)) (st_auto s).

(* the storage loops, by what their body does (recognised structurally by the translator):
   for item in self._storage: [measurement filter: continue]; if query(point): <action> *)
Definition loop_scan_all (q : query) (m : option str) (s : state) : option (list point) := scan_filter E q m (st_rows s).     (* append / count += 1 *)
Definition loop_scan_first (q : query) (m : option str) (s : state) : option (option point) := scan_first E q m (st_rows s).   (* assign; break *)
(* for i, item in enumerate(self._storage): if i not in index_rst._items: continue; <action on the point, no evaluation> *)
Definition loop_pick_all (items : list nat) (s : state) : list point := pick items (st_rows s).
Definition loop_pick_first (items : list nat) (s : state) : option point := hd_error (pick items (st_rows s)).
(* found_points.sort(key=lambda x: (x.time is None, x.time)) *)
Definition sort_by_time (l : list point) : list point := sort_points l.
End Sem.
