(* RemoveSem.v — the primitives gen/RemoveGen.v (generated from tinyflux/database.py: TinyFlux._remove_helper, _reset_database, remove,
   drop_measurement) is written with.  Definitions only. *)
From Coq Require Import List ZArith NArith Bool Arith.
From TF Require Import Base Query Index DB InsertSem ReadSem.
Import ListNotations.

Section Sem.
Variable E : env.

(* the two loops of _remove_helper, recognised literally by the translator; each leaves: removed_items (the positions, ascending), the kept rows
   staged in temporary storage, keep_count, and updated_items (old position -> new position of every kept row that moved).
   index-assisted: for i, item in enumerate(storage): if j == len(items) or i not in items: <keep> ... else removed_items.add(i); j += 1 *)
Definition loop_remove_by_items (items : list nat) (s : state) : list nat := filter (fun i => mem i items) (seq 0 (length (st_rows s))).
(* scan: a row outside the measurement is kept unseen; otherwise it is removed iff the query is true (None = the query raised) *)
Definition loop_remove_by_scan (q : query) (m : option str) (s : state) : option (list nat) := scan_positions E q m 0 (st_rows s).
End Sem.

(* keep_count: every row is either staged (counted) or removed *)
Definition keep_count (removed : list nat) (s : state) : nat := length (st_rows s) - length removed.
Definition staged_rows (removed : list nat) (s : state) : list point :=
  map snd (filter (fun ip => negb (mem (fst ip) removed)) (combine (seq 0 (length (st_rows s))) (st_rows s))).
(* updated_items as a function: a kept row moves down by the number of removed rows before it *)
Definition new_position (removed : list nat) (i : nat) : nat := i - length (filter (fun r => Nat.ltb r i) removed).
(* self._index.remove(removed_items); self._index.update(updated_items) *)
Definition index_remove_update (removed : list nat) (s : state) : index :=
  ix_renumber (ix_remove (st_idx s) (fun i => mem i removed) (length removed)) (new_position removed).
(* self._storage._swap_temp_with_primary(): the staged rows become the stored rows; idx' is the index the statements after it leave *)
Definition swapped_in (removed : list nat) (s : state) (idx' : index) : state := mkState (staged_rows removed s) idx' (st_auto s).
(* self._storage.reset(); self._measurements.clear(): no stored rows; idx' as above *)
Definition emptied (s : state) (idx' : index) : state := mkState [] idx' (st_auto s).
