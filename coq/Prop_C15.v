(* Property C15 — reads and no-op writes change nothing and leave nothing behind.
   About the I/O scripts of IO.v: for the plans of reads, getters, reindex and of updates /
   removals that match or change nothing (PlNone, PlRead, PlTempOnly) the primary file
   content is the same after EVERY prefix of the script, and after every completed script,
   whatever the plan, no temporary or staged file is left, nothing is buffered and the
   handle is open. *)
From Coq Require Import List ZArith NArith Bool.
From TF Require Import Base Query Index DB IO proofs.IOP.
Import ListNotations.

Theorem C15_reads_pure : forall old p k, pure_plan p ->
  w_disk (run_steps (world_of old) (firstn k (script_of old p))) = old.
Proof. exact pure_plan_disk_constant. Qed.
Theorem C15_no_temp_left : forall old p, w_leftover (run_steps (world_of old) (script_of old p)) = 0.
Proof. exact no_leftovers. Qed.
Theorem C15_clean_after_every_operation : forall old p,
  let w := run_steps (world_of old) (script_of old p) in w_disk w = plan_target old p /\ clean w.
Proof. exact run_script_complete. Qed.

Print Assumptions C15_reads_pure.
Print Assumptions C15_no_temp_left.
Print Assumptions C15_clean_after_every_operation.
