(* Property C15 — reads and no-op writes change nothing and leave nothing behind.
   About the I/O scripts of IO.v: for the plans of reads, getters, reindex and of updates /
   removals that match or change nothing (PlNone, PlRead, PlTempOnly) the primary file
   content is the same after EVERY prefix of the script, and after every completed script,
   whatever the plan, no temporary or staged file is left, nothing is buffered and the
   handle is open.  C15_read_* / C15_unchanged_write_* join this with the database model: the plan is the one
   IO.plan_of derives from the model's own step; every read, getter, iteration, reindex, reopen (also through a
   handle) has a pure plan in every state, and so has every removal / update after which the model's rows are what
   they were (e.g. a removal whose query selects nothing: C15_remove_selecting_nothing). *)
From Coq Require Import List ZArith NArith Bool.
From TF Require Import Base Query Index DB Spec IO proofs.IOP proofs.PlanP proofs.PureP proofs.IndexDefs proofs.DBReadP proofs.IOGenP.
From TF Require gen.IOGen.
From TF Require Import GateSem proofs.GatesGenP.
From TF Require gen.GatesGen.
Import ListNotations.

Theorem C15_reads_pure : forall old p k, pure_plan p ->
  w_disk (run_steps (world_of old) (firstn k (script_of old p))) = old.
Proof. exact pure_plan_disk_constant. Qed.
Theorem C15_no_temp_left : forall old p, w_leftover (run_steps (world_of old) (script_of old p)) = 0.
Proof. exact no_leftovers. Qed.
Theorem C15_clean_after_every_operation : forall old p,
  let w := run_steps (world_of old) (script_of old p) in w_disk w = plan_target old p /\ clean w.
Proof. exact run_script_complete. Qed.

Theorem C15_read_leaves_file_and_rows : forall E C norm s o k, is_read o = true ->
  let old := st_rows s in
  w_disk (run_steps (world_of old) (firstn k (script_of old (plan_of o old (st_rows (fst (step E C norm s o))))))) = old
  /\ st_rows (fst (step E C norm s o)) = old.
Proof. exact read_leaves_file. Qed.
Theorem C15_unchanged_write_leaves_file : forall E C norm s o k, uses_temp o = true -> forallb nan_free_point (st_rows s) = true ->
  st_rows (fst (step E C norm s o)) = st_rows s ->
  let old := st_rows s in
  w_disk (run_steps (world_of old) (firstn k (script_of old (plan_of o old (st_rows (fst (step E C norm s o))))))) = old.
Proof. exact unchanged_write_leaves_file. Qed.
Theorem C15_remove_selecting_nothing : forall E C norm s q m, Inv s -> wf_query E q -> index_safe q ->
  (forall p, In p (st_rows s) -> hit E q m p = false) ->
  st_rows (fst (step E C norm s (Remove q m))) = st_rows s /\ snd (step E C norm s (Remove q m)) = ONat 0.
Proof. exact remove_selecting_nothing_changes_nothing. Qed.
(* which operations count as reads: everything but inserts, removals, updates and remove_all *)
Example C15_reads_listed : forallb is_read [Search (QNoop AMeas) None true; Count (QNoop AMeas) None; Contains (QNoop AMeas) None;
    Get (QNoop AMeas) None; Select None (QNoop AMeas) None; All true; Len; Iter; GetMeasurements; GetTagKeys None; GetTagValues [] None;
    GetFieldKeys None; GetFieldValues [] None; GetTimestamps None; Reindex; Reopen true; IndexValid;
    Handle [] HLen; Handle [] HIter; Handle [] (HAll true); Handle [] (HSearch (QNoop AMeas) true); Handle [] HGetTimestamps] = true.
Proof. reflexivity. Qed.

(* the I/O calls REGENERATED from tinyflux/storages.py on every run (gen/IOGen.v: symbolic execution of CSVStorage.append, _write([]) / reset,
   _init_temp_storage, _swap_temp_with_primary, _cleanup_temp_storage, __iter__ along their success path) are the scripts of the model, for every
   plan of an operation: every theorem of this file about script_of is a theorem about the calls the source makes now *)
Theorem C15_source_scripts_are_the_model : forall old p, gen_script_of old p = script_of old p.
Proof. exact gen_script_of_eq. Qed.
(* ... and every handle is opened with the storage's own text options: the temporary file and the handle reopened after a rewrite use the
   storage's encoding, newline translation stays off, the temporary file stays until it is removed, the reopen never truncates *)
Theorem C15_source_handles_keep_text_options :
  IOGen.temp_uses_storage_encoding = true /\ IOGen.temp_untranslated_newlines = true /\ IOGen.temp_kept_until_removed = true /\
  IOGen.reopen_uses_storage_encoding = true /\ IOGen.reopen_uses_storage_newline = true /\ IOGen.reopen_never_truncates = true /\
  IOGen.reopen_same_file = true /\ IOGen.open_uses_given_options = true /\ IOGen.newline_default_untranslated = true.
Proof. exact gen_handle_options. Qed.

(* THE ACCESS GATES, read off tinyflux/database.py and measurement.py on every run (gen/GatesGen.v: per method its gates - the decorators, each read from its
   own definition -, the storage calls it makes directly, the methods it calls; effects closed over the calls inside Coq): for EVERY public method of the
   database and of a Measurement handle, nothing that replaces stored contents is reachable without passing the write gate, nothing that appends without the
   append (or write) gate, nothing that stages or swaps without temp_storage_op (scratch storage set up before and cleaned up after, also on a raise) *)
Theorem C15_source_every_rewriting_method_is_behind_the_write_gate : forall m, In m GatesGen.gen_methods -> m_public m = true ->
  has_effect ESwap (reach_of (has_gate GWrite) GatesGen.gen_methods m) = false /\ has_effect EReset (reach_of (has_gate GWrite) GatesGen.gen_methods m) = false.
Proof. exact every_rewriting_method_is_behind_the_write_gate. Qed.
Theorem C15_source_every_appending_method_is_behind_the_append_gate : forall m, In m GatesGen.gen_methods -> m_public m = true ->
  has_effect EAppend (reach_of (fun x => has_gate GAppend x || has_gate GWrite x) GatesGen.gen_methods m) = false.
Proof. exact every_appending_method_is_behind_the_append_gate. Qed.
Theorem C15_source_every_staging_method_runs_inside_temp_storage_op : forall m, In m GatesGen.gen_methods -> m_public m = true ->
  has_effect EStage (reach_of (has_gate GTemp) GatesGen.gen_methods m) = false /\ has_effect ESwap (reach_of (has_gate GTemp) GatesGen.gen_methods m) = false.
Proof. exact every_staging_method_runs_inside_temp_storage_op. Qed.
Theorem C15_source_gate_rules_are_not_vacuous : some_effect ESwap GatesGen.gen_methods = true /\ some_effect EReset GatesGen.gen_methods = true
  /\ some_effect EAppend GatesGen.gen_methods = true /\ some_effect EStage GatesGen.gen_methods = true.
Proof. exact gates_nonvacuous. Qed.

Print Assumptions C15_reads_pure.
Print Assumptions C15_read_leaves_file_and_rows.
Print Assumptions C15_unchanged_write_leaves_file.
Print Assumptions C15_remove_selecting_nothing.
Print Assumptions C15_no_temp_left.
Print Assumptions C15_clean_after_every_operation.
Print Assumptions C15_source_scripts_are_the_model.
Print Assumptions C15_source_handles_keep_text_options.
Print Assumptions C15_source_every_rewriting_method_is_behind_the_write_gate.
Print Assumptions C15_source_every_appending_method_is_behind_the_append_gate.
Print Assumptions C15_source_every_staging_method_runs_inside_temp_storage_op.
Print Assumptions C15_source_gate_rules_are_not_vacuous.
