(* MemSem.v - the Python semantics the translation of class MemoryStorage (harness/py2coq_memstore.py -> gen/MemStoreGen.v) is written over.

   The object has two attributes that name Python LISTS, `_memory` and `_temp_memory`.  Two names may be bound to ONE list object - that is what
   `self._memory = self._temp_memory` does - and a list grows under every name bound to it.  The record keeps that apart: `m_shared = true` means
   both names are bound to the list `m_mem` (and `m_tmp` is not looked at).  Reading, rebinding (`self.a = <a list no other name of the object holds>`),
   aliasing (`self.a = self.b`) and `.append` are the only things the class does with them. *)
From Coq Require Import List Bool.
From TF Require Import Base Query.
Import ListNotations.

Record pymem := mkMem { m_mem : list point; m_tmp : list point; m_shared : bool; m_initially_empty : bool }.
Inductive attr := AMem | ATmp.

Definition m_read (a : attr) (s : pymem) : list point :=
  match a with AMem => m_mem s | ATmp => if m_shared s then m_mem s else m_tmp s end.

(* self.<a> = v, v a list no other name of the object is bound to: the other name stays on the list it was bound to *)
Definition m_bind (a : attr) (v : list point) (s : pymem) : pymem :=
  match a with
  | AMem => mkMem v (m_read ATmp s) false (m_initially_empty s)
  | ATmp => mkMem (m_mem s) v false (m_initially_empty s)
  end.

(* self.<a> = self.<b> *)
Definition m_alias (a b : attr) (s : pymem) : pymem :=
  match a, b with
  | AMem, ATmp => mkMem (m_read ATmp s) [] true (m_initially_empty s)
  | ATmp, AMem => mkMem (m_mem s) [] true (m_initially_empty s)
  | _, _ => s
  end.

(* self.<a>.append(x): the list object grows, under every name bound to it *)
Definition m_append (a : attr) (x : point) (s : pymem) : pymem :=
  if m_shared s then mkMem (m_mem s ++ [x]) [] true (m_initially_empty s)
  else match a with
       | AMem => mkMem (m_mem s ++ [x]) (m_tmp s) false (m_initially_empty s)
       | ATmp => mkMem (m_mem s) (m_tmp s ++ [x]) false (m_initially_empty s)
       end.

Definition m_set_initially_empty (b : bool) (s : pymem) : pymem := mkMem (m_mem s) (m_tmp s) (m_shared s) b.

(* object.__new__: no attribute bound yet (reading one would be an AttributeError; __init__ binds all three before anything reads) *)
Definition m_new : pymem := mkMem [] [] false false.
