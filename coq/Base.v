(* Base.v — strings, numbers, sorted-key dictionaries, list-sets of positions, stable sort.
   Definitions only (the model must still run when a proof is broken). *)
From Coq Require Import List ZArith NArith Bool Arith.
Import ListNotations.

(* ---- strings: Python str = sequence of code points ------------------------------- *)
Definition str := list N.

Fixpoint str_eqb (a b : str) : bool :=
  match a, b with
  | [], [] => true
  | x :: a', y :: b' => N.eqb x y && str_eqb a' b'
  | _, _ => false
  end.

(* code-point lexicographic order: Python's < on str *)
Fixpoint str_ltb (a b : str) : bool :=
  match a, b with
  | [], [] => false
  | [], _ :: _ => true
  | _ :: _, [] => false
  | x :: a', y :: b' => if N.ltb x y then true else if N.eqb x y then str_ltb a' b' else false
  end.

Definition ostr_eqb (a b : option str) : bool :=
  match a, b with Some x, Some y => str_eqb x y | None, None => true | _, _ => false end.

(* ---- numbers: what a Python int/float denotes ------------------------------------- *)
(* A finite value is m * 2^e, kept canonical (m odd, or m = 0 and e = 0) by whoever builds
   it; -0.0 and 0.0, 1 and 1.0 and True are one number, as Python's == and < see them. *)
Inductive num := NFin (m e : Z) | NPInf | NNInf | NNaN.

Definition num_eqb (a b : num) : bool :=
  match a, b with
  | NFin m1 e1, NFin m2 e2 => Z.eqb m1 m2 && Z.eqb e1 e2
  | NPInf, NPInf => true
  | NNInf, NNInf => true
  | _, _ => false                        (* NaN is not equal to anything, itself included *)
  end.

Definition fin_ltb (m1 e1 m2 e2 : Z) : bool :=
  let e := Z.min e1 e2 in
  Z.ltb (m1 * 2 ^ (e1 - e)) (m2 * 2 ^ (e2 - e)).

Definition num_ltb (a b : num) : bool :=
  match a, b with
  | NNaN, _ | _, NNaN => false
  | NNInf, NNInf => false
  | NNInf, _ => true
  | _, NNInf => false
  | NPInf, _ => false
  | _, NPInf => true
  | NFin m1 e1, NFin m2 e2 => fin_ltb m1 e1 m2 e2
  end.

Definition onum_eqb (a b : option num) : bool :=
  match a, b with Some x, Some y => num_eqb x y | None, None => true | _, _ => false end.

(* ---- dictionaries: association lists kept strictly sorted by key ------------------- *)
(* Python dict equality ignores insertion order; keeping keys sorted makes Coq equality
   coincide with it.  The order of keys is never observable through the modelled API. *)
Section Dict.
Context {V : Type}.
Fixpoint dget (k : str) (d : list (str * V)) : option V :=
  match d with
  | [] => None
  | (k', v) :: r => if str_eqb k k' then Some v else dget k r
  end.
Fixpoint dset (k : str) (v : V) (d : list (str * V)) : list (str * V) :=
  match d with
  | [] => [(k, v)]
  | (k', v') :: r => if str_eqb k k' then (k, v) :: r
                     else if str_ltb k k' then (k, v) :: (k', v') :: r
                     else (k', v') :: dset k v r
  end.
Fixpoint ddel (k : str) (d : list (str * V)) : list (str * V) :=
  match d with
  | [] => []
  | (k', v') :: r => if str_eqb k k' then r else (k', v') :: ddel k r
  end.
(* dict.update(other) *)
Definition dupdate (d other : list (str * V)) : list (str * V) :=
  fold_left (fun acc kv => dset (fst kv) (snd kv) acc) other d.
Definition dhas (k : str) (d : list (str * V)) : bool :=
  match dget k d with Some _ => true | None => false end.
Fixpoint dsorted (d : list (str * V)) : bool :=
  match d with
  | [] => true
  | (k, _) :: r => match r with [] => true | (k', _) :: _ => str_ltb k k' && dsorted r end
  end.
End Dict.

(* ---- sets of storage positions (Python set of int), as duplicate-free lists -------- *)
Definition mem (k : nat) (s : list nat) : bool := existsb (Nat.eqb k) s.
Fixpoint dedup (l : list nat) : list nat :=
  match l with [] => [] | x :: r => if mem x r then dedup r else x :: dedup r end.
Definition set_union (a b : list nat) : list nat := a ++ filter (fun x => negb (mem x a)) b.
Definition set_inter (a b : list nat) : list nat := filter (fun x => mem x b) a.
Definition set_compl (n : nat) (a : list nat) : list nat := filter (fun x => negb (mem x a)) (seq 0 n).

(* ---- stable insertion sort (list.sort / sorted are stable) ------------------------- *)
Section Sort.
Context {A : Type} (leb : A -> A -> bool).
Fixpoint insert_sorted (x : A) (l : list A) : list A :=
  match l with
  | [] => [x]
  | y :: r => if leb x y then x :: y :: r else y :: insert_sorted x r
  end.
(* fold from the right so that equal keys keep their original relative order *)
Definition stable_sort (l : list A) : list A := fold_right insert_sorted [] l.
End Sort.

(* sorted(set_of_strings): ascending, duplicates removed *)
Fixpoint sins (x : str) (l : list str) : list str :=
  match l with
  | [] => [x]
  | y :: r => if str_eqb x y then l else if str_ltb x y then x :: l else y :: sins x r
  end.
Definition sort_dedup (l : list str) : list str := fold_right sins [] l.

(* sorted(values, key=lambda x: (x is None, x)): strings ascending, None last, no duplicates *)
Definition sort_none_last (l : list (option str)) : list (option str) :=
  let ss := sort_dedup (flat_map (fun o => match o with Some s => [s] | None => [] end) l) in
  map Some ss ++ (if existsb (fun o => match o with None => true | _ => false end) l then [None] else []).

Definition opt_bind {A B} (m : option A) (f : A -> option B) : option B :=
  match m with Some a => f a | None => None end.
