(* Property C06 — a valid index is always equivalent to one rebuilt from storage.
   Index.v follows index.py (build, insert, remove, update/renumber, _reset, invalidate,
   search).  `Rep i pts` (IndexDefs.v) says that index i describes the stored points pts; it is
   a relation, not "equals a rebuild" (after a partial removal key order inside the maps
   differs from a rebuild's), and every answer is a function of it.
     Inv s = stored points well formed, and ix_valid -> Rep.
   C06_reachable: EVERY state reachable from an empty database through the public API
   satisfies Inv, for every history of any length whose operations are in their documented
   domain (wf_history: queries the DSL can build with total test functions; inserted points
   well formed and kept as they are by storage). *)
From Coq Require Import List ZArith NArith Bool.
From TF Require Import Base Query Index DB Spec proofs.IndexDefs proofs.IndexP proofs.RepP proofs.DBReadP proofs.DBRemoveP
     proofs.DBStepP proofs.DBRunP proofs.DBSpecP proofs.GetterP proofs.RefineP QueryObj SearchSem proofs.SearchGenP InsertSem proofs.InsertGenP IndexSem proofs.IndexGenP.
From TF Require gen.SearchGen gen.InsertGen gen.IndexGen.
Import ListNotations.

Theorem C06_reachable : forall E C norm, (forall p, wf_point p -> wf_point (norm p)) ->
  forall auto ops, wf_history E norm ops -> Inv (snd (run E C norm (init auto) ops)).
Proof. exact reachable_Inv. Qed.
Theorem C06_step : forall E C norm, (forall p, wf_point p -> wf_point (norm p)) ->
  forall s o, Inv s -> wf_op E norm o -> Inv (fst (step E C norm s o)).
Proof. exact step_Inv. Qed.
(* the whole API refines the list specification, from an empty database, for every history: Refinement.v *)
Theorem C06_refines_list_spec : forall E C norm, (forall p, wf_point p -> wf_point (norm p)) ->
  forall auto ops, wf_history_r E norm ops ->
  st_rows (snd (run E C norm (init auto) ops)) = snd (spec_run E C norm [] ops) /\
  Forall2 out_matches (fst (run E C norm (init auto) ops)) (fst (spec_run E C norm [] ops)).
Proof. exact refines_from_empty. Qed.
(* a described index and a rebuilt one give the same set of matches for every query the index serves *)
Theorem C06_valid_is_rebuilt_search : forall E i pts q, Rep i pts -> wf_points pts -> wf_query E q -> exact_for_index q = true ->
  exists a b, isearch E i q = Some a /\ isearch E (ix_build pts) q = Some b /\ NoDup a /\ NoDup b /\ forall k, In k a <-> In k b.
Proof. exact valid_is_rebuilt_search. Qed.
(* ... also for the search REGENERATED from tinyflux/index.py on every run (gen/SearchGen.v, proofs/SearchGenP.v) *)
Theorem C06_source_search_valid_is_rebuilt : forall E i pts q, Rep i pts -> wf_points pts -> wf_query E q -> exact_for_index q = true ->
  exists a b, option_map ir_items (SearchGen.search_helper E (q_size q) i q) = Some a /\
              option_map ir_items (SearchGen.search_helper E (q_size q) (ix_build pts) q) = Some b /\ NoDup a /\ NoDup b /\ forall k, In k a <-> In k b.
Proof. exact gen_search_valid_is_rebuilt. Qed.
(* ... and the same keys, values, timestamps and length *)
Theorem C06_valid_is_rebuilt_getters : forall i pts, Rep i pts -> wf_points pts ->
  ix_get_measurements i = ix_get_measurements (ix_build pts) /\
  (forall m, ix_get_tag_keys i m = ix_get_tag_keys (ix_build pts) m) /\
  (forall m, ix_get_field_keys i m = ix_get_field_keys (ix_build pts) m) /\
  (forall k m, ix_get_field_values i k m = ix_get_field_values (ix_build pts) k m) /\
  (forall ks m, ix_get_tag_values i ks m = ix_get_tag_values (ix_build pts) ks m) /\
  (forall m, ix_get_timestamps i m = ix_get_timestamps (ix_build pts) m) /\
  ix_n i = ix_n (ix_build pts).
Proof. exact getters_as_rebuilt. Qed.
(* incremental maintenance: each step keeps the description *)
Theorem C06_build : forall pts, wf_points pts -> Rep (ix_build pts) pts.
Proof. exact Rep_build. Qed.
Theorem C06_insert : forall i pts p, Rep i pts -> wf_point p -> (forall t, In t (ix_ts i) -> (t <= p_time p)%Z) -> Rep (ix_insert i p) (pts ++ [p]).
Proof. exact Rep_insert. Qed.
Theorem C06_remove : forall i pts (rm : nat -> bool) nrm, Rep i pts -> nrm = length (filter rm (seq 0 (length pts))) ->
  Rep (ix_renumber (ix_remove i rm nrm) (renum rm)) (keep_rows rm pts).
Proof. exact Rep_remove. Qed.
Theorem C06_reset : forall v, Rep (ix_empty_valid v) [].
Proof. exact Rep_empty. Qed.
(* with automatic indexing on, any read leaves the index valid *)
Theorem C06_read_leaves_valid : forall s, st_auto s = true -> ix_valid (st_idx (read_prelude s)) = true.
Proof. exact read_prelude_valid. Qed.

(* what an insert decides - the point as stored under the measurement argument, what happens to the index after each appended point (kept and
   fed / dropped because the point is earlier than the newest indexed one / dropped because automatic indexing is off), the statement after the
   loop - REGENERATED from TinyFlux._insert_helper on every run (gen/InsertGen.v) and assembled into the insert loop, is the model's db_insert for
   every state, batch and measurement argument: C06_step and C06_reachable (the invariant through inserts) speak about these decisions *)
Theorem C06_source_insert_is_the_model : forall norm s ps m, gen_insert norm s ps m = db_insert norm s ps m.
Proof. exact gen_insert_eq. Qed.
Theorem C06_source_insert_index_step : forall auto ix p,
  InsertGen.gen_index_step auto ix p =
  if auto && ix_valid ix then
    (if negb (ix_is_empty ix) && match ix_latest ix with Some t => Z.ltb (p_time p) t | None => false end then ix_invalidate ix else ix_insert ix p)
  else if ix_valid ix then ix_invalidate ix else ix.
Proof. exact gen_index_step_eq. Qed.

(* the MAINTENANCE of the index as tinyflux/index.py defines it now - __init__, _reset, invalidate, the _insert_ methods, insert, build, the _remove_
   methods, remove, the _update_ methods, update, COMPILED from the source on every run into state-passing functions over the attributes of the object
   (gen/IndexGen.v; dicts as insertion-ordered association lists, the tag map a dict of dicts as in the source) - is the model's maintenance through
   the abstraction IndexSem.abs: equal attribute by attribute, the tag map up to the order of its keys (ix_eqv), which `Rep` does not see.  Hence the
   object the source maintains describes the stored points after every build, in-order insert, removal with renumbering, and reset: incremental
   maintenance never drifts from a rebuild (C06_valid_is_rebuilt_search / _getters apply to any index that satisfies Rep).  gwf = the keys of every dict
   are pairwise distinct (true of any Python dict; an invariant of every translated method). *)
Theorem C06_source_index_reset_is_the_model : forall g, abs (IndexGen.gen__reset g) = ix_reset (abs g).
Proof. exact gen_reset_eq. Qed.
Theorem C06_source_index_invalidate_is_the_model : forall g, abs (IndexGen.gen_invalidate g) = ix_invalidate (abs g).
Proof. exact gen_invalidate_eq. Qed.
Theorem C06_source_index_init_is_the_model : forall g v, abs (IndexGen.gen___init__ g v) = ix_empty_valid v.
Proof. exact gen_init_eq. Qed.
Theorem C06_source_index_insert_is_the_model : forall g p, gwf g -> gwf (IndexGen.gen_insert g [p]) /\ ix_eqv (abs (IndexGen.gen_insert g [p])) (ix_insert (abs g) p).
Proof. exact gen_insert_one. Qed.
Theorem C06_source_index_build_is_the_model : forall g pts, gwf (IndexGen.gen_build g pts) /\ ix_eqv (abs (IndexGen.gen_build g pts)) (ix_build pts).
Proof. exact gen_build_eqv. Qed.
Theorem C06_source_index_remove_is_the_model : forall g r, gwf g ->
  gwf (IndexGen.gen_remove g r) /\ abs (IndexGen.gen_remove g r) = ix_remove (abs g) (fun i => mem i r) (length r).
Proof. exact gen_remove_eq. Qed.
Theorem C06_source_index_update_is_the_model : forall g u, gwf g ->
  gwf (IndexGen.gen_update g u) /\ abs (IndexGen.gen_update g u) = ix_renumber (abs g) (newpos u).
Proof. exact gen_update_eq. Qed.
Theorem C06_source_index_remove_update_is_the_model : forall g r u f, gwf g -> (forall k, mem k r = false -> newpos u k = f k) ->
  gwf (IndexGen.gen_update (IndexGen.gen_remove g r) u) /\
  abs (IndexGen.gen_update (IndexGen.gen_remove g r) u) = ix_renumber (ix_remove (abs g) (fun i => mem i r) (length r)) f.
Proof. exact gen_remove_update_eq. Qed.
Theorem C06_source_index_eqv_keeps_rep : forall a b pts, ix_eqv a b -> Rep a pts -> Rep b pts.
Proof. exact Rep_eqv. Qed.
Theorem C06_source_index_build : forall g pts, wf_points pts ->
  gwf (IndexGen.gen_build g pts) /\ Rep (abs (IndexGen.gen_build g pts)) pts /\ ix_valid (abs (IndexGen.gen_build g pts)) = true.
Proof. exact source_build_rep. Qed.
Theorem C06_source_index_insert : forall g pts p, gwf g -> Rep (abs g) pts -> wf_point p -> (forall t, In t (_timestamps g) -> (t <= p_time p)%Z) ->
  gwf (IndexGen.gen_insert g [p]) /\ Rep (abs (IndexGen.gen_insert g [p])) (pts ++ [p]) /\ ix_valid (abs (IndexGen.gen_insert g [p])) = ix_valid (abs g).
Proof. exact source_insert_rep. Qed.
Theorem C06_source_index_remove : forall g pts r u, gwf g -> Rep (abs g) pts -> length r = length (filter (fun i => mem i r) (seq 0 (length pts))) ->
  (forall k, mem k r = false -> newpos u k = renum (fun i => mem i r) k) ->
  gwf (IndexGen.gen_update (IndexGen.gen_remove g r) u) /\ Rep (abs (IndexGen.gen_update (IndexGen.gen_remove g r) u)) (keep_rows (fun i => mem i r) pts) /\
  ix_valid (abs (IndexGen.gen_update (IndexGen.gen_remove g r) u)) = ix_valid (abs g).
Proof. exact source_remove_rep. Qed.
Theorem C06_source_index_reset : forall g, gwf (IndexGen.gen__reset g) /\ Rep (abs (IndexGen.gen__reset g)) [] /\ ix_valid (abs (IndexGen.gen__reset g)) = true.
Proof. exact source_reset_rep. Qed.
Theorem C06_source_index_init : forall g v, gwf (IndexGen.gen___init__ g v) /\ Rep (abs (IndexGen.gen___init__ g v)) [] /\ ix_valid (abs (IndexGen.gen___init__ g v)) = v.
Proof. exact source_init_rep. Qed.

Print Assumptions C06_reachable.
Print Assumptions C06_step.
Print Assumptions C06_refines_list_spec.
Print Assumptions C06_valid_is_rebuilt_search.
Print Assumptions C06_source_search_valid_is_rebuilt.
Print Assumptions C06_valid_is_rebuilt_getters.
Print Assumptions C06_build.
Print Assumptions C06_insert.
Print Assumptions C06_remove.
Print Assumptions C06_reset.
Print Assumptions C06_read_leaves_valid.
Print Assumptions C06_source_insert_is_the_model.
Print Assumptions C06_source_insert_index_step.
Theorem C06_source_index_empty_is_the_model : forall g, tne (_tags g) -> IndexGen.gen_empty g = ix_is_empty (abs g).
Proof. exact gen_empty_eq. Qed.

Print Assumptions C06_source_index_reset_is_the_model.
Print Assumptions C06_source_index_invalidate_is_the_model.
Print Assumptions C06_source_index_init_is_the_model.
Print Assumptions C06_source_index_insert_is_the_model.
Print Assumptions C06_source_index_build_is_the_model.
Print Assumptions C06_source_index_remove_is_the_model.
Print Assumptions C06_source_index_update_is_the_model.
Print Assumptions C06_source_index_remove_update_is_the_model.
Print Assumptions C06_source_index_eqv_keeps_rep.
Print Assumptions C06_source_index_build.
Print Assumptions C06_source_index_insert.
Print Assumptions C06_source_index_remove.
Print Assumptions C06_source_index_reset.
Print Assumptions C06_source_index_init.
Print Assumptions C06_source_index_empty_is_the_model.
