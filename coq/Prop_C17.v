(* Property C17 — queries that compare equal behave identically.
   `qeq` follows SimpleQuery.__eq__ / CompoundQuery.__eq__ over the `_hash` tuples (`qhash`,
   two-element frozensets compared as sets).  Soundness holds for every environment, every
   pair of expressions of any depth, every point. *)
From Coq Require Import List ZArith NArith Bool.
From TF Require Import Base Query Index DB Spec proofs.QueryP QuerySem proofs.QueryGenP.
From TF Require gen.QueryGen.
Import ListNotations.

Theorem C17_eq_sound : forall E q1 q2, qeq q1 q2 = true -> forall p, eval E q1 p = eval E q2 p.
Proof. exact qeq_sound. Qed.
(* equal queries have equal _hash tuples (Python then guarantees equal hash()) *)
Theorem C17_hash : forall q1 q2, qeq q1 q2 = true ->
  exists h1 h2, qhash q1 = Some h1 /\ qhash q2 = Some h2 /\ hv_eqb h1 h2 = true.
Proof. exact qeq_hash. Qed.
(* a & b == b & a and a | b == b | a for hashable operands whose comparison values are
   reflexive under == (hv_refl_ok: no NaN and no dict as a comparison value; Python's tuple
   equality has the same NaN caveat) *)
Theorem C17_and_comm : forall a b ha hb, qhash a = Some ha -> qhash b = Some hb ->
  hv_refl_ok ha = true -> hv_refl_ok hb = true -> qeq (QAnd a b) (QAnd b a) = true.
Proof. exact qeq_and_comm_ok_alt. Qed.
Theorem C17_or_comm : forall a b ha hb, qhash a = Some ha -> qhash b = Some hb ->
  hv_refl_ok ha = true -> hv_refl_ok hb = true -> qeq (QOr a b) (QOr b a) = true.
Proof. exact qeq_or_comm_ok_alt. Qed.
Theorem C17_map_never_equal : forall q q', has_map q = true -> qeq q q' = false /\ qeq q' q = false.
Proof. exact map_never_equal. Qed.
Theorem C17_noop_never_equal : forall a q, qeq (QNoop a) q = false /\ qeq q (QNoop a) = false.
Proof. exact noop_never_equal. Qed.
(* the identity of query objects REGENERATED from tinyflux/queries.py on every run (gen/QueryGen.v: the `_hash` key built by every
   comparison, exists, matches, search, test, noop, by &, | and ~ of both classes, the hashability rules, __eq__ of both classes):
   Python's == on the keys the source builds is the model's hv_eqb; the key of a query built the way the DSL builds it is the model's
   qhash; q1 == q2 as the source decides it is the model's qeq - for every pair of queries.  With C17_eq_sound: queries the SOURCE calls
   equal evaluate alike on every point. *)
Theorem C17_source_keys_are_the_model : forall x y, pyh_eqb (enc x) (enc y) = hv_eqb x y.
Proof. exact enc_eqb. Qed.
Theorem C17_source_hash_is_the_model : forall q, gen_qhash q = enc_o (qhash q).
Proof. exact gen_qhash_eq. Qed.
Theorem C17_source_identity_is_the_model : forall q1 q2, gen_qeq q1 q2 = qeq q1 q2.
Proof. exact gen_qeq_eq. Qed.
Theorem C17_source_equal_queries_behave_alike : forall E q1 q2, gen_qeq q1 q2 = true -> forall p, eval E q1 p = eval E q2 p.
Proof. exact gen_qeq_sound. Qed.
Example C17_nonvacuous : exists q1 q2, q1 <> q2 /\ qeq q1 q2 = true.
Proof. exact qeq_example. Qed.

Print Assumptions C17_eq_sound.
Print Assumptions C17_hash.
Print Assumptions C17_and_comm.
Print Assumptions C17_or_comm.
Print Assumptions C17_map_never_equal.
Print Assumptions C17_noop_never_equal.
Print Assumptions C17_source_keys_are_the_model.
Print Assumptions C17_source_hash_is_the_model.
Print Assumptions C17_source_identity_is_the_model.
Print Assumptions C17_source_equal_queries_behave_alike.
