(* UpdArgSem.v — the primitives gen/UpdArgGen.v (the argument checks of TinyFlux._generate_updater, generated from tinyflux/database.py) needs beside
   ValidSem.v: isinstance(x, Iterable) and iteration, on the values the checks can tell apart.  Definitions only. *)
From Coq Require Import List ZArith NArith Bool.
From TF Require Import Base Valid ValidSem.
Import ListNotations.

(* collections.abc.Iterable: str, bytes, list / tuple, dict (a callable, a datetime, a number, None, a Point are not) *)
Definition is_iterable (v : pyval) : bool := match v with PvStr _ | PvBytes _ | PvList _ | PvDict _ => true | _ => false end.
(* what iterating yields: a list its elements, a dict its keys, a str its characters (as one-character strs), bytes its bytes (as ints) *)
Definition pv_iter (v : pyval) : list pyval :=
  match v with
  | PvList l => l | PvDict d => map fst d
  | PvStr s => map (fun c => PvStr [c]) s | PvBytes s => map (fun c => PvInt (Z.of_N c)) s
  | _ => []
  end.
