(* SearchSem.v — the primitives gen/SearchGen.v (generated from tinyflux/index.py: IndexResult.__invert__ / __and__ /
   __or__, Index._search_helper, Index._search_timestamps) is written with: Python set expressions on position sets,
   the IndexResult object as a pair, the attributes of a query object that index.py reads (_operator, _rhs, _hash == (),
   _path_resolver / _test), the three inverted-map searches, and the two loop idioms of _search_timestamps.
   Definitions only. *)
From Coq Require Import List ZArith NArith Bool Arith.
From TF Require Import Base Bisect UtilsHand Query Index QueryObj.
Import ListNotations.

(* IndexResult(items, index_count) *)
Definition iresult := (list nat * nat)%type.
Definition ir_items (r : iresult) : list nat := fst r.
Definition ir_count (r : iresult) : nat := snd r.
Definition mk_ir (items : list nat) (n : nat) : iresult := (items, n).

(* set(range(n)), a.difference(b); intersection / union are Base.set_inter / set_union *)
Definition set_range (n : nat) : list nat := seq 0 n.
Definition set_difference (a b : list nat) : list nat := filter (fun x => negb (mem x b)) a.
(* set(list) *)
Definition set_of (l : list nat) : list nat := dedup l.
(* lst[: k], lst[k :] for a non-negative k *)
Definition slice_to {A} (l : list A) (k : Z) : list A := firstn (Z.to_nat k) l.
Definition slice_from {A} (l : list A) (k : Z) : list A := skipn (Z.to_nat k) l.

(* query._hash == ()  : only noop() carries the empty tuple *)
Definition q_hash_is_empty (q : query) : bool := match q with QNoop _ => true | _ => false end.
(* query._operator == operator.<c> : only a comparison built by ==, !=, <, <=, >, >= carries a function of `operator` *)
Definition q_op_is (q : query) (c : cmp) : bool := match q with QS _ _ (TCmp c' _) => cmp_eqb c c' | _ => false end.
(* the same test after `if not isinstance(rhs, datetime): op = None`: only a comparison that carries a datetime *)
Definition q_op_is_dt (q : query) (c : cmp) : bool := match q with QS _ _ (TCmp c' (VTime _)) => cmp_eqb c c' | _ => false end.
(* query._rhs.timestamp() : None = AttributeError (the comparison value is not a datetime) *)
Definition q_rhs_stamp (q : query) : option Z := match q with QS _ _ (TCmp _ (VTime t)) => Some t | _ => None end.
(* query._path_resolver / query._test of a SimpleQuery; noop: identity / lambda _: True *)
Definition q_path (q : query) : option (list part) := match q with QS _ p _ => Some p | QNoop _ => Some [] | _ => None end.
Definition q_test (q : query) : option test := match q with QS _ _ t => Some t | QNoop _ => Some TExists | _ => None end.

Section Sem.
Variable E : env.

Definition with_pt (q : query) (f : list part -> test -> sres) : sres :=
  match q_path q, q_test q with Some p, Some t => f p t | _, _ => None end.

(* Index._search_measurement / _search_tags / _search_fields (query): loops over the inverted maps *)
Definition m_search_measurement (i : index) (q : query) : sres :=
  with_pt q (fun path t => search_scan E false path t (map (fun kb => (VStr (fst kb), positions (snd kb))) (ix_meas i)) []).
Definition m_search_tags (i : index) (q : query) : sres :=
  with_pt q (fun path t => search_scan E false path t
     (map (fun kb => (VDict [(fst (fst kb), tagval (snd (fst kb)))], positions (snd kb))) (ix_tags i)) []).
Definition m_search_fields (i : index) (q : query) : sres :=
  with_pt q (fun path t => search_scan E false path t
     (flat_map (fun kb => map (fun iv => (VDict [(fst kb, fieldval (snd iv))], [fst iv])) (snd kb)) (ix_fields i)) []).

(* idiom 1 of _search_timestamps (recognised structurally by the translator):
     results = set([pos[match]]); match += 1
     while match < len(ts): if ts[match] != x: break; results.add(pos[match]); match += 1
   = the positions of the run of stamps equal to x that starts at `match` *)
Definition eq_run_from (i : index) (x : Z) (m : Z) : list nat :=
  set_of (eq_run x (skipn (Z.to_nat m) (combine (ix_ts i) (ix_pos i)))).
(* idiom 2: for idx, timestamp in zip(pos, ts): if query._test(query._path_resolver(<datetime of timestamp>)): items.add(idx) *)
Definition time_scan (i : index) (q : query) : sres :=
  with_pt q (fun path t => search_scan E true path t (map (fun tp => (VTime (fst tp), [snd tp])) (combine (ix_ts i) (ix_pos i))) []).

Definition find_res (r : Bisect.res) (k : option Z -> sres) : sres := match r with Ret o => k o | Raise => None end.
End Sem.
