(* Fallback for C18: the same theorems about the hand model UtilsHand.v (used for the tie by
   exhaustive correspondence when tinyflux/utils.py no longer translates or re-proves). *)
From Coq Require Import List ZArith Bool.
From TF Require Import Bisect UtilsHand proofs.BisectP proofs.UtilsHandP.

Section C18_hand.
Context {T : Type} (ltb eqb : T -> T -> bool).
Hypothesis ltb_negtrans : forall a b c, ltb a c = true -> ltb a b = true \/ ltb b c = true.
Hypothesis eqb_spec : forall a b, eqb a b = true <-> ltb a b = false /\ ltb b a = false.
Theorem C18h_find_eq : forall l x, sorted ltb l -> leftmost (fun a => eqb a x) l (find_eq ltb eqb l x).
Proof. exact (find_eq_spec ltb eqb ltb_negtrans eqb_spec). Qed.
Theorem C18h_find_lt : forall l x, sorted ltb l -> rightmost (fun a => ltb a x) l (find_lt ltb l x).
Proof. exact (find_lt_spec ltb ltb_negtrans). Qed.
Theorem C18h_find_le : forall l x, sorted ltb l -> rightmost (fun a => negb (ltb x a)) l (find_le ltb l x).
Proof. exact (find_le_spec ltb ltb_negtrans). Qed.
Theorem C18h_find_gt : forall l x, sorted ltb l -> leftmost (fun a => ltb x a) l (find_gt ltb l x).
Proof. exact (find_gt_spec ltb ltb_negtrans). Qed.
Theorem C18h_find_ge : forall l x, sorted ltb l -> leftmost (fun a => negb (ltb a x)) l (find_ge ltb l x).
Proof. exact (find_ge_spec ltb ltb_negtrans). Qed.
End C18_hand.
Print Assumptions C18h_find_eq.
