(* Property C01 — query results equal exactly the stored points that satisfy the query.
   DB.v follows database.py read path by read path (index-served and storage scan, the early
   exits, the "index says all of them -> scan" fallback); Spec.v says what the answer must be:
   filter by the documented meaning, in storage order (sorted: stable time sort).
   Everything holds for every environment of user callables / regexes, every query of any
   depth, every list of stored points and every index that describes it.
     Inv s        = stored points are well formed and an index flagged valid describes them;
     index_safe q = whenever the code's own guard (index_is_exact) sends q to the index, q has a
                    shape the index answers exactly.  The two known findings F21 (a map() in a
                    TimeQuery path) and F24 (a tag/field path that starts with map()) are the
                    shapes outside it: for them see C01_refuted_* below. *)
From Coq Require Import List ZArith NArith Bool.
From TF Require Import Base Query Index DB Spec proofs.QueryP proofs.IndexDefs proofs.ScanP proofs.IndexP
     proofs.RepP proofs.DBReadP.
Import ListNotations.

Theorem C01_search_exact : forall E s q m srt, Inv s -> wf_query E q -> index_safe q ->
  db_search E s q m srt = (read_prelude s, OPoints (spec_search E q m srt (st_rows s))).
Proof. exact (fun E => db_search_spec E Rep_build). Qed.
Theorem C01_count_exact : forall E s q m, Inv s -> wf_query E q -> index_safe q ->
  db_count E s q m = (read_prelude s, ONat (spec_count E q m (st_rows s))).
Proof. exact (fun E => db_count_spec E Rep_build). Qed.
Theorem C01_contains_exact : forall E s q m, Inv s -> wf_query E q -> index_safe q ->
  db_contains E s q m = (read_prelude s, OBool (spec_contains E q m (st_rows s))).
Proof. exact (fun E => db_contains_spec E Rep_build). Qed.
Theorem C01_get_exact : forall E s q m, Inv s -> wf_query E q -> index_safe q ->
  db_get E s q m = (read_prelude s, OPoint (spec_get E q m (st_rows s))).
Proof. exact (fun E => db_get_spec E Rep_build). Qed.

(* the index alone: a duplicate-free set of positions that is exactly the set of matches *)
Theorem C01_index_exact : forall E i pts q, Rep i pts -> wf_points pts -> wf_query E q -> exact_for_index q = true ->
  exists items, isearch E i q = Some items /\ NoDup items /\
    forall k, In k items <-> exists p, nth_error pts k = Some p /\ eval E q p = RB true.
Proof. exact isearch_exact. Qed.
(* the scan alone, unconditionally: every query, every list of rows *)
Theorem C01_scan_exact : forall E q m rows, wf_query E q -> scan_filter E q m rows = Some (filter (hit E q m) rows).
Proof. exact scan_filter_spec. Qed.

Print Assumptions C01_search_exact.
Print Assumptions C01_count_exact.
Print Assumptions C01_contains_exact.
Print Assumptions C01_get_exact.
Print Assumptions C01_index_exact.
Print Assumptions C01_scan_exact.
