(* Property C01 — query results equal exactly the stored points that satisfy the query.
   DB.v follows database.py read path by read path (index-served and storage scan, the early
   exits, the "index says all of them -> scan" fallback); Spec.v says what the answer must be:
   filter by the documented meaning, in storage order (sorted: stable time sort).
   Everything holds for every environment of user callables / regexes, every query of any
   depth, every list of stored points and every index that describes it.
     Inv s        = stored points are well formed and an index flagged valid describes them;
     index_safe q = whenever the code's own guard (index_is_exact) sends q to the index, q has a
                    shape the index answers exactly.  Every query the DSL can build is index_safe
                    (C01_dsl_is_index_safe; queries with a map() in their path are sent to the scan
                    since the repair of F21/F24). *)
From Coq Require Import List ZArith NArith Bool.
From TF Require Import Base Query Index DB Spec proofs.QueryP proofs.IndexDefs proofs.ScanP proofs.IndexP
     proofs.RepP proofs.DBReadP proofs.SelectP proofs.TimeP QueryObj proofs.GuardGenP proofs.LawsP proofs.DBStepP SearchSem proofs.SearchGenP ReadSem proofs.ReadGenP.
From TF Require gen.GuardGen gen.SearchGen gen.ReadGen.
Import ListNotations.

Theorem C01_search_exact : forall E s q m srt, Inv s -> wf_query E q -> index_safe q ->
  db_search E s q m srt = (read_prelude s, OPoints (spec_search E q m srt (st_rows s))).
Proof. exact (fun E => db_search_spec E Rep_build). Qed.
Theorem C01_count_exact : forall E s q m, Inv s -> wf_query E q -> index_safe q ->
  db_count E s q m = (read_prelude s, ONat (spec_count E q m (st_rows s))).
Proof. exact (fun E => db_count_spec E Rep_build). Qed.
Theorem C01_contains_exact : forall E s q m, Inv s -> wf_query E q -> index_safe q ->
  db_contains E s q m = (read_prelude s, OBool (spec_contains E q m (st_rows s))).
Proof. exact (fun E => db_contains_spec E Rep_build). Qed.
Theorem C01_get_exact : forall E s q m, Inv s -> wf_query E q -> index_safe q ->
  db_get E s q m = (read_prelude s, OPoint (spec_get E q m (st_rows s))).
Proof. exact (fun E => db_get_spec E Rep_build). Qed.

Theorem C01_select_exact : forall E s ks q m, Inv s -> wf_query E q -> index_safe q ->
  db_select E s (Some ks) q m = (read_prelude s, OSel (spec_select E ks q m (st_rows s))).
Proof. exact db_select_spec. Qed.
(* an insert shows: len grows by the number of points and every later search answers the old answer followed by the matching new points *)
Theorem C01_insert_shows : forall E norm s ps m q mf, Inv s -> wf_insert norm ps m -> all_points ps = true ->
  let s' := fst (db_insert norm s ps m) in
  length (st_rows s') = length (st_rows s) + length ps /\
  spec_search E q mf false (st_rows s') = spec_search E q mf false (st_rows s) ++ spec_search E q mf false (map (rename m) (prefix_points ps)).
Proof. exact insert_shows. Qed.
(* the key strings of select: "time", "measurement", "tags.<key>", "fields.<key>" (non-empty key) are accepted and mean that attribute;
   everything else is rejected (the model parses the strings the caller hands in) *)
Theorem C01_select_keys_parse : forall ks, Forall selkey_ok ks -> parse_selkeys (map print_selkey ks) = Some ks.
Proof. exact parse_print_selkeys. Qed.
Theorem C01_select_key_sound : forall s k, parse_selkey s = Some k -> print_selkey k = s /\ selkey_ok k.
Proof. exact parse_selkey_sound. Qed.
(* every query the DSL can build is index_safe: the code's own guard sends it to the index only if the index answers it exactly *)
Theorem C01_dsl_is_index_safe : forall q, dsl_query q = true -> index_safe q.
Proof. exact dsl_index_safe. Qed.
(* count / contains / get / select speak about the same points as search; sorted output is a permutation of the
   unsorted one, in time order, stable (equal instants keep insertion order) *)
Theorem C01_reads_agree : forall E q m db,
  spec_count E q m db = length (spec_search E q m false db) /\
  spec_contains E q m db = negb (match spec_search E q m false db with [] => true | _ => false end) /\
  spec_get E q m db = hd_error (spec_search E q m false db) /\
  (forall ks, spec_select E ks q m db = map (spec_project ks) (spec_search E q m false db)) /\
  Permutation.Permutation (spec_search E q m true db) (spec_search E q m false db).
Proof. exact reads_agree. Qed.
Theorem C01_sorted_in_time_order : forall l, Sorted.StronglySorted (fun a b => (p_time a <= p_time b)%Z) (sort_points l).
Proof. exact sort_points_sorted. Qed.
Theorem C01_sorted_stable : forall l t, filter (fun p => Z.eqb (p_time p) t) (sort_points l) = filter (fun p => Z.eqb (p_time p) t) l.
Proof. exact sort_points_stable. Qed.

(* the guard REGENERATED from tinyflux/database.py on every run (gen/GuardGen.v) is the model's guard, for every query *)
Theorem C01_source_guard_is_the_model : forall q, GuardGen.index_is_exact (q_size q) q = index_is_exact q.
Proof. exact gen_index_is_exact_size. Qed.

(* what the index answers, REGENERATED from tinyflux/index.py on every run (gen/SearchGen.v: IndexResult's set algebra, the dispatch of
   Index._search_helper over the query object, the operator dispatch of Index._search_timestamps onto find_* and slices), is the
   model's isearch for every index and every query; hence Index.search(query).items as the source computes it is exact *)
Theorem C01_source_index_search_is_the_model : forall E i q,
  option_map ir_items (SearchGen.search_helper E (q_size q) i q) = isearch E i q.
Proof. exact gen_search_items. Qed.
Theorem C01_source_index_search_exact : forall E i pts q, Rep i pts -> wf_points pts -> wf_query E q -> exact_for_index q = true ->
  exists items, option_map ir_items (SearchGen.search_helper E (q_size q) i q) = Some items /\ exact_answer E pts q items.
Proof. exact gen_search_exact. Qed.

(* what a query-driven read decides, REGENERATED from tinyflux/database.py on every run (gen/ReadGen.v: the read_op decorator with reindex; contains,
   count, get and search executed symbolically - is the index asked, with which query, what if it names no position or every position, which
   storage loop runs - a scan that filters by measurement and evaluates the query, or a walk over the rows the index named - and is the result
   sorted), is the model's read for every state, query, measurement argument and sort flag; hence the functions as the source defines them,
   decorator included, answer the specification *)
Theorem C01_source_prelude_is_the_model : forall s, ReadGen.gen_read_prelude s = read_prelude s.
Proof. exact gen_read_prelude_eq. Qed.
Theorem C01_source_search_is_the_model : forall E s q m srt, db_search E s q m srt = (read_prelude s, ReadGen.gen_search E (read_prelude s) q m srt).
Proof. exact gen_search_eq. Qed.
Theorem C01_source_count_is_the_model : forall E s q m, db_count E s q m = (read_prelude s, ReadGen.gen_count E (read_prelude s) q m).
Proof. exact gen_count_eq. Qed.
Theorem C01_source_get_is_the_model : forall E s q m, db_get E s q m = (read_prelude s, ReadGen.gen_get E (read_prelude s) q m).
Proof. exact gen_get_eq. Qed.
Theorem C01_source_contains_is_the_model : forall E s q m, db_contains E s q m = (read_prelude s, ReadGen.gen_contains E (read_prelude s) q m).
Proof. exact gen_contains_eq. Qed.
Theorem C01_source_search_exact : forall E s q m srt, Inv s -> wf_query E q -> index_safe q ->
  ReadGen.gen_search E (ReadGen.gen_read_prelude s) q m srt = OPoints (spec_search E q m srt (st_rows s)).
Proof. exact gen_search_spec. Qed.
Theorem C01_source_count_exact : forall E s q m, Inv s -> wf_query E q -> index_safe q ->
  ReadGen.gen_count E (ReadGen.gen_read_prelude s) q m = ONat (spec_count E q m (st_rows s)).
Proof. exact gen_count_spec. Qed.
Theorem C01_source_get_exact : forall E s q m, Inv s -> wf_query E q -> index_safe q ->
  ReadGen.gen_get E (ReadGen.gen_read_prelude s) q m = OPoint (spec_get E q m (st_rows s)).
Proof. exact gen_get_spec. Qed.
Theorem C01_source_contains_exact : forall E s q m, Inv s -> wf_query E q -> index_safe q ->
  ReadGen.gen_contains E (ReadGen.gen_read_prelude s) q m = OBool (spec_contains E q m (st_rows s)).
Proof. exact gen_contains_spec. Qed.

(* the index alone: a duplicate-free set of positions that is exactly the set of matches *)
Theorem C01_index_exact : forall E i pts q, Rep i pts -> wf_points pts -> wf_query E q -> exact_for_index q = true ->
  exists items, isearch E i q = Some items /\ NoDup items /\
    forall k, In k items <-> exists p, nth_error pts k = Some p /\ eval E q p = RB true.
Proof. exact isearch_exact. Qed.
(* the scan alone, unconditionally: every query, every list of rows *)
Theorem C01_scan_exact : forall E q m rows, wf_query E q -> scan_filter E q m rows = Some (filter (hit E q m) rows).
Proof. exact scan_filter_spec. Qed.

Print Assumptions C01_search_exact.
Print Assumptions C01_count_exact.
Print Assumptions C01_contains_exact.
Print Assumptions C01_get_exact.
Print Assumptions C01_select_exact.
Print Assumptions C01_insert_shows.
Print Assumptions C01_select_keys_parse.
Print Assumptions C01_select_key_sound.
Print Assumptions C01_dsl_is_index_safe.
Print Assumptions C01_reads_agree.
Print Assumptions C01_sorted_stable.
Print Assumptions C01_source_guard_is_the_model.
Print Assumptions C01_source_index_search_is_the_model.
Print Assumptions C01_source_index_search_exact.
Print Assumptions C01_index_exact.
Print Assumptions C01_scan_exact.
Print Assumptions C01_source_prelude_is_the_model.
Print Assumptions C01_source_search_is_the_model.
Print Assumptions C01_source_count_is_the_model.
Print Assumptions C01_source_get_is_the_model.
Print Assumptions C01_source_contains_is_the_model.
Print Assumptions C01_source_search_exact.
Print Assumptions C01_source_count_exact.
Print Assumptions C01_source_get_exact.
Print Assumptions C01_source_contains_exact.
