(* Spec.v — the abstract specification, meant to be read in minutes.  The database IS the
   list of stored points in insertion order; a query DENOTES a boolean function on points;
   search is filter, remove is filter-not, update is map, getters are folds.  Nothing here
   mentions the index, the two read paths, storage or exceptions inside the machinery. *)
From Coq Require Import List ZArith NArith Bool Arith.
From TF Require Import Base Query Index DB.
Import ListNotations.

(* insert: a point stored through measurement argument / handle `m` carries that name; insert_multiple
   stops at the first element that is not a Point *)
Definition rename (m : option str) (p : point) : point :=
  match truthy m with Some name => set_meas p name | None => p end.
Fixpoint prefix_points (ps : list (option point)) : list point :=
  match ps with Some p :: r => p :: prefix_points r | _ => [] end.
Definition all_points (ps : list (option point)) : bool := forallb (fun o => match o with Some _ => true | None => false end) ps.

Section Spec.
Variable E : env.
Variable C : cenv.

(* ---- the documented meaning of a query ------------------------------------------------- *)
Definition denote_test (t : test) (v : value) : bool :=
  match t with
  | TCmp c rhs => match pycmp c v rhs with Some b => b | None => false end   (* undefined comparison: false *)
  | TExists => true
  | TMatch re fl => match v with VStr s => rmatch E re fl s | _ => false end
  | TSearch re fl => match v with VStr s => rsearch E re fl s | _ => false end
  | TUser id => match tenv E id v with Some b => b | None => false end       (* wf: the function is total *)
  end.
Definition denote_simple (a : attr) (path : list part) (t : test) (p : point) : bool :=
  match resolve E path (attr_value a p) with
  | None => false                                    (* missing key / failing map: false, not an error *)
  | Some v => denote_test t v
  end.
Fixpoint denote (q : query) (p : point) : bool :=
  match q with
  | QS a path t => denote_simple a path t p
  | QNoop _ => true
  | QAnd l r => denote l p && denote r p
  | QOr l r => denote l p || denote r p
  | QNot q => negb (denote q p)
  end.

(* queries whose user test functions are total (the DSL's precondition for "never raises") *)
Definition wf_test (t : test) : Prop := match t with TUser id => forall v, tenv E id v <> None | _ => True end.
Fixpoint wf_query (q : query) : Prop :=
  match q with
  | QS _ _ t => wf_test t
  | QNoop _ => True
  | QAnd l r | QOr l r => wf_query l /\ wf_query r
  | QNot q => wf_query q
  end.

(* ---- reads ----------------------------------------------------------------------------- *)
Definition hit (q : query) (m : option str) (p : point) : bool := meas_pass m p && denote q p.

Definition spec_search q m (srt : bool) (db : list point) : list point :=
  let r := filter (hit q m) db in if srt then sort_points r else r.
Definition spec_count q m (db : list point) : nat := length (filter (hit q m) db).
Definition spec_contains q m (db : list point) : bool := existsb (hit q m) db.
Definition spec_get q m (db : list point) : option point := hd_error (filter (hit q m) db).
Definition spec_project (ks : list selkey) (p : point) : list value := proj None ks p.
Definition spec_select ks q m (db : list point) : list (list value) := map (spec_project ks) (filter (hit q m) db).
Definition spec_all (srt : bool) (db : list point) : list point := if srt then sort_points db else db.

(* ---- writes ---------------------------------------------------------------------------- *)
Definition spec_remove q m (db : list point) : list point * nat :=
  (filter (fun p => negb (hit q m p)) db, length (filter (hit q m) db)).
Definition spec_drop (name : str) (db : list point) : list point * nat :=
  spec_remove (QS AMeas [] (TCmp Ceq (VStr name))) (Some name) db.

(* update: every selected point is replaced by its updated version (None: some callable failed,
   nothing changes); the count is the number of points whose content changed *)
Fixpoint spec_update_rows (norm : point -> point) (sel : point -> bool) (u : updspec) (db : list point)
  : option (list point * nat) :=
  match db with
  | [] => Some ([], 0)
  | p :: r =>
    if sel p then
      match perform_update C u p with
      | UFail _ => None
      | UOk p' => match spec_update_rows norm sel u r with
                  | None => None
                  | Some (l, n) => if point_eqb p' p then Some (p :: l, n) else Some (norm p' :: l, S n)
                  end
      end
    else option_map (fun ln => (p :: fst ln, snd ln)) (spec_update_rows norm sel u r)
  end.

Definition spec_insert (norm : point -> point) (ps : list point) (m : option str) (db : list point) : list point :=
  db ++ map (fun p => norm (match truthy m with Some name => set_meas p name | None => p end)) ps.

(* ---- getters --------------------------------------------------------------------------- *)
Definition spec_measurements (db : list point) : list str := sort_dedup (map p_meas db).
Definition spec_tag_keys m (db : list point) : list str :=
  sort_dedup (flat_map (fun p => map fst (p_tags p)) (in_meas m db)).
Definition spec_field_keys m (db : list point) : list str :=
  sort_dedup (flat_map (fun p => map fst (p_fields p)) (in_meas m db)).
Definition spec_tag_values ks m (db : list point) : list (str * list (option str)) :=
  scan_tag_values ks (in_meas m db).
Definition spec_field_values k m (db : list point) : list (option num) :=
  flat_map (fun p => match dget k (p_fields p) with Some v => [v] | None => [] end) (in_meas m db).
Definition spec_timestamps m (db : list point) : list Z := map p_time (in_meas m db).
Definition spec_len (db : list point) : nat := length db.

(* ---- the whole API as one abstract step: the database is the list, nothing else ------------- *)
(* None = the specification does not constrain the output (index.valid is an implementation detail) *)
Definition restrict_hop (name : str) (h : hop) : op :=
  match h with
  | HLen => Count (QNoop AMeas) (Some name) | HIter => Search (QNoop AMeas) (Some name) false | HAll srt => Search (QNoop AMeas) (Some name) srt
  | HContains q => Contains q (Some name) | HCount q => Count q (Some name) | HGet q => Get q (Some name)
  | HSearch q srt => Search q (Some name) srt | HSelect ks q => Select ks q (Some name)
  | HGetFieldKeys => GetFieldKeys (Some name) | HGetFieldValues k => GetFieldValues k (Some name)
  | HGetTagKeys => GetTagKeys (Some name) | HGetTagValues ks => GetTagValues ks (Some name)
  | HGetTimestamps => GetTimestamps (Some name)
  | HInsert ps => Insert ps (Some name) | HRemove q => Remove q (Some name) | HRemoveAll => DropMeas name
  | HUpdate q u => Update q u (Some name) | HUpdateAll u => Update (QNoop AMeas) u (Some name)
  end.
Definition spec_update_step (norm : point -> point) (sel : point -> bool) (u : option updspec) (db : list point) : list point * option out :=
  match u with
  | None => (db, Some ORaise)
  | Some u => if upd_given u then match spec_update_rows norm sel u db with
                                  | Some (l, n) => (l, Some (ONat n)) | None => (db, Some ORaise) end
              else (db, Some ORaise)
  end.
Definition spec_flat (norm : point -> point) (db : list point) (o : op) : list point * option out :=
  match o with
  | Insert ps m => (db ++ map (rename m) (prefix_points ps), Some (if all_points ps then ONat (length ps) else ORaise))
  | Remove q m => (fst (spec_remove q m db), Some (ONat (snd (spec_remove q m db))))
  | DropMeas name => (fst (spec_drop name db), Some (ONat (snd (spec_drop name db))))
  | RemoveAll => ([], Some OUnit)
  | Update q u m => spec_update_step norm (hit q m) u db
  | UpdateAll u => spec_update_step norm (fun _ => true) u db
  | Search q m srt => (db, Some (OPoints (spec_search q m srt db)))
  | Count q m => (db, Some (ONat (spec_count q m db)))
  | Contains q m => (db, Some (OBool (spec_contains q m db)))
  | Get q m => (db, Some (OPoint (spec_get q m db)))
  | Select None _ _ => (db, Some ORaise)
  | Select (Some ks) q m => (db, Some (OSel (spec_select ks q m db)))
  | All srt => (db, Some (OPoints (spec_all srt db)))
  | Len => (db, Some (ONat (spec_len db)))
  | Iter => (db, Some (OPoints db))
  | GetMeasurements => (db, Some (OStrs (spec_measurements db)))
  | GetTagKeys m => (db, Some (OStrs (spec_tag_keys m db)))
  | GetTagValues ks m => (db, Some (OTagVals (spec_tag_values ks m db)))
  | GetFieldKeys m => (db, Some (OStrs (spec_field_keys m db)))
  | GetFieldValues k m => (db, Some (ONums (spec_field_values k m db)))
  | GetTimestamps m => (db, Some (OTimes (spec_timestamps m db)))
  | Reindex | Reopen _ => (db, Some OUnit)
  | IndexValid | Handle _ _ => (db, None)
  end.
(* a Measurement handle: len / iteration / all are the stored points of that name; everything else is the
   database operation with measurement = name *)
Definition spec_step (norm : point -> point) (db : list point) (o : op) : list point * option out :=
  match o with
  | Handle name HLen => (db, Some (ONat (length (filter (fun p => str_eqb (p_meas p) name) db))))
  | Handle name HIter => (db, Some (OPoints (filter (fun p => str_eqb (p_meas p) name) db)))
  | Handle name (HAll srt) => (db, Some (OPoints (let l := filter (fun p => str_eqb (p_meas p) name) db in if srt then sort_points l else l)))
  | Handle name h => spec_flat norm db (restrict_hop name h)
  | _ => spec_flat norm db o
  end.
Fixpoint spec_run (norm : point -> point) (db : list point) (ops : list op) : list (option out) * list point :=
  match ops with
  | [] => ([], db)
  | o :: r => let '(db', x) := spec_step norm db o in let '(xs, dbf) := spec_run norm db' r in (x :: xs, dbf)
  end.
End Spec.
