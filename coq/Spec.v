(* Spec.v — the abstract specification, meant to be read in minutes.  The database IS the
   list of stored points in insertion order; a query DENOTES a boolean function on points;
   search is filter, remove is filter-not, update is map, getters are folds.  Nothing here
   mentions the index, the two read paths, storage or exceptions inside the machinery. *)
From Coq Require Import List ZArith NArith Bool Arith.
From TF Require Import Base Query Index DB.
Import ListNotations.

Section Spec.
Variable E : env.
Variable C : cenv.

(* ---- the documented meaning of a query ------------------------------------------------- *)
Definition denote_test (t : test) (v : value) : bool :=
  match t with
  | TCmp c rhs => match pycmp c v rhs with Some b => b | None => false end   (* undefined comparison: false *)
  | TExists => true
  | TMatch re fl => match v with VStr s => rmatch E re fl s | _ => false end
  | TSearch re fl => match v with VStr s => rsearch E re fl s | _ => false end
  | TUser id => match tenv E id v with Some b => b | None => false end       (* wf: the function is total *)
  end.
Definition denote_simple (a : attr) (path : list part) (t : test) (p : point) : bool :=
  match resolve E path (attr_value a p) with
  | None => false                                    (* missing key / failing map: false, not an error *)
  | Some v => denote_test t v
  end.
Fixpoint denote (q : query) (p : point) : bool :=
  match q with
  | QS a path t => denote_simple a path t p
  | QNoop _ => true
  | QAnd l r => denote l p && denote r p
  | QOr l r => denote l p || denote r p
  | QNot q => negb (denote q p)
  end.

(* queries whose user test functions are total (the DSL's precondition for "never raises") *)
Definition wf_test (t : test) : Prop := match t with TUser id => forall v, tenv E id v <> None | _ => True end.
Fixpoint wf_query (q : query) : Prop :=
  match q with
  | QS _ _ t => wf_test t
  | QNoop _ => True
  | QAnd l r | QOr l r => wf_query l /\ wf_query r
  | QNot q => wf_query q
  end.

(* ---- reads ----------------------------------------------------------------------------- *)
Definition hit (q : query) (m : option str) (p : point) : bool := meas_pass m p && denote q p.

Definition spec_search q m (srt : bool) (db : list point) : list point :=
  let r := filter (hit q m) db in if srt then sort_points r else r.
Definition spec_count q m (db : list point) : nat := length (filter (hit q m) db).
Definition spec_contains q m (db : list point) : bool := existsb (hit q m) db.
Definition spec_get q m (db : list point) : option point := hd_error (filter (hit q m) db).
Definition spec_project (ks : list selkey) (p : point) : list value := proj None ks p.
Definition spec_select ks q m (db : list point) : list (list value) := map (spec_project ks) (filter (hit q m) db).
Definition spec_all (srt : bool) (db : list point) : list point := if srt then sort_points db else db.

(* ---- writes ---------------------------------------------------------------------------- *)
Definition spec_remove q m (db : list point) : list point * nat :=
  (filter (fun p => negb (hit q m p)) db, length (filter (hit q m) db)).
Definition spec_drop (name : str) (db : list point) : list point * nat :=
  spec_remove (QS AMeas [] (TCmp Ceq (VStr name))) (Some name) db.

(* update: every selected point is replaced by its updated version (None: some callable failed,
   nothing changes); the count is the number of points whose content changed *)
Fixpoint spec_update_rows (norm : point -> point) (sel : point -> bool) (u : updspec) (db : list point)
  : option (list point * nat) :=
  match db with
  | [] => Some ([], 0)
  | p :: r =>
    if sel p then
      match perform_update C u p with
      | UFail _ => None
      | UOk p' => match spec_update_rows norm sel u r with
                  | None => None
                  | Some (l, n) => if point_eqb p' p then Some (p :: l, n) else Some (norm p' :: l, S n)
                  end
      end
    else option_map (fun ln => (p :: fst ln, snd ln)) (spec_update_rows norm sel u r)
  end.

Definition spec_insert (norm : point -> point) (ps : list point) (m : option str) (db : list point) : list point :=
  db ++ map (fun p => norm (match truthy m with Some name => set_meas p name | None => p end)) ps.

(* ---- getters --------------------------------------------------------------------------- *)
Definition spec_measurements (db : list point) : list str := sort_dedup (map p_meas db).
Definition spec_tag_keys m (db : list point) : list str :=
  sort_dedup (flat_map (fun p => map fst (p_tags p)) (in_meas m db)).
Definition spec_field_keys m (db : list point) : list str :=
  sort_dedup (flat_map (fun p => map fst (p_fields p)) (in_meas m db)).
Definition spec_tag_values ks m (db : list point) : list (str * list (option str)) :=
  scan_tag_values ks (in_meas m db).
Definition spec_field_values k m (db : list point) : list (option num) :=
  flat_map (fun p => match dget k (p_fields p) with Some v => [v] | None => [] end) (in_meas m db).
Definition spec_timestamps m (db : list point) : list Z := map p_time (in_meas m db).
Definition spec_len (db : list point) : nat := length db.
End Spec.
