(* Property C02 — remove deletes exactly the matching points and nothing else.
   db_remove / db_drop / db_remove_all (DB.v) follow TinyFlux.remove / drop_measurement /
   remove_all with both paths of _remove_helper (index-served, storage scan), the early exits,
   the "everything matches -> reset" shortcut and the incremental index maintenance.
   The stored rows afterwards are `filter (not selected)` of the rows before — the same list
   with the selected points taken out, so every other point is present, unmodified and in its
   original relative order — the reported number is the number of selected points, and the
   state invariant (a valid index describes the rows) is kept, so every later read is exact
   (Prop_C01).  For every environment, query of any depth, measurement filter, state. *)
From Coq Require Import List ZArith NArith Bool.
From TF Require Import Base Query Index DB Spec proofs.LawsP proofs.IndexDefs proofs.RepP proofs.DBReadP proofs.DBRemoveP
     proofs.DBStepP proofs.DBRunP proofs.DBSpecP ReadSem RemoveSem proofs.RemoveGenP MemSem proofs.MemStoreGenP.
From TF Require gen.MemStoreGen.
From TF Require gen.RemoveGen.
Import ListNotations.

Theorem C02_remove_exact : forall E s q m, Inv s -> wf_query E q -> index_safe q ->
  let r := db_remove E s q m in
  snd r = ONat (length (filter (hit E q m) (st_rows s))) /\
  st_rows (fst r) = filter (fun p => negb (hit E q m p)) (st_rows s) /\
  st_auto (fst r) = st_auto s /\ Inv (fst r).
Proof. exact db_remove_spec. Qed.
Theorem C02_drop_measurement_exact : forall E s name, Inv s -> name <> [] ->
  let r := db_drop E s name in
  snd r = ONat (length (filter (fun p => str_eqb (p_meas p) name) (st_rows s))) /\
  st_rows (fst r) = filter (fun p => negb (str_eqb (p_meas p) name)) (st_rows s) /\ Inv (fst r).
Proof. exact db_drop_spec. Qed.
Theorem C02_remove_all : forall s, st_rows (fst (db_remove_all s)) = [] /\ Inv (fst (db_remove_all s)).
Proof. exact db_remove_all_spec. Qed.
(* points the query or the filter does not select survive, in order *)
Theorem C02_others_untouched : forall E s q m (keep : point -> bool), Inv s -> wf_query E q -> index_safe q ->
  (forall p, keep p = true -> hit E q m p = false) ->
  filter keep (st_rows (fst (db_remove E s q m))) = filter keep (st_rows s).
Proof. exact remove_keeps_others. Qed.
(* the incremental index maintenance of a partial removal is correct for EVERY removed set *)
Theorem C02_index_after_removal : forall i pts (rm : nat -> bool) nrm, Rep i pts ->
  nrm = length (filter rm (seq 0 (length pts))) -> Rep (ix_renumber (ix_remove i rm nrm) (renum rm)) (keep_rows rm pts).
Proof. exact Rep_remove. Qed.

(* what a removal selected is gone for every later read; removing it again removes nothing and changes nothing *)
Theorem C02_removed_is_gone : forall E s q m, Inv s -> wf_query E q -> index_safe q ->
  let s' := fst (db_remove E s q m) in
  spec_search E q m false (st_rows s') = [] /\ spec_count E q m (st_rows s') = 0 /\ spec_contains E q m (st_rows s') = false /\
  snd (db_remove E s' q m) = ONat 0 /\ st_rows (fst (db_remove E s' q m)) = st_rows s'.
Proof. exact removed_is_gone. Qed.
(* drop_measurement(name) is the removal by measurement name *)
Theorem C02_drop_is_removal_by_name : forall E s name, Inv s -> name <> [] ->
  st_rows (fst (db_drop E s name)) = st_rows (fst (db_remove E s (QS AMeas [] (TCmp Ceq (VStr name))) None)) /\
  snd (db_drop E s name) = snd (db_remove E s (QS AMeas [] (TCmp Ceq (VStr name))) None).
Proof. exact drop_is_removal_by_name. Qed.

(* what a removal decides, REGENERATED from tinyflux/database.py on every run (gen/RemoveGen.v: _remove_helper executed symbolically - is the index
   asked and with which query; nothing named: 0; everything named: reset; after the loop nothing removed: 0 and nothing swapped in; nothing kept:
   reset; else the staged rows are swapped in and the index is maintained or dropped - with _reset_database, remove and drop_measurement), is the
   model's removal for every state, query and measurement argument; hence the functions as the source defines them, decorators included, remove
   exactly the selected points *)
Theorem C02_source_remove_helper_is_the_model : forall E s q m, RemoveGen.gen_remove_helper E s q m = remove_helper E s q m.
Proof. exact gen_remove_helper_eq. Qed.
Theorem C02_source_reset_is_the_model : forall s, RemoveGen.gen_reset s = reset_database s.
Proof. exact gen_reset_eq. Qed.
Theorem C02_source_remove_is_the_model : forall E s q m, RemoveGen.gen_remove E s q m = db_remove E s q m.
Proof. exact gen_remove_eq. Qed.
Theorem C02_source_drop_is_the_model : forall E s name, RemoveGen.gen_drop E s name = db_drop E s name.
Proof. exact gen_drop_eq. Qed.
Theorem C02_source_remove_exact : forall E s q m, Inv s -> wf_query E q -> index_safe q ->
  let r := RemoveGen.gen_remove E s q m in
  snd r = ONat (length (filter (hit E q m) (st_rows s))) /\
  st_rows (fst r) = filter (fun p => negb (hit E q m p)) (st_rows s) /\
  st_auto (fst r) = st_auto s /\ Inv (fst r).
Proof. exact gen_remove_spec. Qed.
Theorem C02_source_drop_exact : forall E s name, Inv s -> name <> [] ->
  let r := RemoveGen.gen_drop E s name in
  snd r = ONat (length (filter (fun p => str_eqb (p_meas p) name) (st_rows s))) /\
  st_rows (fst r) = filter (fun p => negb (str_eqb (p_meas p) name)) (st_rows s) /\ Inv (fst r).
Proof. exact gen_drop_spec. Qed.

(* class MemoryStorage, every method translated from storages.py (gen/MemStoreGen.v; the two list attributes WITH the fact whether they are one list object) *)
Theorem C02_source_memory_storage_append : forall s items,
  rows (MemStoreGen.gen_append s items false) = rows s ++ items /\ m_shared (MemStoreGen.gen_append s items false) = m_shared s
  /\ (m_shared s = false -> staged (MemStoreGen.gen_append s items false) = staged s).
Proof. exact gen_append_primary. Qed.
Theorem C02_source_memory_storage_rewrite_leaves_exactly_what_was_staged : forall s batches,
  let s' := MemStoreGen.gen__cleanup_temp_storage (MemStoreGen.gen__swap_temp_with_primary (stage (MemStoreGen.gen__init_temp_storage s) batches)) in
  rows s' = concat batches /\ staged s' = [] /\ m_shared s' = false.
Proof. exact gen_rewrite_protocol. Qed.
Theorem C02_source_memory_storage_removal_keeps_the_kept_rows : forall s keep,
  rows (rewrite_with s (map (fun p => [p]) (filter keep (rows s)))) = filter keep (rows s).
Proof. exact gen_rewrite_keeps_filtered. Qed.
Theorem C02_source_memory_storage_abandoned_rewrite_changes_nothing : forall s batches,
  let s' := MemStoreGen.gen__cleanup_temp_storage (stage (MemStoreGen.gen__init_temp_storage s) batches) in
  rows s' = rows s /\ staged s' = [] /\ m_shared s' = false.
Proof. exact gen_abandoned_rewrite. Qed.
Theorem C02_source_memory_storage_reset : forall s, rows (MemStoreGen.gen_reset s) = [] /\ staged (MemStoreGen.gen_reset s) = staged s.
Proof. exact gen_reset_rows. Qed.
Theorem C02_source_memory_storage_reads : forall s, MemStoreGen.gen_read s = rows s /\ MemStoreGen.gen___iter__ s = rows s /\ MemStoreGen.gen___len__ s = length (rows s).
Proof. intros s. split; [exact (gen_read_eq s)|]. split; [exact (gen_iter_eq s)|exact (gen_len_eq s)]. Qed.
Theorem C02_source_memory_storage_sharing_ends_with_the_cleanup : forall s x,
  rows (MemStoreGen.gen_append (MemStoreGen.gen__swap_temp_with_primary s) [x] true) = staged s ++ [x].
Proof. exact gen_swap_then_staged_append_is_visible. Qed.

Print Assumptions C02_remove_exact.
Print Assumptions C02_removed_is_gone.
Print Assumptions C02_drop_is_removal_by_name.
Print Assumptions C02_drop_measurement_exact.
Print Assumptions C02_remove_all.
Print Assumptions C02_others_untouched.
Print Assumptions C02_index_after_removal.
Print Assumptions C02_source_remove_helper_is_the_model.
Print Assumptions C02_source_reset_is_the_model.
Print Assumptions C02_source_remove_is_the_model.
Print Assumptions C02_source_drop_is_the_model.
Print Assumptions C02_source_remove_exact.
Print Assumptions C02_source_drop_exact.
Print Assumptions C02_source_memory_storage_append.
Print Assumptions C02_source_memory_storage_rewrite_leaves_exactly_what_was_staged.
Print Assumptions C02_source_memory_storage_removal_keeps_the_kept_rows.
Print Assumptions C02_source_memory_storage_abandoned_rewrite_changes_nothing.
Print Assumptions C02_source_memory_storage_reset.
Print Assumptions C02_source_memory_storage_reads.
Print Assumptions C02_source_memory_storage_sharing_ends_with_the_cleanup.
