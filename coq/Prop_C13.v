(* Property C13 — an I/O error during an operation is reported and corrupts nothing.
   About the I/O scripts of IO.v.  An error at call k means: the first k calls of the
   operation's script have run (k+1 when the call fails after taking effect), then the error
   path runs - closing and removing the temporary file, removing a staged copy, reopening the
   primary - and later operations seek, flush or close the same handle.  None of those steps
   writes rows to the primary handle, truncates it or replaces the file (`safe`).  For EVERY
   operation plan, EVERY k and EVERY sequence of such steps afterwards, the primary file holds
   the old contents, the new contents or (insert) old plus a prefix of the inserted rows - also
   once the handle's buffer has been flushed by a close.  That the error reaches the caller
   and that the live object answers consistently with its storage or raises is tied by fault
   injection at every recorded call (harness/c13.py); the index side is Prop_C06/C11: the
   invariant survives every operation, and a failed append invalidates the index (F19 repair). *)
From Coq Require Import List ZArith NArith Bool.
From TF Require Import Base Query Index DB IO proofs.IOP proofs.FaultP proofs.PlanP proofs.FaultOpP proofs.IOGenP.
From TF Require gen.IOGen.
Import ListNotations.

Theorem C13_fault_leaves_old_or_new : forall old p k recovery, forallb safe recovery = true ->
  crash_allowed old p (w_disk (run_steps (run_steps (world_of old) (firstn k (script_of old p))) recovery)).
Proof. exact fault_disk_allowed. Qed.
Theorem C13_also_after_close : forall old p k recovery, forallb safe recovery = true ->
  crash_allowed old p (w_disk (apply (run_steps (run_steps (world_of old) (firstn k (script_of old p))) recovery) PClose)).
Proof. exact fault_disk_after_flush. Qed.
(* buffered rows are themselves a prefix of what the insert was writing: nothing foreign can reach the file later *)
Theorem C13_buffer_is_part_of_the_operation : forall old p k,
  crash_allowed old p (w_disk (run_steps (world_of old) (firstn k (script_of old p)))) /\
  crash_allowed old p (w_disk (run_steps (world_of old) (firstn k (script_of old p))) ++
                       w_pend (run_steps (world_of old) (firstn k (script_of old p)))).
Proof. exact prefix_allowed2. Qed.

(* the same in terms of the database model: the plan is the one IO.plan_of derives from the model's own step *)
Theorem C13_operation_fault : forall E C norm s o k recovery,
  (is_insert o = true -> forallb nan_free_point (st_rows s) = true) -> forallb safe recovery = true ->
  let old := st_rows s in let new := st_rows (fst (step E C norm s o)) in
  let w := run_steps (run_steps (world_of old) (firstn k (script_of old (plan_of o old new)))) recovery in
  old_new_or_prefix old new (w_disk w) /\ old_new_or_prefix old new (w_disk (apply w PClose)).
Proof. exact operation_fault_old_or_new. Qed.

(* the I/O calls REGENERATED from tinyflux/storages.py on every run (gen/IOGen.v: symbolic execution of CSVStorage.append, _write([]) / reset,
   _init_temp_storage, _swap_temp_with_primary, _cleanup_temp_storage, __iter__ along their success path) are the scripts of the model, for every
   plan of an operation: every theorem of this file about script_of is a theorem about the calls the source makes now *)
Theorem C13_source_scripts_are_the_model : forall old p, gen_script_of old p = script_of old p.
Proof. exact gen_script_of_eq. Qed.

Print Assumptions C13_fault_leaves_old_or_new.
Print Assumptions C13_operation_fault.
Print Assumptions C13_also_after_close.
Print Assumptions C13_buffer_is_part_of_the_operation.
Print Assumptions C13_source_scripts_are_the_model.
