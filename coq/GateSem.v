(* GateSem.v - the vocabulary of the method table that harness/py2coq_gates.py reads off tinyflux/database.py (gen/GatesGen.v): for every method of class
   TinyFlux its access gates (decorators read_op / write_op / append_op / temp_storage_op, or the same test written at the head of the body), what it does to
   storage DIRECTLY, and which methods of the object it calls.  `reach` closes the effects over the calls. *)
From Coq Require Import List String Bool Arith.
Import ListNotations.

Inductive gate := GRead | GWrite | GAppend | GTemp.
Inductive effect := ERead | EAppend | EStage | ESwap | EReset.
Record meth := mkMeth { m_name : string; m_public : bool; m_gates : list gate; m_effects : list effect; m_calls : list string }.

Definition gate_eqb (a b : gate) : bool := match a, b with GRead, GRead | GWrite, GWrite | GAppend, GAppend | GTemp, GTemp => true | _, _ => false end.
Definition effect_eqb (a b : effect) : bool :=
  match a, b with ERead, ERead | EAppend, EAppend | EStage, EStage | ESwap, ESwap | EReset, EReset => true | _, _ => false end.
Definition has_gate (g : gate) (m : meth) : bool := existsb (gate_eqb g) (m_gates m).
Definition has_effect (e : effect) (l : list effect) : bool := existsb (effect_eqb e) l.

Definition find_meth (tbl : list meth) (n : string) : option meth := find (fun m => String.eqb (m_name m) n) tbl.

(* the effects of a method and of everything it calls on the object (a Measurement handle: on its database), to any depth - NOT following calls into a method
   that `stop` holds of (a method that carries the gate in question: what lies behind it is behind the gate).  Fuel = the size of the table is enough (a path
   without repetition). *)
Fixpoint reach (stop : meth -> bool) (tbl : list meth) (fuel : nat) (n : string) : list effect :=
  match fuel with
  | O => []
  | S f => match find_meth tbl n with
           | None => []
           | Some m => if stop m then [] else m_effects m ++ flat_map (reach stop tbl f) (m_calls m)
           end
  end.
Definition reach_of (stop : meth -> bool) (tbl : list meth) (m : meth) : list effect := reach stop tbl (S (List.length tbl)) (m_name m).

(* the three rules, per PUBLIC method (of the database and of a Measurement handle) - "reachable without passing a gate":
   - nothing that can REPLACE stored contents (swap the staged rows in, reset) is reachable without passing the write gate;
   - nothing that can APPEND to the stored rows is reachable without passing the append gate or the write gate;
   - nothing that stages rows or swaps them in is reachable without passing temp_storage_op (scratch storage set up before, cleaned up after - also on a raise) *)
Definition rule_write (tbl : list meth) (m : meth) : bool :=
  negb (m_public m) || negb (has_effect ESwap (reach_of (has_gate GWrite) tbl m) || has_effect EReset (reach_of (has_gate GWrite) tbl m)).
Definition rule_append (tbl : list meth) (m : meth) : bool :=
  negb (m_public m) || negb (has_effect EAppend (reach_of (fun x => has_gate GAppend x || has_gate GWrite x) tbl m)).
Definition rule_temp (tbl : list meth) (m : meth) : bool :=
  negb (m_public m) || negb (has_effect EStage (reach_of (has_gate GTemp) tbl m) || has_effect ESwap (reach_of (has_gate GTemp) tbl m)).
(* every call names a method of the table (nothing escapes the closure) *)
Definition rule_closed (tbl : list meth) (m : meth) : bool :=
  forallb (fun n => match find_meth tbl n with Some _ => true | None => false end) (m_calls m).
(* the rules are not vacuous: the table has methods that replace, append and stage (reachable when no gate stops the walk) *)
Definition some_effect (e : effect) (tbl : list meth) : bool := existsb (fun m => m_public m && has_effect e (reach_of (fun _ => false) tbl m)) tbl.
