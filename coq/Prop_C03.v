(* Property C03 — update changes exactly the matching points, with documented merge semantics.
   db_update / db_update_all (DB.v) follow TinyFlux.update / update_all: _generate_updater's
   perform_update (time, measurement replaced; tags, fields merged with dict.update; unset_*
   popped afterwards), both selection paths of _update_helper, the rewrite through temporary
   storage, the "nothing changed" exit and the index rebuild.  Spec.spec_update_rows is the
   specification: a map over the stored list that replaces each selected point by its updated
   version and counts the points whose content changed.  `norm` is the storage round trip
   (identity for MemoryStorage).  When a callable fails nothing is changed (the None case). *)
From Coq Require Import List ZArith NArith Bool.
From TF Require Import Base Query Index DB Spec proofs.IndexDefs proofs.BaseP proofs.RepP proofs.DBReadP proofs.DBRemoveP
     proofs.DBStepP proofs.DBRunP proofs.DBSpecP proofs.UpdateP ReadSem UpdateSem proofs.UpdateGenP.
From TF Require gen.UpdateGen.
From TF Require Import MemSem proofs.MemStoreGenP UpdaterSem proofs.UpdaterGenP.
From TF Require gen.UpdaterGen.
Import ListNotations.

Theorem C03_update_exact : forall E C norm, (forall p, wf_point p -> wf_point (norm p)) ->
  forall s q u m, Inv s -> wf_query E q -> index_safe q -> upd_given u = true ->
  let r := db_update E C norm s q (Some u) m in
  match spec_update_rows C norm (hit E q m) u (st_rows s) with
  | Some (l, n) => snd r = ONat n /\ st_rows (fst r) = l /\ Inv (fst r)
  | None => snd r = ORaise /\ fst r = read_prelude s
  end.
Proof. exact db_update_spec. Qed.
Theorem C03_update_all_exact : forall E C norm, (forall p, wf_point p -> wf_point (norm p)) ->
  forall s u, Inv s -> upd_given u = true ->
  let r := db_update_all E C norm s (Some u) in
  match spec_update_rows C norm (fun _ => true) u (st_rows s) with
  | Some (l, n) => snd r = ONat n /\ st_rows (fst r) = l /\ Inv (fst r)
  | None => snd r = ORaise /\ fst r = read_prelude s
  end.
Proof. exact db_update_all_spec. Qed.
(* what that map is: same length and order; unselected rows untouched; a selected row becomes
   its updated version (kept as it was when nothing changed); the count is the number of
   selected rows whose content changed *)
Theorem C03_shape : forall C norm u (sel : point -> bool) rows l n,
  spec_update_rows C norm sel u rows = Some (l, n) ->
  length l = length rows /\
  (forall k p, nth_error rows k = Some p -> sel p = false -> nth_error l k = Some p) /\
  (forall k p, nth_error rows k = Some p -> sel p = true ->
     exists p', perform_update C u p = UOk p' /\ nth_error l k = Some (if point_eqb p' p then p else norm p')) /\
  n = length (filter (fun p => sel p && match perform_update C u p with UOk p' => negb (point_eqb p' p) | UFail _ => false end) rows).
Proof. exact spec_update_rows_shape. Qed.

(* merge semantics *)
Theorem C03_merge_key_by_key : forall (V : Type) k (o d : list (str * V)), dsorted o = true ->
  dget k (dupdate d o) = match dget k o with Some v => Some v | None => dget k d end.
Proof. exact (@dget_dupdate). Qed.
Theorem C03_merge_never_drops_a_key : forall (V : Type) k (o d : list (str * V)), dsorted o = true -> dget k d <> None -> dget k (dupdate d o) <> None.
Proof. exact (@dupdate_keeps_keys). Qed.
Theorem C03_unset_removes_keys : forall (V : Type) k ks (d : list (str * V)), dsorted d = true ->
  dget k (fold_left (fun d k' => ddel k' d) ks d) = if existsb (str_eqb k) ks then None else dget k d.
Proof. exact (@dget_unset). Qed.
(* tags of an updated point: unset wins over a value set by the same call, the argument over the stored value *)
Theorem C03_tags_semantics : forall C u p p' t, wf_point p -> u_tags u = UStatic t -> dsorted t = true ->
  perform_update C u p = UOk p' ->
  forall k, dget k (p_tags p') = if existsb (str_eqb k) (u_unset_tags u) then None
                                 else match dget k t with Some v => Some v | None => dget k (p_tags p) end.
Proof. exact update_tags_semantics. Qed.
Theorem C03_static_is_callable_tags : forall C u p t id, u_tags u = UStatic t -> (forall d, c_tags C id d = Some t) ->
  perform_update C u p = perform_update C (mkUpd (u_time u) (u_meas u) (UCall id) (u_fields u) (u_unset_fields u) (u_unset_tags u)) p.
Proof. exact static_is_constant_callable_tags. Qed.
Theorem C03_static_is_callable_fields : forall C u p f id, u_fields u = UStatic f -> (forall d, c_fields C id d = Some f) ->
  perform_update C u p = perform_update C (mkUpd (u_time u) (u_meas u) (u_tags u) (UCall id) (u_unset_fields u) (u_unset_tags u)) p.
Proof. exact static_is_constant_callable_fields. Qed.
Theorem C03_static_is_callable_time : forall C u p t id, u_time u = UStatic t -> (forall x, c_time C id x = Some t) ->
  perform_update C u p = perform_update C (mkUpd (UCall id) (u_meas u) (u_tags u) (u_fields u) (u_unset_fields u) (u_unset_tags u)) p.
Proof. exact static_is_constant_callable_time. Qed.

(* a static update (no callables) applied to the point it produced changes nothing: applying it twice is applying it once *)
Theorem C03_static_update_idempotent : forall C u p p', static_update u -> wf_point p ->
  perform_update C u p = UOk p' -> perform_update C u p' = UOk p'.
Proof. exact static_update_idempotent. Qed.

(* what an update decides around its per-point updater, REGENERATED from tinyflux/database.py on every run (gen/UpdateGen.v: _update_helper executed
   symbolically - is the index asked (never for update_all) and with which query; nothing named: 0; everything named: the scan; the rewrite inside
   try / except; nothing changed: 0 and nothing swapped in; else the index dropped, the staged rows swapped in, the index rebuilt when automatic
   indexing is on - with update and update_all), is the model's update for every state, query, valid arguments and measurement filter; hence the
   functions as the source defines them, decorators included, update exactly the selected points by exactly the given arguments *)
Theorem C03_source_update_helper_is_the_model : forall E C norm s ua q u m, upd_given u = true ->
  UpdateGen.gen_update_helper E C norm s ua q u m = update_helper E C norm s ua q (Some u) m.
Proof. exact gen_update_helper_eq. Qed.
Theorem C03_source_update_is_the_model : forall E C norm s q u m, upd_given u = true ->
  UpdateGen.gen_update E C norm s q u m = db_update E C norm s q (Some u) m.
Proof. exact gen_update_eq. Qed.
Theorem C03_source_update_all_is_the_model : forall E C norm s u, upd_given u = true ->
  UpdateGen.gen_update_all E C norm s u = db_update_all E C norm s (Some u).
Proof. exact gen_update_all_eq. Qed.
Theorem C03_source_update_exact : forall E C norm, (forall p, wf_point p -> wf_point (norm p)) ->
  forall s q u m, Inv s -> wf_query E q -> index_safe q -> upd_given u = true ->
  let r := UpdateGen.gen_update E C norm s q u m in
  match spec_update_rows C norm (hit E q m) u (st_rows s) with
  | Some (l, n) => snd r = ONat n /\ st_rows (fst r) = l /\ Inv (fst r)
  | None => snd r = ORaise /\ fst r = read_prelude s
  end.
Proof. exact gen_update_spec. Qed.
Theorem C03_source_update_all_exact : forall E C norm, (forall p, wf_point p -> wf_point (norm p)) ->
  forall s u, Inv s -> upd_given u = true ->
  let r := UpdateGen.gen_update_all E C norm s u in
  match spec_update_rows C norm (fun _ => true) u (st_rows s) with
  | Some (l, n) => snd r = ONat n /\ st_rows (fst r) = l /\ Inv (fst r)
  | None => snd r = ORaise /\ fst r = read_prelude s
  end.
Proof. exact gen_update_all_spec. Qed.

(* class MemoryStorage translated from storages.py: an update's rewrite (every row staged by its own append, changed or not) stores the images in order *)
Theorem C03_source_memory_storage_update_stores_the_images : forall s (f : point -> point),
  rows (rewrite_with s (map (fun p => [f p]) (rows s))) = map f (rows s).
Proof. exact gen_rewrite_maps. Qed.

(* THE PER-POINT UPDATER, translated from tinyflux/database.py on every run (gen/UpdaterGen.v: the closure perform_update block by block - which argument
   guards a block by its truth value, what is read, what the callable is handed, what is assigned, how mappings are merged / filtered - chained in the
   order of the source): it is the model's perform_update, so every theorem above about what an update does to a point is about the source's updater *)
Theorem C03_source_updater_is_the_model : forall C u p, wf_point p -> UpdaterGen.gen_perform_update C u p = perform_update C u p.
Proof. exact gen_perform_update_eq. Qed.
Theorem C03_source_updater_unset_is_the_comprehension : forall (V : Type) ks (d : list (str * V)), dsorted d = true ->
  fold_left (fun d k => ddel k d) ks d = dict_without ks d.
Proof. exact fold_ddel_filter. Qed.

Print Assumptions C03_static_update_idempotent.
Print Assumptions C03_update_exact.
Print Assumptions C03_merge_key_by_key.
Print Assumptions C03_unset_removes_keys.
Print Assumptions C03_tags_semantics.
Print Assumptions C03_static_is_callable_tags.
Print Assumptions C03_update_all_exact.
Print Assumptions C03_shape.
Print Assumptions C03_source_update_helper_is_the_model.
Print Assumptions C03_source_update_is_the_model.
Print Assumptions C03_source_update_all_is_the_model.
Print Assumptions C03_source_update_exact.
Print Assumptions C03_source_update_all_exact.
Print Assumptions C03_source_memory_storage_update_stores_the_images.
Print Assumptions C03_source_updater_is_the_model.
Print Assumptions C03_source_updater_unset_is_the_comprehension.
