(* UpdaterSem.v - what the translation of the per-point updater (TinyFlux._generate_updater.perform_update, harness/py2coq_updater.py ->
   gen/UpdaterGen.v) is written over: the truth value of an update argument of each type (the `if time:` / `if tags:` tests are Python truthiness:
   a datetime and a callable are truthy, a str / a mapping / a collection of keys is truthy when it is not empty) and the dict comprehension
   `{k: v for k, v in d.items() if k not in drop}`. *)
From Coq Require Import List Bool ZArith NArith.
From TF Require Import Base Query DB.
Import ListNotations.

Definition truthy_time (a : uarg Z) : bool := match a with UNone => false | _ => true end.
Definition truthy_str (a : uarg str) : bool := match a with UNone => false | UStatic s => nonempty s | UCall _ => true end.
Definition truthy_dict {V : Type} (a : uarg (list (str * V))) : bool := match a with UNone => false | UStatic d => nonempty d | UCall _ => true end.
Definition truthy_keys (l : list str) : bool := nonempty l.

(* {k: v for k, v in d.items() if k not in drop}, drop = set(<the keys given>) *)
Definition dict_without {V : Type} (drop : list str) (d : list (str * V)) : list (str * V) :=
  filter (fun kv => negb (existsb (fun k => str_eqb k (fst kv)) drop)) d.
