(* Property C14 — no API path lets an invalid value into the database.
   Valid.v models every check that stands between a caller's value (any Python value: None,
   bool, int, float, str, bytes, datetime, list, dict, callable, Point, other) and a stored
   attribute: validate_tags / validate_fields, Point construction and the attribute setters,
   the static-argument checks of update / update_all, the checks on what an update callable
   returns, insert's isinstance test and its measurement argument.  The theorems say that a
   value passes the check of a slot EXACTLY when it has a typed reading for that slot (a
   datetime; a str; a mapping of str to str|None; a mapping of str to int|float|None, bool
   excluded) — so whatever is assigned to a stored point is well typed; DB.v operates on typed
   points only.  A falsy update argument (None, 0, "", {}, []) is "not given": nothing is
   assigned.  Which check guards which entry point is tied by the battery of harness/c14.py. *)
From Coq Require Import List ZArith NArith Bool.
From TF Require gen.ValidGen gen.UpdArgGen.
From TF Require Import Base Query DB Valid ValidSem UpdArgSem proofs.ValidP proofs.ValidGenP proofs.UpdArgGenP.
Import ListNotations.

Theorem C14_assigned_is_typed : forall s v, slot_ok s v = true <-> typed s v.
Proof. exact slot_ok_typed. Qed.
Theorem C14_constructor : forall time meas tags fields, ctor_ok time meas tags fields = true ->
  (forall v, time = Some v -> typed STime v) /\ (forall v, meas = Some v -> typed SMeas v) /\
  (forall v, tags = Some v -> typed STags v) /\ (forall v, fields = Some v -> typed SFields v).
Proof. exact ctor_ok_typed. Qed.
Theorem C14_update_argument : forall s v,
  match upd_arg s v with
  | ArgIgnored => truthy_v v = false
  | ArgCallable => is_callable v = true
  | ArgStatic => typed s v
  | ArgRejected => ~ typed s v /\ is_callable v = false /\ truthy_v v = true
  end.
Proof. exact upd_arg_cases. Qed.
Theorem C14_callable_result : forall s v, call_result_ok s v = true ->
  match s with
  | STime | SMeas => typed s v
  | _ => exists d, as_mapping v = Some d /\ typed s (PvDict d)
  end.
Proof. exact call_result_typed. Qed.
Theorem C14_bool_is_not_a_field_value : forall d k b, In (k, PvBool b) d -> validate_fields (PvDict d) = false.
Proof. exact bool_field_rejected. Qed.
Theorem C14_insert : forall p meas, insert_ok p meas = true ->
  (exists ok, p = PvPoint ok) /\ (truthy_v meas = true -> typed SMeas meas).
Proof. exact insert_ok_point. Qed.
Theorem C14_tags_reading : forall v, validate_tags v = true <-> exists d, to_tags v = Some d.
Proof. exact validate_tags_iff. Qed.
Theorem C14_fields_reading : forall v, validate_fields v = true <-> exists d, to_fields v = Some d.
Proof. exact validate_fields_iff. Qed.

(* about the definitions REGENERATED from tinyflux/point.py on every run (gen/ValidGen.v) *)
Theorem C14_source_validators_are_the_model : forall v,
  ValidGen.validate_tags v = Valid.validate_tags v /\ ValidGen.validate_fields v = Valid.validate_fields v.
Proof. exact (fun v => conj (gen_validate_tags_eq v) (gen_validate_fields_eq v)). Qed.
Theorem C14_source_tags_accepts_exactly_typed : forall v, ValidGen.validate_tags v = true <-> exists d, to_tags v = Some d.
Proof. exact source_validate_tags_iff. Qed.
Theorem C14_source_fields_accepts_exactly_typed : forall v, ValidGen.validate_fields v = true <-> exists d, to_fields v = Some d.
Proof. exact source_validate_fields_iff. Qed.
Theorem C14_source_rejects_bool_fields : forall d k b, In (k, PvBool b) d -> ValidGen.validate_fields (PvDict d) = false.
Proof. exact source_rejects_bool_fields. Qed.

(* which static arguments update / update_all REJECT is decided at the head of TinyFlux._generate_updater; those `if` statements, REGENERATED from
   tinyflux/database.py on every run (gen/UpdArgGen.v, harness/py2coq_updarg.py; validate_tags / validate_fields being the validators regenerated
   from point.py), are the model's decisions for every value: an argument is rejected iff it is truthy, not callable and fails its slot's check;
   unset_tags / unset_fields iff truthy and neither a str nor an iterable of str.  With C14_update_argument: what is not rejected is ignored,
   a callable, or typed *)
Theorem C14_source_update_argument_time : forall v, UpdArgGen.gen_rejected_time v = is_rejected (upd_arg STime v).
Proof. exact gen_rejected_time_eq. Qed.
Theorem C14_source_update_argument_measurement : forall v, UpdArgGen.gen_rejected_measurement v = is_rejected (upd_arg SMeas v).
Proof. exact gen_rejected_measurement_eq. Qed.
Theorem C14_source_update_argument_tags : forall v, UpdArgGen.gen_rejected_tags v = is_rejected (upd_arg STags v).
Proof. exact gen_rejected_tags_eq. Qed.
Theorem C14_source_update_argument_fields : forall v, UpdArgGen.gen_rejected_fields v = is_rejected (upd_arg SFields v).
Proof. exact gen_rejected_fields_eq. Qed.
Theorem C14_source_update_argument_unset : forall v,
  UpdArgGen.gen_rejected_unset_tags v = negb (unset_ok v) /\ UpdArgGen.gen_rejected_unset_fields v = negb (unset_ok v).
Proof. exact gen_rejected_unset_eq. Qed.
Theorem C14_source_update_nothing_given : forall a b c d e f, UpdArgGen.gen_nothing_given a b c d e f = forallb (fun v => negb (truthy_v v)) [a; b; c; d; e; f].
Proof. exact gen_nothing_given_eq. Qed.

Print Assumptions C14_assigned_is_typed.
Print Assumptions C14_source_validators_are_the_model.
Print Assumptions C14_source_tags_accepts_exactly_typed.
Print Assumptions C14_source_fields_accepts_exactly_typed.
Print Assumptions C14_constructor.
Print Assumptions C14_update_argument.
Print Assumptions C14_callable_result.
Print Assumptions C14_bool_is_not_a_field_value.
Print Assumptions C14_insert.
Print Assumptions C14_tags_reading.
Print Assumptions C14_fields_reading.
Print Assumptions C14_source_update_argument_time.
Print Assumptions C14_source_update_argument_measurement.
Print Assumptions C14_source_update_argument_tags.
Print Assumptions C14_source_update_argument_fields.
Print Assumptions C14_source_update_argument_unset.
Print Assumptions C14_source_update_nothing_given.
