(* Property C12 — a crash at any I/O step leaves the file holding the old or the new contents.
   IO.v gives every storage operation as a script of I/O steps on a world (rows on disk,
   unflushed rows, temporary file, staged copy); the plans (append / rewrite via staged copy
   and atomic replace / truncate / nothing) are the ones database.py takes.  For EVERY
   prefix length k of EVERY script, every list of rows, the primary file holds an allowed
   state.  One flush is one atomic write in this model. *)
From Coq Require Import List ZArith NArith Bool.
From TF Require Import Base Query Index DB IO proofs.IOP proofs.PlanP proofs.HistoryP proofs.IOGenP.
From TF Require gen.IOGen.
Import ListNotations.

Theorem C12_crash_atomic : forall old p k,
  crash_allowed old p (w_disk (run_steps (world_of old) (firstn k (script_of old p)))).
Proof. exact crash_atomic. Qed.
(* what the harness evaluates (crash_states) is exactly the set of prefix states *)
Theorem C12_crash_states : forall old p d,
  In d (crash_states (world_of old) (script_of old p)) -> crash_allowed old p d.
Proof. exact crash_states_allowed. Qed.
Theorem C12_crash_states_are_prefixes : forall w ss d,
  In d (crash_states w ss) <-> exists k, k <= length ss /\ d = w_disk (run_steps w (firstn k ss)).
Proof. exact crash_states_prefixes. Qed.
(* points stored by earlier operations are never lost or altered by an interrupted insert *)
Theorem C12_insert_keeps_old : forall old rows k,
  exists rest, w_disk (run_steps (world_of old) (firstn k (script_of old (PlAppend rows)))) = old ++ rest.
Proof. exact crash_insert_keeps_old. Qed.
(* in terms of the database itself: for EVERY operation of the API from EVERY state and EVERY crash index, the file
   holds the database model's contents before the operation, its contents after it, or (insert) old plus a prefix of
   the appended rows *)
Theorem C12_operation_crash : forall E C norm s o k, (is_insert o = true -> forallb nan_free_point (st_rows s) = true) ->
  let old := st_rows s in let new := st_rows (fst (step E C norm s o)) in
  let d := w_disk (run_steps (world_of old) (firstn k (script_of old (plan_of o old new)))) in
  d = old \/ d = new \/ exists added j, new = old ++ added /\ d = old ++ firstn j added.
Proof. exact operation_crash_old_or_new. Qed.
Example C12_nonvacuous : exists old p k, p = PlRewrite [] /\ old <> [] /\
  w_disk (run_steps (world_of old) (firstn k (script_of old p))) = [].
Proof. exact crash_example. Qed.

(* a whole history: a crash at any call of any of its operations leaves the contents after some prefix of the history *)
Theorem C12_history_crash : forall E C norm ops s i o k, insert_ok E C norm s ops -> nth_error ops i = Some o ->
  let si := state_after E C norm s (firstn i ops) in
  let w := run_steps (run_steps (world_of (st_rows s)) (history_script E C norm s (firstn i ops))) (firstn k (op_script E C norm si o)) in
  let old := st_rows si in let new := st_rows (fst (step E C norm si o)) in
  w_disk w = old \/ w_disk w = new \/ exists added j, new = old ++ added /\ w_disk w = old ++ firstn j added.
Proof. exact history_crash. Qed.
Theorem C12_state_after_is_run : forall E C norm ops s, state_after E C norm s ops = snd (run E C norm s ops).
Proof. exact state_after_run. Qed.

(* the I/O calls REGENERATED from tinyflux/storages.py on every run (gen/IOGen.v: symbolic execution of CSVStorage.append, _write([]) / reset,
   _init_temp_storage, _swap_temp_with_primary, _cleanup_temp_storage, __iter__ along their success path) are the scripts of the model, for every
   plan of an operation: every theorem of this file about script_of is a theorem about the calls the source makes now *)
Theorem C12_source_scripts_are_the_model : forall old p, gen_script_of old p = script_of old p.
Proof. exact gen_script_of_eq. Qed.

Print Assumptions C12_crash_atomic.
Print Assumptions C12_history_crash.
Print Assumptions C12_crash_states.
Print Assumptions C12_crash_states_are_prefixes.
Print Assumptions C12_insert_keeps_old.
Print Assumptions C12_operation_crash.
Print Assumptions C12_source_scripts_are_the_model.
