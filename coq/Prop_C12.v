(* placeholder until proofs/IOP.v lands *)
From TF Require Import IO.
Example C12_stub : True. Proof. exact I. Qed.
