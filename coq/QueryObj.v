(* QueryObj.v — a query of the model (Query.v) seen as the Python object database.py inspects:
   isinstance(q, CompoundQuery / SimpleQuery), q.operator, q.query1, q.query2, q._point_attr,
   q._hash is None.  The primitives gen/GuardGen.v (generated from database.index_is_exact) is
   written with.  Definitions only. *)
From Coq Require Import List Bool.
From TF Require Import Base Query.
Import ListNotations.

Inductive qclass := KCompound | KSimple.
Definition q_isinst (k : qclass) (q : query) : bool :=
  match k, q with
  | KCompound, (QAnd _ _ | QOr _ _ | QNot _) => true
  | KSimple, (QS _ _ _ | QNoop _) => true
  | _, _ => false
  end.
Inductive opname := OAnd | OOr | ONot | ONone.
Definition q_operator (q : query) : opname := match q with QAnd _ _ => OAnd | QOr _ _ => OOr | QNot _ => ONot | _ => ONone end.
Definition opname_eqb (a b : opname) : bool :=
  match a, b with OAnd, OAnd | OOr, OOr | ONot, ONot | ONone, ONone => true | _, _ => false end.
(* attribute access on an object that lacks the attribute would raise; the generated code only reaches these after the
   isinstance guards, the default is never observed *)
Definition q_query1 (q : query) : query := match q with QAnd l _ | QOr l _ => l | QNot x => x | _ => q end.
Definition q_query2 (q : query) : option query := match q with QAnd _ r | QOr _ r => Some r | _ => None end.
Definition q_point_attr (q : query) : option attr := match q with QS a _ _ | QNoop a => Some a | _ => None end.
Definition attr_name_eqb (o : option attr) (a : attr) : bool := match o with Some b => attr_eqb a b | None => false end.
(* _hash is None: a map() in the path (noop has the hash (), which is not None) *)
Definition q_hash_is_none (q : query) : bool := match q with QS _ path _ => negb (path_hashable path) | _ => false end.
Fixpoint q_size (q : query) : nat :=
  match q with QAnd l r | QOr l r => S (q_size l + q_size r) | QNot x => S (q_size x) | _ => 1 end.
