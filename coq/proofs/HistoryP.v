(* HistoryP.v - the file through a whole HISTORY of operations.  The I/O scripts of the operations of a history, run one after the
   other from a file holding the initial rows, leave after every completed operation exactly the model's rows and a clean world
   (nothing buffered, no temporary or staged file, nothing left behind); a crash at ANY call of ANY operation of the history leaves the
   contents after some prefix of the history - the rows before that operation, the rows after it, or (insert) the rows before it
   followed by a prefix of what it adds. *)
From Coq Require Import List ZArith NArith Bool Lia.
From TF Require Import Base Query Index DB IO proofs.IOP proofs.PlanP.
Import ListNotations.

Section HistoryP.
Variable E : env.
Variable C : cenv.
Variable norm : point -> point.
Notation step := (step E C norm).

Definition op_script (s : state) (o : op) : list iostep :=
  script_of (st_rows s) (plan_of o (st_rows s) (st_rows (fst (step s o)))).

(* the model's state after a history *)
Fixpoint state_after (s : state) (ops : list op) : state :=
  match ops with [] => s | o :: r => state_after (fst (step s o)) r end.
(* the I/O steps of a whole history *)
Fixpoint history_script (s : state) (ops : list op) : list iostep :=
  match ops with [] => [] | o :: r => op_script s o ++ history_script (fst (step s o)) r end.
(* inserts happen on NaN-free contents (Point.__eq__ is not reflexive on NaN: the plan of an insert is derived by comparing rows) *)
Fixpoint insert_ok (s : state) (ops : list op) : Prop :=
  match ops with
  | [] => True
  | o :: r => (is_insert o = true -> forallb nan_free_point (st_rows s) = true) /\ insert_ok (fst (step s o)) r
  end.

Lemma state_after_run : forall ops s, state_after s ops = snd (run E C norm s ops).
Proof.
  induction ops as [|o r IH]; intros s; cbn [state_after run]; [reflexivity|].
  destruct (step s o) as [s' x] eqn:Es. cbn [fst]. rewrite IH. destruct (run E C norm s' r) as [xs sf]. reflexivity.
Qed.

Lemma clean_is_world_of w : clean w -> w = world_of (w_disk w).
Proof. destruct w as [d p o t st l]. unfold clean, world_of. cbn. intros [-> [-> [-> [-> ->]]]]. reflexivity. Qed.

Theorem history_file : forall ops s, insert_ok s ops ->
  let w := run_steps (world_of (st_rows s)) (history_script s ops) in
  w_disk w = st_rows (state_after s ops) /\ clean w.
Proof.
  induction ops as [|o r IH]; intros s Hok; cbn [history_script state_after insert_ok] in *.
  - cbn. split; [reflexivity|]. unfold clean, world_of. cbn. auto.
  - destruct Hok as [Hnan Hr]. rewrite run_steps_app.
    destruct (file_after_operation E C norm s o Hnan) as [Hd Hc]. cbv zeta in Hd, Hc. fold (op_script s o) in Hd, Hc.
    rewrite (clean_is_world_of _ Hc), Hd. exact (IH _ Hr).
Qed.

(* a crash inside the i-th operation of a history, at call k of its script *)
Theorem history_crash : forall ops s i o k, insert_ok s ops -> nth_error ops i = Some o ->
  let si := state_after s (firstn i ops) in
  let w := run_steps (run_steps (world_of (st_rows s)) (history_script s (firstn i ops))) (firstn k (op_script si o)) in
  let old := st_rows si in let new := st_rows (fst (step si o)) in
  w_disk w = old \/ w_disk w = new \/ exists added j, new = old ++ added /\ w_disk w = old ++ firstn j added.
Proof.
  induction ops as [|o0 r IH]; intros s i o k Hok Hn; [destruct i; discriminate|].
  destruct i as [|i]; cbn [firstn history_script state_after nth_error] in *.
  - injection Hn as ->. cbn [run_steps fold_left]. destruct Hok as [Hnan _].
    exact (operation_crash_old_or_new E C norm s o k Hnan).
  - destruct Hok as [Hnan Hr]. rewrite run_steps_app.
    destruct (file_after_operation E C norm s o0 Hnan) as [Hd Hc]. cbv zeta in Hd, Hc. fold (op_script s o0) in Hd, Hc.
    rewrite (clean_is_world_of _ Hc), Hd. exact (IH _ i o k Hr Hn).
Qed.
End HistoryP.
