(* InsertGenP.v — what an insert decides, regenerated from tinyflux/database.py on every run (gen/InsertGen.v: the point as stored under the
   measurement argument, what happens to the index after each appended point - kept and fed, or dropped because the point is earlier than
   the newest indexed one, or dropped because automatic indexing is off - and the statement after the loop), assembled into the insert loop,
   is the model's DB.insert_loop for every state, batch, measurement argument and count.  The theorems about inserts (C06_step / C06_reachable:
   the invariant through inserts; C01_insert_shows; C08_insert_stores_points_as_given; C11: insert_multiple keeps the prefix) are thereby
   theorems about the decisions the source takes now. *)
From Coq Require Import List ZArith Bool Arith Lia.
From TF Require gen.InsertGen.
From TF Require Import Base Query Index DB InsertSem proofs.BaseP.
Import ListNotations.

Section P.
Variable norm : point -> point.

(* the renaming: `if measurement and point.measurement != measurement: point.measurement = measurement` *)
Lemma gen_rename_eq m p : InsertGen.gen_rename m p = match truthy m with Some name => set_meas p name | None => p end.
Proof.
  first [reflexivity |
  unfold InsertGen.gen_rename, m_truthy, meas_is, set_meas_o; destruct m as [[|c s]|]; cbn [truthy andb negb]; try reflexivity;
  destruct (str_eqb (p_meas p) (c :: s)) eqn:He; cbn [negb]; [|reflexivity];
  unfold set_meas; destruct p as [t0 m0 tg fl]; cbn [p_meas p_time p_tags p_fields] in *;
  apply str_eqb_eq in He; subst m0; reflexivity ].
Qed.

(* the index after one appended point *)
Lemma gen_index_step_eq auto ix p :
  InsertGen.gen_index_step auto ix p =
  if auto && ix_valid ix then
    (if negb (ix_is_empty ix) && match ix_latest ix with Some t => Z.ltb (p_time p) t | None => false end then ix_invalidate ix else ix_insert ix p)
  else if ix_valid ix then ix_invalidate ix else ix.
Proof. reflexivity. Qed.

Lemma step_not_auto_invalid ix p : ix_valid (InsertGen.gen_index_step false ix p) = false.
Proof. rewrite gen_index_step_eq. cbn [andb]. destruct (ix_valid ix) eqn:Hv; [reflexivity|exact Hv]. Qed.

(* the loop of _insert_helper, assembled from the generated decisions; the statement after the loop is applied to what the loop leaves *)
Fixpoint gen_loop (s : state) (ps : list (option point)) (m : option str) (count : nat) : state * out * nat :=
  match ps with
  | [] => (s, ONat count, count)
  | None :: _ => (s, ORaise, count)
  | Some p0 :: r =>
      let p := InsertGen.gen_rename m p0 in
      gen_loop (mkState (st_rows s ++ [norm p]) (InsertGen.gen_index_step (st_auto s) (st_idx s) p) (st_auto s)) r m (S count)
  end.
Definition gen_insert (s : state) (ps : list (option point)) (m : option str) : state * out :=
  let '(s', o, n) := gen_loop s ps m 0 in
  match o with
  | ORaise => (s', o)                                           (* the TypeError leaves the function from inside the loop *)
  | _ => (mkState (st_rows s') (InsertGen.gen_index_after_loop n (st_auto s') (st_idx s')) (st_auto s'), o)
  end.

Lemma gen_loop_eq : forall ps s m count, let '(s', o, _) := gen_loop s ps m count in (s', o) = insert_loop norm s ps m count.
Proof.
  induction ps as [|[p0|] r IH]; intros s m count; cbn [gen_loop insert_loop]; try reflexivity.
  rewrite gen_rename_eq, gen_index_step_eq. apply IH.
Qed.

Lemma gen_after_loop_eq n auto ix :
  InsertGen.gen_index_after_loop n auto ix = if negb (Nat.eqb n 0) && (negb auto && ix_valid ix) then ix_invalidate ix else ix.
Proof. reflexivity. Qed.

Lemma gen_loop_auto : forall ps s m c s' o n, gen_loop s ps m c = (s', o, n) -> st_auto s' = st_auto s /\ c <= n.
Proof.
  induction ps as [|[p0|] r IH]; intros s m c s' o n H; cbn [gen_loop] in H.
  - inversion H; subst; split; [reflexivity|lia].
  - apply IH in H. destruct H as [H1 H2]. split; [exact H1 | lia].
  - inversion H; subst; split; [reflexivity|lia].
Qed.

(* without automatic indexing an index that is not valid stays so ... *)
Lemma gen_loop_stays_invalid : forall ps s m c s' o n, st_auto s = false -> ix_valid (st_idx s) = false ->
  gen_loop s ps m c = (s', o, n) -> ix_valid (st_idx s') = false.
Proof.
  induction ps as [|[p0|] r IH]; intros s m c s' o n Ha Hv H; cbn [gen_loop] in H.
  - inversion H; subst; exact Hv.
  - apply IH in H; [exact H | exact Ha |]. cbn [st_idx]. rewrite Ha. apply step_not_auto_invalid.
  - inversion H; subst; exact Hv.
Qed.
(* ... and it is not valid any more once one point has gone through the loop: the statement after the loop changes nothing *)
Lemma gen_loop_invalidates : forall ps s m c s' o n, st_auto s = false -> gen_loop s ps m c = (s', o, n) -> c < n -> ix_valid (st_idx s') = false.
Proof.
  intros [|[p0|] r] s m c s' o n Ha H Hn; cbn [gen_loop] in H.
  - inversion H; subst; lia.
  - eapply gen_loop_stays_invalid in H; [exact H | exact Ha |]. cbn [st_idx]. rewrite Ha. apply step_not_auto_invalid.
  - inversion H; subst; lia.
Qed.

Lemma state_eta' s : mkState (st_rows s) (st_idx s) (st_auto s) = s.
Proof. destruct s; reflexivity. Qed.

Theorem gen_insert_eq : forall s ps m, gen_insert s ps m = db_insert norm s ps m.
Proof.
  intros s ps m. unfold gen_insert, db_insert.
  pose proof (gen_loop_eq ps s m 0) as He.
  destruct (gen_loop s ps m 0) as [[s' o] n] eqn:Hl. rewrite <- He.
  assert (Hix : InsertGen.gen_index_after_loop n (st_auto s') (st_idx s') = st_idx s').
  { rewrite gen_after_loop_eq. destruct (gen_loop_auto _ _ _ _ _ _ _ Hl) as [Ha _].
    destruct (Nat.eqb n 0) eqn:Hn; cbn [negb andb]; [reflexivity|].
    destruct (st_auto s') eqn:Hauto; cbn [negb andb]; [reflexivity|].
    assert (Hoff : st_auto s = false) by (symmetry; exact Ha).
    rewrite (gen_loop_invalidates _ _ _ _ _ _ _ Hoff Hl) by (apply Nat.eqb_neq in Hn; lia).
    reflexivity. }
  assert (Hs : mkState (st_rows s') (InsertGen.gen_index_after_loop n (st_auto s') (st_idx s')) (st_auto s') = s')
    by (rewrite Hix; apply state_eta').
  destruct o; try (rewrite Hs; reflexivity); reflexivity.
Qed.
End P.
