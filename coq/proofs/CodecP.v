(* CodecP.v - the row codec round trip (C05): de (ser c p) = Some p on well-formed,
   reserved-free points; corollaries; refutations of the unguarded statement. *)
From Coq Require Import List ZArith NArith Bool Arith Lia.
From TF Require Import Base Query Codec.
Import ListNotations.

Definition wf_point (p : point) : Prop := dsorted (p_tags p) = true /\ dsorted (p_fields p) = true.

(* ---- 1. string equality ----------------------------------------------------------- *)
Lemma str_eqb_eq : forall a b : str, str_eqb a b = true <-> a = b.
Proof.
  induction a as [|x a IH]; intros [|y b]; cbn [str_eqb]; split; intro H;
    try reflexivity; try discriminate.
  - apply andb_true_iff in H. destruct H as [H1 H2].
    apply N.eqb_eq in H1. apply IH in H2. subst. reflexivity.
  - inversion H; subst. apply andb_true_iff. split.
    + apply N.eqb_refl.
    + apply IH. reflexivity.
Qed.

Lemma str_eqb_refl : forall a, str_eqb a a = true.
Proof. intro a. apply str_eqb_eq. reflexivity. Qed.

Lemma str_eqb_neq : forall a b : str, str_eqb a b = false <-> a <> b.
Proof.
  intros a b. split.
  - intros H E. apply str_eqb_eq in E. rewrite E in H. discriminate.
  - intro H. destruct (str_eqb a b) eqn:E; [|reflexivity].
    apply str_eqb_eq in E. contradiction.
Qed.

(* ---- 2. string order --------------------------------------------------------------- *)
Lemma str_ltb_irrefl : forall a, str_ltb a a = false.
Proof.
  induction a as [|x a IH]; cbn [str_ltb]; [reflexivity|].
  rewrite N.ltb_irrefl, N.eqb_refl. exact IH.
Qed.

Lemma str_ltb_trans : forall a b c, str_ltb a b = true -> str_ltb b c = true -> str_ltb a c = true.
Proof.
  induction a as [|x a IH]; intros [|y b] [|z c]; cbn [str_ltb]; intros H1 H2;
    try reflexivity; try discriminate.
  destruct (N.ltb_spec x y) as [Lxy|Lxy]; destruct (N.eqb_spec x y) as [Exy|Exy];
  destruct (N.ltb_spec y z) as [Lyz|Lyz]; destruct (N.eqb_spec y z) as [Eyz|Eyz];
  destruct (N.ltb_spec x z) as [Lxz|Lxz]; destruct (N.eqb_spec x z) as [Exz|Exz];
    try reflexivity; try discriminate; try lia.
  eapply IH; eassumption.
Qed.

Lemma str_ltb_total : forall a b, str_ltb a b = false -> str_eqb a b = false -> str_ltb b a = true.
Proof.
  induction a as [|x a IH]; intros [|y b]; cbn [str_ltb str_eqb]; intros H1 H2;
    try reflexivity; try discriminate.
  destruct (N.ltb_spec x y) as [Lxy|Lxy]; destruct (N.eqb_spec x y) as [Exy|Exy];
  destruct (N.ltb_spec y x) as [Lyx|Lyx]; destruct (N.eqb_spec y x) as [Eyx|Eyx];
    try reflexivity; try discriminate; try lia.
  cbn [andb] in H2. apply IH; assumption.
Qed.

Lemma str_ltb_asym : forall a b, str_ltb a b = true -> str_ltb b a = false.
Proof.
  intros a b H. destruct (str_ltb b a) eqn:E; [|reflexivity].
  pose proof (str_ltb_trans a b a H E) as C. rewrite str_ltb_irrefl in C. discriminate.
Qed.

(* ---- 3. rebuilding a sorted dictionary ---------------------------------------------- *)
Lemma dsorted_cons2 : forall (V : Type) k (v : V) k' v' r,
  dsorted ((k, v) :: (k', v') :: r) = str_ltb k k' && dsorted ((k', v') :: r).
Proof. reflexivity. Qed.

Lemma dsorted_cons : forall (V : Type) (r : list (str * V)) k (v : V),
  dsorted ((k, v) :: r) = true ->
  dsorted r = true /\ Forall (fun kv => str_ltb k (fst kv) = true) r.
Proof.
  intros V. induction r as [|[k' v'] r IH]; intros k v H.
  - split; [reflexivity|constructor].
  - rewrite dsorted_cons2 in H. apply andb_true_iff in H. destruct H as [L S].
    destruct (IH k' v' S) as [_ F]. split; [exact S|].
    constructor; [exact L|].
    eapply Forall_impl; [|exact F].
    intros a Ha. eapply str_ltb_trans; eassumption.
Qed.

Lemma dset_above : forall (V : Type) k (v : V) (acc : list (str * V)),
  Forall (fun kv => str_ltb (fst kv) k = true) acc -> dset k v acc = acc ++ [(k, v)].
Proof.
  intros V k v. induction acc as [|[k' v'] r IH]; intro H; cbn [dset app].
  - reflexivity.
  - inversion H as [|x l Hk Hr]; subst. cbn [fst] in Hk.
    destruct (str_eqb k k') eqn:E.
    { apply str_eqb_eq in E. subst. rewrite str_ltb_irrefl in Hk. discriminate. }
    rewrite (str_ltb_asym _ _ Hk). rewrite IH by assumption. reflexivity.
Qed.

Lemma dset_rebuild_gen : forall (V : Type) (d acc : list (str * V)),
  dsorted d = true ->
  Forall (fun a => Forall (fun b => str_ltb (fst a) (fst b) = true) d) acc ->
  fold_left (fun acc kv => dset (fst kv) (snd kv) acc) d acc = acc ++ d.
Proof.
  intros V. induction d as [|[k v] r IH]; intros acc Hs Hlt; cbn [fold_left fst snd].
  - rewrite app_nil_r. reflexivity.
  - destruct (dsorted_cons _ _ _ _ Hs) as [Hr Hk].
    rewrite dset_above.
    2:{ eapply Forall_impl; [|exact Hlt]. intros a Ha.
        inversion Ha as [|x l Hx Hl]; subst. exact Hx. }
    rewrite IH.
    + rewrite <- app_assoc. reflexivity.
    + exact Hr.
    + apply Forall_app. split.
      * eapply Forall_impl; [|exact Hlt]. intros a Ha.
        inversion Ha as [|x l Hx Hl]; subst. exact Hl.
      * constructor; [exact Hk|constructor].
Qed.

Lemma dset_rebuild : forall (V : Type) (d : list (str * V)), dsorted d = true -> fold_left (fun acc kv => dset (fst kv) (snd kv) acc) d [] = d.
Proof.
  intros V d H. rewrite dset_rebuild_gen; [reflexivity|exact H|constructor].
Qed.

(* ---- 4. the codec ---------------------------------------------------------------------- *)
Definition tagcell (tp : str) (kv : str * option str) : list cell :=
  [CText (tp ++ fst kv); CText (match snd kv with None => s_none | Some v => v end)].
Definition fieldcell (fp : str) (kv : str * option num) : list cell :=
  [CText (fp ++ fst kv); match snd kv with None => CText s_none | Some x => CNum x end].

Lemma ser_eq : forall c p,
  ser c p = CTime (p_time p)
            :: CText (match p_meas p with [] => s_none | m => m end)
            :: flat_map (tagcell (if c then pre_ctag else pre_tag)) (p_tags p)
            ++ flat_map (fieldcell (if c then pre_cfield else pre_field)) (p_fields p).
Proof. reflexivity. Qed.

Lemma de_eq : forall t m rest,
  de (CTime t :: CText m :: rest) =
  match de_tags (S (length rest)) rest [] with
  | None => None
  | Some (tags, rest') =>
    match de_fields (S (length rest')) rest' [] with
    | None => None
    | Some fields => Some (mkPoint t m tags fields)
    end
  end.
Proof. reflexivity. Qed.

Definition is_tagpre (tp : str) : Prop := tp = pre_tag \/ tp = pre_ctag.
Definition is_fieldpre (fp : str) : Prop := fp = pre_field \/ fp = pre_cfield.

Lemma length_tagcells : forall tp l, length (flat_map (tagcell tp) l) = 2 * length l.
Proof.
  intros tp. induction l as [|kv l IH]; cbn [flat_map tagcell app length]; [reflexivity|].
  rewrite IH. lia.
Qed.

Lemma length_fieldcells : forall fp l, length (flat_map (fieldcell fp) l) = 2 * length l.
Proof.
  intros fp. induction l as [|kv l IH]; cbn [flat_map fieldcell app length]; [reflexivity|].
  rewrite IH. lia.
Qed.

(* one turn of the tag loop on a tag cell, whatever the key is *)
Lemma de_tags_step : forall tp k v f rest acc, is_tagpre tp ->
  de_tags (S f) (CText (tp ++ k) :: CText v :: rest) acc
  = de_tags f rest (dset k (if str_eqb v s_none then None else Some v) acc).
Proof. intros tp k v f rest acc [H|H]; subst tp; reflexivity. Qed.

Definition tagval_ok (kv : str * option str) : bool :=
  match snd kv with Some v => negb (str_eqb v s_none) | None => true end.

Lemma tagval_roundtrip : forall o : option str,
  match o with Some v => negb (str_eqb v s_none) | None => true end = true ->
  (if str_eqb (match o with None => s_none | Some v => v end) s_none
   then None else Some (match o with None => s_none | Some v => v end)) = o.
Proof.
  intros [v|] H.
  - apply negb_true_iff in H. rewrite H. reflexivity.
  - reflexivity.
Qed.

(* cells on which the tag loop stops without consuming anything *)
Definition tag_stop (rest : list cell) : Prop :=
  forall f acc, de_tags (S f) rest acc = Some (acc, rest).

Lemma field_stop : forall fp fields, is_fieldpre fp -> tag_stop (flat_map (fieldcell fp) fields).
Proof.
  intros fp [|[k o] r] H f acc.
  - reflexivity.
  - cbn [flat_map fieldcell app fst snd]. destruct H as [H|H]; subst fp; reflexivity.
Qed.

Lemma de_tags_cells : forall tp tags fuel rest acc,
  is_tagpre tp ->
  forallb (fun kv => match snd kv with Some v => negb (str_eqb v s_none) | None => true end) tags = true ->
  tag_stop rest ->
  length tags < fuel ->
  de_tags fuel (flat_map (tagcell tp) tags ++ rest) acc
  = Some (fold_left (fun acc kv => dset (fst kv) (snd kv) acc) tags acc, rest).
Proof.
  intros tp. induction tags as [|[k o] r IH]; intros fuel rest acc Hp Hok Hstop Hfuel.
  - cbn [flat_map app fold_left]. destruct fuel as [|f]; [cbn in Hfuel; lia|]. apply Hstop.
  - destruct fuel as [|f]; [cbn in Hfuel; lia|].
    cbn [forallb snd] in Hok. apply andb_true_iff in Hok. destruct Hok as [Hv Hok].
    cbn [flat_map tagcell app fst snd].
    rewrite de_tags_step by exact Hp.
    rewrite tagval_roundtrip by exact Hv.
    cbn [fold_left fst snd].
    apply IH; try assumption. cbn [length] in Hfuel. lia.
Qed.

Lemma de_fields_step_num : forall fp k x f rest acc, is_fieldpre fp ->
  de_fields (S f) (CText (fp ++ k) :: CNum x :: rest) acc
  = de_fields f rest (dset k (Some x) acc).
Proof. intros fp k x f rest acc [H|H]; subst fp; reflexivity. Qed.

Lemma de_fields_step_none : forall fp k f rest acc, is_fieldpre fp ->
  de_fields (S f) (CText (fp ++ k) :: CText s_none :: rest) acc
  = de_fields f rest (dset k None acc).
Proof. intros fp k f rest acc [H|H]; subst fp; reflexivity. Qed.

Lemma de_fields_cells : forall fp fields fuel acc,
  is_fieldpre fp ->
  length fields < fuel ->
  de_fields fuel (flat_map (fieldcell fp) fields) acc
  = Some (fold_left (fun acc kv => dset (fst kv) (snd kv) acc) fields acc).
Proof.
  intros fp. induction fields as [|[k o] r IH]; intros fuel acc Hp Hfuel.
  - cbn [flat_map fold_left]. destruct fuel as [|f]; [cbn in Hfuel; lia|]. reflexivity.
  - destruct fuel as [|f]; [cbn in Hfuel; lia|].
    cbn [flat_map fieldcell app fst snd].
    cbn [length] in Hfuel.
    destruct o as [x|].
    + rewrite de_fields_step_num by exact Hp. cbn [fold_left fst snd]. apply IH; [exact Hp|lia].
    + rewrite de_fields_step_none by exact Hp. cbn [fold_left fst snd]. apply IH; [exact Hp|lia].
Qed.

Theorem de_ser : forall (compact : bool) (p : point), wf_point p -> reserved_free p = true -> de (ser compact p) = Some p.
Proof.
  intros compact [t m tags fields] [Ht Hf] Hr.
  unfold reserved_free in Hr. cbn [p_time p_meas p_tags p_fields] in *.
  apply andb_true_iff in Hr. destruct Hr as [Hm Hv].
  destruct m as [|c m]; [discriminate|].
  rewrite ser_eq. cbn [p_time p_meas p_tags p_fields].
  rewrite de_eq.
  assert (Htp : is_tagpre (if compact then pre_ctag else pre_tag)).
  { destruct compact; [right|left]; reflexivity. }
  assert (Hfp : is_fieldpre (if compact then pre_cfield else pre_field)).
  { destruct compact; [right|left]; reflexivity. }
  rewrite de_tags_cells.
  - rewrite de_fields_cells.
    + rewrite (dset_rebuild _ _ Ht), (dset_rebuild _ _ Hf). reflexivity.
    + exact Hfp.
    + rewrite length_fieldcells. lia.
  - exact Htp.
  - exact Hv.
  - apply field_stop. exact Hfp.
  - rewrite app_length, length_tagcells. lia.
Qed.

(* ---- 5. corollaries -------------------------------------------------------------------- *)
Theorem csv_norm_id : forall p, wf_point p -> reserved_free p = true -> csv_norm p = p.
Proof.
  intros p Hw Hr. unfold csv_norm. rewrite (de_ser false p Hw Hr). reflexivity.
Qed.

Theorem decode_injective : forall c1 c2 p1 p2, wf_point p1 -> wf_point p2 -> reserved_free p1 = true -> reserved_free p2 = true -> de (ser c1 p1) = de (ser c2 p2) -> p1 = p2.
Proof.
  intros c1 c2 p1 p2 W1 W2 R1 R2 H.
  rewrite (de_ser c1 p1 W1 R1), (de_ser c2 p2 W2 R2) in H.
  inversion H. reflexivity.
Qed.

Theorem ser_injective : forall c1 c2 p1 p2, wf_point p1 -> wf_point p2 -> reserved_free p1 = true -> reserved_free p2 = true -> ser c1 p1 = ser c2 p2 -> p1 = p2.
Proof.
  intros c1 c2 p1 p2 W1 W2 R1 R2 H.
  apply (decode_injective c1 c2 p1 p2 W1 W2 R1 R2). rewrite H. reflexivity.
Qed.

(* ---- 6. the unguarded statement is false --------------------------------------------------- *)
Definition bad_tag_point : point := mkPoint 0%Z [109%N] [([97%N], Some s_none)] [].
Definition bad_tag_twin : point := mkPoint 0%Z [109%N] [([97%N], None)] [].
Definition bad_meas_point : point := mkPoint 0%Z [] [] [].

Theorem de_ser_refuted_tag : exists p, wf_point p /\ de (ser false p) <> Some p.
Proof.
  exists bad_tag_point. split.
  - split; reflexivity.
  - vm_compute. intro H. discriminate H.
Qed.

Theorem de_ser_refuted_meas : exists p, wf_point p /\ de (ser false p) <> Some p /\ p_meas p = [].
Proof.
  exists bad_meas_point. split; [|split].
  - split; reflexivity.
  - vm_compute. intro H. discriminate H.
  - reflexivity.
Qed.

Theorem not_injective_refuted : exists p1 p2, wf_point p1 /\ wf_point p2 /\ p1 <> p2 /\ de (ser false p1) = de (ser false p2).
Proof.
  exists bad_tag_point, bad_tag_twin. split; [|split; [|split]].
  - split; reflexivity.
  - split; reflexivity.
  - intro H. discriminate H.
  - vm_compute. reflexivity.
Qed.

(* ---- 7. non-vacuity ------------------------------------------------------------------------ *)
Definition good_point : point :=
  mkPoint 1700000000000000%Z [99; 112; 117]%N
    [([102; 111; 111]%N, None); ([116; 97; 103]%N, Some [120; 121]%N); ([116; 116]%N, Some []%N)]
    [([95; 102]%N, None); ([102; 108; 111; 119]%N, Some (NFin 3 (-1)))].

Example de_ser_example : exists p, wf_point p /\ reserved_free p = true /\ p_tags p <> [] /\ p_fields p <> [] /\ de (ser true p) = Some p.
Proof.
  exists good_point. split; [|split; [|split; [|split]]].
  - split; vm_compute; reflexivity.
  - vm_compute. reflexivity.
  - intro H. discriminate H.
  - intro H. discriminate H.
  - vm_compute. reflexivity.
Qed.

Example de_ser_example_long : de (ser false good_point) = Some good_point.
Proof. vm_compute. reflexivity. Qed.

Print Assumptions de_ser.
Print Assumptions csv_norm_id.
Print Assumptions ser_injective.
Print Assumptions decode_injective.
Print Assumptions de_ser_refuted_tag.
Print Assumptions not_injective_refuted.
