(* TextP.v — a stored row read back as text decodes to the point that was written, for every
   point on which the format is faithful, under the two standard-library round-trip
   hypotheses (isoformat/fromisoformat, float repr/float()). *)
From Coq Require Import List ZArith NArith Bool Arith Lia.
From TF Require Import Base Query Codec Csv Text proofs.CodecP proofs.CsvP.
Import ListNotations.

Section TextP.
Variable fmt_time : Z -> str.
Variable parse_time : str -> option Z.
Variable fmt_num : num -> str.
Variable parse_num : str -> option num.
Hypothesis time_roundtrip : forall t, parse_time (fmt_time t) = Some t.
Hypothesis num_roundtrip : forall x, parse_num (fmt_num x) = Some x.
Hypothesis num_not_sentinel : forall x, str_eqb (fmt_num x) s_none = false.

Notation render := (render fmt_time fmt_num).
Notation render_row := (render_row fmt_time fmt_num).
Notation cells_fields := (cells_fields parse_num).
Notation cells_tags := (cells_tags parse_num).
Notation parse_row := (parse_row parse_time parse_num).
Notation decode_row := (decode_row parse_time parse_num).
Notation encode_row := (encode_row fmt_time fmt_num).

Lemma tag_key_tagpre tp k : is_tagpre tp -> tag_key (tp ++ k) = Some true.
Proof. intros [H|H]; subst tp; reflexivity. Qed.
Lemma tag_key_fieldpre fp k : is_fieldpre fp -> tag_key (fp ++ k) = Some false.
Proof. intros [H|H]; subst fp; reflexivity. Qed.

Lemma cells_fields_render fp fields : is_fieldpre fp ->
  cells_fields (map render (flat_map (fieldcell fp) fields)) = Some (flat_map (fieldcell fp) fields).
Proof.
  intros Hp. induction fields as [|[k o] r IH]; [reflexivity|].
  cbn [flat_map fieldcell app map fst snd Text.render Text.cells_fields].
  destruct o as [x|].
  - cbn [Text.render]. rewrite num_not_sentinel, num_roundtrip. cbn [option_map]. rewrite IH. reflexivity.
  - cbn [Text.render]. change (str_eqb s_none s_none) with true. cbn [option_map]. rewrite IH. reflexivity.
Qed.

Lemma cells_tags_render tp fp tags fields : is_tagpre tp -> is_fieldpre fp ->
  cells_tags (map render (flat_map (tagcell tp) tags ++ flat_map (fieldcell fp) fields))
  = Some (flat_map (tagcell tp) tags ++ flat_map (fieldcell fp) fields).
Proof.
  intros Ht Hf. induction tags as [|[k o] r IH].
  - cbn [flat_map app]. destruct fields as [|[k o] r]; [reflexivity|].
    pose proof (cells_fields_render fp ((k, o) :: r) Hf) as H.
    cbn [flat_map fieldcell app map fst snd Text.render] in *.
    cbn [Text.cells_tags]. rewrite (tag_key_fieldpre fp k Hf). exact H.
  - cbn [flat_map tagcell app map fst snd Text.render Text.cells_tags].
    rewrite (tag_key_tagpre tp k Ht). rewrite IH. reflexivity.
Qed.

Theorem parse_render c p : parse_row (render_row (ser c p)) = Some (ser c p).
Proof.
  rewrite ser_eq. unfold Text.render_row. cbn [map Text.render Text.parse_row].
  rewrite time_roundtrip.
  rewrite cells_tags_render; [reflexivity| |]; destruct c; [right|left|right|left]; reflexivity.
Qed.

(* the row codec at the level of text: write a point, read the strings back, get the point *)
Theorem decode_encode c p : wf_point p -> reserved_free p = true -> decode_row (encode_row c p) = Some p.
Proof.
  intros Hw Hr. unfold Text.decode_row, Text.encode_row. rewrite parse_render. cbn [opt_bind]. now apply de_ser.
Qed.

(* rows may be written with either key-prefix style, mixed in one file *)
Definition encode_rows (rows : list (bool * point)) : list (list str) := map (fun cp => encode_row (fst cp) (snd cp)) rows.
Definition good_rows (rows : list (bool * point)) : Prop := forall cp, In cp rows -> wf_point (snd cp) /\ reserved_free (snd cp) = true.

Lemma map_decode_encode rows : good_rows rows -> map decode_row (encode_rows rows) = map (fun cp => Some (snd cp)) rows.
Proof.
  unfold encode_rows. induction rows as [|[c p] r IH]; intros H; [reflexivity|]. cbn [map fst snd].
  destruct (H (c, p) (or_introl eq_refl)) as [Hw Hr]. cbn [snd] in *. rewrite (decode_encode c p Hw Hr).
  rewrite IH; [reflexivity|]. intros q Hq. apply H. now right.
Qed.

(* the whole file: rows written by csv.writer for a list of points, read by csv.reader and decoded row by row *)
Theorem file_roundtrip D rows : wf_dialect D -> good_rows rows ->
  option_map (map decode_row) (csv_read D (csv_write D (encode_rows rows))) = Some (map (fun cp => Some (snd cp)) rows).
Proof.
  intros HD H. rewrite (csv_roundtrip D _ HD). cbn [option_map]. now rewrite map_decode_encode.
Qed.

(* appending to a file of complete rows: the reader is back in its start state after every row *)
Theorem file_append_roundtrip D old new : wf_dialect D -> good_rows (old ++ new) ->
  option_map (map decode_row) (csv_read D (csv_write D (encode_rows old) ++ csv_write D (encode_rows new)))
  = Some (map (fun cp => Some (snd cp)) (old ++ new)).
Proof.
  intros HD H. rewrite (csv_append_roundtrip D _ _ HD). cbn [option_map]. rewrite map_app, map_app.
  rewrite (map_decode_encode old), (map_decode_encode new); [reflexivity| |];
    intros p Hp; apply H; apply in_app_iff; auto.
Qed.

(* distinct points never give the same row of text *)
Theorem encode_injective c1 c2 p1 p2 : wf_point p1 -> wf_point p2 -> reserved_free p1 = true -> reserved_free p2 = true ->
  encode_row c1 p1 = encode_row c2 p2 -> p1 = p2.
Proof.
  intros W1 W2 R1 R2 H. pose proof (decode_encode c1 p1 W1 R1) as H1. rewrite H in H1.
  rewrite (decode_encode c2 p2 W2 R2) in H1. now injection H1.
Qed.
End TextP.
