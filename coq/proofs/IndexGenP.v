(* IndexGenP.v — the maintenance of the index as tinyflux/index.py defines it now (gen/IndexGen.v, compiled from the source on every run by
   harness/py2coq_index.py: __init__, _reset, invalidate, the _insert_ methods, insert, build, the _remove_ methods, remove, the _update_ methods,
   update) IS the model's maintenance (Index.v: ix_empty_valid, ix_reset, ix_invalidate, ix_insert, ix_build, ix_remove, ix_renumber) through the
   abstraction IndexSem.abs.  Time arrays, item count, validity flag, measurement map and field map are EQUAL; the tag map - a dict of dicts in
   the source, one map keyed by pairs in the model - has the same entries, in another order of keys (`ix_eqv`).  `Rep` (IndexDefs.v: the index
   describes the stored points), on which every theorem about answers of the index rests, does not see that order (`Rep_eqv`), so the theorems
   about incremental maintenance (C06_build / _insert / _remove / _reset) hold of what the source does (`C06_source_*`). *)
From Coq Require Import List ZArith Bool Arith Lia Permutation.
From TF Require Import Base Query Index IndexSem proofs.BaseP proofs.MapRepP proofs.IndexDefs proofs.TimeSearchP proofs.RepP.
From TF Require gen.IndexGen.
Import ListNotations.

(* ---------- dicts ---------- *)
Section DictP.
Context {K V : Type} {EK : PyEq K}.
Hypothesis pyeq_eq : forall a b : K, pyeq a b = true <-> a = b.

Lemma pyeq_refl a : pyeq a a = true.
Proof. apply pyeq_eq. reflexivity. Qed.
Lemma pyeq_neq a b : pyeq a b = false <-> a <> b.
Proof. split; intros H. - intros E. apply pyeq_eq in E. congruence. - destruct (pyeq a b) eqn:E; [apply pyeq_eq in E; contradiction | reflexivity]. Qed.

Lemma d_has_In (d : pydict K V) k : d_has k d = true <-> In k (map fst d).
Proof.
  induction d as [|[k0 v0] r IH]; cbn [d_has map fst In]. - split; [discriminate | intros []].
  - destruct (pyeq k k0) eqn:E. + apply pyeq_eq in E. subst. split; auto. + apply pyeq_neq in E. rewrite IH. split; [auto | intros [H|H]; [congruence | exact H]].
Qed.
Lemma d_has_false (d : pydict K V) k : d_has k d = false <-> ~ In k (map fst d).
Proof. rewrite <- d_has_In. destruct (d_has k d); split; intros H; try congruence; try (exfalso; apply H; reflexivity). Qed.

Lemma d_set_keys (d : pydict K V) k v : map fst (d_set k v d) = if d_has k d then map fst d else map fst d ++ [k].
Proof.
  induction d as [|[k0 v0] r IH]; cbn [d_set d_has map fst app]. - reflexivity.
  - destruct (pyeq k k0); cbn [map fst]. + reflexivity. + rewrite IH. destruct (d_has k r); reflexivity.
Qed.
Lemma d_set_NoDup (d : pydict K V) k v : NoDup (map fst d) -> NoDup (map fst (d_set k v d)).
Proof.
  intros Hn. rewrite d_set_keys. destruct (d_has k d) eqn:E. - exact Hn. - apply NoDup_app_last. exact Hn. apply d_has_false. exact E.
Qed.
Lemma d_get_In (d : pydict K V) dflt k v : NoDup (map fst d) -> In (k, v) d -> d_get dflt k d = v.
Proof.
  induction d as [|[k0 v0] r IH]; intros Hn Hin. - destruct Hin.
  - cbn [map fst] in Hn. inversion Hn as [|x l Hx Hn']; subst. cbn [d_get]. destruct Hin as [Hin|Hin].
    + inversion Hin; subst. rewrite pyeq_refl. reflexivity.
    + destruct (pyeq k k0) eqn:E. * apply pyeq_eq in E. subst. exfalso. apply Hx. apply (in_map_fst_pair r k0 v Hin). * apply IH; assumption.
Qed.
Lemma d_get_has_In (d : pydict K V) dflt k : d_has k d = true -> In (k, d_get dflt k d) d.
Proof.
  induction d as [|[k0 v0] r IH]; cbn [d_has d_get]. - discriminate.
  - destruct (pyeq k k0) eqn:E. + apply pyeq_eq in E. subst. intros _. left. reflexivity. + intros H. right. apply IH. exact H.
Qed.
Lemma d_set_In (d : pydict K V) k v k' v' : NoDup (map fst d) ->
  (In (k', v') (d_set k v d) <-> (k' <> k /\ In (k', v') d) \/ (k' = k /\ v' = v)).
Proof.
  induction d as [|[k0 v0] r IH]; intros Hn.
  - cbn [d_set In]. split. + intros [H|[]]. inversion H; subst. right. split; reflexivity. + intros [[_ []]|[H1 H2]]. subst. left. reflexivity.
  - cbn [map fst] in Hn. inversion Hn as [|x l Hx Hn']; subst. cbn [d_set]. destruct (pyeq k k0) eqn:E.
    + apply pyeq_eq in E. subst k0. cbn [In]. split.
      * intros [H|H]. -- inversion H; subst. right. split; reflexivity.
        -- left. split; [|right; exact H]. intro Hk. subst k'. apply Hx. apply (in_map_fst_pair r k v' H).
      * intros [[Hk [H|H]]|[Hk Hb]]. -- inversion H; subst. congruence. -- right. exact H. -- subst. left. reflexivity.
    + apply pyeq_neq in E. cbn [In]. rewrite (IH Hn'). split.
      * intros [H|[[Hk H]|[Hk Hb]]]. -- inversion H; subst. left. split; [congruence | left; reflexivity]. -- left. split; [exact Hk | right; exact H]. -- right. split; assumption.
      * intros [[Hk [H|H]]|[Hk Hb]]. -- left. exact H. -- right. left. split; assumption. -- right. right. split; assumption.
Qed.
(* a dict built by setting pairwise distinct keys, one after the other, on top of a dict that holds none of them, is that dict followed by the pairs *)
Lemma d_set_fresh (d : pydict K V) k v : d_has k d = false -> d_set k v d = d ++ [(k, v)].
Proof.
  induction d as [|[k0 v0] r IH]; cbn [d_has d_set app]. - reflexivity. - destruct (pyeq k k0). + discriminate. + intros H. rewrite (IH H). reflexivity.
Qed.
End DictP.

Lemma pyeq_str_eq : forall a b : str, pyeq a b = true <-> a = b.
Proof. exact str_eqb_eq. Qed.
Lemma pyeq_ostr_eq : forall a b : option str, pyeq a b = true <-> a = b.
Proof. exact ostr_eqb_eq. Qed.
Lemma pyeq_nat_eq : forall a b : nat, pyeq a b = true <-> a = b.
Proof. exact Nat.eqb_eq. Qed.

(* the `if k not in d: d[k] = [x] else: d[k].append(x)` idiom is the model's im_add *)
Section AddP.
Context {K V : Type} {EK : PyEq K}.
Definition dict_add (k : K) (x : nat * V) (d : pydict K (list (nat * V))) : pydict K (list (nat * V)) :=
  if negb (d_has k d) then d_set k [x] d else d_set k (d_get [] k d ++ [x]) d.
Lemma dict_add_im_add k i v (d : pydict K (list (nat * V))) : dict_add k (i, v) d = im_add pyeq k i v d.
Proof.
  unfold dict_add. induction d as [|[k0 b0] r IH]; cbn [d_has d_set d_get im_add negb]. - reflexivity.
  - destruct (pyeq k k0) eqn:E; cbn [negb]. + reflexivity.
    + rewrite <- IH. destruct (d_has k r); cbn [negb]; reflexivity.
Qed.
End AddP.

(* the same idiom on a dict of position lists: the model's im_add with the unit payload *)
Section UAddP.
Context {K : Type} {EK : PyEq K}.
Definition uadd (k : K) (i : nat) (d : pydict K (list nat)) : pydict K (list nat) :=
  if negb (d_has k d) then d_set k [i] d else d_set k (d_get [] k d ++ [i]) d.
Lemma uadd_im_add k i d : ubuckets (uadd k i d) = im_add pyeq k i tt (ubuckets d).
Proof.
  unfold uadd, ubuckets. induction d as [|[k0 b0] r IH]; cbn [d_has d_set d_get im_add negb map fst snd]. - reflexivity.
  - destruct (pyeq k k0) eqn:E; cbn [negb map fst snd].
    + unfold unit_bucket. rewrite map_app. reflexivity.
    + rewrite <- IH. destruct (d_has k r); cbn [negb]; reflexivity.
Qed.
Lemma ubuckets_keys (d : pydict K (list nat)) : map fst (ubuckets d) = map fst d.
Proof. unfold ubuckets. rewrite map_map. reflexivity. Qed.
End UAddP.

(* ---------- inverted maps with the same entries ---------- *)
Section EqvP.
Context {K V : Type} (keqb : K -> K -> bool).
Hypothesis keqb_eq : forall a b, keqb a b = true <-> a = b.

Definition meqv (a b : imap K V) : Prop := NoDup (map fst a) /\ NoDup (map fst b) /\ forall k bk, In (k, bk) a <-> In (k, bk) b.
Lemma meqv_refl a : NoDup (map fst a) -> meqv a a.
Proof. intros H. split; [exact H | split; [exact H | intros; reflexivity]]. Qed.
Lemma meqv_sym a b : meqv a b -> meqv b a.
Proof. intros [H1 [H2 H3]]. split; [exact H2 | split; [exact H1 | intros k bk; symmetry; apply H3]]. Qed.
Lemma meqv_trans a b c : meqv a b -> meqv b c -> meqv a c.
Proof. intros [H1 [H2 H3]] [_ [H5 H6]]. split; [exact H1 | split; [exact H5 | intros k bk; rewrite H3; apply H6]]. Qed.
Lemma meqv_eq a b : NoDup (map fst a) -> a = b -> meqv a b.
Proof. intros H E. subst. apply meqv_refl. exact H. Qed.

Lemma meqv_get a b k : meqv a b -> im_get keqb k a = im_get keqb k b.
Proof.
  intros [H1 [H2 H3]]. destruct (im_has keqb k a) eqn:E.
  - apply (im_has_In keqb keqb_eq) in E. destruct E as [bk Hb]. rewrite (im_get_In keqb keqb_eq a k bk H1 Hb).
    symmetry. apply (im_get_In keqb keqb_eq b k bk H2). apply H3. exact Hb.
  - pose proof (im_has_false keqb keqb_eq a k E) as Hn. rewrite (im_get_notin keqb keqb_eq a k Hn).
    symmetry. apply (im_get_notin keqb keqb_eq). intros bk Hb. apply (Hn bk). apply H3. exact Hb.
Qed.
Lemma meqv_has a b k : meqv a b -> im_has keqb k a = im_has keqb k b.
Proof.
  intros [H1 [H2 H3]]. destruct (im_has keqb k a) eqn:E; destruct (im_has keqb k b) eqn:F; try reflexivity; exfalso.
  - apply (im_has_In keqb keqb_eq) in E. destruct E as [bk Hb]. apply (im_has_false keqb keqb_eq b k F bk). apply H3. exact Hb.
  - apply (im_has_In keqb keqb_eq) in F. destruct F as [bk Hb]. apply (im_has_false keqb keqb_eq a k E bk). apply H3. exact Hb.
Qed.
Lemma im_add_NoDup (a : imap K V) k i v : NoDup (map fst a) -> NoDup (map fst (im_add keqb k i v a)).
Proof.
  intros H. rewrite im_add_keys. destruct (im_has keqb k a) eqn:E. - exact H.
  - apply NoDup_app_last. exact H. intro Hin. apply in_map_fst_ex in Hin. destruct Hin as [bk Hb]. apply (im_has_false keqb keqb_eq a k E bk Hb).
Qed.
Lemma meqv_add a b k i v : meqv a b -> meqv (im_add keqb k i v a) (im_add keqb k i v b).
Proof.
  intros H. pose proof H as [H1 [H2 H3]]. split; [apply im_add_NoDup; exact H1 | split; [apply im_add_NoDup; exact H2 |]].
  intros k' bk. rewrite (im_add_In keqb keqb_eq a k i v k' bk H1), (im_add_In keqb keqb_eq b k i v k' bk H2), (meqv_get a b k H), H3. reflexivity.
Qed.
Lemma im_remove_NoDup (a : imap K V) rm : NoDup (map fst a) -> NoDup (map fst (im_remove rm a)).
Proof. intros H. unfold im_remove. apply NoDup_map_fst_filter. rewrite map_map. cbn [fst]. exact H. Qed.
Lemma meqv_remove a b rm : meqv a b -> meqv (im_remove rm a) (im_remove rm b).
Proof.
  intros [H1 [H2 H3]]. split; [apply im_remove_NoDup; exact H1 | split; [apply im_remove_NoDup; exact H2 |]].
  intros k bk. rewrite !im_remove_In. split; intros [b0 [Hb Hr]]; exists b0; (split; [apply H3; exact Hb | exact Hr]).
Qed.
Lemma im_renumber_NoDup (a : imap K V) f : NoDup (map fst a) -> NoDup (map fst (im_renumber f a)).
Proof. intros H. unfold im_renumber. rewrite map_map. cbn [fst]. exact H. Qed.
Lemma meqv_renumber a b f : meqv a b -> meqv (im_renumber f a) (im_renumber f b).
Proof.
  intros [H1 [H2 H3]]. split; [apply im_renumber_NoDup; exact H1 | split; [apply im_renumber_NoDup; exact H2 |]].
  intros k bk. rewrite !im_renumber_In. split; intros [b0 [Hb Hr]]; exists b0; (split; [apply H3; exact Hb | exact Hr]).
Qed.
Lemma MapRep_meqv a b rel : meqv a b -> MapRep a rel -> MapRep b rel.
Proof.
  intros [H1 [H2 H3]] [M1 M2 M3 M4 M5]. constructor.
  - exact H2.
  - intros k bk Hb. apply (M2 k bk). apply H3. exact Hb.
  - intros k bk Hb. apply (M3 k bk). apply H3. exact Hb.
  - intros k bk i v Hb Hi. apply (M4 k bk i v). apply H3. exact Hb. exact Hi.
  - intros k i v Hr. destruct (M5 k i v Hr) as [bk [Hb Hi]]. exists bk. split. apply H3. exact Hb. exact Hi.
Qed.
End EqvP.

(* ---------- indexes with the same entries; Rep does not see the difference ---------- *)
Definition ix_eqv (a b : index) : Prop :=
  ix_n a = ix_n b /\ ix_valid a = ix_valid b /\ ix_ts a = ix_ts b /\ ix_pos a = ix_pos b /\ ix_meas a = ix_meas b /\
  ix_fields a = ix_fields b /\ meqv (ix_tags a) (ix_tags b).
Lemma Rep_eqv a b pts : ix_eqv a b -> Rep a pts -> Rep b pts.
Proof.
  intros [E1 [E2 [E3 [E4 [E5 [E6 E7]]]]]] [R1 R2 R3 R4 R5]. constructor.
  - rewrite <- E1. exact R1.
  - rewrite <- E3, <- E4. exact R2.
  - rewrite <- E5. exact R3.
  - apply (MapRep_meqv _ _ _ E7). exact R4.
  - rewrite <- E6. exact R5.
Qed.
Lemma ix_eqv_trans a b c : ix_eqv a b -> ix_eqv b c -> ix_eqv a c.
Proof.
  intros [E1 [E2 [E3 [E4 [E5 [E6 E7]]]]]] [F1 [F2 [F3 [F4 [F5 [F6 F7]]]]]].
  repeat split; try congruence; try apply (meqv_trans _ _ _ E7 F7).
Qed.

(* ---------- the nested tag map ---------- *)
Notation ntags := (list (str * list (option str * list nat))) (only parsing).
Definition nwf (t : ntags) : Prop := NoDup (map fst t) /\ forall k inner, In (k, inner) t -> NoDup (map fst inner).

Lemma In_pref {K2 V} k (m : imap K2 V) k' v' b : In ((k', v'), b) (pref k m) <-> k' = k /\ In (v', b) m.
Proof.
  unfold pref. rewrite in_map_iff. split.
  - intros [[v0 b0] [He Hin]]. cbn [fst snd] in He. inversion He; subst. split; [reflexivity | exact Hin].
  - intros [Hk Hin]. subst. exists (v', b). split; [reflexivity | exact Hin].
Qed.
Lemma pref_NoDup {K2 V} k (m : imap K2 V) : NoDup (map fst m) -> NoDup (map fst (pref k m)).
Proof.
  intros H. assert (Ep : map fst (pref k m) = map (fun v => (k, v)) (map fst m)) by (unfold pref; rewrite !map_map; reflexivity).
  rewrite Ep. apply FinFun.Injective_map_NoDup; [intros a b E; inversion E; reflexivity | exact H].
Qed.
Lemma In_flat_tags (t : ntags) k v b : In ((k, v), b) (flat_tags t) <-> exists inner, In (k, inner) t /\ In (v, b) (ubuckets inner).
Proof.
  unfold flat_tags. rewrite in_flat_map. split.
  - intros [[k0 inner] [Hin Hp]]. cbn [fst snd] in Hp. apply In_pref in Hp. destruct Hp as [Hk Hv]. subst. exists inner. split; assumption.
  - intros [inner [Hin Hv]]. exists (k, inner). split; [exact Hin | cbn [fst snd]; apply In_pref; split; [reflexivity | exact Hv]].
Qed.
Lemma flat_tags_keys_In (t : ntags) k v : In (k, v) (map fst (flat_tags t)) -> In k (map fst t).
Proof.
  intros H. apply in_map_fst_ex in H. destruct H as [b Hb]. apply In_flat_tags in Hb. destruct Hb as [inner [Hin _]]. apply (in_map_fst_pair t k inner Hin).
Qed.
Lemma flat_tags_NoDup (t : ntags) : nwf t -> NoDup (map fst (flat_tags t)).
Proof.
  induction t as [|[k inner] r IH]; intros [Hn Hi]. - constructor.
  - cbn [map fst] in Hn. inversion Hn as [|x l Hx Hn']; subst.
    change (flat_tags ((k, inner) :: r)) with (pref k (ubuckets inner) ++ flat_tags r). rewrite map_app. apply NoDup_app_intro.
    + apply pref_NoDup. rewrite ubuckets_keys. apply (Hi k inner). left. reflexivity.
    + apply IH. split; [exact Hn' | intros k' i' Hin; apply (Hi k' i'); right; exact Hin].
    + intros [k' v'] H1 H2. apply flat_tags_keys_In in H2. apply in_map_fst_ex in H1. destruct H1 as [b Hb]. apply In_pref in Hb. destruct Hb as [Hk _]. subst. contradiction.
Qed.

(* membership in the flat map, through the inner dict of the key *)
Lemma flat_tags_inner (t : ntags) k v b : NoDup (map fst t) -> (In ((k, v), b) (flat_tags t) <-> In (v, b) (ubuckets (d_get [] k t))).
Proof.
  intros Hn. rewrite In_flat_tags. split.
  - intros [inner [Hin Hv]]. pose proof (d_get_In pyeq_str_eq t [] k inner Hn Hin) as X. rewrite X. exact Hv.
  - intros Hv. destruct (d_has k t) eqn:E.
    + exists (d_get [] k t). split; [apply d_get_has_In; [exact pyeq_str_eq | exact E] | exact Hv].
    + exfalso. assert (Hg : d_get (V:=pydict (option str) (list nat)) [] k t = []).
      { clear Hv Hn. induction t as [|[k0 i0] r IH]; [reflexivity|]. cbn [d_has d_get] in *. destruct (pyeq k k0); [discriminate | apply IH; exact E]. }
      rewrite Hg in Hv. destruct Hv.
Qed.
Lemma flat_tags_get (t : ntags) k v : nwf t -> im_get tkey_eqb (k, v) (flat_tags t) = im_get ostr_eqb v (ubuckets (d_get [] k t)).
Proof.
  intros Hw. pose proof (flat_tags_NoDup t Hw) as Hf. destruct Hw as [Hn Hi].
  assert (Hin : NoDup (map fst (ubuckets (d_get [] k t)))).
  { rewrite ubuckets_keys. destruct (d_has k t) eqn:E.
    - apply (Hi k). apply d_get_has_In; [exact pyeq_str_eq | exact E].
    - assert (Hg : d_get (V:=pydict (option str) (list nat)) [] k t = []).
      { clear Hf Hn Hi. induction t as [|[k0 i0] r IH]; [reflexivity|]. cbn [d_has d_get] in *. destruct (pyeq k k0); [discriminate | apply IH; exact E]. }
      rewrite Hg. constructor. }
  destruct (im_has ostr_eqb v (ubuckets (d_get [] k t))) eqn:E.
  - apply (im_has_In ostr_eqb ostr_eqb_eq) in E. destruct E as [b Hb]. rewrite (im_get_In ostr_eqb ostr_eqb_eq _ v b Hin Hb).
    apply (im_get_In tkey_eqb tkey_eqb_eq _ (k, v) b Hf). apply flat_tags_inner; assumption.
  - pose proof (im_has_false ostr_eqb ostr_eqb_eq _ v E) as Hno. rewrite (im_get_notin ostr_eqb ostr_eqb_eq _ v Hno).
    apply (im_get_notin tkey_eqb tkey_eqb_eq). intros b Hb. apply (Hno b). apply flat_tags_inner in Hb; assumption.
Qed.

(* d[k] = x twice; reading what was just written *)
Lemma d_set_set {K V} {EK : PyEq K} (k : K) (a b : V) d : pyeq k k = true -> d_set k a (d_set k b d) = d_set k a d.
Proof. intros R. induction d as [|[k0 v0] r IH]; cbn [d_set]. - rewrite R. reflexivity.
  - destruct (pyeq k k0) eqn:E; cbn [d_set]; rewrite E; [reflexivity | rewrite IH; reflexivity]. Qed.
Lemma d_get_set {K V} {EK : PyEq K} (k : K) (a dflt : V) d : pyeq k k = true -> d_get dflt k (d_set k a d) = a.
Proof. intros R. induction d as [|[k0 v0] r IH]; cbn [d_set d_get]. - rewrite R. reflexivity.
  - destruct (pyeq k k0) eqn:E; cbn [d_get]; rewrite E; [reflexivity | exact IH]. Qed.
Lemma d_get_absent {K V} {EK : PyEq K} (k : K) (dflt : V) d : d_has k d = false -> d_get dflt k d = dflt.
Proof. induction d as [|[k0 v0] r IH]; cbn [d_has d_get]; [reflexivity | destruct (pyeq k k0); [discriminate | exact IH]]. Qed.
Lemma d_has_set {K V} {EK : PyEq K} (k : K) (a : V) d : pyeq k k = true -> d_has k (d_set k a d) = true.
Proof. intros R. induction d as [|[k0 v0] r IH]; cbn [d_set d_has]. - rewrite R. reflexivity.
  - destruct (pyeq k k0) eqn:E; cbn [d_has]; rewrite E; [reflexivity | exact IH]. Qed.

(* one turn of the loop of _insert_tags, on the tag map *)
Definition ntag_add (idx : nat) (t : ntags) (kv : str * option str) : ntags :=
  let '(tag_key, tag_value) := kv in
  let t := if negb (d_has tag_key t) then d_set tag_key [] t else t in
  if negb (d_has tag_value (d_get [] tag_key t)) then d_set tag_key (d_set tag_value [idx] (d_get [] tag_key t)) t
  else d_set tag_key (d_set tag_value (d_get [] tag_value (d_get [] tag_key t) ++ [idx]) (d_get [] tag_key t)) t.
Lemma ntag_add_canon idx t k v : ntag_add idx t (k, v) = d_set k (uadd v idx (d_get [] k t)) t.
Proof.
  unfold ntag_add, uadd. assert (R : pyeq k k = true) by (apply pyeq_str_eq; reflexivity). destruct (d_has k t) eqn:E; cbn [negb].
  - destruct (d_has v (d_get [] k t)); reflexivity.
  - rewrite (d_get_set k [] [] t R), (d_get_absent k [] t E). cbn [d_has negb]. rewrite (d_set_set k _ [] t R). reflexivity.
Qed.
Lemma d_get_set_other {K V} {EK : PyEq K} (k k' : K) (a dflt : V) d : pyeq k' k = false -> (forall x y : K, pyeq x y = true <-> x = y) ->
  d_get dflt k' (d_set k a d) = d_get dflt k' d.
Proof.
  intros N Hq. induction d as [|[k0 v0] r IH]; cbn [d_set d_get]. - rewrite N. reflexivity.
  - destruct (pyeq k k0) eqn:E; cbn [d_get].
    + apply Hq in E. subst k0. rewrite N. reflexivity.
    + destruct (pyeq k' k0); [reflexivity | exact IH].
Qed.
Lemma inner_NoDup (t : ntags) k : nwf t -> NoDup (map fst (d_get [] k t)).
Proof.
  intros [Hn Hi]. destruct (d_has k t) eqn:E.
  - apply (Hi k). apply d_get_has_In; [exact pyeq_str_eq | exact E].
  - rewrite (d_get_absent k [] t E). constructor.
Qed.
Lemma uadd_NoDup {K} {EK : PyEq K} (Hq : forall x y : K, pyeq x y = true <-> x = y) (k : K) i d : NoDup (map fst d) -> NoDup (map fst (uadd k i d)).
Proof. intros H. unfold uadd. destruct (negb (d_has k d)); apply (d_set_NoDup Hq); exact H. Qed.

Lemma ntag_add_spec idx t k v : nwf t ->
  nwf (ntag_add idx t (k, v)) /\ meqv (flat_tags (ntag_add idx t (k, v))) (im_add tkey_eqb (k, v) idx tt (flat_tags t)).
Proof.
  intros Hw. rewrite ntag_add_canon. pose proof Hw as [Hn Hi].
  assert (R : pyeq k k = true) by (apply pyeq_str_eq; reflexivity).
  assert (Hw' : nwf (d_set k (uadd v idx (d_get [] k t)) t)).
  { split. - apply (d_set_NoDup pyeq_str_eq). exact Hn.
    - intros k' i' Hin. apply (d_set_In pyeq_str_eq t k _ k' i' Hn) in Hin. destruct Hin as [[_ Hin]|[_ Hin]].
      + apply (Hi k' i' Hin). + subst i'. apply (uadd_NoDup pyeq_ostr_eq). apply inner_NoDup. exact Hw. }
  split; [exact Hw'|]. pose proof (flat_tags_NoDup t Hw) as Hf.
  split; [apply flat_tags_NoDup; exact Hw' | split; [apply (im_add_NoDup tkey_eqb tkey_eqb_eq); exact Hf|]].
  intros [k' v'] b. rewrite (im_add_In tkey_eqb tkey_eqb_eq (flat_tags t) (k, v) idx tt (k', v') b Hf).
  rewrite (flat_tags_inner _ k' v' b (proj1 Hw')). rewrite (flat_tags_get t k v Hw).
  destruct (str_eqb k' k) eqn:E.
  - apply str_eqb_eq in E. subst k'. rewrite (d_get_set k _ [] t R). rewrite uadd_im_add.
    rewrite (im_add_In ostr_eqb ostr_eqb_eq _ v idx tt v' b); [| rewrite ubuckets_keys; apply (inner_NoDup t k Hw)].
    rewrite (flat_tags_inner t k v' b Hn). change (@pyeq (option str) PyEq_ostr) with ostr_eqb.
    split; (intros [[H1 H2]|[H1 H2]]; [left; split; [congruence | exact H2] | right; split; [congruence | exact H2]]).
  - assert (N : pyeq k' k = false) by exact E. apply str_eqb_neq in E. idtac.
    rewrite (d_get_set_other k k' _ [] t N pyeq_str_eq). rewrite <- (flat_tags_inner t k' v' b Hn). split.
    + intros H. left. split; [congruence | exact H].
    + intros [[_ H]|[H _]]; [exact H | congruence].
Qed.

(* ---------- the generated methods, attribute by attribute ---------- *)
Import IndexGen.

Lemma gen_reset_eq g : abs (gen__reset g) = ix_reset (abs g).
Proof. reflexivity. Qed.
Lemma gen_invalidate_eq g : abs (gen_invalidate g) = ix_invalidate (abs g).
Proof. reflexivity. Qed.
Lemma gen_init_eq g v : abs (gen___init__ g v) = ix_empty_valid v.
Proof. reflexivity. Qed.

Lemma gen_insert_time_eq g t : gen__insert_time g t =
  set__timestamps (set__storage_pos_sorted_by_ts g (_storage_pos_sorted_by_ts g ++ [length (_timestamps g)])) (_timestamps g ++ [t]).
Proof. destruct g. reflexivity. Qed.
Lemma gen_insert_measurements_eq g idx m : gen__insert_measurements g idx m = set__measurements g (uadd m idx (_measurements g)).
Proof. destruct g as [n tg fl ms ts vl ps]. unfold gen__insert_measurements, uadd. cbn [_measurements set__measurements]. destruct (negb (d_has m ms)); reflexivity. Qed.
Lemma gen_insert_tags_eq g idx tags : gen__insert_tags g idx tags = set__tags g (fold_left (ntag_add idx) tags (_tags g)).
Proof.
  unfold gen__insert_tags. destruct g as [n tg fl ms ts vl ps].
  match goal with |- fold_left ?F _ _ = _ => assert (G : forall tags tg, fold_left F tags (mkPy n tg fl ms ts vl ps) = mkPy n (fold_left (ntag_add idx) tags tg) fl ms ts vl ps) end.
  { clear. induction tags as [|[k v] r IH]; intros tg; cbn [fold_left]. - reflexivity.
    - rewrite <- IH. f_equal. unfold ntag_add. cbn [_tags set__tags].
      destruct (negb (d_has k tg)); cbn [_tags set__tags]; match goal with |- context [negb (d_has v ?x)] => destruct (negb (d_has v x)) end; reflexivity. }
  apply G.
Qed.
Lemma gen_insert_fields_eq g idx fs : gen__insert_fields g idx fs = set__fields g (add_fields idx fs (_fields g)).
Proof.
  unfold gen__insert_fields, add_fields. destruct g as [n tg fl ms ts vl ps].
  match goal with |- fold_left ?F _ _ = _ => assert (G : forall fs fl, fold_left F fs (mkPy n tg fl ms ts vl ps) =
    mkPy n tg (fold_left (fun acc kv => im_add str_eqb (fst kv) idx (snd kv) acc) fs fl) ms ts vl ps) end.
  { clear. induction fs as [|[k v] r IH]; intros fl; cbn [fold_left]. - reflexivity.
    - rewrite <- IH. f_equal. cbn [_fields set__fields fst snd]. change str_eqb with (@pyeq str PyEq_str). rewrite <- (dict_add_im_add k idx v fl). unfold dict_add.
      destruct (negb (d_has k fl)); reflexivity. }
  apply G.
Qed.

(* the tag loop against the model's add_tags *)
Lemma ntags_add_spec idx tags : forall t m, nwf t -> meqv (flat_tags t) m ->
  nwf (fold_left (ntag_add idx) tags t) /\ meqv (flat_tags (fold_left (ntag_add idx) tags t)) (add_tags idx tags m).
Proof.
  unfold add_tags. induction tags as [|[k v] r IH]; intros t m Hw He; cbn [fold_left]. - split; assumption.
  - destruct (ntag_add_spec idx t k v Hw) as [Hw' He']. apply IH. exact Hw'.
    apply (meqv_trans _ _ _ He'). apply (meqv_add tkey_eqb tkey_eqb_eq). exact He.
Qed.

Lemma ntags_meqv_add idx tags : forall a b, meqv a b -> meqv (add_tags idx tags a) (add_tags idx tags b).
Proof. unfold add_tags. induction tags as [|kv r IH]; intros a b H; cbn [fold_left]. - exact H. - apply IH. apply (meqv_add tkey_eqb tkey_eqb_eq). exact H. Qed.

(* well-formedness of the object: dict keys are pairwise distinct (in Python by construction; here an invariant of every translated method) *)
Definition gwf (g : pyindex) : Prop := nwf (_tags g) /\ NoDup (map fst (_fields g)) /\ NoDup (map fst (_measurements g)).
Lemma gwf_blank g v : gwf (gen___init__ g v).
Proof. repeat split; cbn; try constructor. intros k i []. Qed.
Lemma gwf_reset g : gwf (gen__reset g).
Proof. repeat split; cbn; try constructor. intros k i []. Qed.
Lemma gwf_invalidate g : gwf (gen_invalidate g).
Proof. repeat split; cbn; try constructor. intros k i []. Qed.
Lemma add_fields_NoDup idx fs : forall fl, NoDup (map fst fl) -> NoDup (map fst (add_fields idx fs fl)).
Proof. unfold add_fields. induction fs as [|[k v] r IH]; intros fl H; cbn [fold_left]. - exact H. - apply IH. apply (im_add_NoDup str_eqb str_eqb_eq). exact H. Qed.

(* indexing one point at position idx: what insert and build do per point, apart from the time arrays *)
Lemma index_point_maps g idx p : gwf g ->
  let g' := gen__insert_measurements (gen__insert_fields (gen__insert_tags g idx (p_tags p)) idx (p_fields p)) idx (p_meas p) in
  gwf g' /\ abs_meas (_measurements g') = im_add str_eqb (p_meas p) idx tt (abs_meas (_measurements g)) /\
  _fields g' = add_fields idx (p_fields p) (_fields g) /\ meqv (flat_tags (_tags g')) (add_tags idx (p_tags p) (flat_tags (_tags g))) /\
  _num_items g' = _num_items g /\ _valid g' = _valid g /\ _timestamps g' = _timestamps g /\ _storage_pos_sorted_by_ts g' = _storage_pos_sorted_by_ts g.
Proof.
  intros [Hw [Hf Hm]]. rewrite gen_insert_tags_eq, gen_insert_fields_eq, gen_insert_measurements_eq.
  destruct (ntags_add_spec idx (p_tags p) (_tags g) (flat_tags (_tags g)) Hw (meqv_refl _ (flat_tags_NoDup _ Hw))) as [Hw' He'].
  destruct g as [n tg fl ms ts vl ps].
  cbn [_num_items _tags _fields _measurements _timestamps _valid _storage_pos_sorted_by_ts set__tags set__fields set__measurements] in *.
  split; [split; [exact Hw' | split; [apply add_fields_NoDup; exact Hf | apply (uadd_NoDup pyeq_str_eq); exact Hm]]|].
  split; [unfold abs_meas; rewrite uadd_im_add; reflexivity|].
  split; [reflexivity|]. split; [exact He'|]. repeat split.
Qed.

(* ---------- insert([point]) ---------- *)
Theorem gen_insert_one g p : gwf g -> gwf (gen_insert g [p]) /\ ix_eqv (abs (gen_insert g [p])) (ix_insert (abs g) p).
Proof.
  intros Hg. unfold gen_insert. cbn [length seq combine fold_left]. rewrite Nat.add_0_r. rewrite gen_insert_time_eq.
  set (g1 := set__timestamps _ _).
  assert (Hg1 : gwf g1) by (destruct g; exact Hg).
  pose proof (index_point_maps g1 (length (_timestamps g)) p Hg1) as H. cbv zeta in H.
  destruct H as [Hw [Hm [Hf [Ht [Hn [Hv [Hts Hps]]]]]]]. split; [exact Hw|].
  unfold ix_eqv, abs, ix_insert. cbn [ix_n ix_valid ix_ts ix_pos ix_meas ix_fields ix_tags].
  rewrite Hn, Hv, Hts, Hps, Hm, Hf. destruct g as [n tg fl ms ts vl ps]. cbn in g1. subst g1.
  cbn [_num_items _tags _fields _measurements _timestamps _valid _storage_pos_sorted_by_ts] in *.
  repeat split; try reflexivity; try apply Ht. apply Nat.add_1_r.
Qed.

(* ---------- build(points) ---------- *)
Lemma enumerate_times (pts : list point) : forall s,
  map (fun ip : nat * point => (p_time (snd ip), fst ip)) (combine (seq s (length pts)) pts) = combine (map p_time pts) (seq s (length pts)).
Proof. induction pts as [|p r IH]; intros s; cbn [length seq combine map fst snd]. - reflexivity. - rewrite IH. reflexivity. Qed.

Definition model_maps_step (acc : imap str unit * imap tkey unit * imap str (option num)) (ip : nat * point) :=
  let '(ms, ts, fs) := acc in
  (im_add str_eqb (p_meas (snd ip)) (fst ip) tt ms, add_tags (fst ip) (p_tags (snd ip)) ts, add_fields (fst ip) (p_fields (snd ip)) fs).

Lemma build_loop (l : list (nat * point)) : forall g buf ms ts fs, gwf g -> abs_meas (_measurements g) = ms -> meqv (flat_tags (_tags g)) ts -> _fields g = fs ->
  let r := fold_left (fun '(self, timestamp_buffer) '(idx, point) =>
             let self := set__num_items self (_num_items self + 1) in
             let self := gen__insert_measurements self idx (p_meas point) in
             let self := gen__insert_tags self idx (p_tags point) in
             let self := gen__insert_fields self idx (p_fields point) in
             let timestamp_buffer := timestamp_buffer ++ [(p_time point, idx)] in (self, timestamp_buffer)) l (g, buf) in
  let '(ms', ts', fs') := fold_left model_maps_step l (ms, ts, fs) in
  gwf (fst r) /\ abs_meas (_measurements (fst r)) = ms' /\ meqv (flat_tags (_tags (fst r))) ts' /\ _fields (fst r) = fs' /\
  _num_items (fst r) = _num_items g + length l /\ _valid (fst r) = _valid g /\ _timestamps (fst r) = _timestamps g /\
  _storage_pos_sorted_by_ts (fst r) = _storage_pos_sorted_by_ts g /\ snd r = buf ++ map (fun ip => (p_time (snd ip), fst ip)) l.
Proof.
  induction l as [|[idx p] r IH]; intros g buf ms ts fs Hg Hm Ht Hf.
  - cbn [fold_left fst snd length map]. rewrite Nat.add_0_r, app_nil_r.
    split; [exact Hg|]. split; [exact Hm|]. split; [exact Ht|]. split; [exact Hf|]. repeat split.
  - cbn [fold_left]. cbv zeta.
    set (g0 := set__num_items g (_num_items g + 1)).
    assert (Hg0 : gwf g0) by (destruct g; exact Hg).
    (* the three map insertions commute on the record: bring them into the order of index_point_maps *)
    assert (Hc : gen__insert_fields (gen__insert_tags (gen__insert_measurements g0 idx (p_meas p)) idx (p_tags p)) idx (p_fields p) =
                 gen__insert_measurements (gen__insert_fields (gen__insert_tags g0 idx (p_tags p)) idx (p_fields p)) idx (p_meas p)).
    { rewrite !gen_insert_tags_eq, !gen_insert_fields_eq, !gen_insert_measurements_eq. destruct g0. reflexivity. }
    rewrite Hc. pose proof (index_point_maps g0 idx p Hg0) as H. cbv zeta in H. destruct H as [Hw [Hm' [Hf' [Ht' [Hn [Hv [Hts Hps]]]]]]].
    change (model_maps_step (ms, ts, fs) (idx, p)) with (im_add str_eqb (p_meas p) idx tt ms, add_tags idx (p_tags p) ts, add_fields idx (p_fields p) fs).
    specialize (IH _ (buf ++ [(p_time p, idx)]) (im_add str_eqb (p_meas p) idx tt ms) (add_tags idx (p_tags p) ts) (add_fields idx (p_fields p) fs) Hw).
    cbv zeta in IH. rewrite Hm', Hf' in IH.
    assert (E1 : abs_meas (_measurements g0) = ms) by (destruct g; exact Hm).
    assert (E2 : _fields g0 = fs) by (destruct g; exact Hf).
    assert (E3 : meqv (flat_tags (_tags g0)) ts) by (destruct g; exact Ht).
    rewrite E1, E2 in IH. specialize (IH eq_refl (meqv_trans _ _ _ Ht' (ntags_meqv_add idx (p_tags p) _ _ E3)) eq_refl).
    destruct (fold_left model_maps_step r _) as [[ms' ts'] fs']. destruct IH as [I1 [I2 [I3 [I4 [I5 [I6 [I7 [I8 I9]]]]]]]].
    split; [exact I1|]. split; [exact I2|]. split; [exact I3|]. split; [exact I4|]. split; [|split; [|split; [|split]]].
    + rewrite I5, Hn. destruct g. cbn. lia.
    + rewrite I6, Hv. destruct g. reflexivity.
    + rewrite I7, Hts. destruct g. reflexivity.
    + rewrite I8, Hps. destruct g. reflexivity.
    + rewrite I9, <- app_assoc. reflexivity.
Qed.

Theorem gen_build_eqv g pts : gwf (gen_build g pts) /\ ix_eqv (abs (gen_build g pts)) (ix_build pts).
Proof.
  unfold gen_build.
  pose proof (build_loop (combine (seq 0 (length pts)) pts) (gen__reset g) [] [] [] [] (gwf_reset g) eq_refl (meqv_refl [] (NoDup_nil _)) eq_refl) as H.
  cbv zeta in H. cbv zeta.
  match type of H with context [fst ?R] => set (R0 := R) in * end.
  change (fold_left _ (combine (seq 0 (length pts)) pts) (gen__reset g, [])) with R0.
  unfold ix_build.
  change (fold_left _ (combine (seq 0 (length pts)) pts) ([], [], [])) with (fold_left model_maps_step (combine (seq 0 (length pts)) pts) ([], [], [])).
  destruct (fold_left model_maps_step _ _) as [[ms' ts'] fs']. destruct R0 as [g' buf'].
  cbn [fst snd] in H. destruct H as [I1 [I2 [I3 [I4 [I5 [I6 [I7 [I8 I9]]]]]]]].
  cbn [app] in I9. rewrite enumerate_times in I9. subst buf'.
  split.
  - destruct g'. exact I1.
  - unfold ix_eqv, abs. destruct g' as [n tg fl ms ts vl ps].
    cbn [_num_items _tags _fields _measurements _timestamps _valid _storage_pos_sorted_by_ts set__timestamps set__storage_pos_sorted_by_ts
         ix_n ix_valid ix_ts ix_pos ix_meas ix_fields ix_tags] in *.
    rewrite combine_length, seq_length, Nat.min_id in I5. unfold sort_by_first.
    split; [exact I5|]. split; [exact I6|]. split; [reflexivity|]. split; [reflexivity|]. split; [exact I2|]. split; [exact I4 | exact I3].
Qed.

(* ---------- remove(r_items) ---------- *)
Lemma d_has_app {K V} {EK : PyEq K} (k : K) (a b : pydict K V) : d_has k (a ++ b) = d_has k a || d_has k b.
Proof. induction a as [|[k0 v0] r IH]; cbn [app d_has orb]. - reflexivity. - destruct (pyeq k k0); [reflexivity | exact IH]. Qed.
Lemma d_get_app_fresh {K V} {EK : PyEq K} (k : K) dflt (a b : pydict K V) : d_has k a = false -> d_get dflt k (a ++ b) = d_get dflt k b.
Proof. induction a as [|[k0 v0] r IH]; cbn [app d_has d_get]. - reflexivity. - destruct (pyeq k k0); [discriminate | exact IH]. Qed.
Lemma d_set_app_fresh {K V} {EK : PyEq K} (k : K) (v : V) (a b : pydict K V) : d_has k a = false -> d_set k v (a ++ b) = a ++ d_set k v b.
Proof. induction a as [|[k0 v0] r IH]; cbn [app d_has d_set]. - reflexivity. - destruct (pyeq k k0); [discriminate | intros H; rewrite (IH H); reflexivity]. Qed.

(* a new dict filled from the items of an old one: for k, v in d.items(): x = f(v); if x: new[k] = x *)
Lemma refill_loop {K V W} {EK : PyEq K} (Hq : forall x y : K, pyeq x y = true <-> x = y) (f : V -> W) (ne : W -> bool)
  (step : pydict K W -> K * V -> pydict K W) (Hs : forall acc k v, step acc (k, v) = if ne (f v) then d_set k (f v) acc else acc) :
  forall (d : pydict K V) acc, NoDup (map fst d) -> (forall k, In k (map fst d) -> d_has k acc = false) ->
  fold_left step d acc = acc ++ filter (fun kv => ne (snd kv)) (map (fun kv => (fst kv, f (snd kv))) d).
Proof.
  induction d as [|[k v] r IH]; intros acc Hn Hd; cbn [fold_left map filter fst snd]. - rewrite app_nil_r. reflexivity.
  - cbn [map fst] in Hn. inversion Hn as [|x l Hx Hn']; subst. rewrite Hs. destruct (ne (f v)) eqn:E.
    + rewrite (d_set_fresh acc k (f v)) by (apply Hd; left; reflexivity). rewrite IH.
      * rewrite <- app_assoc. reflexivity.
      * exact Hn'.
      * intros k' Hk'. rewrite d_has_app. rewrite (Hd k') by (right; exact Hk'). cbn [d_has orb].
        destruct (pyeq k' k) eqn:E'; [apply Hq in E'; subst; contradiction | reflexivity].
    + apply IH. exact Hn'. intros k' Hk'. apply Hd. right. exact Hk'.
Qed.
(* the same loop written over the keys, reading d[k] *)
Lemma fold_keys_items {K V A} {EK : PyEq K} (Hq : forall x y : K, pyeq x y = true <-> x = y) (dflt : V) (step : A -> K * V -> A) (whole : pydict K V) :
  NoDup (map fst whole) -> forall (d : pydict K V) acc, (forall kv, In kv d -> In kv whole) ->
  fold_left (fun a k => step a (k, d_get dflt k whole)) (map fst d) acc = fold_left step d acc.
Proof.
  intros Hn. induction d as [|[k v] r IH]; intros acc Hsub; cbn [map fst fold_left]. - reflexivity.
  - rewrite (d_get_In Hq whole dflt k v Hn) by (apply Hsub; left; reflexivity). apply IH. intros kv H. apply Hsub. right. exact H.
Qed.

Definition keep (r : list nat) (i : nat) : bool := negb (mem i r).
Lemma unit_bucket_filter r b : filter (fun iv : nat * unit => negb (mem (fst iv) r)) (unit_bucket b) = unit_bucket (filter (keep r) b).
Proof. unfold unit_bucket, keep. induction b as [|i b IH]; cbn [map filter fst]. - reflexivity. - destruct (negb (mem i r)); cbn [map]; rewrite IH; reflexivity. Qed.
Lemma unit_bucket_nonempty b : match unit_bucket b with [] => false | _ => true end = nonempty_list b.
Proof. destruct b; reflexivity. Qed.
(* the model's im_remove on a map of unit buckets, as the dict the source builds *)
Lemma im_remove_ubuckets {K} (r : list nat) (d : pydict K (list nat)) :
  im_remove (fun i => mem i r) (ubuckets d) = ubuckets (filter (fun kv => nonempty_list (snd kv)) (map (fun kv => (fst kv, filter (keep r) (snd kv))) d)).
Proof.
  unfold im_remove, ubuckets. induction d as [|[k b] d IH]; cbn [map filter fst snd]. - reflexivity.
  - rewrite unit_bucket_filter, unit_bucket_nonempty. destruct (nonempty_list (filter (keep r) b)); cbn [map fst snd]; rewrite IH; reflexivity.
Qed.

Lemma gen_remove_timestamps_eq g r : gen__remove_timestamps g r =
  let kept := filter (fun tp => negb (mem (snd tp) r)) (combine (_timestamps g) (_storage_pos_sorted_by_ts g)) in
  set__storage_pos_sorted_by_ts (set__timestamps g (map fst kept)) (map snd kept).
Proof.
  unfold gen__remove_timestamps. cbv zeta.
  match goal with |- context [fold_left ?F ?L ([], [])] => assert (G : forall l np nt, fold_left F l (np, nt) =
     (np ++ map snd (filter (fun tp => negb (mem (snd tp) r)) l), nt ++ map fst (filter (fun tp => negb (mem (snd tp) r)) l))) end.
  { clear. induction l as [|[t p] l IH]; intros np nt; cbn [fold_left filter map fst snd]. - rewrite !app_nil_r. reflexivity.
    - destruct (negb (mem p r)); cbn [map fst snd]; rewrite IH; rewrite <- ?app_assoc; reflexivity. }
  rewrite G. cbn [app]. destruct g. reflexivity.
Qed.
Lemma gen_remove_measurements_eq g r : NoDup (map fst (_measurements g)) -> gen__remove_measurements g r =
  set__measurements g (filter (fun kv => nonempty_list (snd kv)) (map (fun kv => (fst kv, filter (keep r) (snd kv))) (_measurements g))).
Proof.
  intros Hn. unfold gen__remove_measurements. cbv zeta. f_equal.
  rewrite (fold_keys_items pyeq_str_eq [] (fun acc kv => if nonempty_list (filter (keep r) (snd kv)) then d_set (fst kv) (filter (keep r) (snd kv)) acc else acc)
             (_measurements g) Hn (_measurements g) [] (fun kv H => H)).
  rewrite (refill_loop pyeq_str_eq (filter (keep r)) (@nonempty_list nat) _ (fun acc k v => eq_refl) (_measurements g) [] Hn (fun k _ => eq_refl)). reflexivity.
Qed.
Lemma gen_remove_fields_eq g r : NoDup (map fst (_fields g)) -> gen__remove_fields g r = set__fields g (im_remove (fun i => mem i r) (_fields g)).
Proof.
  intros Hn. unfold gen__remove_fields. cbv zeta. f_equal.
  match goal with |- fold_left ?F _ _ = _ => rewrite (refill_loop pyeq_str_eq (filter (fun i : nat * option num => negb (mem (fst i) r))) (@nonempty_list _) F) end.
  - reflexivity. - intros acc k v. reflexivity. - exact Hn. - intros k _. reflexivity.
Qed.

Lemma fold_left_ext {A B} (f g : A -> B -> A) : (forall a x, f a x = g a x) -> forall l a, fold_left f l a = fold_left g l a.
Proof. intros H. induction l as [|x l IH]; intros a; cbn [fold_left]. - reflexivity. - rewrite H. apply IH. Qed.

(* the nested loops of _remove_tags *)
Definition filt (r : list nat) (inner : pydict (option str) (list nat)) : pydict (option str) (list nat) :=
  filter (fun kv => nonempty_list (snd kv)) (map (fun kv => (fst kv, filter (keep r) (snd kv))) inner).
Definition put (k : str) (acc : ntags) (l : pydict (option str) (list nat)) : ntags := match l with [] => acc | _ => acc ++ [(k, l)] end.
Definition istep (k : str) (r : list nat) (new_tags : ntags) (vo : option str * list nat) : ntags :=
  let '(value, old_items) := vo in
  let new_items := filter (fun i => negb (mem i r)) old_items in
  if negb (nonempty_list new_items) then new_tags
  else if negb (d_has k new_tags) then d_set k [(value, new_items)] new_tags
       else d_set k (d_set value new_items (d_get [] k new_tags)) new_tags.

Lemma inner_remove_loop k r : forall inner sofar acc, d_has k acc = false -> NoDup (map fst inner) ->
  (forall v, In v (map fst inner) -> d_has v sofar = false) ->
  fold_left (istep k r) inner (put k acc sofar) = put k acc (sofar ++ filt r inner).
Proof.
  assert (R : pyeq k k = true) by (apply pyeq_str_eq; reflexivity).
  induction inner as [|[v old] rest IH]; intros sofar acc Hk Hn Hs; cbn [fold_left]. - unfold filt. cbn [map filter]. rewrite app_nil_r. reflexivity.
  - cbn [map fst] in Hn. inversion Hn as [|x l Hx Hn']; subst. unfold filt. cbn [map filter fst snd]. fold (filt r rest).
    unfold istep at 2. fold (keep r). destruct (nonempty_list (filter (keep r) old)) eqn:E; cbn [negb].
    + assert (Hrest : forall v', In v' (map fst rest) -> d_has v' (sofar ++ [(v, filter (keep r) old)]) = false).
      { intros v' Hv'. rewrite d_has_app. rewrite (Hs v') by (right; exact Hv'). cbn [d_has orb].
        destruct (pyeq v' v) eqn:E'; [apply pyeq_ostr_eq in E'; subst; contradiction | reflexivity]. }
      destruct sofar as [|s ss].
      * cbn [put app]. rewrite Hk. cbn [negb]. rewrite (d_set_fresh acc k _ Hk).
        change (acc ++ [(k, [(v, filter (keep r) old)])]) with (put k acc ([] ++ [(v, filter (keep r) old)])).
        rewrite (IH _ acc Hk Hn' Hrest). reflexivity.
      * cbn [put app]. rewrite d_has_app, Hk. cbn [d_has orb]. rewrite R. cbn [negb].
        rewrite (d_get_app_fresh k [] acc _ Hk). cbn [d_get]. rewrite R.
        rewrite (d_set_fresh (s :: ss) v _ (Hs v (or_introl eq_refl))).
        rewrite (d_set_app_fresh k _ acc _ Hk). cbn [d_set]. rewrite R.
        change (acc ++ [(k, (s :: ss) ++ [(v, filter (keep r) old)])]) with (put k acc ((s :: ss) ++ [(v, filter (keep r) old)])).
        rewrite (IH _ acc Hk Hn' Hrest). rewrite <- app_assoc. reflexivity.
    + apply IH. exact Hk. exact Hn'. intros v' Hv'. apply Hs. right. exact Hv'.
Qed.

Lemma outer_remove_loop r : forall (t : ntags) acc, nwf t -> (forall k, In k (map fst t) -> d_has k acc = false) ->
  fold_left (fun acc (ki : str * pydict (option str) (list nat)) => fold_left (istep (fst ki) r) (snd ki) acc) t acc =
  acc ++ filter (fun kv => nonempty_list (snd kv)) (map (fun kv => (fst kv, filt r (snd kv))) t).
Proof.
  induction t as [|[k inner] rest IH]; intros acc [Hn Hi] Hd; cbn [fold_left map filter fst snd]. - rewrite app_nil_r. reflexivity.
  - cbn [map fst] in Hn. inversion Hn as [|x l Hx Hn']; subst.
    change acc with (put k acc []) at 1. rewrite (inner_remove_loop k r inner [] acc).
    + cbn [app]. assert (Hw : nwf rest) by (split; [exact Hn' | intros k' i' H; apply (Hi k' i'); right; exact H]).
      destruct (filt r inner) as [|s ss] eqn:E; cbn [put nonempty_list].
      * apply IH. exact Hw. intros k' Hk'. apply Hd. right. exact Hk'.
      * rewrite IH. -- rewrite <- app_assoc. reflexivity. -- exact Hw.
        -- intros k' Hk'. rewrite d_has_app. rewrite (Hd k') by (right; exact Hk'). cbn [d_has orb].
           destruct (pyeq k' k) eqn:E'; [apply pyeq_str_eq in E'; subst; contradiction | reflexivity].
    + apply Hd. left. reflexivity.
    + apply (Hi k inner). left. reflexivity.
    + intros v _. reflexivity.
Qed.

Lemma im_remove_app {K V} rm (a b : imap K V) : im_remove rm (a ++ b) = im_remove rm a ++ im_remove rm b.
Proof. unfold im_remove. rewrite map_app, filter_app. reflexivity. Qed.
Lemma im_remove_pref {K2 V} rm k (m : imap K2 V) : im_remove rm (pref k m) = pref k (im_remove rm m).
Proof.
  unfold im_remove, pref. induction m as [|[v b] m IH]; cbn [map filter fst snd]. - reflexivity.
  - destruct (filter (fun iv : nat * V => negb (rm (fst iv))) b); cbn [map fst snd]; rewrite IH; reflexivity.
Qed.
Lemma flat_tags_removed r (t : ntags) :
  flat_tags (filter (fun kv => nonempty_list (snd kv)) (map (fun kv => (fst kv, filt r (snd kv))) t)) = im_remove (fun i => mem i r) (flat_tags t).
Proof.
  induction t as [|[k inner] t IH]; cbn [map filter fst snd]. - reflexivity.
  - change (flat_tags ((k, inner) :: t)) with (pref k (ubuckets inner) ++ flat_tags t). rewrite im_remove_app. unfold tkey. rewrite (im_remove_pref (fun i => mem i r) k (ubuckets inner)), im_remove_ubuckets. fold (filt r inner).
    destruct (filt r inner) as [|s ss] eqn:E; cbn [nonempty_list].
    + cbn [ubuckets map pref app]. exact IH.
    + change (flat_tags ((k, s :: ss) :: ?x)) with (pref k (ubuckets (s :: ss)) ++ flat_tags x). rewrite IH. reflexivity.
Qed.

Lemma gen_remove_tags_eq g r : nwf (_tags g) -> gen__remove_tags g r =
  set__tags g (filter (fun kv => nonempty_list (snd kv)) (map (fun kv => (fst kv, filt r (snd kv))) (_tags g))).
Proof.
  intros Hw. unfold gen__remove_tags. cbv zeta. f_equal.
  pose proof (outer_remove_loop r (_tags g) [] Hw (fun k _ => eq_refl)) as H. cbn [app] in H. rewrite <- H.
  apply fold_left_ext. intros acc [k inner]. cbn [fst snd]. apply fold_left_ext. intros acc' [v old]. reflexivity.
Qed.

Lemma refilled_NoDup {K V W} (f : V -> W) (ne : K * W -> bool) (d : pydict K V) : NoDup (map fst d) ->
  NoDup (map fst (filter ne (map (fun kv => (fst kv, f (snd kv))) d))).
Proof. intros H. apply NoDup_map_fst_filter. rewrite map_map. cbn [fst]. exact H. Qed.

Theorem gen_remove_eq g r : gwf g -> gwf (gen_remove g r) /\ abs (gen_remove g r) = ix_remove (abs g) (fun i => mem i r) (length r).
Proof.
  intros [Hw [Hf Hm]]. unfold gen_remove. rewrite gen_remove_timestamps_eq. cbv zeta.
  set (g1 := set__storage_pos_sorted_by_ts _ _).
  rewrite (gen_remove_measurements_eq g1 r) by (destruct g; exact Hm).
  set (g2 := set__measurements _ _).
  rewrite (gen_remove_tags_eq g2 r) by (destruct g; exact Hw).
  set (g3 := set__tags _ _).
  rewrite (gen_remove_fields_eq g3 r) by (destruct g; exact Hf).
  destruct g as [n tg fl ms ts vl ps]. subst g3 g2 g1.
  cbn [_num_items _tags _fields _measurements _timestamps _valid _storage_pos_sorted_by_ts set__timestamps set__storage_pos_sorted_by_ts
       set__measurements set__tags set__fields set__num_items] in *.
  split.
  - split; [split|split]; cbn [_tags _fields _measurements].
    + apply refilled_NoDup. apply Hw.
    + intros k i' Hin. apply filter_In in Hin. destruct Hin as [Hin _]. apply in_map_iff in Hin. destruct Hin as [[k0 i0] [E Hin]].
      cbn [fst snd] in E. inversion E; subst k i'. unfold filt. apply refilled_NoDup. apply (proj2 Hw k0 i0 Hin).
    + apply (im_remove_NoDup). exact Hf.
    + apply refilled_NoDup. exact Hm.
  - unfold abs, ix_remove. cbn [_num_items _tags _fields _measurements _timestamps _valid _storage_pos_sorted_by_ts ix_n ix_valid ix_ts ix_pos ix_meas ix_tags ix_fields].
    unfold abs_meas. rewrite im_remove_ubuckets. rewrite <- (flat_tags_removed r tg). reflexivity.
Qed.

(* ---------- update(u_items): renumbering ---------- *)
Definition newpos (u : pydict nat nat) (i : nat) : nat := d_get i i u.
Lemma newpos_guarded u i : (if d_has i u then d_get 0 i u else i) = newpos u i.
Proof. unfold newpos. induction u as [|[k v] u IH]; cbn [d_has d_get]. - reflexivity. - destruct (pyeq i k); [reflexivity | exact IH]. Qed.

Definition map_vals {K V} (h : V -> V) (d : pydict K V) : pydict K V := map (fun kv => (fst kv, h (snd kv))) d.
Lemma map_vals_keys {K V} (h : V -> V) (d : pydict K V) : map fst (map_vals h d) = map fst d.
Proof. unfold map_vals. rewrite map_map. reflexivity. Qed.
Lemma d_has_keys {K V W} {EK : PyEq K} (k : K) (a : pydict K V) (b : pydict K W) : map fst a = map fst b -> d_has k a = d_has k b.
Proof. revert b. induction a as [|[k0 v0] a IH]; intros [|[k1 v1] b] E; cbn [map fst] in E; try discriminate; cbn [d_has]. - reflexivity.
  - inversion E; subst. destruct (pyeq k k1); [reflexivity | apply IH; assumption]. Qed.

(* for k, v in d.items(): d[k] = h(v) *)
Lemma replace_loop {K V} {EK : PyEq K} (Hq : forall x y : K, pyeq x y = true <-> x = y) (h : V -> V)
  (step : pydict K V -> K * V -> pydict K V) (Hs : forall acc k v, step acc (k, v) = d_set k (h v) acc) :
  forall suf pre, NoDup (map fst (pre ++ suf)) -> fold_left step suf (map_vals h pre ++ suf) = map_vals h (pre ++ suf).
Proof.
  induction suf as [|[k v] suf IH]; intros pre Hn; cbn [fold_left]. - rewrite !app_nil_r. reflexivity.
  - rewrite Hs. assert (Hk : d_has k (map_vals h pre) = false).
    { rewrite (d_has_keys k _ pre (map_vals_keys h pre)). apply (d_has_false Hq). rewrite map_app in Hn. apply NoDup_remove_2 in Hn.
      intros H. apply Hn. apply in_or_app. left. exact H. }
    rewrite (d_set_app_fresh k _ _ _ Hk). cbn [d_set]. rewrite (proj2 (Hq k k) eq_refl).
    change (map_vals h pre ++ (k, h v) :: suf) with (map_vals h pre ++ [(k, h v)] ++ suf). rewrite app_assoc.
    change (map_vals h pre ++ [(k, h v)]) with (map_vals h pre ++ map_vals h [(k, v)]). unfold map_vals at 1 2. rewrite <- map_app. fold (map_vals h (pre ++ [(k, v)])).
    rewrite IH. + rewrite <- app_assoc. reflexivity. + rewrite <- app_assoc. exact Hn.
Qed.

Lemma gen_update_timestamps_eq g u : gen__update_timestamps g u = set__storage_pos_sorted_by_ts g (map (newpos u) (_storage_pos_sorted_by_ts g)).
Proof. reflexivity. Qed.
Lemma gen_update_measurements_eq g u : NoDup (map fst (_measurements g)) ->
  gen__update_measurements g u = set__measurements g (map_vals (map (newpos u)) (_measurements g)).
Proof.
  intros Hn. unfold gen__update_measurements. destruct g as [n tg fl ms ts vl ps]. cbn [_measurements set__measurements] in *.
  match goal with |- fold_left ?F _ _ = _ => assert (G : forall l acc, fold_left F l (mkPy n tg fl acc ts vl ps) =
    mkPy n tg fl (fold_left (fun acc (kv : str * list nat) => d_set (fst kv) (map (newpos u) (snd kv)) acc) l acc) ts vl ps) end.
  { clear. induction l as [|[k v] l IH]; intros acc; cbn [fold_left]. - reflexivity. - rewrite <- IH. reflexivity. }
  rewrite G. unfold set__measurements. cbn [_num_items _tags _fields _measurements _timestamps _valid _storage_pos_sorted_by_ts]. f_equal. apply (replace_loop pyeq_str_eq (map (newpos u)) _ (fun acc k v => eq_refl) ms [] Hn).
Qed.
Lemma gen_update_fields_eq g u : NoDup (map fst (_fields g)) ->
  gen__update_fields g u = set__fields g (im_renumber (newpos u) (_fields g)).
Proof.
  intros Hn. unfold gen__update_fields. destruct g as [n tg fl ms ts vl ps]. cbn [_fields set__fields] in *.
  match goal with |- fold_left ?F _ _ = _ => assert (G : forall l acc, fold_left F l (mkPy n tg acc ms ts vl ps) =
    mkPy n tg (fold_left (fun acc (kv : str * list (nat * option num)) => d_set (fst kv) (map (fun iv => (newpos u (fst iv), snd iv)) (snd kv)) acc) l acc) ms ts vl ps) end.
  { clear. induction l as [|[k v] l IH]; intros acc; cbn [fold_left]. - reflexivity.
    - rewrite <- IH. unfold set__fields. cbn [_num_items _tags _fields _measurements _timestamps _valid _storage_pos_sorted_by_ts fst snd]. do 3 f_equal. apply map_ext. intros [i x]. cbn [fst snd]. rewrite <- newpos_guarded. destruct (d_has i u); reflexivity. }
  rewrite G. unfold set__fields. cbn [_num_items _tags _fields _measurements _timestamps _valid _storage_pos_sorted_by_ts]. f_equal. apply (replace_loop pyeq_str_eq (map (fun iv : nat * option num => (newpos u (fst iv), snd iv))) _ (fun acc k v => eq_refl) fl [] Hn).
Qed.

Lemma app_cons_snoc {A} (a b : list A) x : a ++ x :: b = (a ++ [x]) ++ b.
Proof. rewrite <- app_assoc. reflexivity. Qed.

(* the nested loops of _update_tags *)
Definition ustep (k : str) (h : list nat -> list nat) (tags : ntags) (vo : option str * list nat) : ntags :=
  d_set k (d_set (fst vo) (h (snd vo)) (d_get [] k tags)) tags.
Lemma map_vals_snoc {K V} (h : V -> V) (pre : pydict K V) k v : map_vals h pre ++ [(k, h v)] = map_vals h (pre ++ [(k, v)]).
Proof. unfold map_vals. rewrite map_app. reflexivity. Qed.
Lemma inner_update_loop k h : forall isuf ipre pre suf, d_has k pre = false -> NoDup (map fst (ipre ++ isuf)) ->
  fold_left (ustep k h) isuf (pre ++ (k, map_vals h ipre ++ isuf) :: suf) = pre ++ (k, map_vals h (ipre ++ isuf)) :: suf.
Proof.
  assert (R : pyeq k k = true) by (apply pyeq_str_eq; reflexivity).
  induction isuf as [|[v old] isuf IH]; intros ipre pre suf Hk Hn; cbn [fold_left]. - rewrite !app_nil_r. reflexivity.
  - unfold ustep at 2. cbn [fst snd]. rewrite (d_get_app_fresh k [] pre _ Hk). cbn [d_get]. rewrite R.
    assert (Hv : d_has v (map_vals h ipre) = false).
    { rewrite (d_has_keys v _ ipre (map_vals_keys h ipre)). apply (d_has_false pyeq_ostr_eq). rewrite map_app in Hn. apply NoDup_remove_2 in Hn.
      intros H. apply Hn. apply in_or_app. left. exact H. }
    rewrite (d_set_app_fresh v _ _ _ Hv). cbn [d_set]. rewrite (proj2 (pyeq_ostr_eq v v) eq_refl).
    rewrite (d_set_app_fresh k _ pre _ Hk). cbn [d_set]. rewrite R.
    rewrite (app_cons_snoc (map_vals h ipre)), map_vals_snoc.
    rewrite (IH (ipre ++ [(v, old)]) pre suf Hk). + rewrite <- app_assoc. reflexivity. + rewrite <- app_assoc. exact Hn.
Qed.
Lemma outer_update_loop h : forall (suf pre : ntags), nwf (pre ++ suf) ->
  fold_left (fun tags (ki : str * pydict (option str) (list nat)) => fold_left (ustep (fst ki) h) (snd ki) tags) suf (map_vals (map_vals h) pre ++ suf) =
  map_vals (map_vals h) (pre ++ suf).
Proof.
  induction suf as [|[k inner] suf IH]; intros pre [Hn Hi]; cbn [fold_left fst snd]. - rewrite !app_nil_r. reflexivity.
  - assert (Hk : d_has k (map_vals (map_vals h) pre) = false).
    { rewrite (d_has_keys k _ pre (map_vals_keys _ pre)). apply (d_has_false pyeq_str_eq). rewrite map_app in Hn. apply NoDup_remove_2 in Hn.
      intros H. apply Hn. apply in_or_app. left. exact H. }
    assert (H : fold_left (ustep k h) inner (map_vals (map_vals h) pre ++ (k, inner) :: suf) = map_vals (map_vals h) pre ++ (k, map_vals h inner) :: suf).
    { apply (inner_update_loop k h inner [] (map_vals (map_vals h) pre) suf Hk). apply (Hi k inner). apply in_or_app. right. left. reflexivity. }
    rewrite H.
    rewrite (app_cons_snoc (map_vals (map_vals h) pre)), (map_vals_snoc (map_vals h) pre k inner). rewrite IH. + rewrite <- app_assoc. reflexivity.
    + rewrite <- app_assoc. split; assumption.
Qed.

Lemma unit_bucket_renumber f b : unit_bucket (map f b) = map (fun iv : nat * unit => (f (fst iv), snd iv)) (unit_bucket b).
Proof. unfold unit_bucket. rewrite !map_map. reflexivity. Qed.
Lemma im_renumber_ubuckets {K} f (d : pydict K (list nat)) : im_renumber f (ubuckets d) = ubuckets (map_vals (map f) d).
Proof. unfold im_renumber, ubuckets, map_vals. rewrite !map_map. apply map_ext. intros [k b]. cbn [fst snd]. rewrite unit_bucket_renumber. reflexivity. Qed.
Lemma im_renumber_pref {K2 V} f k (m : imap K2 V) : im_renumber f (pref k m) = pref k (im_renumber f m).
Proof. unfold im_renumber, pref. rewrite !map_map. reflexivity. Qed.
Lemma flat_tags_renumbered f (t : ntags) : flat_tags (map_vals (map_vals (map f)) t) = im_renumber f (flat_tags t).
Proof.
  induction t as [|[k inner] t IH]. - reflexivity.
  - change (flat_tags ((k, inner) :: t)) with (pref k (ubuckets inner) ++ flat_tags t).
    change (flat_tags (map_vals (map_vals (map f)) ((k, inner) :: t))) with (pref k (ubuckets (map_vals (map f) inner)) ++ flat_tags (map_vals (map_vals (map f)) t)).
    rewrite IH. unfold im_renumber at 2. rewrite map_app. fold (im_renumber f (flat_tags t)). unfold tkey.
    fold (im_renumber f (pref k (ubuckets inner))). rewrite (im_renumber_pref f k (ubuckets inner)), im_renumber_ubuckets. reflexivity.
Qed.

Lemma gen_update_tags_eq g u : nwf (_tags g) -> gen__update_tags g u = set__tags g (map_vals (map_vals (map (newpos u))) (_tags g)).
Proof.
  intros Hw. unfold gen__update_tags. destruct g as [n tg fl ms ts vl ps]. cbn [_tags set__tags] in *.
  match goal with |- fold_left ?F _ _ = _ => assert (G : forall l acc, fold_left F l (mkPy n acc fl ms ts vl ps) =
    mkPy n (fold_left (fun tags (ki : str * pydict (option str) (list nat)) => fold_left (ustep (fst ki) (map (newpos u))) (snd ki) tags) l acc) fl ms ts vl ps) end.
  { clear. induction l as [|[k inner] l IH]; intros acc; cbn [fold_left]. - reflexivity.
    - rewrite <- IH. f_equal. cbn [fst snd]. clear. revert acc. induction inner as [|[v old] inner IH]; intros acc; cbn [fold_left]. + reflexivity. + rewrite <- IH. reflexivity. }
  rewrite G. unfold set__tags. cbn [_num_items _tags _fields _measurements _timestamps _valid _storage_pos_sorted_by_ts]. f_equal.
  apply (outer_update_loop (map (newpos u)) tg [] Hw).
Qed.

Theorem gen_update_eq g u : gwf g -> gwf (gen_update g u) /\ abs (gen_update g u) = ix_renumber (abs g) (newpos u).
Proof.
  intros [Hw [Hf Hm]]. unfold gen_update. rewrite gen_update_timestamps_eq.
  set (g1 := set__storage_pos_sorted_by_ts _ _).
  rewrite (gen_update_measurements_eq g1 u) by (destruct g; exact Hm).
  set (g2 := set__measurements _ _).
  rewrite (gen_update_tags_eq g2 u) by (destruct g; exact Hw).
  set (g3 := set__tags _ _).
  rewrite (gen_update_fields_eq g3 u) by (destruct g; exact Hf).
  destruct g as [n tg fl ms ts vl ps]. subst g3 g2 g1.
  unfold set__timestamps, set__storage_pos_sorted_by_ts, set__measurements, set__tags, set__fields, set__num_items.
  cbn [_num_items _tags _fields _measurements _timestamps _valid _storage_pos_sorted_by_ts] in *.
  split.
  - split; [split|split]; cbn [_tags _fields _measurements].
    + rewrite map_vals_keys. apply Hw.
    + intros k i' Hin. apply in_map_iff in Hin. destruct Hin as [[k0 i0] [E Hin]]. cbn [fst snd] in E. inversion E; subst k i'.
      rewrite map_vals_keys. apply (proj2 Hw k0 i0 Hin).
    + apply im_renumber_NoDup. exact Hf.
    + rewrite map_vals_keys. exact Hm.
  - unfold abs, ix_renumber. cbn [_num_items _tags _fields _measurements _timestamps _valid _storage_pos_sorted_by_ts ix_n ix_valid ix_ts ix_pos ix_meas ix_tags ix_fields].
    unfold abs_meas. rewrite im_renumber_ubuckets. rewrite <- (flat_tags_renumbered (newpos u) tg). reflexivity.
Qed.

(* ---------- remove then update, as _remove_helper calls them: the renumbering only matters on the positions that are left ---------- *)
Definition bucket_pos_ok {K V} (P : nat -> Prop) (m : imap K V) : Prop := forall k b i v, In (k, b) m -> In (i, v) b -> P i.
Lemma im_renumber_ext_on {K V} (P : nat -> Prop) (m : imap K V) f g : bucket_pos_ok P m -> (forall k, P k -> f k = g k) -> im_renumber f m = im_renumber g m.
Proof.
  intros Hok He. unfold im_renumber. apply map_ext_in. intros [k b] Hin. cbn [fst snd]. f_equal. apply map_ext_in. intros [i v] Hi. cbn [fst snd].
  rewrite (He i (Hok k b i v Hin Hi)). reflexivity.
Qed.
Lemma im_remove_pos_ok {K V} rm (m : imap K V) : bucket_pos_ok (fun i => rm i = false) (im_remove rm m).
Proof.
  intros k b i v Hin Hi. unfold im_remove in Hin. apply filter_In in Hin. destruct Hin as [Hin _]. apply in_map_iff in Hin. destruct Hin as [[k0 b0] [E _]].
  cbn [fst snd] in E. inversion E; subst. apply filter_In in Hi. destruct Hi as [_ Hi]. cbn [fst] in Hi. destruct (rm i); [discriminate | reflexivity].
Qed.
Lemma ix_renumber_after_remove i rm n f g : (forall k, rm k = false -> f k = g k) -> ix_renumber (ix_remove i rm n) f = ix_renumber (ix_remove i rm n) g.
Proof.
  intros He. unfold ix_renumber, ix_remove. cbn [ix_n ix_valid ix_ts ix_pos ix_meas ix_tags ix_fields]. f_equal.
  - apply map_ext_in. intros p Hp. apply in_map_iff in Hp. destruct Hp as [[t p0] [E Hp]]. cbn [snd] in E. subst p0. apply filter_In in Hp. destruct Hp as [_ Hp].
    cbn [snd] in Hp. apply He. destruct (rm p); [discriminate | reflexivity].
  - apply (im_renumber_ext_on (fun k => rm k = false)); [apply im_remove_pos_ok | exact He].
  - apply (im_renumber_ext_on (fun k => rm k = false)); [apply im_remove_pos_ok | exact He].
  - apply (im_renumber_ext_on (fun k => rm k = false)); [apply im_remove_pos_ok | exact He].
Qed.

Theorem gen_remove_update_eq g r u f : gwf g -> (forall k, mem k r = false -> newpos u k = f k) ->
  gwf (gen_update (gen_remove g r) u) /\ abs (gen_update (gen_remove g r) u) = ix_renumber (ix_remove (abs g) (fun i => mem i r) (length r)) f.
Proof.
  intros Hg He. destruct (gen_remove_eq g r Hg) as [Hg1 E1]. destruct (gen_update_eq (gen_remove g r) u Hg1) as [Hg2 E2].
  split; [exact Hg2|]. rewrite E2, E1. apply ix_renumber_after_remove. exact He.
Qed.

(* ---------- what the theorems about maintenance say of the source ---------- *)
Lemma ix_eqv_sym a b : ix_eqv a b -> ix_eqv b a.
Proof. intros [E1 [E2 [E3 [E4 [E5 [E6 E7]]]]]]. repeat split; try (symmetry; assumption); apply (meqv_sym _ _ E7). Qed.

Theorem source_init_rep g v : gwf (gen___init__ g v) /\ Rep (abs (gen___init__ g v)) [] /\ ix_valid (abs (gen___init__ g v)) = v.
Proof. split; [apply gwf_blank | split; [rewrite gen_init_eq; apply Rep_empty | reflexivity]]. Qed.
Theorem source_reset_rep g : gwf (gen__reset g) /\ Rep (abs (gen__reset g)) [] /\ ix_valid (abs (gen__reset g)) = true.
Proof. split; [apply gwf_reset | split; [apply Rep_empty | reflexivity]]. Qed.
Theorem source_invalidate g : gwf (gen_invalidate g) /\ ix_valid (abs (gen_invalidate g)) = false.
Proof. split; [apply gwf_invalidate | reflexivity]. Qed.
Theorem source_build_rep g pts : wf_points pts -> gwf (gen_build g pts) /\ Rep (abs (gen_build g pts)) pts /\ ix_valid (abs (gen_build g pts)) = true.
Proof.
  intros Hp. destruct (gen_build_eqv g pts) as [Hg He]. split; [exact Hg|]. split.
  - apply (Rep_eqv _ _ _ (ix_eqv_sym _ _ He)). apply Rep_build. exact Hp.
  - destruct He as [_ [Hv _]]. rewrite Hv. apply ix_build_valid.
Qed.
Theorem source_insert_rep g pts p : gwf g -> Rep (abs g) pts -> wf_point p -> (forall t, In t (_timestamps g) -> (t <= p_time p)%Z) ->
  gwf (gen_insert g [p]) /\ Rep (abs (gen_insert g [p])) (pts ++ [p]) /\ ix_valid (abs (gen_insert g [p])) = ix_valid (abs g).
Proof.
  intros Hg Hr Hp Ht. destruct (gen_insert_one g p Hg) as [Hg' He]. split; [exact Hg'|]. split.
  - apply (Rep_eqv _ _ _ (ix_eqv_sym _ _ He)). apply Rep_insert; assumption.
  - destruct He as [_ [Hv _]]. rewrite Hv. apply ix_insert_valid.
Qed.
Theorem source_remove_rep g pts r u : gwf g -> Rep (abs g) pts -> length r = length (filter (fun i => mem i r) (seq 0 (length pts))) ->
  (forall k, mem k r = false -> newpos u k = renum (fun i => mem i r) k) ->
  gwf (gen_update (gen_remove g r) u) /\ Rep (abs (gen_update (gen_remove g r) u)) (keep_rows (fun i => mem i r) pts) /\
  ix_valid (abs (gen_update (gen_remove g r) u)) = ix_valid (abs g).
Proof.
  intros Hg Hr Hl He. destruct (gen_remove_update_eq g r u _ Hg He) as [Hg' E]. split; [exact Hg'|]. rewrite E. split.
  - apply Rep_remove; assumption.
  - apply ix_remove_valid.
Qed.

(* ---------- methods that read the object: __len__, valid, get_measurements, get_timestamps, get_field_values ---------- *)
Lemma map_pair_id {A B} (l : list (A * B)) : map (fun '(i, j) => (i, j)) l = l.
Proof. induction l as [|[a b] l IH]; cbn [map]; [reflexivity | rewrite IH; reflexivity]. Qed.
Lemma d_has_im_has (m : str) (ms : list (str * list nat)) : d_has m ms = im_has str_eqb m (ubuckets ms).
Proof. unfold im_has, ubuckets. induction ms as [|[k b] ms IH]; cbn [d_has existsb map fst]. - reflexivity. - change (pyeq m k) with (str_eqb m k). destruct (str_eqb m k); [reflexivity | exact IH]. Qed.
Lemma d_get_positions (m : str) (ms : list (str * list nat)) : d_get [] m ms = positions (im_get str_eqb m (ubuckets ms)).
Proof. unfold ubuckets, positions. induction ms as [|[k b] ms IH]; cbn [d_get im_get map fst snd]. - reflexivity.
  - change (pyeq m k) with (str_eqb m k). destruct (str_eqb m k); [| exact IH]. unfold unit_bucket. rewrite map_map. cbn [fst]. rewrite map_id. reflexivity. Qed.
Lemma d_get_im_get {V} (k : str) (d : list (str * list (nat * V))) : d_get [] k d = im_get str_eqb k d.
Proof. induction d as [|[k0 b] d IH]; cbn [d_get im_get]. - reflexivity. - change (pyeq k k0) with (str_eqb k k0). destruct (str_eqb k k0); [reflexivity | exact IH]. Qed.

Theorem gen_len_eq g : gen___len__ g = ix_n (abs g).
Proof. reflexivity. Qed.
Theorem gen_valid_eq g : gen_valid g = ix_valid (abs g).
Proof. reflexivity. Qed.
Theorem gen_get_measurements_eq g : sort_dedup (gen_get_measurements g) = ix_get_measurements (abs g).
Proof. unfold gen_get_measurements, ix_get_measurements, im_keys, abs. cbn [ix_meas]. unfold abs_meas. rewrite ubuckets_keys. reflexivity. Qed.

Theorem gen_get_timestamps_eq g m : gen_get_timestamps g m = ix_get_timestamps (abs g) m.
Proof.
  unfold gen_get_timestamps, ix_get_timestamps, abs, meas_items. cbn [ix_ts ix_pos ix_meas]. unfold abs_meas, sort_by_second.
  destruct m as [[|c s]|]; cbn [opt_truthy truthy negb opt_str].
  - rewrite map_pair_id. reflexivity.
  - rewrite <- d_has_im_has. match goal with |- context [negb ?t] => destruct t end; cbn [negb]; [| reflexivity].
    rewrite map_pair_id, <- d_get_positions. f_equal. f_equal. apply filter_ext. intros [t p]. reflexivity.
  - rewrite map_pair_id. reflexivity.
Qed.

(* for fk, items in d.items(): if fk != k: continue; rst.extend(h(items)) - with pairwise distinct keys, h of the one bucket of k *)
Lemma pick_loop {V W} (k : str) (h : list (nat * V) -> list W) : forall (d : list (str * list (nat * V))) rst, NoDup (map fst d) ->
  fold_left (fun rst (kb : str * list (nat * V)) => if negb (pyeq (fst kb) k) then rst else rst ++ h (snd kb)) d rst =
  rst ++ (if im_has str_eqb k d then h (im_get str_eqb k d) else []).
Proof.
  induction d as [|[k0 b] d IH]; intros rst Hn; cbn [fold_left fst snd]. - cbn. rewrite app_nil_r. reflexivity.
  - cbn [map fst] in Hn. inversion Hn as [|x l Hx Hn']; subst. unfold im_has. cbn [existsb fst im_get].
    change (pyeq k0 k) with (str_eqb k0 k). rewrite (str_eqb_sym k k0). destruct (str_eqb k0 k) eqn:E; cbn [negb orb].
    + apply str_eqb_eq in E. subst k0. rewrite (IH _ Hn'). fold (im_has str_eqb k d).
      assert (Hno : im_has str_eqb k d = false).
      { destruct (im_has str_eqb k d) eqn:F; [|reflexivity]. exfalso. apply (im_has_In str_eqb str_eqb_eq) in F. destruct F as [b' Hb']. apply Hx. apply (in_map_fst_pair d k b' Hb'). }
      rewrite Hno. rewrite app_nil_r. reflexivity.
    + apply (IH rst Hn').
Qed.

Theorem gen_get_field_values_eq g k m : NoDup (map fst (_fields g)) -> gen_get_field_values g k m = ix_get_field_values (abs g) k m.
Proof.
  intros Hn. unfold gen_get_field_values, ix_get_field_values, abs, meas_items. cbn [ix_meas ix_fields]. unfold abs_meas.
  destruct m as [[|c s]|]; cbn [opt_truthy truthy negb opt_str].
  - rewrite <- d_get_im_get. match goal with |- context [if ?t then _ else _] => destruct t eqn:E end; [reflexivity|].
    rewrite (d_get_absent k [] (_fields g) E). reflexivity.
  - rewrite <- d_has_im_has. match goal with |- context [negb ?t] => destruct t end; cbn [negb]; [| reflexivity].
    rewrite <- d_get_positions.
    match goal with |- fold_left ?F _ _ = _ => rewrite (fold_left_ext F (fun rst (kb : str * list (nat * option num)) => if negb (pyeq (fst kb) k) then rst else
       rst ++ map (fun i => snd i) (filter (fun i => mem (fst i) (d_get [] (c :: s) (_measurements g))) (snd kb)))) end; [| intros rst [fk items]; reflexivity].
    rewrite (pick_loop k (fun items : list (nat * option num) => map (fun i => snd i) (filter (fun i => mem (fst i) (d_get [] (c :: s) (_measurements g))) items)) (_fields g) [] Hn). cbn [app].
    destruct (im_has str_eqb k (_fields g)) eqn:E; [reflexivity|].
    rewrite (im_get_notin str_eqb str_eqb_eq (_fields g) k (im_has_false str_eqb str_eqb_eq _ k E)). reflexivity.
  - rewrite <- d_get_im_get. match goal with |- context [if ?t then _ else _] => destruct t eqn:E end; [reflexivity|].
    rewrite (d_get_absent k [] (_fields g) E). reflexivity.
Qed.

(* ---------- the set-valued getters get_field_keys / get_tag_keys: sets of strings, compared after sorting ---------- *)
Lemma nonempty_inter a b : nonempty_list (set_inter a b) = overlaps a b.
Proof. unfold set_inter, overlaps. induction a as [|x a IH]; cbn [filter existsb nonempty_list]. - reflexivity. - destruct (mem x b); [reflexivity | exact IH]. Qed.
Lemma set_add_In (x y : str) s : In y (set_add x s) <-> In y s \/ y = x.
Proof.
  unfold set_add. destruct (existsb (pyeq x) s) eqn:E.
  - split; [intros H; left; exact H | intros [H|H]; [exact H | subst y]]. apply existsb_exists in E. destruct E as [z [Hz Hq]]. apply pyeq_str_eq in Hq. subst z. exact Hz.
  - rewrite in_app_iff. cbn [In]. split; [intros [H|[H|[]]]; [left; exact H | right; symmetry; exact H] | intros [H|H]; [left; exact H | right; left; symmetry; exact H]].
Qed.
(* for k, v in d.items(): if c(v): rst.add(k) *)
Lemma collect_loop {V} (c : V -> bool) : forall (d : list (str * V)) rst x,
  In x (fold_left (fun rst (kb : str * V) => if c (snd kb) then set_add (fst kb) rst else rst) d rst) <->
  In x rst \/ exists v, In (x, v) d /\ c v = true.
Proof.
  induction d as [|[k v] d IH]; intros rst x; cbn [fold_left fst snd]. - split; [intros H; left; exact H | intros [H|[v [[] _]]]; exact H].
  - rewrite IH. destruct (c v) eqn:E.
    + rewrite set_add_In. split.
      * intros [[H|H]|[v' [H1 H2]]]; [left; exact H | subst x; right; exists v; split; [left; reflexivity | exact E] | right; exists v'; split; [right; exact H1 | exact H2]].
      * intros [H|[v' [[H1|H1] H2]]]; [left; left; exact H | inversion H1; subst; left; right; reflexivity | right; exists v'; split; assumption].
    + split.
      * intros [H|[v' [H1 H2]]]; [left; exact H | right; exists v'; split; [right; exact H1 | exact H2]].
      * intros [H|[v' [[H1|H1] H2]]]; [left; exact H | inversion H1; subst; congruence | right; exists v'; split; assumption].
Qed.

Theorem gen_get_field_keys_eq g m : sort_dedup (gen_get_field_keys g m) = ix_get_field_keys (abs g) m.
Proof.
  unfold gen_get_field_keys, ix_get_field_keys, abs, meas_items, im_keys. cbn [ix_meas ix_fields]. unfold abs_meas.
  destruct m as [[|c s]|]; cbn [opt_truthy truthy negb opt_str]; try reflexivity.
  rewrite <- d_has_im_has. match goal with |- context [negb ?t] => destruct t end; cbn [negb]; [| reflexivity].
  rewrite <- d_get_positions. apply sort_dedup_ext. intros x.
  match goal with |- In x (fold_left ?F _ _) <-> _ => rewrite (fold_left_ext F (fun rst (kb : str * list (nat * option num)) =>
     if nonempty_list (set_inter (d_get [] (c :: s) (_measurements g)) (map (fun i => fst i) (snd kb))) then set_add (fst kb) rst else rst)) end; [| intros rst [fk items]; reflexivity].
  rewrite (collect_loop (fun items : list (nat * option num) => nonempty_list (set_inter (d_get [] (c :: s) (_measurements g)) (map (fun i => fst i) items)))).
  rewrite in_map_iff. split.
  - intros [[]|[v [Hin Hc]]]. exists (x, v). split; [reflexivity|]. apply filter_In. split; [exact Hin|]. cbn [snd]. rewrite <- nonempty_inter. exact Hc.
  - intros [[k v] [Hk Hf]]. cbn [fst] in Hk. subst k. apply filter_In in Hf. destruct Hf as [Hin Hc]. right. exists v. split; [exact Hin|]. cbn [snd] in Hc. rewrite <- nonempty_inter in Hc. exact Hc.
Qed.

(* the nested loop of get_tag_keys: for k, inner in tags.items(): for items in inner.values(): if c(items): rst.add(k) *)
Lemma collect_inner (c : list nat -> bool) (k : str) : forall (l : list (list nat)) rst x,
  In x (fold_left (fun rst items => if c items then set_add k rst else rst) l rst) <-> In x rst \/ (x = k /\ exists items, In items l /\ c items = true).
Proof.
  induction l as [|it l IH]; intros rst x; cbn [fold_left]. - split; [intros H; left; exact H | intros [H|[_ [i [[] _]]]]; exact H].
  - rewrite IH. destruct (c it) eqn:E.
    + rewrite set_add_In. split.
      * intros [[H|H]|[H1 [i [H2 H3]]]]; [left; exact H | right; split; [exact H | exists it; split; [left; reflexivity | exact E]] | right; split; [exact H1 | exists i; split; [right; exact H2 | exact H3]]].
      * intros [H|[H1 [i [[H2|H2] H3]]]]; [left; left; exact H | left; right; exact H1 | right; split; [exact H1 | exists i; split; assumption]].
    + split.
      * intros [H|[H1 [i [H2 H3]]]]; [left; exact H | right; split; [exact H1 | exists i; split; [right; exact H2 | exact H3]]].
      * intros [H|[H1 [i [[H2|H2] H3]]]]; [left; exact H | subst; congruence | right; split; [exact H1 | exists i; split; assumption]].
Qed.
Lemma collect_outer (c : list nat -> bool) : forall (t : list (str * list (option str * list nat))) rst x,
  In x (fold_left (fun rst (ki : str * list (option str * list nat)) => fold_left (fun rst items => if c items then set_add (fst ki) rst else rst) (map snd (snd ki)) rst) t rst) <->
  In x rst \/ exists inner v items, In (x, inner) t /\ In (v, items) inner /\ c items = true.
Proof.
  induction t as [|[k inner] t IH]; intros rst x; cbn [fold_left fst snd]. - split; [intros H; left; exact H | intros [H|[i [v [it [[] _]]]]]; exact H].
  - rewrite IH, collect_inner. split.
    + intros [[H|[Hk [it [H1 H2]]]]|[i [v [it [H1 [H2 H3]]]]]].
      * left. exact H.
      * subst x. right. apply in_map_iff in H1. destruct H1 as [[v it'] [E H1]]. cbn [snd] in E. subst it'. exists inner, v, it. split; [left; reflexivity | split; assumption].
      * right. exists i, v, it. split; [right; exact H1 | split; assumption].
    + intros [H|[i [v [it [[H1|H1] [H2 H3]]]]]].
      * left. left. exact H.
      * inversion H1; subst. left. right. split; [reflexivity|]. exists it. split; [apply in_map_iff; exists (v, it); split; [reflexivity | exact H2] | exact H3].
      * right. exists i, v, it. split; [exact H1 | split; assumption].
Qed.

(* no tag key with an empty inner dict (the source creates an inner dict only to put a value into it, and drops emptied ones): an invariant of
   every compiled method, kept apart from gwf; it is what makes `set(self._tags.keys())` the set of keys that carry a value *)
Definition tne (t : ntags) : Prop := forall k inner, In (k, inner) t -> inner <> [].
Lemma d_set_nonempty {K V} {EK : PyEq K} (k : K) (v : V) d : d_set k v d <> [].
Proof. destruct d as [|[k0 v0] d]; cbn [d_set]; [discriminate | destruct (pyeq k k0); discriminate]. Qed.
Lemma tne_ntag_add idx t kv : NoDup (map fst t) -> tne t -> tne (ntag_add idx t kv).
Proof.
  destruct kv as [k v]. intros Hn Ht. rewrite ntag_add_canon. intros k' i' Hin. apply (d_set_In pyeq_str_eq t k _ k' i' Hn) in Hin. destruct Hin as [[_ Hin]|[_ Hin]].
  - apply (Ht k' i' Hin). - subst i'. unfold uadd. destruct (negb (d_has v (d_get [] k t))); apply d_set_nonempty.
Qed.
Lemma tne_insert_tags g idx tags : nwf (_tags g) -> tne (_tags g) -> tne (_tags (gen__insert_tags g idx tags)).
Proof.
  rewrite gen_insert_tags_eq. destruct g as [n tg fl ms ts vl ps]. cbn [_tags set__tags]. revert tg. induction tags as [|kv r IH]; intros tg Hw Ht; cbn [fold_left]. - exact Ht.
  - destruct kv as [k v]. apply IH. + apply (ntag_add_spec idx tg k v Hw). + apply tne_ntag_add; [apply Hw | exact Ht].
Qed.
Lemma tne_keys (t : ntags) : tne t -> forall k, In k (map fst t) <-> In k (map fst (map fst (flat_tags t))).
Proof.
  intros Ht k. split.
  - intros H. apply in_map_fst_ex in H. destruct H as [inner Hin]. destruct inner as [|[v b] inner'] eqn:E; [exfalso; apply (Ht k [] Hin); reflexivity|].
    apply in_map_iff. exists (k, v). split; [reflexivity|]. apply in_map_iff. exists ((k, v), unit_bucket b). split; [reflexivity|].
    apply In_flat_tags. exists ((v, b) :: inner'). split; [exact Hin | left; reflexivity].
  - intros H. apply in_map_iff in H. destruct H as [[k0 v] [E H]]. cbn [fst] in E. subst k0. apply (flat_tags_keys_In t k v H).
Qed.

Theorem gen_get_tag_keys_eq g m : tne (_tags g) -> sort_dedup (gen_get_tag_keys g m) = ix_get_tag_keys (abs g) m.
Proof.
  intros Htne. unfold gen_get_tag_keys, ix_get_tag_keys, abs, meas_items, im_keys. cbn [ix_meas ix_tags]. unfold abs_meas.
  assert (Hall : sort_dedup (map fst (_tags g)) = sort_dedup (map fst (map fst (flat_tags (_tags g))))).
  { apply sort_dedup_ext. apply tne_keys. exact Htne. }
  destruct m as [[|c s]|]; cbn [opt_truthy truthy negb opt_str]; try exact Hall.
  rewrite <- d_has_im_has. match goal with |- context [negb ?t] => destruct t end; cbn [negb]; [| reflexivity].
  rewrite <- d_get_positions. apply sort_dedup_ext. intros x.
  match goal with |- In x (fold_left ?F _ _) <-> _ => rewrite (fold_left_ext F (fun rst (ki : str * list (option str * list nat)) =>
     fold_left (fun rst items => if nonempty_list (set_inter (d_get [] (c :: s) (_measurements g)) items) then set_add (fst ki) rst else rst) (map snd (snd ki)) rst)) end;
    [| intros rst [k inner]; cbn [fst snd]; apply fold_left_ext; intros rst' items; reflexivity].
  rewrite (collect_outer (fun items => nonempty_list (set_inter (d_get [] (c :: s) (_measurements g)) items))).
  rewrite in_map_iff. split.
  - intros [[]|[inner [v [it [H1 [H2 H3]]]]]]. exists ((x, v), unit_bucket it). split; [reflexivity|]. apply filter_In. split.
    + apply In_flat_tags. exists inner. split; [exact H1|]. unfold ubuckets. apply in_map_iff. exists (v, it). split; [reflexivity | exact H2].
    + cbn [snd]. unfold positions, unit_bucket. rewrite map_map. cbn [fst]. rewrite map_id. rewrite <- nonempty_inter. exact H3.
  - intros [[[k v] b] [Hk Hf]]. cbn [fst] in Hk. subst k. apply filter_In in Hf. destruct Hf as [Hin Hc]. apply In_flat_tags in Hin. destruct Hin as [inner [H1 H2]].
    unfold ubuckets in H2. apply in_map_iff in H2. destruct H2 as [[v' it] [E H2]]. cbn [fst snd] in E. injection E as Ev Eb. subst v' b. right. exists inner, v, it.
    split; [exact H1 | split; [exact H2|]]. cbn [snd] in Hc. unfold positions, unit_bucket in Hc. rewrite map_map in Hc. cbn [fst] in Hc. rewrite map_id in Hc. rewrite <- nonempty_inter in Hc. exact Hc.
Qed.

(* tne through the other methods *)
Lemma tne_nil : tne [].
Proof. intros k i []. Qed.
Lemma tne_removed r (t : ntags) : tne (filter (fun kv => nonempty_list (snd kv)) (map (fun kv => (fst kv, filt r (snd kv))) t)).
Proof. intros k i Hin. apply filter_In in Hin. destruct Hin as [_ Hne]. cbn [snd] in Hne. intro E. subst i. discriminate. Qed.
Lemma tne_renumbered h (t : ntags) : tne t -> tne (map_vals (map_vals h) t).
Proof.
  intros Ht k i Hin. apply in_map_iff in Hin. destruct Hin as [[k0 i0] [E Hin]]. cbn [fst snd] in E. injection E as Ek Ei. subst k i.
  intro Hc. apply map_eq_nil in Hc. apply (Ht k0 i0 Hin Hc).
Qed.
Theorem tne_reset g : tne (_tags (gen__reset g)).  Proof. apply tne_nil. Qed.
Theorem tne_invalidate g : tne (_tags (gen_invalidate g)).  Proof. apply tne_nil. Qed.
Theorem tne_init g v : tne (_tags (gen___init__ g v)).  Proof. apply tne_nil. Qed.
Theorem tne_insert_one g p : gwf g -> tne (_tags g) -> tne (_tags (gen_insert g [p])).
Proof.
  intros Hg Ht. unfold gen_insert. cbn [length seq combine fold_left]. rewrite gen_insert_time_eq, gen_insert_fields_eq, gen_insert_measurements_eq.
  match goal with |- tne (_tags (set__measurements (set__fields ?x _) _)) => change (tne (_tags x)) end.
  apply tne_insert_tags; destruct g as [n tg fl ms ts vl ps]; [apply Hg | exact Ht].
Qed.
Theorem tne_remove g r : gwf g -> tne (_tags (gen_remove g r)).
Proof.
  intros [Hw [Hf Hm]]. unfold gen_remove. rewrite gen_remove_timestamps_eq. cbv zeta.
  set (g1 := set__storage_pos_sorted_by_ts _ _). rewrite (gen_remove_measurements_eq g1 r) by (destruct g; exact Hm).
  set (g2 := set__measurements _ _). rewrite (gen_remove_tags_eq g2 r) by (destruct g; exact Hw).
  set (g3 := set__tags _ _). rewrite (gen_remove_fields_eq g3 r) by (destruct g; exact Hf).
  destruct g as [n tg fl ms ts vl ps]. subst g3 g2 g1. cbn. apply tne_removed.
Qed.
Theorem tne_update g u : gwf g -> tne (_tags g) -> tne (_tags (gen_update g u)).
Proof.
  intros [Hw [Hf Hm]] Ht. unfold gen_update. rewrite gen_update_timestamps_eq.
  set (g1 := set__storage_pos_sorted_by_ts _ _). rewrite (gen_update_measurements_eq g1 u) by (destruct g; exact Hm).
  set (g2 := set__measurements _ _). rewrite (gen_update_tags_eq g2 u) by (destruct g; exact Hw).
  set (g3 := set__tags _ _). rewrite (gen_update_fields_eq g3 u) by (destruct g; exact Hf).
  destruct g as [n tg fl ms ts vl ps]. subst g3 g2 g1. cbn. apply tne_renumbered. exact Ht.
Qed.
Lemma tne_fold idx tags : forall tg, nwf tg -> tne tg -> nwf (fold_left (ntag_add idx) tags tg) /\ tne (fold_left (ntag_add idx) tags tg).
Proof.
  induction tags as [|[k v] r IH]; intros tg Hw Ht; cbn [fold_left]. - split; assumption.
  - apply IH. + apply (ntag_add_spec idx tg k v Hw). + apply tne_ntag_add; [apply Hw | exact Ht].
Qed.
Theorem tne_build g pts : tne (_tags (gen_build g pts)).
Proof.
  unfold gen_build. cbv zeta.
  match goal with |- context [fold_left ?F ?L (gen__reset g, [])] => assert (G : forall l g0 buf, gwf g0 -> tne (_tags g0) ->
     gwf (fst (fold_left F l (g0, buf))) /\ tne (_tags (fst (fold_left F l (g0, buf))))) end.
  { clear. induction l as [|[idx p] l IH]; intros g0 buf Hg Ht; cbn [fold_left]. - split; assumption.
    - apply IH.
      + rewrite gen_insert_fields_eq, gen_insert_tags_eq, gen_insert_measurements_eq. destruct g0 as [n tg fl ms ts vl ps]. destruct Hg as [Hw [Hf Hm]].
        cbn [_num_items _tags _fields _measurements _timestamps _valid _storage_pos_sorted_by_ts set__tags set__fields set__measurements set__num_items] in *.
        split; [apply (tne_fold idx (p_tags p) tg Hw Ht) | split; [apply add_fields_NoDup; exact Hf | apply (uadd_NoDup pyeq_str_eq); exact Hm]].
      + rewrite gen_insert_fields_eq, gen_insert_tags_eq, gen_insert_measurements_eq. destruct g0 as [n tg fl ms ts vl ps]. destruct Hg as [Hw _].
        cbn [_num_items _tags _fields _measurements _timestamps _valid _storage_pos_sorted_by_ts set__tags set__fields set__measurements set__num_items] in *.
        apply (tne_fold idx (p_tags p) tg Hw Ht). }
  destruct (G (combine (seq 0 (length pts)) pts) (gen__reset g) [] (gwf_reset g) (tne_reset g)) as [_ Ht].
  destruct (fold_left _ _ _) as [g' buf']. cbn [fst] in Ht. destruct g'. exact Ht.
Qed.

(* Index.empty *)
Theorem gen_empty_eq g : tne (_tags g) -> gen_empty g = ix_is_empty (abs g).
Proof.
  intros Ht. unfold gen_empty, ix_is_empty, abs. cbn [ix_n ix_tags ix_fields ix_meas ix_ts]. unfold abs_meas. rewrite negb_involutive.
  destruct (Nat.eqb (_num_items g) 0); cbn [andb]; [| reflexivity].
  destruct (_tags g) as [|[k inner] t] eqn:E.
  - cbn [nonempty_list negb andb flat_tags flat_map]. destruct (_fields g); destruct (_measurements g); destruct (_timestamps g); reflexivity.
  - destruct inner as [|[v b] inner']; [exfalso; apply (Ht k []); [left; reflexivity | reflexivity]|]. reflexivity.
Qed.
