(* BisectP.v — the binary searches of Bisect.v return the partition point of a
   sorted list, for any strict weak order `ltb` (irreflexive, transitive,
   negatively transitive: Python's < on ints, strings and non-NaN floats). *)
From Coq Require Import List ZArith Bool Arith Lia.
From TF Require Import Bisect.
Import ListNotations.

Section BisectP.
Context {T : Type}.
Variable ltb : T -> T -> bool.
Hypothesis ltb_negtrans : forall a b c, ltb a c = true -> ltb a b = true \/ ltb b c = true.

(* Sorted in the sense of list.sort(): no later element is below an earlier one. *)
Definition sorted (l : list T) : Prop :=
  forall i j a b, i < j -> nth_error l i = Some a -> nth_error l j = Some b -> ltb b a = false.

Lemma div2_bounds lo hi : lo < hi -> lo <= (lo + hi) / 2 < hi.
Proof.
  intros H. split.
  - apply Nat.div_le_lower_bound; lia.
  - apply Nat.div_lt_upper_bound; lia.
Qed.

Lemma nth_error_some_lt (l : list T) i : i < length l -> exists a, nth_error l i = Some a.
Proof.
  intros H. destruct (nth_error l i) eqn:E; [eauto|].
  apply nth_error_None in E. lia.
Qed.

Lemma bl_loop_spec (l : list T) (x : T) : sorted l ->
  forall fuel lo hi, hi - lo <= fuel -> lo <= hi -> hi <= length l ->
  (forall i a, i < lo -> nth_error l i = Some a -> ltb a x = true) ->
  (forall i a, hi <= i -> nth_error l i = Some a -> ltb a x = false) ->
  let r := bl_loop ltb fuel l x lo hi in
  lo <= r <= hi /\
  (forall i a, i < r -> nth_error l i = Some a -> ltb a x = true) /\
  (forall i a, r <= i -> nth_error l i = Some a -> ltb a x = false).
Proof.
  intros Hs. induction fuel as [|f IH]; intros lo hi Hf Hle Hlen Hlo Hhi; cbn [bl_loop].
  - assert (lo = hi) by lia. subst. repeat split; auto.
  - destruct (lo <? hi) eqn:Elt.
    + apply Nat.ltb_lt in Elt. pose proof (div2_bounds lo hi Elt) as [Hm1 Hm2].
      set (mid := (lo + hi) / 2) in *.
      destruct (nth_error_some_lt l mid ltac:(lia)) as [a Ha]. rewrite Ha.
      destruct (ltb a x) eqn:Eax.
      * specialize (IH (mid + 1) hi ltac:(lia) ltac:(lia) Hlen).
        destruct IH as [Hr [H1 H2]]; auto.
        { intros i b Hi Hb. destruct (Nat.eq_dec i mid) as [->|Hne]; [congruence|].
          destruct (ltb_negtrans a b x Eax) as [Hab|Hbx]; auto.
          assert (ltb a b = false) by (apply (Hs i mid b a); auto; lia). congruence. }
        repeat split; auto; lia.
      * specialize (IH lo mid ltac:(lia) ltac:(lia) ltac:(lia)).
        destruct IH as [Hr [H1 H2]]; auto.
        { intros i b Hi Hb. destruct (Nat.eq_dec i mid) as [->|Hne]; [congruence|].
          destruct (ltb b x) eqn:Ebx; auto.
          destruct (ltb_negtrans b a x Ebx) as [Hba|Hax]; [|congruence].
          assert (ltb b a = false) by (apply (Hs mid i a b); auto; lia). congruence. }
        repeat split; auto; lia.
    + apply Nat.ltb_ge in Elt. assert (lo = hi) by lia. subst. repeat split; auto.
Qed.

Lemma br_loop_spec (l : list T) (x : T) : sorted l ->
  forall fuel lo hi, hi - lo <= fuel -> lo <= hi -> hi <= length l ->
  (forall i a, i < lo -> nth_error l i = Some a -> ltb x a = false) ->
  (forall i a, hi <= i -> nth_error l i = Some a -> ltb x a = true) ->
  let r := br_loop ltb fuel l x lo hi in
  lo <= r <= hi /\
  (forall i a, i < r -> nth_error l i = Some a -> ltb x a = false) /\
  (forall i a, r <= i -> nth_error l i = Some a -> ltb x a = true).
Proof.
  intros Hs. induction fuel as [|f IH]; intros lo hi Hf Hle Hlen Hlo Hhi; cbn [br_loop].
  - assert (lo = hi) by lia. subst. repeat split; auto.
  - destruct (lo <? hi) eqn:Elt.
    + apply Nat.ltb_lt in Elt. pose proof (div2_bounds lo hi Elt) as [Hm1 Hm2].
      set (mid := (lo + hi) / 2) in *.
      destruct (nth_error_some_lt l mid ltac:(lia)) as [a Ha]. rewrite Ha.
      destruct (ltb x a) eqn:Exa.
      * specialize (IH lo mid ltac:(lia) ltac:(lia) ltac:(lia)).
        destruct IH as [Hr [H1 H2]]; auto.
        { intros i b Hi Hb. destruct (Nat.eq_dec i mid) as [->|Hne]; [congruence|].
          destruct (ltb_negtrans x b a Exa) as [Hxb|Hba]; auto.
          assert (ltb b a = false) by (apply (Hs mid i a b); auto; lia). congruence. }
        repeat split; auto; lia.
      * specialize (IH (mid + 1) hi ltac:(lia) ltac:(lia) Hlen).
        destruct IH as [Hr [H1 H2]]; auto.
        { intros i b Hi Hb. destruct (Nat.eq_dec i mid) as [->|Hne]; [congruence|].
          destruct (ltb x b) eqn:Exb; auto.
          destruct (ltb_negtrans x a b Exb) as [Hxa|Hab]; [congruence|].
          assert (ltb a b = false) by (apply (Hs i mid b a); auto; lia). congruence. }
        repeat split; auto; lia.
    + apply Nat.ltb_ge in Elt. assert (lo = hi) by lia. subst. repeat split; auto.
Qed.

(* bisect_left: everything before the result is below x, nothing from it on is. *)
Theorem bisect_left_spec (l : list T) (x : T) : sorted l ->
  let r := bisect_left_nat ltb l x in
  r <= length l /\
  (forall i a, i < r -> nth_error l i = Some a -> ltb a x = true) /\
  (forall i a, r <= i -> nth_error l i = Some a -> ltb a x = false).
Proof.
  intros Hs. unfold bisect_left_nat.
  assert (Hlo : forall i a, i < 0 -> nth_error l i = Some a -> ltb a x = true) by (intros i a Hi; lia).
  assert (Hhi : forall i a, length l <= i -> nth_error l i = Some a -> ltb a x = false).
  { intros i a Hi Ha. assert (nth_error l i = None) by (apply nth_error_None; lia). congruence. }
  destruct (bl_loop_spec l x Hs (length l) 0 (length l) ltac:(lia) ltac:(lia) ltac:(lia) Hlo Hhi) as [Hr [H1 H2]].
  repeat split; auto; lia.
Qed.

(* bisect_right: nothing before the result is above x, everything from it on is. *)
Theorem bisect_right_spec (l : list T) (x : T) : sorted l ->
  let r := bisect_right_nat ltb l x in
  r <= length l /\
  (forall i a, i < r -> nth_error l i = Some a -> ltb x a = false) /\
  (forall i a, r <= i -> nth_error l i = Some a -> ltb x a = true).
Proof.
  intros Hs. unfold bisect_right_nat.
  assert (Hlo : forall i a, i < 0 -> nth_error l i = Some a -> ltb x a = false) by (intros i a Hi; lia).
  assert (Hhi : forall i a, length l <= i -> nth_error l i = Some a -> ltb x a = true).
  { intros i a Hi Ha. assert (nth_error l i = None) by (apply nth_error_None; lia). congruence. }
  destruct (br_loop_spec l x Hs (length l) 0 (length l) ltac:(lia) ltac:(lia) ltac:(lia) Hlo Hhi) as [Hr [H1 H2]].
  repeat split; auto; lia.
Qed.

(* Python indexing with an in-range non-negative index is nth_error. *)
Lemma py_index_nat (l : list T) (i : nat) : i < length l -> py_index l (Z.of_nat i) = nth_error l i.
Proof.
  intros H. unfold py_index, py_len.
  destruct (0 <=? Z.of_nat i)%Z eqn:E1; [|apply Z.leb_gt in E1; lia].
  destruct (Z.of_nat i <? Z.of_nat (length l))%Z eqn:E2; [|apply Z.ltb_ge in E2; lia].
  now rewrite Nat2Z.id.
Qed.
End BisectP.
