(* DecodeGenP.v — what the loops of Point._deserialize_from_list DECIDE, regenerated from tinyflux/point.py on every run (gen/DecodeGen.v:
   which cells are tag keys and which prefix is stripped from them, when the tag loop hands over to the field loop, the sentinel test on
   tag values, the prefix stripped from field keys, the class constants), is what the model's decoder computes (Codec.de_tags, de_fields,
   Text.tag_key), for EVERY string.  The C05 round-trip theorems (de_ser, decode_encode, file_roundtrip) rest on the model's decoder: they are
   thereby theorems about the decisions the source takes now. *)
From Coq Require Import List ZArith NArith Bool Arith Lia.
From TF Require gen.DecodeGen.
From TF Require Import Base Query Codec Text.
Import ListNotations.

Lemma gen_constants : DecodeGen.none_str = s_none /\ DecodeGen.default_tag_key_prefix = pre_tag /\ DecodeGen.default_field_key_prefix = pre_field /\
  DecodeGen.compact_tag_key_prefix = pre_ctag /\ DecodeGen.compact_field_key_prefix = pre_cfield.
Proof. repeat split; reflexivity. Qed.

(* the key test of the tag loop, as Codec.de_tags spells it *)
Definition model_tag_key (k : str) : option (option str) :=
  match k with
  | c0 :: c1 :: _ => Some (if N.eqb c1 ch_t then Some (skipn 5 k) else if N.eqb c0 ch_t then Some (skipn 2 k) else None)
  | _ => None
  end.
Definition model_field_key (k : str) : option str :=
  match k with c0 :: c1 :: _ => Some (if N.eqb c1 ch_f then skipn 7 k else skipn 2 k) | _ => None end.

Lemma gen_tag_key_eq k : DecodeGen.gen_tag_key k = model_tag_key k.
Proof.
  destruct k as [|c0 [|c1 r]]; try reflexivity;
  unfold DecodeGen.gen_tag_key, model_tag_key; cbn [nth_error]; change 116%N with ch_t;
  destruct (N.eqb c1 ch_t), (N.eqb c0 ch_t); reflexivity.
Qed.
Lemma gen_field_key_eq k : DecodeGen.gen_field_key k = model_field_key k.
Proof.
  destruct k as [|c0 [|c1 r]]; try reflexivity;
  unfold DecodeGen.gen_field_key, model_field_key; cbn [nth_error]; change 102%N with ch_f;
  destruct (N.eqb c1 ch_f); reflexivity.
Qed.
Lemma gen_tag_value_eq v : DecodeGen.gen_tag_value v = if str_eqb v s_none then None else Some v.
Proof. reflexivity. Qed.

(* one turn of the tag loop of the model's decoder, spelled with the generated decisions *)
Theorem de_tags_step f k rest acc :
  de_tags (S f) (CText k :: rest) acc =
  match DecodeGen.gen_tag_key k with
  | None => None
  | Some None => Some (acc, CText k :: rest)
  | Some (Some tk) => match rest with
                      | CText v :: rest' => de_tags f rest' (dset tk (DecodeGen.gen_tag_value v) acc)
                      | _ => None
                      end
  end.
Proof.
  rewrite gen_tag_key_eq. destruct k as [|c0 [|c1 r]]; try reflexivity;
  cbn [de_tags model_tag_key]; destruct (N.eqb c1 ch_t), (N.eqb c0 ch_t); reflexivity.
Qed.

(* one turn of the field loop *)
Theorem de_fields_step f k rest acc :
  de_fields (S f) (CText k :: rest) acc =
  match DecodeGen.gen_field_key k with
  | None => None
  | Some fk => match rest with
               | CNum x :: rest' => de_fields f rest' (dset fk (Some x) acc)
               | CText v :: rest' => if str_eqb v DecodeGen.none_str then de_fields f rest' (dset fk None acc) else None
               | _ => None
               end
  end.
Proof.
  rewrite gen_field_key_eq. destruct k as [|c0 [|c1 r]]; try reflexivity.
Qed.

(* which loop a key sends its pair to, at the level of strings (Text.v) *)
Theorem text_tag_key_eq k :
  tag_key k = option_map (fun o : option str => match o with Some _ => true | None => false end) (DecodeGen.gen_tag_key k).
Proof.
  rewrite gen_tag_key_eq. destruct k as [|c0 [|c1 r]]; try reflexivity;
  cbn [tag_key model_tag_key option_map]; destruct (N.eqb c1 ch_t), (N.eqb c0 ch_t); reflexivity.
Qed.
