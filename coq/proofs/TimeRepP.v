(* TimeRepP.v - the two time arrays of the index (sorted instants, storage positions) stay a
   faithful description (TimeRep) of the stored points under insert (append), remove
   (filter + renumber) and rebuild (stable sort). *)
From Coq Require Import List ZArith NArith Bool Arith Lia Sorted Permutation.
From TF Require Import Base Bisect Query Index proofs.BisectP proofs.BaseP proofs.TimeSearchP proofs.IndexDefs.
Import ListNotations.

(* ---- sortedness, structurally ----------------------------------------------------------- *)
Lemma sorted_nil_Z : sorted Z.ltb (@nil Z).
Proof.
  intros i j a b _ H _. destruct i; discriminate H.
Qed.

Lemma sorted_cons_iff : forall (a : Z) (l : list Z),
  sorted Z.ltb (a :: l) <-> (forall x, In x l -> (a <= x)%Z) /\ sorted Z.ltb l.
Proof.
  intros a l. unfold sorted. split.
  - intros H. split.
    + intros x Hx. apply In_nth_error in Hx. destruct Hx as [n Hn].
      assert (H0 : (x <? a)%Z = false).
      { apply (H 0 (S n) a x); [lia|reflexivity|exact Hn]. }
      apply Z.ltb_ge in H0. exact H0.
    + intros i j x y Hij Hx Hy. apply (H (S i) (S j) x y); [lia|exact Hx|exact Hy].
  - intros [H1 H2] i j x y Hij Hx Hy. destruct j as [|j]; [lia|]. cbn [nth_error] in Hy.
    destruct i as [|i]; cbn [nth_error] in Hx.
    + inversion Hx; subst x. apply Z.ltb_ge. apply H1. apply nth_error_In with (n := j). exact Hy.
    + apply (H2 i j x y); [lia|exact Hx|exact Hy].
Qed.

Lemma sorted_snoc : forall (l : list Z) (x : Z),
  sorted Z.ltb l -> (forall t, In t l -> (t <= x)%Z) -> sorted Z.ltb (l ++ [x]).
Proof.
  intros l x. induction l as [|a r IH]; intros Hs Hmax; cbn [app].
  - apply sorted_cons_iff. split; [intros y []|apply sorted_nil_Z].
  - apply sorted_cons_iff in Hs. destruct Hs as [H1 H2].
    apply sorted_cons_iff. split.
    + intros y Hy. apply in_app_or in Hy. destruct Hy as [Hy|[Hy|[]]].
      * apply H1. exact Hy.
      * subst y. apply Hmax. left. reflexivity.
    + apply IH; [exact H2|]. intros t Ht. apply Hmax. right. exact Ht.
Qed.

(* ---- 1. append -------------------------------------------------------------------------- *)
Lemma TimeRep_snoc : forall ts pos pts p, TimeRep ts pos pts -> (forall t, In t ts -> (t <= p_time p)%Z) ->
  TimeRep (ts ++ [p_time p]) (pos ++ [length pts]) (pts ++ [p]).
Proof.
  intros ts pos pts p [Hl1 [Hl2 [Hnd [Hbd [Hs Hpar]]]]] Hmax.
  unfold TimeRep. rewrite !app_length. cbn [length].
  split; [lia|]. split; [lia|]. split; [|split; [|split]].
  - apply (Permutation_NoDup (Permutation_cons_append pos (length pts))).
    constructor; [|exact Hnd]. intros H. apply Hbd in H. lia.
  - intros k Hk. apply in_app_or in Hk. destruct Hk as [Hk|[Hk|[]]].
    + apply Hbd in Hk. lia.
    + subst k. lia.
  - apply sorted_snoc; [exact Hs|exact Hmax].
  - intros j k Hj. destruct (Nat.lt_ge_cases j (length pos)) as [Hlt|Hge].
    + rewrite nth_error_app1 in Hj by lia. rewrite nth_error_app1 by lia.
      rewrite (Hpar j k Hj).
      assert (Hk : k < length pts) by (apply Hbd; apply nth_error_In with (n := j); exact Hj).
      rewrite nth_error_app1 by lia. reflexivity.
    + rewrite nth_error_app2 in Hj by lia.
      destruct (j - length pos) as [|m] eqn:E; cbn [nth_error] in Hj.
      * inversion Hj; subst k. rewrite nth_error_app2 by lia.
        replace (j - length ts) with 0 by lia.
        rewrite nth_error_app2 by lia. rewrite Nat.sub_diag. reflexivity.
      * destruct m; discriminate Hj.
Qed.

(* ---- 2. the last instant is the largest ------------------------------------------------- *)
Lemma sorted_last_max : forall (l : list Z) (t d : Z), sorted Z.ltb l -> In t l -> (t <= last l d)%Z.
Proof.
  intros l t d Hs Hin.
  destruct l as [|a0 r0] eqn:El; [destruct Hin|]. rewrite <- El in *.
  assert (Hne : l <> []) by (rewrite El; discriminate).
  destruct (exists_last Hne) as [l' [a Ea]]. rewrite Ea in *. rewrite last_last.
  apply in_app_or in Hin. destruct Hin as [Hin|[Hin|[]]]; [|subst t; lia].
  apply In_nth_error in Hin. destruct Hin as [i Hi].
  assert (Hil : i < length l') by (apply nth_error_Some; congruence).
  assert (H0 : (a <? t)%Z = false).
  { apply (Hs i (length l') t a).
    - exact Hil.
    - rewrite nth_error_app1 by exact Hil. exact Hi.
    - rewrite nth_error_app2 by lia. rewrite Nat.sub_diag. reflexivity. }
  apply Z.ltb_ge in H0. exact H0.
Qed.

Lemma TimeRep_last_max : forall ts pos pts t, TimeRep ts pos pts -> In t ts -> (t <= last ts t)%Z.
Proof.
  intros ts pos pts t [_ [_ [_ [_ [Hs _]]]]] Hin. apply sorted_last_max; [exact Hs|exact Hin].
Qed.

(* ---- 3. kept rows and renumbering ------------------------------------------------------- *)
Lemma keep_rows_filter : forall rm pts, keep_rows rm pts = map snd (filter (fun ip => negb (rm (fst ip))) (combine (seq 0 (length pts)) pts)).
Proof. intros rm pts. reflexivity. Qed.

Lemma combine_snoc : forall (A B : Type) (l1 : list A) (l2 : list B) a b, length l1 = length l2 ->
  combine (l1 ++ [a]) (l2 ++ [b]) = combine l1 l2 ++ [(a, b)].
Proof.
  intros A B l1. induction l1 as [|x r IH]; intros l2 a b H; destruct l2 as [|y r2]; cbn [length] in H; try discriminate H.
  - reflexivity.
  - cbn [app combine]. f_equal. apply IH. lia.
Qed.

Lemma keep_rows_snoc : forall rm pts p,
  keep_rows rm (pts ++ [p]) = keep_rows rm pts ++ (if rm (length pts) then [] else [p]).
Proof.
  intros rm pts p. unfold keep_rows. rewrite app_length. cbn [length].
  rewrite Nat.add_1_r, seq_S. cbn [Nat.add].
  rewrite combine_snoc by (rewrite seq_length; reflexivity).
  rewrite filter_app, map_app. cbn [filter fst].
  destruct (rm (length pts)); reflexivity.
Qed.

Lemma renum_S : forall rm i, renum rm (S i) = renum rm i + (if rm i then 0 else 1).
Proof.
  intros rm i. unfold renum. rewrite seq_S, filter_app, app_length. cbn [Nat.add filter].
  destruct (rm i); reflexivity.
Qed.

Lemma renum_le : forall rm i j, i <= j -> renum rm i <= renum rm j.
Proof.
  intros rm i j H. induction H as [|j H IH]; [lia|]. rewrite renum_S. lia.
Qed.

Lemma renum_mono : forall rm i j, i < j -> rm i = false -> renum rm i < renum rm j.
Proof.
  intros rm i j Hij Hi.
  assert (H : renum rm (S i) <= renum rm j) by (apply renum_le; lia).
  rewrite renum_S, Hi in H. lia.
Qed.

Lemma keep_rows_length : forall rm pts, length (keep_rows rm pts) = renum rm (length pts).
Proof.
  intros rm pts. induction pts as [|p r IH] using rev_ind; [reflexivity|].
  rewrite keep_rows_snoc, !app_length, IH. cbn [length]. rewrite Nat.add_1_r, renum_S.
  destruct (rm (length r)); reflexivity.
Qed.

Lemma keep_rows_nth : forall rm pts i, i < length pts -> rm i = false -> nth_error (keep_rows rm pts) (renum rm i) = nth_error pts i.
Proof.
  intros rm pts. induction pts as [|p r IH] using rev_ind; intros i Hi Hrm.
  - cbn [length] in Hi. lia.
  - rewrite app_length in Hi. cbn [length] in Hi. rewrite keep_rows_snoc.
    destruct (Nat.lt_ge_cases i (length r)) as [Hlt|Hge].
    + rewrite nth_error_app1 by (rewrite keep_rows_length; apply renum_mono; [exact Hlt|exact Hrm]).
      rewrite nth_error_app1 by exact Hlt. apply IH; [exact Hlt|exact Hrm].
    + assert (E : i = length r) by lia. subst i. rewrite Hrm.
      rewrite nth_error_app2 by (rewrite keep_rows_length; lia).
      rewrite keep_rows_length, Nat.sub_diag.
      rewrite nth_error_app2 by lia. rewrite Nat.sub_diag. reflexivity.
Qed.

Lemma keep_rows_surj : forall rm pts j p, nth_error (keep_rows rm pts) j = Some p -> exists i, i < length pts /\ rm i = false /\ renum rm i = j /\ nth_error pts i = Some p.
Proof.
  intros rm pts. induction pts as [|q r IH] using rev_ind; intros j p H.
  - destruct j; discriminate H.
  - rewrite keep_rows_snoc in H.
    destruct (Nat.lt_ge_cases j (length (keep_rows rm r))) as [Hlt|Hge].
    + rewrite nth_error_app1 in H by exact Hlt.
      destruct (IH j p H) as [i [H1 [H2 [H3 H4]]]].
      exists i. rewrite app_length. cbn [length]. split; [lia|]. split; [exact H2|]. split; [exact H3|].
      rewrite nth_error_app1 by exact H1. exact H4.
    + rewrite nth_error_app2 in H by exact Hge.
      destruct (rm (length r)) eqn:Erm.
      * destruct (j - length (keep_rows rm r)); discriminate H.
      * destruct (j - length (keep_rows rm r)) as [|m] eqn:Ej; cbn [nth_error] in H.
        -- inversion H; subst q. exists (length r). rewrite app_length. cbn [length].
           split; [lia|]. split; [exact Erm|]. split.
           ++ rewrite <- keep_rows_length. lia.
           ++ rewrite nth_error_app2 by lia. rewrite Nat.sub_diag. reflexivity.
        -- destruct m; discriminate H.
Qed.

Lemma count_lt_S : forall (l : list nat) i, NoDup l ->
  length (filter (fun r => Nat.ltb r (S i)) l)
  = length (filter (fun r => Nat.ltb r i) l) + (if mem i l then 1 else 0).
Proof.
  intros l i H. induction H as [|x l Hx Hl IH]; [reflexivity|].
  change (mem i (x :: l)) with (orb (Nat.eqb i x) (mem i l)).
  cbn [filter].
  destruct (Nat.eqb_spec i x) as [E|E].
  - subst x. cbn [orb].
    assert (Hm : mem i l = false) by (apply BaseP.mem_false_In; exact Hx).
    rewrite Hm in IH.
    assert (E1 : Nat.ltb i (S i) = true) by (apply Nat.ltb_lt; lia).
    assert (E2 : Nat.ltb i i = false) by (apply Nat.ltb_ge; lia).
    rewrite E1, E2. cbn [length]. rewrite IH. lia.
  - cbn [orb].
    destruct (Nat.ltb x i) eqn:E2.
    + assert (E1 : Nat.ltb x (S i) = true) by (apply Nat.ltb_lt; apply Nat.ltb_lt in E2; lia).
      rewrite E1. cbn [length]. rewrite IH. lia.
    + assert (E1 : Nat.ltb x (S i) = false) by (apply Nat.ltb_ge; apply Nat.ltb_ge in E2; lia).
      rewrite E1. exact IH.
Qed.

Lemma count_lt_le : forall (l : list nat) i, NoDup l -> length (filter (fun r => Nat.ltb r i) l) <= i.
Proof.
  intros l i H.
  assert (Hle : length (filter (fun r => Nat.ltb r i) l) <= length (seq 0 i)).
  { apply NoDup_incl_length.
    - apply NoDup_filter. exact H.
    - intros x Hx. apply filter_In in Hx. destruct Hx as [_ Hx]. apply Nat.ltb_lt in Hx.
      apply in_seq. lia. }
  rewrite seq_length in Hle. exact Hle.
Qed.

Lemma renum_alt : forall (removed : list nat) i, NoDup removed -> i - length (filter (fun r => Nat.ltb r i) removed) = renum (fun j => mem j removed) i.
Proof.
  intros removed i Hnd. induction i as [|i IH]; [reflexivity|].
  rewrite count_lt_S by exact Hnd. rewrite renum_S. cbv beta.
  pose proof (count_lt_le removed i Hnd) as Hle.
  destruct (mem i removed); lia.
Qed.

(* ---- 4. remove + renumber --------------------------------------------------------------- *)
Lemma map_snd_filter_combine : forall (A B : Type) (f : B -> bool) (l1 : list A) (l2 : list B),
  length l1 = length l2 ->
  map snd (filter (fun ab : A * B => f (snd ab)) (combine l1 l2)) = filter f l2.
Proof.
  intros A B f l1. induction l1 as [|x r IH]; intros l2 H; destruct l2 as [|y r2]; cbn [length] in H; try discriminate H.
  - reflexivity.
  - cbn [combine filter snd]. destruct (f y); cbn [map snd]; rewrite IH by lia; reflexivity.
Qed.

Lemma NoDup_map_inj_on : forall (A B : Type) (f : A -> B) (l : list A), NoDup l ->
  (forall x y, In x l -> In y l -> f x = f y -> x = y) -> NoDup (map f l).
Proof.
  intros A B f l H. induction H as [|x l Hx Hl IH]; intros Hinj; cbn [map]; [constructor|].
  constructor.
  - intros Hin. apply in_map_iff in Hin. destruct Hin as [y [E Hy]].
    assert (y = x) by (apply Hinj; [right; exact Hy|left; reflexivity|exact E]).
    subst y. contradiction.
  - apply IH. intros a b Ha Hb. apply Hinj; right; assumption.
Qed.

Lemma sorted_filter_combine : forall (B : Type) (f : Z * B -> bool) (ts : list Z) (pos : list B),
  sorted Z.ltb ts -> sorted Z.ltb (map fst (filter f (combine ts pos))).
Proof.
  intros B f ts. induction ts as [|a r IH]; intros pos Hs; destruct pos as [|k pos']; cbn [combine filter map];
    try apply sorted_nil_Z.
  apply sorted_cons_iff in Hs. destruct Hs as [H1 H2].
  destruct (f (a, k)); cbn [map fst].
  - apply sorted_cons_iff. split; [|apply IH; exact H2].
    intros x Hx. apply in_map_iff in Hx. destruct Hx as [[x' k'] [E Hin]]. cbn [fst] in E. subst x'.
    apply filter_In in Hin. destruct Hin as [Hin _]. apply in_combine_l in Hin. apply H1. exact Hin.
  - apply IH. exact H2.
Qed.

Lemma TimeRep_remove : forall ts pos pts (rm : nat -> bool), TimeRep ts pos pts ->
  let kept := filter (fun tp : Z * nat => negb (rm (snd tp))) (combine ts pos) in
  TimeRep (map fst kept) (map (renum rm) (map snd kept)) (keep_rows rm pts).
Proof.
  intros ts pos pts rm HR kept.
  pose proof (TimeRep_covers ts pos pts HR) as Hcov.
  destruct HR as [Hl1 [Hl2 [Hnd [Hbd [Hs Hpar]]]]].
  assert (Hsnd : map snd kept = filter (fun k => negb (rm k)) pos).
  { unfold kept. apply (map_snd_filter_combine Z nat (fun k => negb (rm k))). lia. }
  assert (Hlen : length kept = renum rm (length pts)).
  { rewrite <- (map_length snd kept), Hsnd. unfold renum. apply NoDup_length_filter_seq.
    - apply NoDup_filter. exact Hnd.
    - intros k. rewrite filter_In. split.
      + intros [H1 H2]. split; [apply Hbd; exact H1|exact H2].
      + intros [H1 H2]. split; [apply Hcov; exact H1|exact H2]. }
  unfold TimeRep. rewrite keep_rows_length, !map_length.
  split; [exact Hlen|]. split; [exact Hlen|]. split; [|split; [|split]].
  - rewrite Hsnd. apply NoDup_map_inj_on.
    + apply NoDup_filter. exact Hnd.
    + intros x y Hx Hy E. apply filter_In in Hx. apply filter_In in Hy.
      destruct Hx as [_ Hx]. destruct Hy as [_ Hy].
      apply negb_true_iff in Hx. apply negb_true_iff in Hy.
      destruct (lt_eq_lt_dec x y) as [[H|H]|H]; [|exact H|].
      * pose proof (renum_mono rm x y H Hx). lia.
      * pose proof (renum_mono rm y x H Hy). lia.
  - intros k Hk. rewrite Hsnd in Hk. apply in_map_iff in Hk. destruct Hk as [k0 [E Hk0]]. subst k.
    apply filter_In in Hk0. destruct Hk0 as [H1 H2]. apply negb_true_iff in H2.
    apply renum_mono; [apply Hbd; exact H1|exact H2].
  - unfold kept. apply sorted_filter_combine. exact Hs.
  - intros j k Hj.
    destruct (nth_error kept j) as [[t k0]|] eqn:E.
    + rewrite (map_nth_error fst j kept E). cbn [fst].
      rewrite (map_nth_error (renum rm) j (map snd kept) (map_nth_error snd j kept E)) in Hj.
      cbn [snd] in Hj. inversion Hj; subst k.
      assert (Hin : In (t, k0) kept) by (apply nth_error_In with (n := j); exact E).
      unfold kept in Hin. apply filter_In in Hin. destruct Hin as [Hin Hrm].
      cbn [snd] in Hrm. apply negb_true_iff in Hrm.
      apply In_nth_error in Hin. destruct Hin as [j0 Hj0].
      apply nth_error_combine_iff in Hj0. destruct Hj0 as [Ht Hp].
      assert (Hk0 : k0 < length pts) by (apply Hbd; apply nth_error_In with (n := j0); exact Hp).
      rewrite (keep_rows_nth rm pts k0 Hk0 Hrm).
      rewrite <- (Hpar j0 k0 Hp). symmetry. exact Ht.
    + exfalso. apply nth_error_None in E.
      assert (Hnone : nth_error (map (renum rm) (map snd kept)) j = None).
      { apply nth_error_None. rewrite !map_length. exact E. }
      congruence.
Qed.

(* ---- 5. rebuild ------------------------------------------------------------------------- *)
Lemma In_combine_seq : forall pts s t k,
  In (t, k) (combine (map p_time pts) (seq s (length pts))) ->
  s <= k /\ option_map p_time (nth_error pts (k - s)) = Some t.
Proof.
  intros pts. induction pts as [|p r IH]; intros s t k H; cbn [map length seq combine] in H; [destruct H|].
  destruct H as [H|H].
  - inversion H; subst. split; [lia|]. rewrite Nat.sub_diag. reflexivity.
  - apply IH in H. destruct H as [H1 H2]. split; [lia|].
    replace (k - s) with (S (k - S s)) by lia. exact H2.
Qed.

Lemma map_snd_combine : forall (A B : Type) (l1 : list A) (l2 : list B),
  length l1 = length l2 -> map snd (combine l1 l2) = l2.
Proof.
  intros A B l1. induction l1 as [|x r IH]; intros l2 H; destruct l2 as [|y r2]; cbn [length] in H; try discriminate H.
  - reflexivity.
  - cbn [combine map snd]. rewrite IH by lia. reflexivity.
Qed.

Lemma sorted_of_SS : forall (B : Type) (l : list (Z * B)),
  StronglySorted (fun a b : Z * B => Z.leb (fst a) (fst b) = true) l -> sorted Z.ltb (map fst l).
Proof.
  intros B l H. induction H as [|a l Hl IH Ha]; cbn [map]; [apply sorted_nil_Z|].
  apply sorted_cons_iff. split; [|exact IH].
  intros x Hx. apply in_map_iff in Hx. destruct Hx as [b [E Hb]]. subst x.
  rewrite Forall_forall in Ha. apply Z.leb_le. apply Ha. exact Hb.
Qed.

Lemma TimeRep_build : forall pts,
  let buf := stable_sort (fun a b : Z * nat => Z.leb (fst a) (fst b)) (combine (map p_time pts) (seq 0 (length pts))) in
  TimeRep (map fst buf) (map snd buf) pts.
Proof.
  intros pts buf.
  assert (Hperm : Permutation buf (combine (map p_time pts) (seq 0 (length pts)))).
  { unfold buf. apply stable_sort_perm. }
  assert (Hll : length (map p_time pts) = length (seq 0 (length pts))).
  { rewrite map_length, seq_length. reflexivity. }
  assert (Hlb : length buf = length pts).
  { rewrite (Permutation_length Hperm), combine_length, map_length, seq_length. lia. }
  assert (Hsnd : Permutation (map snd buf) (seq 0 (length pts))).
  { eapply Permutation_trans; [apply Permutation_map; exact Hperm|].
    rewrite (map_snd_combine Z nat _ _ Hll). apply Permutation_refl. }
  unfold TimeRep. rewrite !map_length.
  split; [exact Hlb|]. split; [exact Hlb|]. split; [|split; [|split]].
  - apply (Permutation_NoDup (Permutation_sym Hsnd)). apply seq_NoDup.
  - intros k Hk. apply (Permutation_in k Hsnd) in Hk. apply in_seq in Hk. lia.
  - apply sorted_of_SS. unfold buf. apply stable_sort_sorted.
    + intros a b. destruct (Z.leb_spec (fst a) (fst b)) as [H|H]; [left; reflexivity|].
      right. apply Z.leb_le. lia.
    + intros a b c H1 H2. apply Z.leb_le in H1. apply Z.leb_le in H2. apply Z.leb_le. lia.
  - intros j k Hj.
    destruct (nth_error buf j) as [[t k0]|] eqn:E.
    + rewrite (map_nth_error fst j buf E). cbn [fst].
      rewrite (map_nth_error snd j buf E) in Hj. cbn [snd] in Hj. inversion Hj; subst k0.
      assert (Hin : In (t, k) buf) by (apply nth_error_In with (n := j); exact E).
      apply (Permutation_in (t, k) Hperm) in Hin.
      apply In_combine_seq in Hin. destruct Hin as [_ Hin].
      rewrite Nat.sub_0_r in Hin. symmetry. exact Hin.
    + exfalso. apply nth_error_None in E.
      assert (Hnone : nth_error (map snd buf) j = None).
      { apply nth_error_None. rewrite map_length. exact E. }
      congruence.
Qed.

Print Assumptions TimeRep_snoc.
Print Assumptions TimeRep_remove.
Print Assumptions TimeRep_build.
Print Assumptions keep_rows_nth.
Print Assumptions renum_alt.
