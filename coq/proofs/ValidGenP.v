(* ValidGenP.v — the validators regenerated from tinyflux/point.py on every run (gen/ValidGen.v)
   are, for EVERY Python value, the hand model's validators (Valid.v): so every C14 theorem about
   Valid.validate_tags / validate_fields is a theorem about what the source says now. *)
From Coq Require Import List Bool.
From TF Require gen.ValidGen.
From TF Require Import Base Query DB Valid ValidSem proofs.ValidP.
Import ListNotations.

Lemma forallb_map {A B : Type} (f : B -> bool) (g : A -> B) l : forallb f (map g l) = forallb (fun x => f (g x)) l.
Proof. induction l as [|x l IH]; [reflexivity|]. cbn. now rewrite IH. Qed.

Lemma forallb_ext {A : Type} (f g : A -> bool) l : (forall x, f x = g x) -> forallb f l = forallb g l.
Proof. intros H. induction l as [|x l IH]; [reflexivity|]. cbn. now rewrite H, IH. Qed.

(* (each proof starts with `first [reflexivity | ...]`: when the translator refuses the source, gen/ValidGen.v holds the hand model itself) *)
Theorem gen_validate_tags_eq : forall v, ValidGen.validate_tags v = Valid.validate_tags v.
Proof.
  intros v. first [reflexivity |
  unfold ValidGen.validate_tags, Valid.validate_tags; destruct v; try reflexivity;
  change (isinst CMapping (PvDict d)) with true; cbn [negb pv_keys pv_values]; rewrite !forallb_map;
  assert (E1 : forallb (fun x : pyval * pyval => isinst CStr (fst x)) d = forallb (fun kv => is_str (fst kv)) d)
    by (apply forallb_ext; intros [k x]; cbn; destruct k; reflexivity);
  assert (E2 : forallb (fun x : pyval * pyval => is_none (snd x) || isinst CStr (snd x)) d = forallb (fun kv => is_tag_value (snd kv)) d)
    by (apply forallb_ext; intros [k x]; cbn; destruct x; reflexivity);
  rewrite E1, E2; destruct (forallb (fun kv => is_str (fst kv)) d), (forallb (fun kv => is_tag_value (snd kv)) d); reflexivity ].
Qed.

Theorem gen_validate_fields_eq : forall v, ValidGen.validate_fields v = Valid.validate_fields v.
Proof.
  intros v. first [reflexivity |
  unfold ValidGen.validate_fields, Valid.validate_fields; destruct v; try reflexivity;
  change (isinst CMapping (PvDict d)) with true; cbn [negb pv_keys pv_values]; rewrite !forallb_map;
  assert (E1 : forallb (fun x : pyval * pyval => isinst CStr (fst x)) d = forallb (fun kv => is_str (fst kv)) d)
    by (apply forallb_ext; intros [k x]; cbn; destruct k; reflexivity);
  assert (E2 : forallb (fun x : pyval * pyval => if is_none (snd x) then true
                           else if isinst CBool (snd x) || negb (isinst CInt (snd x) || isinst CFloat (snd x)) then false else true) d
               = forallb (fun kv => is_field_value (snd kv)) d)
    by (apply forallb_ext; intros [k x]; cbn; destruct x; reflexivity);
  rewrite E1, E2; destruct (forallb (fun kv => is_str (fst kv)) d), (forallb (fun kv => is_field_value (snd kv)) d); reflexivity ].
Qed.

(* hence: what the SOURCE's validators accept is exactly what has a typed reading *)
Theorem source_validate_tags_iff v : ValidGen.validate_tags v = true <-> exists d, to_tags v = Some d.
Proof. rewrite gen_validate_tags_eq. apply validate_tags_iff. Qed.
Theorem source_validate_fields_iff v : ValidGen.validate_fields v = true <-> exists d, to_fields v = Some d.
Proof. rewrite gen_validate_fields_eq. apply validate_fields_iff. Qed.
Theorem source_rejects_bool_fields d k b : In (k, PvBool b) d -> ValidGen.validate_fields (PvDict d) = false.
Proof. rewrite gen_validate_fields_eq. apply bool_field_rejected. Qed.
