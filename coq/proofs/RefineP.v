(* RefineP.v — refinement: the database model (both read paths, the index with its incremental
   maintenance, the helpers, the Measurement handle) behaves, operation by operation and hence
   for every history, exactly like the abstract specification in which the database IS the
   list of stored points (Spec.spec_step): same outputs, same contents, invariant kept. *)
From Coq Require Import List ZArith NArith Bool Arith Lia.
From TF Require Import Base Query Index DB Spec proofs.BaseP proofs.QueryP proofs.IndexDefs proofs.ScanP proofs.IndexP proofs.RepP
     proofs.DBReadP proofs.DBRemoveP proofs.DBStepP proofs.DBRunP proofs.DBSpecP proofs.GetterP proofs.SelectP.
Import ListNotations.

Section RefineP.
Variable E : env.
Variable C : cenv.
Variable norm : point -> point.
Hypothesis norm_wf : forall p, wf_point p -> wf_point (norm p).

Notation step := (step E C norm).
Notation run := (run E C norm).
Notation spec_step := (spec_step E C norm).
Notation spec_run := (spec_run E C norm).
Notation wf_q := (wf_q E).

(* operations in their documented domain: queries the index guard treats correctly with total test
   functions (every DSL query), inserted points well formed and kept as they are by storage *)
Definition wf_hop_r (name : str) (h : hop) : Prop :=
  match h with
  | HContains q | HCount q | HGet q | HSearch q _ | HSelect _ q | HRemove q | HUpdate q _ => wf_q q
  | HInsert ps => wf_insert norm ps (Some name)
  | _ => True
  end.
Definition wf_op_r (o : op) : Prop :=
  match o with
  | Insert ps m => wf_insert norm ps m
  | Remove q _ | Update q _ _ | Search q _ _ | Count q _ | Contains q _ | Get q _ | Select _ q _ => wf_q q
  | Handle name h => wf_hop_r name h
  | _ => True
  end.
Lemma wf_op_r_wf_op o : wf_op_r o -> wf_op E norm o.
Proof. destruct o as [ | | | | | | | | | | | | | | | | | | | | | | |name h]; cbn; auto. destruct h; cbn; auto. Qed.

Definition out_matches (x : out) (o : option out) : Prop := match o with Some y => x = y | None => True end.

Lemma update_refines s q u m ua : Inv s -> wf_q q ->
  let r := update_helper E C norm (read_prelude s) ua q u m in
  st_rows (fst r) = fst (spec_update_step C norm (upd_sel E ua q m) u (st_rows s)) /\
  out_matches (snd r) (snd (spec_update_step C norm (upd_sel E ua q m) u (st_rows s))).
Proof.
  intros HI Hq. cbn zeta. unfold spec_update_step.
  destruct u as [u|]; [|cbn; split; [apply read_prelude_rows|reflexivity]].
  destruct (upd_given u) eqn:Eg.
  - pose proof (update_helper_spec E C norm norm_wf (read_prelude s) ua q u m (read_prelude_Inv Rep_build s HI) Hq Eg) as H.
    cbn zeta in H. rewrite read_prelude_rows in H.
    destruct (spec_update_rows C norm (upd_sel E ua q m) u (st_rows s)) as [[l n]|]; cbn [fst snd out_matches].
    + tauto.
    + destruct H as [H1 H2]. rewrite H2. split; [apply read_prelude_rows|exact H1].
  - unfold update_helper. rewrite Eg. cbn. split; [apply read_prelude_rows|reflexivity].
Qed.

Theorem step_refines s o : Inv s -> wf_op_r o ->
  st_rows (fst (step s o)) = fst (spec_step (st_rows s) o) /\
  out_matches (snd (step s o)) (snd (spec_step (st_rows s) o)) /\
  Inv (fst (step s o)).
Proof.
  intros HI Hw.
  assert (HInv : Inv (fst (step s o))) by (apply (step_Inv E C norm norm_wf); [exact HI|now apply wf_op_r_wf_op]).
  split; [|split; [|exact HInv]]; clear HInv.
  - (* contents *)
    destruct o as [ps m|q m|name| |q u m|u|q m srt|q m|q m|q m|ks q m|srt| | | |m|ks m|m|k m|m| |auto| |name h];
      cbn [DB.step Spec.spec_step spec_flat wf_op_r fst] in *.
    + exact (proj1 (db_insert_spec norm s ps m HI Hw)).
    + destruct Hw as [Hq Hs]. exact (proj1 (proj2 (db_remove_spec E s q m HI Hq Hs))).
    + unfold db_drop, spec_drop.
      pose proof (remove_helper_spec E (read_prelude s) _ (Some name) (read_prelude_Inv Rep_build s HI) (proj1 (wf_q_drop E name)) (proj2 (wf_q_drop E name))) as H.
      cbn zeta in H. rewrite read_prelude_rows in H. exact (proj1 (proj2 H)).
    + reflexivity.
    + unfold db_update. exact (proj1 (update_refines s q u m false HI Hw)).
    + unfold db_update_all. exact (proj1 (update_refines s (QNoop ATags) u None true HI (wf_q_noop E ATags))).
    + rewrite db_search_fst. apply read_prelude_rows.
    + rewrite db_count_fst. apply read_prelude_rows.
    + rewrite db_contains_fst. apply read_prelude_rows.
    + rewrite db_get_fst. apply read_prelude_rows.
    + rewrite db_select_fst. destruct ks; apply read_prelude_rows.
    + apply read_prelude_rows.
    + reflexivity.
    + reflexivity.
    + apply read_prelude_rows.
    + apply read_prelude_rows.
    + apply read_prelude_rows.
    + apply read_prelude_rows.
    + apply read_prelude_rows.
    + apply read_prelude_rows.
    + unfold db_reindex, do_reindex. cbn. destruct (ix_valid (st_idx s)); reflexivity.
    + unfold db_reopen. cbn [fst]. destruct (auto && negb (negb (nonempty (st_rows s)))); [|reflexivity].
      unfold do_reindex. cbn. destruct (negb (nonempty (st_rows s))); reflexivity.
    + reflexivity.
    + destruct h as [| |srt|q|q|q|q srt|ks q|  |k| |ks| |ps|q| |q u|u]; cbn [handle_step restrict_hop spec_flat wf_hop_r fst] in *;
        try reflexivity; try (apply read_prelude_rows).
      * rewrite db_contains_fst. apply read_prelude_rows.
      * rewrite db_count_fst. apply read_prelude_rows.
      * rewrite db_get_fst. apply read_prelude_rows.
      * rewrite db_search_fst. apply read_prelude_rows.
      * rewrite db_select_fst. destruct ks; apply read_prelude_rows.
      * exact (proj1 (db_insert_spec norm s ps (Some name) HI Hw)).
      * destruct Hw as [Hq Hs]. exact (proj1 (proj2 (db_remove_spec E s q (Some name) HI Hq Hs))).
      * unfold db_drop, spec_drop.
        pose proof (remove_helper_spec E (read_prelude s) _ (Some name) (read_prelude_Inv Rep_build s HI) (proj1 (wf_q_drop E name)) (proj2 (wf_q_drop E name))) as H.
        cbn zeta in H. rewrite read_prelude_rows in H. exact (proj1 (proj2 H)).
      * unfold db_update. exact (proj1 (update_refines s q u (Some name) false HI Hw)).
      * unfold db_update. exact (proj1 (update_refines s (QNoop AMeas) u (Some name) false HI (wf_q_noop E AMeas))).
  - (* outputs *)
    destruct o as [ps m|q m|name| |q u m|u|q m srt|q m|q m|q m|ks q m|srt| | | |m|ks m|m|k m|m| |auto| |name h];
      cbn [DB.step Spec.spec_step spec_flat wf_op_r snd out_matches] in *; try reflexivity.
    + exact (proj1 (proj2 (db_insert_spec norm s ps m HI Hw))).
    + destruct Hw as [Hq Hs]. exact (proj1 (db_remove_spec E s q m HI Hq Hs)).
    + unfold db_drop, spec_drop.
      pose proof (remove_helper_spec E (read_prelude s) _ (Some name) (read_prelude_Inv Rep_build s HI) (proj1 (wf_q_drop E name)) (proj2 (wf_q_drop E name))) as H.
      cbn zeta in H. rewrite read_prelude_rows in H. exact (proj1 H).
    + unfold db_update. exact (proj2 (update_refines s q u m false HI Hw)).
    + unfold db_update_all. exact (proj2 (update_refines s (QNoop ATags) u None true HI (wf_q_noop E ATags))).
    + destruct Hw as [Hq Hs]. now rewrite (db_search_spec E Rep_build s q m srt HI Hq Hs).
    + destruct Hw as [Hq Hs]. now rewrite (db_count_spec E Rep_build s q m HI Hq Hs).
    + destruct Hw as [Hq Hs]. now rewrite (db_contains_spec E Rep_build s q m HI Hq Hs).
    + destruct Hw as [Hq Hs]. now rewrite (db_get_spec E Rep_build s q m HI Hq Hs).
    + destruct Hw as [Hq Hs]. destruct ks as [ks|]; [now rewrite (db_select_spec E s ks q m HI Hq Hs)|reflexivity].
    + now rewrite db_all_spec.
    + now rewrite (db_len_spec s HI).
    + now rewrite (db_get_measurements_spec s HI).
    + now rewrite (db_get_tag_keys_spec s m HI).
    + now rewrite (db_get_tag_values_spec s ks m HI).
    + now rewrite (db_get_field_keys_spec s m HI).
    + now rewrite (db_get_field_values_spec s k m HI).
    + now rewrite (db_get_timestamps_spec s m HI).
    + destruct h as [| |srt|q|q|q|q srt|ks q|  |k| |ks| |ps|q| |q u|u]; cbn [handle_step restrict_hop spec_flat wf_hop_r snd out_matches] in *;
        try reflexivity.
      * pose proof (f_equal snd (handle_len_spec E C norm s name HI)) as H. cbn [handle_step snd] in H. exact H.
      * destruct Hw as [Hq Hs]. now rewrite (db_contains_spec E Rep_build s q (Some name) HI Hq Hs).
      * destruct Hw as [Hq Hs]. now rewrite (db_count_spec E Rep_build s q (Some name) HI Hq Hs).
      * destruct Hw as [Hq Hs]. now rewrite (db_get_spec E Rep_build s q (Some name) HI Hq Hs).
      * destruct Hw as [Hq Hs]. now rewrite (db_search_spec E Rep_build s q (Some name) srt HI Hq Hs).
      * destruct Hw as [Hq Hs]. destruct ks as [ks|]; [now rewrite (db_select_spec E s ks q (Some name) HI Hq Hs)|reflexivity].
      * now rewrite (db_get_field_keys_spec s (Some name) HI).
      * now rewrite (db_get_field_values_spec s k (Some name) HI).
      * now rewrite (db_get_tag_keys_spec s (Some name) HI).
      * now rewrite (db_get_tag_values_spec s ks (Some name) HI).
      * now rewrite (db_get_timestamps_spec s (Some name) HI).
      * exact (proj1 (proj2 (db_insert_spec norm s ps (Some name) HI Hw))).
      * destruct Hw as [Hq Hs]. exact (proj1 (db_remove_spec E s q (Some name) HI Hq Hs)).
      * unfold db_drop, spec_drop.
        pose proof (remove_helper_spec E (read_prelude s) _ (Some name) (read_prelude_Inv Rep_build s HI) (proj1 (wf_q_drop E name)) (proj2 (wf_q_drop E name))) as H.
        cbn zeta in H. rewrite read_prelude_rows in H. exact (proj1 H).
      * unfold db_update. exact (proj2 (update_refines s q u (Some name) false HI Hw)).
      * unfold db_update. exact (proj2 (update_refines s (QNoop AMeas) u (Some name) false HI (wf_q_noop E AMeas))).
Qed.

Fixpoint wf_history_r (ops : list op) : Prop := match ops with [] => True | o :: r => wf_op_r o /\ wf_history_r r end.

Lemma spec_run_cons db o r : spec_run db (o :: r) =
  (snd (spec_step db o) :: fst (spec_run (fst (spec_step db o)) r), snd (spec_run (fst (spec_step db o)) r)).
Proof. cbn [Spec.spec_run]. destruct (spec_step db o) as [db' x]. cbn [fst snd]. destruct (spec_run db' r). reflexivity. Qed.

Theorem run_refines : forall ops s, Inv s -> wf_history_r ops ->
  st_rows (snd (run s ops)) = snd (spec_run (st_rows s) ops) /\
  Forall2 out_matches (fst (run s ops)) (fst (spec_run (st_rows s) ops)) /\
  Inv (snd (run s ops)).
Proof.
  induction ops as [|o r IH]; intros s HI Hw.
  - cbn. split; [reflexivity|]. split; [constructor|exact HI].
  - destruct Hw as [Ho Hr]. destruct (step_refines s o HI Ho) as [H1 [H2 H3]].
    rewrite (run_cons E C norm s o r), spec_run_cons. cbn [fst snd].
    destruct (IH (fst (step s o)) H3 Hr) as [I1 [I2 I3]]. rewrite H1 in I1, I2.
    split; [exact I1|]. split; [constructor; assumption|exact I3].
Qed.

(* from an empty database *)
Theorem refines_from_empty auto ops : wf_history_r ops ->
  st_rows (snd (run (init auto) ops)) = snd (spec_run [] ops) /\
  Forall2 out_matches (fst (run (init auto) ops)) (fst (spec_run [] ops)).
Proof. intros H. destruct (run_refines ops (init auto) (Inv_init auto) H) as [H1 [H2 _]]. auto. Qed.
End RefineP.
