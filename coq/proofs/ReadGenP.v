(* ReadGenP.v — what a query-driven read decides, regenerated from tinyflux/database.py on every run (gen/ReadGen.v: the read_op decorator with
   reindex, and contains / count / get / search executed symbolically - is the index asked, with which query, what if it names no position or
   every position, which storage loop runs, is the result sorted), is the model's read_prelude / db_contains / db_count / db_get / db_search for
   EVERY state, query, measurement argument and sort flag.  The theorems about reads (C01: the index answers what the scan answers; C07: reads
   agree with the specification; C10: reads through a handle) are thereby theorems about the decisions the source takes now. *)
From Coq Require Import List ZArith Bool Arith Lia.
From TF Require gen.ReadGen.
From TF Require Import Base Query Index DB Spec InsertSem ReadSem proofs.QueryP proofs.IndexDefs proofs.ScanP proofs.IndexP proofs.RepP proofs.DBReadP.
Import ListNotations.

Lemma gen_reindex_eq s : ReadGen.gen_reindex s = do_reindex s.
Proof. reflexivity. Qed.

Lemma gen_read_prelude_eq s : ReadGen.gen_read_prelude s = read_prelude s.
Proof. reflexivity. Qed.

Section P.
Variable E : env.

(* `if measurement: mq = MeasurementQuery() == measurement; search(mq & query) else: search(query)` is the model's with_meas *)
Lemma search_with_meas s q m :
  (if m_truthy m then index_items E s (QAnd (meas_query m) q) else index_items E s q) = isearch E (st_idx s) (with_meas m q).
Proof. destruct m as [[|c n]|]; reflexivity. Qed.

Lemma plan_cases s q m :
  index_plan E s q m =
  if ix_valid (st_idx s) && index_is_exact q
  then match isearch E (st_idx s) (with_meas m q) with None => None | Some items => Some (Some items) end
  else Some None.
Proof. reflexivity. Qed.

Theorem gen_contains_eq s q m : db_contains E s q m = (read_prelude s, ReadGen.gen_contains E (read_prelude s) q m).
Proof.
  unfold db_contains, ReadGen.gen_contains. rewrite plan_cases, search_with_meas.
  destruct (ix_valid (st_idx (read_prelude s)) && index_is_exact q).
  - destruct (isearch E (st_idx (read_prelude s)) (with_meas m q)) as [items|]; reflexivity.
  - unfold loop_scan_first. destruct (scan_first E q m (st_rows (read_prelude s))) as [o|]; reflexivity.
Qed.

Theorem gen_count_eq s q m : db_count E s q m = (read_prelude s, ReadGen.gen_count E (read_prelude s) q m).
Proof.
  unfold db_count, ReadGen.gen_count. rewrite plan_cases, search_with_meas.
  destruct (ix_valid (st_idx (read_prelude s)) && index_is_exact q).
  - destruct (isearch E (st_idx (read_prelude s)) (with_meas m q)) as [items|]; reflexivity.
  - unfold loop_scan_all. destruct (scan_filter E q m (st_rows (read_prelude s))) as [l|]; reflexivity.
Qed.

Theorem gen_get_eq s q m : db_get E s q m = (read_prelude s, ReadGen.gen_get E (read_prelude s) q m).
Proof.
  unfold db_get, ReadGen.gen_get. rewrite plan_cases, search_with_meas.
  destruct (ix_valid (st_idx (read_prelude s)) && index_is_exact q).
  - destruct (isearch E (st_idx (read_prelude s)) (with_meas m q)) as [[|i items]|]; try reflexivity.
    cbn [nonempty negb]. unfold index_len, loop_scan_first, loop_pick_first.
    destruct (Nat.eqb (length (i :: items)) (ix_n (st_idx (read_prelude s)))); [|reflexivity].
    destruct (scan_first E q m (st_rows (read_prelude s))) as [o|]; reflexivity.
  - unfold loop_scan_first. destruct (scan_first E q m (st_rows (read_prelude s))) as [o|]; reflexivity.
Qed.

Theorem gen_search_eq s q m srt : db_search E s q m srt = (read_prelude s, ReadGen.gen_search E (read_prelude s) q m srt).
Proof.
  unfold db_search, ReadGen.gen_search. rewrite plan_cases, search_with_meas.
  destruct (ix_valid (st_idx (read_prelude s)) && index_is_exact q).
  - destruct (isearch E (st_idx (read_prelude s)) (with_meas m q)) as [[|i items]|]; try reflexivity.
    cbn [nonempty negb]. unfold index_len, loop_scan_all, loop_pick_all, sort_by_time.
    destruct (Nat.eqb (length (i :: items)) (ix_n (st_idx (read_prelude s)))).
    + destruct (scan_filter E q m (st_rows (read_prelude s))) as [l|]; [destruct srt|]; reflexivity.
    + destruct srt; reflexivity.
  - unfold loop_scan_all, sort_by_time. destruct (scan_filter E q m (st_rows (read_prelude s))) as [l|]; [destruct srt|]; reflexivity.
Qed.

(* in one statement: a read leaves the stored rows alone and answers what the generated function answers on the re-indexed state *)
Corollary gen_reads_keep_rows s q m srt :
  st_rows (fst (db_search E s q m srt)) = st_rows s /\ st_rows (fst (db_count E s q m)) = st_rows s /\
  st_rows (fst (db_get E s q m)) = st_rows s /\ st_rows (fst (db_contains E s q m)) = st_rows s.
Proof.
  rewrite gen_search_eq, gen_count_eq, gen_get_eq, gen_contains_eq. cbn [fst].
  assert (H : st_rows (read_prelude s) = st_rows s).
  { unfold read_prelude, do_reindex. destruct (st_auto s && negb (ix_valid (st_idx s))); [|reflexivity]. destruct (ix_valid (st_idx s)); reflexivity. }
  rewrite H. repeat split.
Qed.

(* hence the functions the source defines - decorator included - answer the specification on the stored points *)
Theorem gen_search_spec s q m srt : Inv s -> wf_query E q -> index_safe q ->
  ReadGen.gen_search E (ReadGen.gen_read_prelude s) q m srt = OPoints (spec_search E q m srt (st_rows s)).
Proof.
  intros Hi Hw Hs. pose proof (db_search_spec E Rep_build s q m srt Hi Hw Hs) as H.
  rewrite gen_search_eq in H. rewrite gen_read_prelude_eq. exact (f_equal snd H).
Qed.
Theorem gen_count_spec s q m : Inv s -> wf_query E q -> index_safe q ->
  ReadGen.gen_count E (ReadGen.gen_read_prelude s) q m = ONat (spec_count E q m (st_rows s)).
Proof.
  intros Hi Hw Hs. pose proof (db_count_spec E Rep_build s q m Hi Hw Hs) as H.
  rewrite gen_count_eq in H. rewrite gen_read_prelude_eq. exact (f_equal snd H).
Qed.
Theorem gen_get_spec s q m : Inv s -> wf_query E q -> index_safe q ->
  ReadGen.gen_get E (ReadGen.gen_read_prelude s) q m = OPoint (spec_get E q m (st_rows s)).
Proof.
  intros Hi Hw Hs. pose proof (db_get_spec E Rep_build s q m Hi Hw Hs) as H.
  rewrite gen_get_eq in H. rewrite gen_read_prelude_eq. exact (f_equal snd H).
Qed.
Theorem gen_contains_spec s q m : Inv s -> wf_query E q -> index_safe q ->
  ReadGen.gen_contains E (ReadGen.gen_read_prelude s) q m = OBool (spec_contains E q m (st_rows s)).
Proof.
  intros Hi Hw Hs. pose proof (db_contains_spec E Rep_build s q m Hi Hw Hs) as H.
  rewrite gen_contains_eq in H. rewrite gen_read_prelude_eq. exact (f_equal snd H).
Qed.
End P.
