(* CodecGenP.v - the serializer generated from point.py (gen/CodecGen.v) is the hand model Codec.ser. *)
From Coq Require Import List ZArith NArith Bool.
From TF Require Import Base Query Codec CodecSem.
From TF Require gen.CodecGen.
Import ListNotations.

Lemma flat_map_ext_all {A B} (f g : A -> list B) l : (forall x, f x = g x) -> flat_map f l = flat_map g l.
Proof. intros H. induction l as [|x l IH]; cbn; [reflexivity|]. now rewrite H, IH. Qed.

Lemma gen_serialize_eq : forall compact p, CodecGen.serialize compact p = ser compact p.
Proof.
  intros compact p. unfold CodecGen.serialize, ser, time_truthy, py_or_str, s_none, pre_tag, pre_field, pre_ctag, pre_cfield.
  destruct compact; destruct (p_meas p) as [|c m]; cbn [app];
    repeat first [ reflexivity
                 | apply flat_map_ext_all; intros [k [v|]]; reflexivity
                 | f_equal ].
Qed.
