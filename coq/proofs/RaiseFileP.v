(* RaiseFileP.v - C11 at the file: a removal, update, drop or read that RAISES never writes the primary file - after every prefix of
   its I/O script the file holds what it held (its plan is pure); an insert that raises has appended exactly the points before the
   offending element. *)
From Coq Require Import List ZArith NArith Bool.
From TF Require Import Base Query Index DB Spec IO proofs.IOP proofs.PlanP proofs.PureP proofs.IndexDefs proofs.DBReadP proofs.DBRunP proofs.DBSpecP.
Import ListNotations.

Section RaiseFile.
Variable E : env.
Variable C : cenv.
Variable norm : point -> point.
Hypothesis norm_wf : forall p, wf_point p -> wf_point (norm p).
Notation step := (step E C norm).

Theorem raising_operation_leaves_file s o k : Inv s -> wf_op E norm o -> is_insert o = false -> is_remove_all o = false ->
  forallb nan_free_point (st_rows s) = true -> snd (step s o) = ORaise ->
  let old := st_rows s in
  w_disk (run_steps (world_of old) (firstn k (script_of old (plan_of o old (st_rows (fst (step s o))))))) = old.
Proof.
  intros HI Hw Hi Hra Hn Hr. cbv zeta.
  assert (Hrows : st_rows (fst (step s o)) = st_rows s).
  { destruct (raise_leaves_rows E C norm norm_wf s o HI Hw Hr) as [_ H]. cbv zeta in H.
    destruct o as [ps m| | | | | | | | | | | | | | | | | | | | | | |name h]; try exact H; try (cbn in Hi; discriminate).
    destruct h; try exact H. cbn in Hi. discriminate. }
  destruct (uses_temp o) eqn:Et.
  - now apply unchanged_write_leaves_file.
  - apply pure_plan_disk_constant. apply read_plan_is_pure. unfold is_read. now rewrite Hi, Et, Hra.
Qed.
End RaiseFile.
