(* SelectP.v — select(keys, query, measurement) returns, for exactly the matching points in
   storage order, the requested attributes (a missing tag/field key gives None), on both paths. *)
From Coq Require Import List ZArith NArith Bool Arith Lia.
From TF Require Import Base Query Index DB Spec proofs.BaseP proofs.QueryP proofs.TimeSearchP proofs.IndexDefs proofs.MapRepP
     proofs.ScanP proofs.IndexP proofs.RepP proofs.DBReadP.
Import ListNotations.

(* the index-side shortcut "this key occurs nowhere in the index" agrees with looking the key up in the point *)
Lemma proj_index_agrees i pts ks p : Rep i pts -> In p pts -> proj (Some i) ks p = proj None ks p.
Proof.
  intros HR Hp. unfold proj. apply map_ext. intros k. destruct k as [| |t|f]; try reflexivity.
  - cbn beta. match goal with |- context [existsb ?g ?l] => destruct (existsb g l) eqn:Ee end; [reflexivity|].
    destruct (dget t (p_tags p)) as [v|] eqn:Ed; [|reflexivity]. exfalso.
    apply dget_Some_In in Ed. apply In_nth_error in Hp. destruct Hp as [j Hj].
    destruct (mr_complete _ _ (rep_tags _ _ HR) (t, v) j tt (ex_intro _ p (conj Hj Ed))) as [b [Hb _]].
    match type of Ee with existsb ?g ?l = false => assert (existsb g l = true) as Ht; [|congruence] end.
    apply existsb_exists. exists ((t, v), b). split; [exact Hb|]. cbn. apply str_eqb_eq. reflexivity.
  - cbn beta. destruct (im_has str_eqb f (ix_fields i)) eqn:Ee; [reflexivity|].
    destruct (dget f (p_fields p)) as [v|] eqn:Ed; [|reflexivity]. exfalso.
    apply dget_Some_In in Ed. apply In_nth_error in Hp. destruct Hp as [j Hj].
    assert (im_has str_eqb f (ix_fields i) = true); [|congruence].
    apply (MapRep_has str_eqb str_eqb_eq _ _ f (rep_fields _ _ HR)). exists j, v, p. auto.
Qed.

Section SelectP.
Variable E : env.

Theorem db_select_spec s ks q m : Inv s -> wf_query E q -> index_safe q ->
  db_select E s (Some ks) q m = (read_prelude s, OSel (spec_select E ks q m (st_rows s))).
Proof.
  intros HI Hq Hs. unfold db_select, spec_select, spec_project.
  pose proof (read_prelude_Inv Rep_build s HI) as HI'. pose proof (read_prelude_rows s) as Hrows.
  set (s1 := read_prelude s) in *. rewrite <- Hrows.
  destruct (index_plan_spec E s1 q m HI' Hq Hs) as [Hp|[items [Hp [Hnd [Hin Hn]]]]]; rewrite Hp.
  - rewrite (scan_filter_spec E q m (st_rows s1) Hq). reflexivity.
  - rewrite (pick_filter (hit E q m) items (st_rows s1) Hin). f_equal. f_equal.
    apply map_ext_in. intros p Hpf. apply filter_In in Hpf. destruct Hpf as [Hpin _].
    unfold index_plan in Hp. destruct (ix_valid (st_idx s1)) eqn:Ev; [|discriminate].
    apply (proj_index_agrees (st_idx s1) (st_rows s1) ks p (proj2 HI' Ev) Hpin).
Qed.
(* an invalid key raises and changes nothing *)
Theorem db_select_bad_key s q m : db_select E s None q m = (read_prelude s, ORaise).
Proof. reflexivity. Qed.
End SelectP.

(* count / contains / get / select answer about the same points as search *)
Lemma reads_agree (E : env) q m db :
  spec_count E q m db = length (spec_search E q m false db) /\
  spec_contains E q m db = negb (match spec_search E q m false db with [] => true | _ => false end) /\
  spec_get E q m db = hd_error (spec_search E q m false db) /\
  (forall ks, spec_select E ks q m db = map (spec_project ks) (spec_search E q m false db)) /\
  Permutation.Permutation (spec_search E q m true db) (spec_search E q m false db).
Proof.
  unfold spec_count, spec_contains, spec_get, spec_select, spec_search. repeat split.
  - induction db as [|p r IH]; [reflexivity|]. cbn [existsb filter]. destruct (hit E q m p); [reflexivity|exact IH].
  - apply stable_sort_perm.
Qed.

(* ---- the key strings of select() ---------------------------------------------------------- *)
Definition selkey_ok (k : selkey) : Prop := match k with SKTag t => t <> [] | SKField f => f <> [] | _ => True end.

Lemma parse_print_selkey : forall k, selkey_ok k -> parse_selkey (print_selkey k) = Some k.
Proof.
  intros [| |t|f] H; try reflexivity; cbn in H; destruct t as [|c t] || destruct f as [|c f]; try congruence; reflexivity.
Qed.

Lemma str_prefix_split : forall p s, str_prefix p s = true -> s = p ++ skipn (length p) s.
Proof.
  induction p as [|a p IH]; intros s H; [reflexivity|]. destruct s as [|b s]; [discriminate|]. cbn [str_prefix] in H.
  apply andb_prop in H. destruct H as [Hab Hp]. apply N.eqb_eq in Hab. subst b. cbn [length skipn app]. f_equal. now apply IH.
Qed.
Lemma skipn_nonempty {A} n (l : list A) : n < length l -> skipn n l <> [].
Proof. intros H E. apply (f_equal (@length A)) in E. rewrite skipn_length in E. cbn in E. lia. Qed.

Lemma parse_selkey_sound : forall s k, parse_selkey s = Some k -> print_selkey k = s /\ selkey_ok k.
Proof.
  intros s k. unfold parse_selkey.
  destruct (str_eqb s s_time) eqn:E1.
  { intros H; inversion H; subst. apply str_eqb_eq in E1. now split. }
  destruct (str_eqb s s_measurement) eqn:E2.
  { intros H; inversion H; subst. apply str_eqb_eq in E2. now split. }
  destruct (str_prefix s_tags_dot s && Nat.ltb 5 (length s)) eqn:E3.
  { intros H; injection H as <-. apply andb_prop in E3. destruct E3 as [P L]. apply Nat.ltb_lt in L.
    split; [cbn [print_selkey]; symmetry; exact (str_prefix_split s_tags_dot s P) | unfold selkey_ok; now apply (skipn_nonempty 5)]. }
  destruct (str_prefix s_fields_dot s && Nat.ltb 7 (length s)) eqn:E4; [|discriminate].
  intros H; injection H as <-. apply andb_prop in E4. destruct E4 as [P L]. apply Nat.ltb_lt in L.
  split; [cbn [print_selkey]; symmetry; exact (str_prefix_split s_fields_dot s P) | unfold selkey_ok; now apply (skipn_nonempty 7)].
Qed.

Lemma parse_print_selkeys : forall ks, Forall selkey_ok ks -> parse_selkeys (map print_selkey ks) = Some ks.
Proof.
  induction ks as [|k ks IH]; intros H; [reflexivity|]. inversion H; subst. cbn [map parse_selkeys].
  now rewrite parse_print_selkey, IH.
Qed.
