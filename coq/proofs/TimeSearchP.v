(* TimeSearchP.v - the time branch of the index (Index.search_time_cmp) answers the six
   comparison operators exactly: it returns, without duplicates, precisely the storage
   positions of the points whose instant compares as asked with the right-hand side. *)
From Coq Require Import List ZArith NArith Bool Arith Lia.
From TF Require Import Base Bisect UtilsHand Query Index proofs.BisectP proofs.UtilsHandP.
Import ListNotations.

(* the two parallel arrays describe the stored points `pts` *)
Definition TimeRep (ts : list Z) (pos : list nat) (pts : list point) : Prop :=
  length ts = length pts /\ length pos = length pts /\ NoDup pos /\
  (forall k, In k pos -> k < length pts) /\
  sorted Z.ltb ts /\
  (forall j k, nth_error pos j = Some k -> nth_error ts j = option_map p_time (nth_error pts k)).

(* ---- list-sets: mem / dedup ---------------------------------------------------------- *)
Lemma mem_In : forall k s, mem k s = true <-> In k s.
Proof.
  intros k s. unfold mem. rewrite existsb_exists. split.
  - intros [x [Hx E]]. apply Nat.eqb_eq in E. subst x. exact Hx.
  - intros H. exists k. split; [exact H|apply Nat.eqb_refl].
Qed.

Lemma mem_false_In : forall k s, mem k s = false <-> ~ In k s.
Proof.
  intros k s. rewrite <- mem_In. destruct (mem k s); split; intros H; congruence.
Qed.

Lemma dedup_In : forall k l, In k (dedup l) <-> In k l.
Proof.
  intros k l. induction l as [|x r IH]; cbn [dedup]; [tauto|].
  destruct (mem x r) eqn:E.
  - rewrite IH. cbn [In]. split; [auto|]. intros [Hx|H]; [|exact H].
    subst x. apply mem_In. exact E.
  - cbn [In]. rewrite IH. tauto.
Qed.

Lemma dedup_NoDup : forall l, NoDup (dedup l).
Proof.
  intros l. induction l as [|x r IH]; cbn [dedup]; [constructor|].
  destruct (mem x r) eqn:E; [exact IH|].
  constructor; [|exact IH]. rewrite dedup_In. apply mem_false_In. exact E.
Qed.

Lemma dedup_id : forall l, NoDup l -> dedup l = l.
Proof.
  intros l H. induction H as [|x r Hx Hr IH]; cbn [dedup]; [reflexivity|].
  apply mem_false_In in Hx. rewrite Hx, IH. reflexivity.
Qed.

(* ---- firstn / skipn / combine by index ------------------------------------------------ *)
Lemma In_firstn_iff : forall {A} (x : A) n l,
  In x (firstn n l) <-> exists j, j < n /\ nth_error l j = Some x.
Proof.
  intros A x n. induction n as [|n IH]; intros l.
  - cbn [firstn In]. split; [tauto|]. intros [j [H _]]. lia.
  - destruct l as [|y r].
    + cbn [firstn In]. split; [tauto|]. intros [j [_ H]]. destruct j; discriminate H.
    + cbn [firstn In]. rewrite IH. split.
      * intros [Hy|[j [Hj H]]].
        -- subst y. exists 0. split; [lia|reflexivity].
        -- exists (S j). split; [lia|exact H].
      * intros [j [Hj H]]. destruct j as [|j].
        -- left. cbn in H. congruence.
        -- right. exists j. split; [lia|exact H].
Qed.

Lemma nth_error_skipn_add : forall {A} n (l : list A) j,
  nth_error (skipn n l) j = nth_error l (n + j).
Proof.
  intros A n. induction n as [|n IH]; intros l j; [reflexivity|].
  destruct l as [|y r].
  - cbn. destruct j; reflexivity.
  - cbn [skipn]. rewrite IH. reflexivity.
Qed.

Lemma In_skipn_iff : forall {A} (x : A) n l,
  In x (skipn n l) <-> exists j, n <= j /\ nth_error l j = Some x.
Proof.
  intros A x n l. split.
  - intros H. apply In_nth_error in H. destruct H as [j H].
    rewrite nth_error_skipn_add in H. exists (n + j). split; [lia|exact H].
  - intros [j [Hj H]]. apply nth_error_In with (n := j - n).
    rewrite nth_error_skipn_add. replace (n + (j - n)) with j by lia. exact H.
Qed.

Lemma nth_error_combine_iff : forall {A B} (l1 : list A) (l2 : list B) j a b,
  nth_error (combine l1 l2) j = Some (a, b) <-> nth_error l1 j = Some a /\ nth_error l2 j = Some b.
Proof.
  intros A B l1. induction l1 as [|x r IH]; intros l2 j a b.
  - cbn [combine]. destruct j; cbn [nth_error]; (split; [discriminate|intros [H _]; discriminate H]).
  - destruct l2 as [|y r2].
    + cbn [combine]. destruct j; cbn [nth_error]; (split; [discriminate|intros [_ H]; discriminate H]).
    + destruct j as [|j]; cbn [combine nth_error].
      * split.
        -- intros H. inversion H. auto.
        -- intros [H1 H2]. congruence.
      * apply IH.
Qed.

(* ---- the run of equal instants -------------------------------------------------------- *)
Lemma eq_run_In : forall t l k,
  In k (eq_run t l) <->
  exists j, nth_error l j = Some (t, k) /\
            forall j' b q, j' < j -> nth_error l j' = Some (b, q) -> b = t.
Proof.
  intros t l k. induction l as [|[t' p] r IH]; cbn [eq_run].
  - split; [intros []|]. intros [j [H _]]. destruct j; discriminate H.
  - destruct (Z.eqb_spec t' t) as [E|E].
    + subst t'. cbn [In]. rewrite IH. split.
      * intros [Hp|[j [H1 H2]]].
        -- subst p. exists 0. split; [reflexivity|]. intros j' b q Hj' _. lia.
        -- exists (S j). split; [exact H1|]. intros j' b q Hj' Hb.
           destruct j' as [|j']; cbn [nth_error] in Hb; [congruence|].
           apply (H2 j' b q); [lia|exact Hb].
      * intros [j [H1 H2]]. destruct j as [|j]; cbn [nth_error] in H1.
        -- left. congruence.
        -- right. exists j. split; [exact H1|]. intros j' b q Hj' Hb.
           apply (H2 (S j') b q); [lia|exact Hb].
    + split; [intros []|]. intros [j [H1 H2]]. destruct j as [|j]; cbn [nth_error] in H1.
      * congruence.
      * exfalso. apply E. apply (H2 0 t' p); [lia|reflexivity].
Qed.

(* ---- consequences of TimeRep ---------------------------------------------------------- *)
Lemma TimeRep_nil : TimeRep [] [] [].
Proof.
  unfold TimeRep.
  refine (conj eq_refl (conj eq_refl (conj _ (conj _ (conj _ _))))).
  - constructor.
  - intros k H. destruct H.
  - intros i j a b _ H _. destruct i; discriminate H.
  - intros j k H. destruct j; discriminate H.
Qed.

Lemma TimeRep_covers : forall ts pos pts, TimeRep ts pos pts -> forall k, k < length pts -> In k pos.
Proof.
  intros ts pos pts [_ [Hl2 [Hnd [Hbd _]]]] k Hk.
  assert (Hincl : incl (seq 0 (length pts)) pos).
  { apply NoDup_length_incl.
    - exact Hnd.
    - rewrite seq_length. lia.
    - intros x Hx. apply in_seq. specialize (Hbd x Hx). lia. }
  apply Hincl. apply in_seq. lia.
Qed.

Lemma rep_pos_ts : forall ts pos pts, TimeRep ts pos pts ->
  forall j k, nth_error pos j = Some k ->
  exists p, nth_error pts k = Some p /\ nth_error ts j = Some (p_time p).
Proof.
  intros ts pos pts [_ [_ [_ [Hbd [_ Hpar]]]]] j k H.
  assert (Hk : k < length pts) by (apply Hbd; apply nth_error_In with (n := j); exact H).
  destruct (nth_error pts k) as [p|] eqn:Ep.
  - exists p. split; [reflexivity|]. rewrite (Hpar j k H), Ep. reflexivity.
  - apply nth_error_None in Ep. lia.
Qed.

Lemma rep_ts_pos : forall ts pos pts, TimeRep ts pos pts ->
  forall j a, nth_error ts j = Some a -> exists k, nth_error pos j = Some k.
Proof.
  intros ts pos pts [Hl1 [Hl2 _]] j a H.
  assert (Hj : j < length ts) by (apply nth_error_Some; congruence).
  destruct (nth_error pos j) as [k|] eqn:Ek; [exists k; reflexivity|].
  apply nth_error_None in Ek. lia.
Qed.

Lemma rep_sorted : forall ts pos pts, TimeRep ts pos pts ->
  forall i j a b, i <= j -> nth_error ts i = Some a -> nth_error ts j = Some b -> (a <= b)%Z.
Proof.
  intros ts pos pts [_ [_ [_ [_ [Hs _]]]]] i j a b Hij Ha Hb.
  destruct (Nat.eq_dec i j) as [E|E].
  - subst j. assert (a = b) by congruence. lia.
  - assert (Hlt : (b <? a)%Z = false) by (apply (Hs i j a b); [lia|exact Ha|exact Hb]).
    apply Z.ltb_ge in Hlt. exact Hlt.
Qed.

(* a selection of positions described through the sorted arrays is the same selection
   described through the stored points *)
Lemma rep_select : forall ts pos pts, TimeRep ts pos pts ->
  forall (Q : Z -> Prop) (items : list nat),
  (forall k, In k items <->
             exists j a, nth_error pos j = Some k /\ nth_error ts j = Some a /\ Q a) ->
  forall k, In k items <-> exists p, nth_error pts k = Some p /\ Q (p_time p).
Proof.
  intros ts pos pts HR Q items Hch k. rewrite Hch. split.
  - intros [j [a [Hp [Ha HQ]]]].
    destruct (rep_pos_ts ts pos pts HR j k Hp) as [p [Hk Ht]].
    exists p. split; [exact Hk|]. assert (a = p_time p) by congruence. subst a. exact HQ.
  - intros [p [Hk HQ]].
    assert (Hlt : k < length pts) by (apply nth_error_Some; congruence).
    pose proof (TimeRep_covers ts pos pts HR k Hlt) as Hin.
    apply In_nth_error in Hin. destruct Hin as [j Hj].
    destruct (rep_pos_ts ts pos pts HR j k Hj) as [p' [Hk' Ht]].
    assert (p' = p) by congruence. subst p'.
    exists j, (p_time p). split; [exact Hj|]. split; [exact Ht|exact HQ].
Qed.

(* ---- the six operators, on the sorted arrays ------------------------------------------- *)
Definition ZH1 := proj1 UtilsHandP_Z_hyps.
Definition ZH2 := proj2 UtilsHandP_Z_hyps.

(* the run of equal instants from the leftmost match on: exactly the entries equal to t *)
Lemma eq_run_char : forall ts pos pts t, TimeRep ts pos pts ->
  forall m, nth_error ts m = Some t ->
  (forall j b, j < m -> nth_error ts j = Some b -> b <> t) ->
  forall k, In k (eq_run t (skipn m (combine ts pos))) <->
            exists j a, nth_error pos j = Some k /\ nth_error ts j = Some a /\ a = t.
Proof.
  intros ts pos pts t HR m Hm Hbefore k. rewrite eq_run_In. split.
  - intros [j [H _]]. rewrite nth_error_skipn_add in H.
    apply nth_error_combine_iff in H. destruct H as [H1 H2].
    exists (m + j), t. auto.
  - intros [j [a [Hp [Ha Hat]]]]. subst a.
    assert (Hmj : m <= j).
    { destruct (Nat.le_gt_cases m j) as [H|H]; [exact H|].
      exfalso. apply (Hbefore j t H Ha). reflexivity. }
    exists (j - m). split.
    + rewrite nth_error_skipn_add. replace (m + (j - m)) with j by lia.
      apply nth_error_combine_iff. split; [exact Ha|exact Hp].
    + intros j' b q Hj' Hb. rewrite nth_error_skipn_add in Hb.
      apply nth_error_combine_iff in Hb. destruct Hb as [Hb _].
      pose proof (rep_sorted ts pos pts HR m (m + j') t b ltac:(lia) Hm Hb) as H1.
      pose proof (rep_sorted ts pos pts HR (m + j') j b t ltac:(lia) Hb Ha) as H2.
      lia.
Qed.

Lemma case_eq : forall ts pos pts t, TimeRep ts pos pts ->
  exists items,
    match zfind_eq ts t with
    | Ret None => Some []
    | Ret (Some m) => Some (dedup (eq_run t (skipn (Z.to_nat m) (combine ts pos))))
    | Raise => None end = Some items /\ NoDup items /\
    forall k, In k items <->
              exists j a, nth_error pos j = Some k /\ nth_error ts j = Some a /\ a = t.
Proof.
  intros ts pos pts t HR.
  pose proof HR as [_ [_ [_ [_ [Hs _]]]]].
  pose proof (find_eq_spec Z.ltb Z.eqb ZH1 ZH2 ts t Hs) as Hsp.
  unfold zfind_eq. destruct (find_eq Z.ltb Z.eqb ts t) as [[m|]|]; cbn [leftmost] in Hsp.
  - destruct Hsp as [n [a [Hm [Hn [Ha Hbefore]]]]]. subst m. rewrite Nat2Z.id.
    apply Z.eqb_eq in Ha. subst a.
    eexists. split; [reflexivity|]. split; [apply dedup_NoDup|].
    intros k. rewrite dedup_In. apply (eq_run_char ts pos pts t HR n Hn).
    intros j b Hj Hb Hbt. specialize (Hbefore j b Hj Hb). apply Z.eqb_neq in Hbefore. congruence.
  - eexists. split; [reflexivity|]. split; [constructor|].
    intros k. split; [intros []|]. intros [j [a [_ [Ha Hat]]]].
    specialize (Hsp j a Ha). apply Z.eqb_neq in Hsp. exfalso. congruence.
  - destruct Hsp.
Qed.

Lemma case_ne : forall ts pos pts t, TimeRep ts pos pts ->
  exists items,
    match zfind_eq ts t with
    | Ret None => Some (dedup pos)
    | Ret (Some m) => let r := eq_run t (skipn (Z.to_nat m) (combine ts pos)) in
                      Some (filter (fun x => negb (mem x r)) (dedup pos))
    | Raise => None end = Some items /\ NoDup items /\
    forall k, In k items <->
              exists j a, nth_error pos j = Some k /\ nth_error ts j = Some a /\ a <> t.
Proof.
  intros ts pos pts t HR.
  pose proof HR as [_ [_ [_ [_ [Hs _]]]]].
  pose proof (find_eq_spec Z.ltb Z.eqb ZH1 ZH2 ts t Hs) as Hsp.
  unfold zfind_eq. destruct (find_eq Z.ltb Z.eqb ts t) as [[m|]|]; cbn [leftmost] in Hsp.
  - destruct Hsp as [n [a [Hm [Hn [Ha Hbefore]]]]]. subst m. rewrite Nat2Z.id.
    apply Z.eqb_eq in Ha. subst a. cbv zeta.
    assert (Hrun : forall k, In k (eq_run t (skipn n (combine ts pos))) <->
              exists j a, nth_error pos j = Some k /\ nth_error ts j = Some a /\ a = t).
    { apply (eq_run_char ts pos pts t HR n Hn).
      intros j b Hj Hb Hbt. specialize (Hbefore j b Hj Hb). apply Z.eqb_neq in Hbefore. congruence. }
    eexists. split; [reflexivity|]. split; [apply NoDup_filter; apply dedup_NoDup|].
    intros k. rewrite filter_In, dedup_In, negb_true_iff, mem_false_In, Hrun. split.
    + intros [Hin Hno]. apply In_nth_error in Hin. destruct Hin as [j Hj].
      destruct (rep_pos_ts ts pos pts HR j k Hj) as [p [_ Ht]].
      exists j, (p_time p). split; [exact Hj|]. split; [exact Ht|].
      intros E. apply Hno. exists j, (p_time p). auto.
    + intros [j [a [Hj [Ha Hat]]]]. split; [apply nth_error_In with (n := j); exact Hj|].
      intros [j' [a' [Hj' [Ha' Hat']]]]. subst a'.
      (* the same position k sits at j and j': both instants are the instant of point k *)
      destruct (rep_pos_ts ts pos pts HR j k Hj) as [p [Hk Ht]].
      destruct (rep_pos_ts ts pos pts HR j' k Hj') as [p' [Hk' Ht']].
      assert (p' = p) by congruence. subst p'.
      assert (a = p_time p) by congruence. assert (t = p_time p) by congruence. congruence.
  - eexists. split; [reflexivity|]. split; [apply dedup_NoDup|].
    intros k. rewrite dedup_In. split.
    + intros Hin. apply In_nth_error in Hin. destruct Hin as [j Hj].
      destruct (rep_pos_ts ts pos pts HR j k Hj) as [p [_ Ht]].
      exists j, (p_time p). split; [exact Hj|]. split; [exact Ht|].
      specialize (Hsp j (p_time p) Ht). apply Z.eqb_neq in Hsp. exact Hsp.
    + intros [j [a [Hj _]]]. apply nth_error_In with (n := j). exact Hj.
  - destruct Hsp.
Qed.

(* prefix selections: find_lt / find_le return the rightmost index satisfying a downward
   closed predicate *)
Lemma case_prefix : forall ts pos pts (P : Z -> bool) (r : Bisect.res), TimeRep ts pos pts ->
  (forall a b, (a <= b)%Z -> P b = true -> P a = true) ->
  rightmost P ts r ->
  exists items,
    match r with
    | Ret None => Some []
    | Ret (Some m) => Some (dedup (firstn (Z.to_nat m + 1) pos))
    | Raise => None end = Some items /\ NoDup items /\
    forall k, In k items <->
              exists j a, nth_error pos j = Some k /\ nth_error ts j = Some a /\ P a = true.
Proof.
  intros ts pos pts P r HR Hdown Hsp.
  destruct r as [[m|]|]; cbn [rightmost] in Hsp.
  - destruct Hsp as [n [a [Hm [Hn [Ha Hafter]]]]]. subst m. rewrite Nat2Z.id.
    eexists. split; [reflexivity|]. split; [apply dedup_NoDup|].
    intros k. rewrite dedup_In, In_firstn_iff. split.
    + intros [j [Hj Hp]].
      destruct (rep_pos_ts ts pos pts HR j k Hp) as [p [_ Ht]].
      exists j, (p_time p). split; [exact Hp|]. split; [exact Ht|].
      apply (Hdown (p_time p) a); [|exact Ha].
      apply (rep_sorted ts pos pts HR j n); [lia|exact Ht|exact Hn].
    + intros [j [b [Hp [Hb HP]]]]. exists j. split; [|exact Hp].
      destruct (Nat.le_gt_cases j n) as [H|H]; [lia|].
      specialize (Hafter j b H Hb). congruence.
  - eexists. split; [reflexivity|]. split; [constructor|].
    intros k. split; [intros []|]. intros [j [a [_ [Ha HP]]]].
    specialize (Hsp j a Ha). congruence.
  - destruct Hsp.
Qed.

(* suffix selections: find_gt / find_ge return the leftmost index satisfying an upward
   closed predicate *)
Lemma case_suffix : forall ts pos pts (P : Z -> bool) (r : Bisect.res), TimeRep ts pos pts ->
  (forall a b, (a <= b)%Z -> P a = true -> P b = true) ->
  leftmost P ts r ->
  exists items,
    match r with
    | Ret None => Some []
    | Ret (Some m) => Some (dedup (skipn (Z.to_nat m) pos))
    | Raise => None end = Some items /\ NoDup items /\
    forall k, In k items <->
              exists j a, nth_error pos j = Some k /\ nth_error ts j = Some a /\ P a = true.
Proof.
  intros ts pos pts P r HR Hup Hsp.
  destruct r as [[m|]|]; cbn [leftmost] in Hsp.
  - destruct Hsp as [n [a [Hm [Hn [Ha Hbefore]]]]]. subst m. rewrite Nat2Z.id.
    eexists. split; [reflexivity|]. split; [apply dedup_NoDup|].
    intros k. rewrite dedup_In, In_skipn_iff. split.
    + intros [j [Hj Hp]].
      destruct (rep_pos_ts ts pos pts HR j k Hp) as [p [_ Ht]].
      exists j, (p_time p). split; [exact Hp|]. split; [exact Ht|].
      apply (Hup a (p_time p)); [|exact Ha].
      apply (rep_sorted ts pos pts HR n j); [lia|exact Hn|exact Ht].
    + intros [j [b [Hp [Hb HP]]]]. exists j. split; [|exact Hp].
      destruct (Nat.le_gt_cases n j) as [H|H]; [lia|].
      specialize (Hbefore j b H Hb). congruence.
  - eexists. split; [reflexivity|]. split; [constructor|].
    intros k. split; [intros []|]. intros [j [a [_ [Ha HP]]]].
    specialize (Hsp j a Ha). congruence.
  - destruct Hsp.
Qed.

(* ---- main theorem ---------------------------------------------------------------------- *)
Lemma some_true_iff : forall b : bool, Some b = Some true <-> b = true.
Proof. intros b. split; intros H; congruence. Qed.

(* transport a characterisation on the arrays to the one on the points *)
Lemma finish : forall ts pos pts (Q : Z -> Prop) (R : point -> Prop) (o : option (list nat)),
  TimeRep ts pos pts ->
  (forall p, R p <-> Q (p_time p)) ->
  (exists items, o = Some items /\ NoDup items /\
     forall k, In k items <->
               exists j a, nth_error pos j = Some k /\ nth_error ts j = Some a /\ Q a) ->
  exists items, o = Some items /\ NoDup items /\
     forall k, In k items <-> exists p, nth_error pts k = Some p /\ R p.
Proof.
  intros ts pos pts Q R o HR HQR [items [Ho [Hnd Hch]]].
  exists items. split; [exact Ho|]. split; [exact Hnd|].
  intros k. rewrite (rep_select ts pos pts HR Q items Hch k). split.
  - intros [p [Hk HQ]]. exists p. split; [exact Hk|]. apply HQR. exact HQ.
  - intros [p [Hk HQ]]. exists p. split; [exact Hk|]. apply HQR. exact HQ.
Qed.

Theorem search_time_cmp_exact : forall (i : index) (c : cmp) (t : Z) (pts : list point),
  TimeRep (ix_ts i) (ix_pos i) pts ->
  exists items, search_time_cmp i c t = Some items /\ NoDup items /\
    forall k, In k items <-> exists p, nth_error pts k = Some p /\ pycmp c (VTime (p_time p)) (VTime t) = Some true.
Proof.
  intros i c t pts HR.
  pose proof HR as [_ [_ [_ [_ [Hs _]]]]].
  unfold search_time_cmp. cbv zeta. destruct c.
  - (* == *)
    apply (finish (ix_ts i) (ix_pos i) pts (fun a => a = t) _ _ HR).
    + intros p. cbn [pycmp value_eqb]. rewrite some_true_iff. apply Z.eqb_eq.
    + apply (case_eq (ix_ts i) (ix_pos i) pts t HR).
  - (* != *)
    apply (finish (ix_ts i) (ix_pos i) pts (fun a => a <> t) _ _ HR).
    + intros p. cbn [pycmp value_eqb]. rewrite some_true_iff, negb_true_iff. apply Z.eqb_neq.
    + apply (case_ne (ix_ts i) (ix_pos i) pts t HR).
  - (* < *)
    apply (finish (ix_ts i) (ix_pos i) pts (fun a => (a <? t)%Z = true) _ _ HR).
    + intros p. cbn [pycmp value_ltb]. apply some_true_iff.
    + apply (case_prefix (ix_ts i) (ix_pos i) pts (fun a => (a <? t)%Z) _ HR).
      * intros a b Hab Hb. apply Z.ltb_lt in Hb. apply Z.ltb_lt. lia.
      * unfold zfind_lt. apply (find_lt_spec Z.ltb ZH1 (ix_ts i) t Hs).
  - (* <= *)
    apply (finish (ix_ts i) (ix_pos i) pts (fun a => negb (t <? a)%Z = true) _ _ HR).
    + intros p. cbn [pycmp value_leb]. rewrite some_true_iff, negb_true_iff, Z.leb_le, Z.ltb_ge. tauto.
    + apply (case_prefix (ix_ts i) (ix_pos i) pts (fun a => negb (t <? a)%Z) _ HR).
      * intros a b Hab Hb. apply negb_true_iff in Hb. apply Z.ltb_ge in Hb.
        apply negb_true_iff. apply Z.ltb_ge. lia.
      * unfold zfind_le. apply (find_le_spec Z.ltb ZH1 (ix_ts i) t Hs).
  - (* > *)
    apply (finish (ix_ts i) (ix_pos i) pts (fun a => (t <? a)%Z = true) _ _ HR).
    + intros p. cbn [pycmp value_ltb]. apply some_true_iff.
    + apply (case_suffix (ix_ts i) (ix_pos i) pts (fun a => (t <? a)%Z) _ HR).
      * intros a b Hab Ha. apply Z.ltb_lt in Ha. apply Z.ltb_lt. lia.
      * unfold zfind_gt. apply (find_gt_spec Z.ltb ZH1 (ix_ts i) t Hs).
  - (* >= *)
    apply (finish (ix_ts i) (ix_pos i) pts (fun a => negb (a <? t)%Z = true) _ _ HR).
    + intros p. cbn [pycmp value_leb]. rewrite some_true_iff, negb_true_iff, Z.leb_le, Z.ltb_ge. tauto.
    + apply (case_suffix (ix_ts i) (ix_pos i) pts (fun a => negb (a <? t)%Z) _ HR).
      * intros a b Hab Ha. apply negb_true_iff in Ha. apply Z.ltb_ge in Ha.
        apply negb_true_iff. apply Z.ltb_ge. lia.
      * unfold zfind_ge. apply (find_ge_spec Z.ltb ZH1 (ix_ts i) t Hs).
Qed.

Print Assumptions TimeRep_nil.
Print Assumptions TimeRep_covers.
Print Assumptions search_time_cmp_exact.
