(* QueryGenP.v — the identity of query objects as tinyflux/queries.py builds it (gen/QueryGen.v, regenerated on every run: the
   `_hash` key of every kind of SimpleQuery, of &, | and ~, the hashability rules, __eq__ of both classes) is the model's:
   the hash trees Query.hv under hv_eqb ARE the generated keys under Python's ==, and Query.qeq IS the generated __eq__,
   for every pair of queries.  So C17's theorems (qeq_sound, commutativity, map-queries never equal) speak about the keys the
   source builds now. *)
From Coq Require Import List Bool Arith NArith Lia.
From TF Require gen.QueryGen.
From TF Require Import Base Query QuerySem Spec proofs.QueryP.
Import ListNotations.

Fixpoint enc (h : hv) : pyh :=
  match h with
  | HCmp a c p r => QueryGen.hash_cmp (meth_of_cmp c) a p r
  | HExists a p => QueryGen.hash_exists a p
  | HRegex s a p re fl => if s then QueryGen.hash_search a p re fl else QueryGen.hash_matches a p re fl
  | HTest a p id => QueryGen.hash_test a p id
  | HEmpty => QueryGen.hash_noop
  | HAnd x y => QueryGen.s_and_hash (enc x) (enc y)
  | HOr x y => QueryGen.s_or_hash (enc x) (enc y)
  | HNot x => QueryGen.s_not_hash (enc x)
  end.
Definition enc_o (o : option hv) : pyh := match o with Some h => enc h | None => PNone end.

Lemma enc_not_none h : pyh_is_none (enc h) = false.
Proof.
  induction h as [a c p r|a p|s a p re fl|a p id| |x IHx y IHy|x IHx y IHy|x IHx]; cbn [enc];
    try reflexivity; try (destruct c; reflexivity); try (destruct s; reflexivity).
  - unfold QueryGen.s_and_hash. rewrite IHx, IHy. reflexivity.
  - unfold QueryGen.s_or_hash. rewrite IHx, IHy. reflexivity.
  - unfold QueryGen.s_not_hash. rewrite IHx. reflexivity.
Qed.

Lemma enc_truthy h : pyh_truthy (enc h) = hv_truthy h.
Proof.
  destruct h as [a c p r|a p|s a p re fl|a p id| |x y|x y|x]; cbn [enc hv_truthy];
    try reflexivity; try (destruct c; reflexivity); try (destruct s; reflexivity).
  - unfold QueryGen.s_and_hash. rewrite !enc_not_none. reflexivity.
  - unfold QueryGen.s_or_hash. rewrite !enc_not_none. reflexivity.
  - unfold QueryGen.s_not_hash. rewrite !enc_not_none. reflexivity.
Qed.

(* the two combinator classes build the same keys *)
Lemma combinators_agree : (forall a b, QueryGen.c_and_hash a b = QueryGen.s_and_hash a b) /\ (forall a b, QueryGen.c_or_hash a b = QueryGen.s_or_hash a b)
  /\ (forall a, QueryGen.c_not_hash a = QueryGen.s_not_hash a).
Proof. repeat split; reflexivity. Qed.

Ltac unfold_enc := cbn [enc]; unfold QueryGen.s_and_hash, QueryGen.s_or_hash, QueryGen.s_not_hash; rewrite ?enc_not_none; cbn [negb andb].

(* Python's == on the generated keys is the model's hv_eqb *)
Theorem enc_eqb : forall x y, pyh_eqb (enc x) (enc y) = hv_eqb x y.
Proof.
  induction x as [a c p r|a p|s a p re fl|a p id| |x1 IH1 x2 IH2|x1 IH1 x2 IH2|x1 IH1];
    intros [a' c' p' r'|a' p'|s' a' p' re' fl'|a' p' id'| |y1 y2|y1 y2|y1]; unfold_enc;
    try (destruct c); try (destruct c'); try (destruct s); try (destruct s');
    cbn [pyh_eqb hv_eqb str_eqb N.eqb Pos.eqb cmp_eqb Bool.eqb QueryGen.hash_cmp QueryGen.hash_exists QueryGen.hash_matches QueryGen.hash_search
         QueryGen.hash_test QueryGen.hash_noop meth_of_cmp andb];
    rewrite ?andb_false_r, ?andb_true_r; try reflexivity.
  all: try (rewrite ?IH1, ?IH2; reflexivity).
  all: try (destruct (attr_eqb a a'), (strs_eqb p p'); cbn [andb]; rewrite ?andb_false_r, ?andb_true_r; try reflexivity;
            try (destruct (N.eqb re re'), (N.eqb fl fl'); reflexivity); try (destruct (N.eqb id id'); reflexivity)).
Qed.

(* how a path leaves the builder: hashable iff no function in it *)
Definition gen_path_hashable (path : list part) : bool :=
  fold_left (fun was pt => match pt with PKey _ => QueryGen.builder_hashable_after_key was | PMap _ => QueryGen.builder_hashable_after_map was end) path true.
Lemma gen_path_hashable_eq path : gen_path_hashable path = path_hashable path.
Proof.
  unfold gen_path_hashable.
  assert (H : forall l b, fold_left (fun was pt => match pt with PKey _ => QueryGen.builder_hashable_after_key was
              | PMap _ => QueryGen.builder_hashable_after_map was end) l b = b && path_hashable l).
  { induction l as [|[k|id] r IH]; intro b; cbn [fold_left path_hashable].
    - now rewrite andb_true_r.
    - unfold QueryGen.builder_hashable_after_key. apply IH.
    - unfold QueryGen.builder_hashable_after_map. rewrite IH. now rewrite andb_false_r. }
  rewrite H. reflexivity.
Qed.
Lemma path_keys_hashable path : path_hashable path = match path_keys path with Some _ => true | None => false end.
Proof. induction path as [|[k|id] r IH]; cbn [path_hashable path_keys]; [reflexivity| |reflexivity]. rewrite IH. destruct (path_keys r); reflexivity. Qed.

(* the key of a query built the way the DSL builds it, out of the generated pieces only *)
Fixpoint gen_qhash (q : query) : pyh :=
  match q with
  | QS a path t =>
      let ks := match path_keys path with Some ks => ks | None => [] end in
      QueryGen.simple_hash (gen_path_hashable path)
        (match t with
         | TCmp c rhs => QueryGen.hash_cmp (meth_of_cmp c) a ks rhs
         | TExists => QueryGen.hash_exists a ks
         | TMatch re fl => QueryGen.hash_matches a ks re fl
         | TSearch re fl => QueryGen.hash_search a ks re fl
         | TUser id => QueryGen.hash_test a ks id end)
  | QNoop _ => QueryGen.hash_noop
  | QAnd l r => (if is_simple l then QueryGen.s_and_hash else QueryGen.c_and_hash) (gen_qhash l) (gen_qhash r)
  | QOr l r => (if is_simple l then QueryGen.s_or_hash else QueryGen.c_or_hash) (gen_qhash l) (gen_qhash r)
  | QNot x => (if is_simple x then QueryGen.s_not_hash else QueryGen.c_not_hash) (gen_qhash x)
  end.

Theorem gen_qhash_eq : forall q, gen_qhash q = enc_o (qhash q).
Proof.
  induction q as [a path t|a|l IHl r IHr|l IHl r IHr|x IH]; cbn [gen_qhash qhash].
  - rewrite gen_path_hashable_eq, path_keys_hashable. destruct (path_keys path) as [ks|]; [|reflexivity].
    destruct t; reflexivity.
  - reflexivity.
  - rewrite IHl, IHr. destruct combinators_agree as [Ha _]. destruct (is_simple l); rewrite ?Ha;
      (destruct (qhash l) as [hl|]; [destruct (qhash r) as [hr|]; cbn [enc_o enc]; [reflexivity|] | reflexivity];
       unfold QueryGen.s_and_hash; rewrite enc_not_none; reflexivity).
  - rewrite IHl, IHr. destruct combinators_agree as [_ [Ho _]]. destruct (is_simple l); rewrite ?Ho;
      (destruct (qhash l) as [hl|]; [destruct (qhash r) as [hr|]; cbn [enc_o enc]; [reflexivity|] | reflexivity];
       unfold QueryGen.s_or_hash; rewrite enc_not_none; reflexivity).
  - rewrite IH. destruct combinators_agree as [_ [_ Hn]]. destruct (is_simple x); rewrite ?Hn;
      (destruct (qhash x) as [hx|]; cbn [enc_o enc option_map]; reflexivity).
Qed.

(* q1 == q2 as the source decides it (SimpleQuery.__eq__ / CompoundQuery.__eq__ on the keys the source builds) is the model's qeq *)
Definition gen_qeq (q1 q2 : query) : bool :=
  (if is_simple q1 then QueryGen.s_eq else QueryGen.c_eq) (is_simple q2) (gen_qhash q1) (gen_qhash q2).

Theorem gen_qeq_eq : forall q1 q2, gen_qeq q1 q2 = qeq q1 q2.
Proof.
  intros q1 q2. unfold gen_qeq, qeq. rewrite !gen_qhash_eq.
  destruct (is_simple q1), (is_simple q2); unfold QueryGen.s_eq, QueryGen.c_eq; cbn [andb negb orb];
    (destruct (qhash q1) as [h1|], (qhash q2) as [h2|]; cbn [enc_o pyh_truthy andb];
     rewrite ?enc_truthy, ?enc_eqb, ?andb_false_r, ?andb_true_r; try reflexivity;
     try (destruct (hv_truthy h1); reflexivity);
     try (destruct (hv_truthy h1), (hv_truthy h2); reflexivity)).
Qed.

Corollary gen_qeq_sound E q1 q2 : gen_qeq q1 q2 = true -> forall p, eval E q1 p = eval E q2 p.
Proof. rewrite gen_qeq_eq. apply qeq_sound. Qed.

(* the rest of the table: which comparison each dunder tests with, which function of `re` each regex test calls,
   which boolean operator each combinator applies *)
Theorem gen_tables : (forall c, QueryGen.cmp_operator (meth_of_cmp c) = c) /\
  QueryGen.matches_is_search = false /\ QueryGen.search_is_search = true /\
  QueryGen.s_and_operator = BAnd /\ QueryGen.s_or_operator = BOr /\ QueryGen.s_not_operator = BNot /\
  QueryGen.c_and_operator = BAnd /\ QueryGen.c_or_operator = BOr /\ QueryGen.c_not_operator = BNot.
Proof. repeat split; try reflexivity. intros []; reflexivity. Qed.

(* ---- evaluation: SimpleQuery.__call__, CompoundQuery.__call__ and the test closure, as the source writes them ------------------------- *)
Section GenEval.
Variable E : env.

(* what a test that is NOT a comparison answers when called (exists: lambda _: True; regex tests are False off strings; a user function may raise) *)
Definition plain_test (t : test) (v : value) : res :=
  match t with
  | TCmp _ _ => RB false                                        (* not used: comparisons go through `compared` *)
  | TExists => RB true
  | TMatch re fl => RB (match v with VStr s => (if QueryGen.matches_is_search then rsearch E else rmatch E) re fl s | _ => false end)
  | TSearch re fl => RB (match v with VStr s => (if QueryGen.search_is_search then rsearch E else rmatch E) re fl s | _ => false end)
  | TUser id => match tenv E id v with Some b => RB b | None => RRaise end
  end.
(* operator(x, rhs) with the operator the dunder names (gen/QueryGen.v: cmp_operator); None = the comparison raised *)
Definition compared (t : test) (v : value) : option bool :=
  match t with TCmp c rhs => pycmp (QueryGen.cmp_operator (meth_of_cmp c)) v rhs | _ => None end.
Definition against_rhs (t : test) : bool := match t with TCmp _ _ => true | _ => false end.

Fixpoint gen_eval (q : query) (p : point) : res :=
  match q with
  | QS a path t => QueryGen.gen_simple_call (resolve E path (attr_value a p))
                     (fun v => QueryGen.gen_test (against_rhs t) (plain_test t v) (compared t v))
  | QNoop a => QueryGen.gen_simple_call (Some (attr_value a p)) (fun _ => RB true)      (* noop(): path_resolver = lambda x: x, test = lambda _: True *)
  | QAnd l r => QueryGen.gen_compound_call (if is_simple l then QueryGen.s_and_operator else QueryGen.c_and_operator) (gen_eval l p) (Some (gen_eval r p))
  | QOr l r => QueryGen.gen_compound_call (if is_simple l then QueryGen.s_or_operator else QueryGen.c_or_operator) (gen_eval l p) (Some (gen_eval r p))
  | QNot x => QueryGen.gen_compound_call (if is_simple x then QueryGen.s_not_operator else QueryGen.c_not_operator) (gen_eval x p) None
  end.

Theorem gen_eval_eq : forall q p, gen_eval q p = eval E q p.
Proof.
  induction q as [a path t|a|l IHl r IHr|l IHl r IHr|x IH]; intro p; cbn [gen_eval eval].
  - unfold QueryGen.gen_simple_call, eval_simple. destruct (resolve E path (attr_value a p)) as [v|]; [|reflexivity].
    destruct t as [c rhs| |re fl|re fl|id]; try reflexivity.
    destruct c; unfold QueryGen.gen_test; cbn [against_rhs negb compared QueryGen.cmp_operator meth_of_cmp run_test];
      match goal with |- context [pycmp ?c ?a ?b] => destruct (pycmp c a b) end; reflexivity.
  - reflexivity.
  - rewrite IHl, IHr. destruct (is_simple l); reflexivity.
  - rewrite IHl, IHr. destruct (is_simple l); reflexivity.
  - rewrite IH. destruct (is_simple x); reflexivity.
Qed.
End GenEval.

Corollary gen_eval_denote E q p : wf_query E q -> gen_eval E q p = RB (denote E q p).
Proof. intro H. rewrite gen_eval_eq. apply eval_denote. exact H. Qed.
