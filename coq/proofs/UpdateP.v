(* UpdateP.v — the merge semantics of update: tags and fields are merged key by key
   (dict.update: a key of the argument takes the argument's value, every other key keeps its
   value - no key is ever dropped by the merge), unset_* then removes keys, including keys
   set by the same call; time and measurement are replaced; a static value behaves like the
   callable that returns it. *)
From Coq Require Import List ZArith NArith Bool Arith Lia.
From TF Require Import Base Query Index DB Spec proofs.BaseP proofs.QueryP proofs.IndexDefs.
Import ListNotations.

Lemma dget_fold_dset_notin {V : Type} k : forall (o d : list (str * V)), dget k o = None ->
  dget k (fold_left (fun acc kv => dset (fst kv) (snd kv) acc) o d) = dget k d.
Proof.
  induction o as [|[k' v'] o IH]; intros d H; [reflexivity|]. cbn [fold_left fst snd]. cbn [dget] in H.
  destruct (str_eqb k k') eqn:Ek; [discriminate|]. rewrite (IH _ H). apply dget_dset_other.
  intros ->. rewrite str_eqb_refl in Ek. discriminate.
Qed.

(* dict.update, for an argument with distinct (sorted) keys *)
Theorem dget_dupdate {V : Type} k : forall (o d : list (str * V)), dsorted o = true ->
  dget k (dupdate d o) = match dget k o with Some v => Some v | None => dget k d end.
Proof.
  unfold dupdate. induction o as [|[k' v'] o IH]; intros d Hs; [reflexivity|].
  apply dsorted_cons_iff in Hs. destruct Hs as [Hs Hlt]. cbn [fold_left fst snd dget].
  destruct (str_eqb k k') eqn:Ek.
  - apply str_eqb_eq in Ek. subst k'. rewrite (dget_fold_dset_notin k o _ (dget_above_None _ k o Hlt)). apply dget_dset_same.
  - rewrite (IH _ Hs). destruct (dget k o); [reflexivity|]. apply dget_dset_other. intros ->. rewrite str_eqb_refl in Ek. discriminate.
Qed.
(* the merge never drops a key *)
Corollary dupdate_keeps_keys {V : Type} k (o d : list (str * V)) : dsorted o = true -> dget k d <> None -> dget k (dupdate d o) <> None.
Proof. intros Hs Hd. rewrite (dget_dupdate k o d Hs). destruct (dget k o); [discriminate|exact Hd]. Qed.

(* unset_*: pop each listed key *)
Theorem dget_unset {V : Type} k : forall ks (d : list (str * V)), dsorted d = true ->
  dget k (fold_left (fun d k' => ddel k' d) ks d) = if existsb (str_eqb k) ks then None else dget k d.
Proof.
  induction ks as [|k' ks IH]; intros d Hs; [reflexivity|]. cbn [fold_left existsb].
  rewrite (IH _ (dsorted_ddel _ k' d Hs)). destruct (str_eqb k k') eqn:Ek.
  - apply str_eqb_eq in Ek. subst k'. cbn [orb]. destruct (existsb (str_eqb k) ks); [reflexivity|]. now apply dget_ddel_same.
  - cbn [orb]. destruct (existsb (str_eqb k) ks); [reflexivity|]. apply dget_ddel_other. intros ->. rewrite str_eqb_refl in Ek. discriminate.
Qed.

Section UpdateP.
Variable C : cenv.

(* the tags of an updated point, key by key: unset wins over a value set by the same call, the argument's
   value wins over the stored one, every other key keeps its value *)
Theorem update_tags_semantics u p p' t : wf_point p -> u_tags u = UStatic t -> dsorted t = true ->
  perform_update C u p = UOk p' ->
  forall k, dget k (p_tags p') = if existsb (str_eqb k) (u_unset_tags u) then None
                                 else match dget k t with Some v => Some v | None => dget k (p_tags p) end.
Proof.
  intros [Hpt Hpf] Hu Ht H k. unfold perform_update in H. rewrite Hu in H.
  destruct (match u_time u with UNone => Some p | UStatic t0 => Some (set_time p t0)
            | UCall id => option_map (set_time p) (c_time C id (p_time p)) end) as [p1|] eqn:E1; [|discriminate].
  assert (T1 : p_tags p1 = p_tags p).
  { destruct (u_time u); [injection E1 as <-|injection E1 as <-|]; try reflexivity. destruct (c_time C id (p_time p)); [injection E1 as <-; reflexivity|discriminate]. }
  destruct (match u_meas u with UNone => Some p1 | UStatic [] => Some p1 | UStatic m => Some (set_meas p1 m)
            | UCall id => option_map (set_meas p1) (c_meas C id (p_meas p1)) end) as [p2|] eqn:E2; [|discriminate].
  assert (T2 : p_tags p2 = p_tags p1).
  { destruct (u_meas u) as [|[|c m]|id]; try (injection E2 as <-; reflexivity). destruct (c_meas C id (p_meas p1)); [injection E2 as <-; reflexivity|discriminate]. }
  destruct (match u_fields u with UNone => Some (set_tags p2 (dupdate (p_tags p2) t))
            | UStatic d => Some (set_fields (set_tags p2 (dupdate (p_tags p2) t)) (dupdate (p_fields (set_tags p2 (dupdate (p_tags p2) t))) d))
            | UCall id => option_map (fun d => set_fields (set_tags p2 (dupdate (p_tags p2) t)) (dupdate (p_fields (set_tags p2 (dupdate (p_tags p2) t))) d))
                                     (c_fields C id (p_fields (set_tags p2 (dupdate (p_tags p2) t)))) end) as [p4|] eqn:E4; [|discriminate].
  assert (T4 : p_tags p4 = dupdate (p_tags p2) t).
  { destruct (u_fields u) as [|d|id]; try (injection E4 as <-; reflexivity).
    destruct (c_fields C id _); [injection E4 as <-; reflexivity|discriminate]. }
  injection H as <-. cbn [p_tags set_fields set_tags].
  rewrite dget_unset; [|rewrite T4; apply dsorted_dupdate; rewrite T2, T1; exact Hpt].
  destruct (existsb (str_eqb k) (u_unset_tags u)); [reflexivity|].
  rewrite T4, (dget_dupdate k t _ Ht), T2, T1. reflexivity.
Qed.

(* a static tag set behaves exactly like the callable that returns it; likewise fields and time *)
Theorem static_is_constant_callable_tags u p t id : u_tags u = UStatic t -> (forall d, c_tags C id d = Some t) ->
  perform_update C u p = perform_update C (mkUpd (u_time u) (u_meas u) (UCall id) (u_fields u) (u_unset_fields u) (u_unset_tags u)) p.
Proof. intros Hu Hc. unfold perform_update. cbn [u_time u_meas u_tags u_fields u_unset_fields u_unset_tags]. rewrite Hu.
  destruct (match u_time u with UNone => Some p | UStatic t0 => Some (set_time p t0) | UCall id0 => option_map (set_time p) (c_time C id0 (p_time p)) end) as [p1|]; [|reflexivity].
  destruct (match u_meas u with UNone => Some p1 | UStatic [] => Some p1 | UStatic m => Some (set_meas p1 m) | UCall id0 => option_map (set_meas p1) (c_meas C id0 (p_meas p1)) end) as [p2|]; [|reflexivity].
  rewrite Hc. reflexivity.
Qed.
Theorem static_is_constant_callable_fields u p f id : u_fields u = UStatic f -> (forall d, c_fields C id d = Some f) ->
  perform_update C u p = perform_update C (mkUpd (u_time u) (u_meas u) (u_tags u) (UCall id) (u_unset_fields u) (u_unset_tags u)) p.
Proof. intros Hu Hc. unfold perform_update. cbn [u_time u_meas u_tags u_fields u_unset_fields u_unset_tags]. rewrite Hu.
  destruct (match u_time u with UNone => Some p | UStatic t0 => Some (set_time p t0) | UCall id0 => option_map (set_time p) (c_time C id0 (p_time p)) end) as [p1|]; [|reflexivity].
  destruct (match u_meas u with UNone => Some p1 | UStatic [] => Some p1 | UStatic m => Some (set_meas p1 m) | UCall id0 => option_map (set_meas p1) (c_meas C id0 (p_meas p1)) end) as [p2|]; [|reflexivity].
  destruct (match u_tags u with UNone => Some p2 | UStatic d => Some (set_tags p2 (dupdate (p_tags p2) d))
            | UCall id0 => option_map (fun d => set_tags p2 (dupdate (p_tags p2) d)) (c_tags C id0 (p_tags p2)) end) as [p3|]; [|reflexivity].
  rewrite Hc. reflexivity.
Qed.
Theorem static_is_constant_callable_time u p t id : u_time u = UStatic t -> (forall x, c_time C id x = Some t) ->
  perform_update C u p = perform_update C (mkUpd (UCall id) (u_meas u) (u_tags u) (u_fields u) (u_unset_fields u) (u_unset_tags u)) p.
Proof. intros Hu Hc. unfold perform_update. cbn [u_time u_meas u_tags u_fields u_unset_fields u_unset_tags]. rewrite Hu, Hc. reflexivity. Qed.
End UpdateP.

(* ---- a static update applied twice is the update applied once ------------------------------------------------------------- *)
Definition merge_unset {V : Type} (t : list (str * V)) (ks : list str) (d : list (str * V)) : list (str * V) :=
  fold_left (fun d k => ddel k d) ks (dupdate d t).

Lemma dsorted_unset {V : Type} : forall ks (d : list (str * V)), dsorted d = true -> dsorted (fold_left (fun d k => ddel k d) ks d) = true.
Proof. induction ks as [|k ks IH]; intros d H; [exact H|]. cbn [fold_left]. apply IH. now apply dsorted_ddel. Qed.

Lemma merge_unset_idempotent {V : Type} (t : list (str * V)) ks d : dsorted t = true -> dsorted d = true ->
  merge_unset t ks (merge_unset t ks d) = merge_unset t ks d.
Proof.
  intros Ht Hd. unfold merge_unset.
  assert (S1 : dsorted (dupdate d t) = true) by now apply dsorted_dupdate.
  assert (S2 : dsorted (fold_left (fun d k => ddel k d) ks (dupdate d t)) = true) by now apply dsorted_unset.
  apply dict_ext.
  - apply dsorted_unset. now apply dsorted_dupdate.
  - exact S2.
  - intros k. rewrite dget_unset by now apply dsorted_dupdate. rewrite (dget_unset k ks _ S1).
    destruct (existsb (str_eqb k) ks) eqn:Ex; [reflexivity|].
    rewrite (dget_dupdate k t _ Ht), (dget_unset k ks _ S1), Ex, (dget_dupdate k t _ Ht). destruct (dget k t); reflexivity.
Qed.

Section StaticIdem.
Variable C : cenv.

Definition static_arg {A} (a : uarg A) : Prop := match a with UCall _ => False | _ => True end.
Definition static_update (u : updspec) : Prop :=
  static_arg (u_time u) /\ static_arg (u_meas u) /\ static_arg (u_tags u) /\ static_arg (u_fields u) /\
  (match u_tags u with UStatic t => dsorted t = true | _ => True end) /\ (match u_fields u with UStatic f => dsorted f = true | _ => True end).

Definition st_time (u : updspec) (p : point) : Z := match u_time u with UStatic t => t | _ => p_time p end.
Definition st_meas (u : updspec) (p : point) : str := match u_meas u with UStatic (c :: m) => c :: m | _ => p_meas p end.
Definition st_tags (u : updspec) (d : list (str * option str)) := merge_unset (match u_tags u with UStatic t => t | _ => [] end) (u_unset_tags u) d.
Definition st_fields (u : updspec) (d : list (str * option num)) := merge_unset (match u_fields u with UStatic t => t | _ => [] end) (u_unset_fields u) d.

Lemma static_update_form u p : static_update u ->
  perform_update C u p = UOk (mkPoint (st_time u p) (st_meas u p) (st_tags u (p_tags p)) (st_fields u (p_fields p))).
Proof.
  intros [Ht [Hm [Hg [Hf _]]]]. unfold perform_update, st_time, st_meas, st_tags, st_fields, merge_unset.
  destruct (u_time u) as [|t|id]; try contradiction;
  destruct (u_meas u) as [|[|c m]|id2]; try contradiction;
  destruct (u_tags u) as [|tg|id3]; try contradiction;
  destruct (u_fields u) as [|fl|id4]; try contradiction; reflexivity.
Qed.

Theorem static_update_idempotent u p p' : static_update u -> wf_point p ->
  perform_update C u p = UOk p' -> perform_update C u p' = UOk p'.
Proof.
  intros Hs [Wt Wf] H. rewrite (static_update_form u p Hs) in H. injection H as <-.
  rewrite (static_update_form u _ Hs). f_equal.
  destruct Hs as [_ [_ [_ [_ [Sg Sf]]]]].
  unfold st_time, st_meas, st_tags, st_fields. cbn [p_time p_meas p_tags p_fields]. f_equal.
  - destruct (u_time u); reflexivity.
  - destruct (u_meas u) as [|[|c m]|id]; reflexivity.
  - apply merge_unset_idempotent; [destruct (u_tags u); auto | exact Wt].
  - apply merge_unset_idempotent; [destruct (u_fields u); auto | exact Wf].
Qed.
End StaticIdem.
