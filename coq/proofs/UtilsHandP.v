(* UtilsHandP.v - the proofs of UtilsP.v replayed on the hand model UtilsHand.v (sed copy of UtilsP.v). *)
From Coq Require Import List ZArith Bool Arith Lia.
From TF Require Import Bisect UtilsHand proofs.BisectP.
Import ListNotations.

Section UtilsHandP.
Context {T : Type}.
Variable ltb : T -> T -> bool.
Variable eqb : T -> T -> bool.
Hypothesis ltb_negtrans : forall a b c, ltb a c = true -> ltb a b = true \/ ltb b c = true.
Hypothesis eqb_spec : forall a b, eqb a b = true <-> ltb a b = false /\ ltb b a = false.

(* "returns the leftmost position whose element satisfies P, or None if there is none" *)
Definition leftmost (P : T -> bool) (l : list T) (r : res) : Prop :=
  match r with
  | Ret (Some i) => exists k a, i = Z.of_nat k /\ nth_error l k = Some a /\ P a = true /\
                      forall j b, j < k -> nth_error l j = Some b -> P b = false
  | Ret None => forall j b, nth_error l j = Some b -> P b = false
  | Raise => False
  end.
Definition rightmost (P : T -> bool) (l : list T) (r : res) : Prop :=
  match r with
  | Ret (Some i) => exists k a, i = Z.of_nat k /\ nth_error l k = Some a /\ P a = true /\
                      forall j b, k < j -> nth_error l j = Some b -> P b = false
  | Ret None => forall j b, nth_error l j = Some b -> P b = false
  | Raise => False
  end.

Ltac bl l x Hs := pose proof (bisect_left_spec ltb ltb_negtrans l x Hs) as [Hlen [Hlt Hge]];
                  unfold bisect_left; set (r := bisect_left_nat ltb l x) in *.
Ltac br l x Hs := pose proof (bisect_right_spec ltb ltb_negtrans l x Hs) as [Hlen [Hlt Hge]];
                  unfold bisect_right; set (r := bisect_right_nat ltb l x) in *.

Lemma zneq_nat (a b : nat) : negb (Z.of_nat a =? Z.of_nat b)%Z = negb (a =? b).
Proof. f_equal. destruct (Nat.eqb_spec a b); [apply Z.eqb_eq|apply Z.eqb_neq]; lia. Qed.

Lemma find_eq_spec l x : sorted ltb l -> leftmost (fun a => eqb a x) l (find_eq ltb eqb l x).
Proof.
  intros Hs. unfold find_eq, econd, eand, ebind, py_len. bl l x Hs.
  rewrite zneq_nat. destruct (Nat.eqb_spec r (length l)) as [E|E]; cbn [negb].
  - (* i = len: every element is below x *)
    cbn. intros j b Hb. assert (j < r) by (rewrite E; apply nth_error_Some; congruence).
    destruct (eqb b x) eqn:Eb; auto. apply eqb_spec in Eb. rewrite (Hlt j b) in Eb by auto. destruct Eb; discriminate.
  - assert (Hr : r < length l) by lia. rewrite (py_index_nat l r Hr).
    destruct (nth_error_some_lt l r Hr) as [a Ha]. rewrite Ha.
    destruct (eqb a x) eqn:Eax; cbn.
    + exists r, a. repeat split; auto. intros j b Hj Hb.
      destruct (eqb b x) eqn:Eb; auto. apply eqb_spec in Eb. rewrite (Hlt j b) in Eb by auto. destruct Eb; discriminate.
    + intros j b Hb. destruct (eqb b x) eqn:Eb; auto. exfalso. apply eqb_spec in Eb. destruct Eb as [Eb1 Eb2].
      destruct (Nat.lt_ge_cases j r) as [Hj|Hj]; [rewrite (Hlt j b) in Eb1 by auto; discriminate|].
      (* a is not below x and not equal to it, hence above; b ~ x sits at or after a *)
      assert (Hax : ltb a x = false) by (apply (Hge r a); auto).
      assert (Hxa : ltb x a = true).
      { destruct (ltb x a) eqn:E'; auto. assert (eqb a x = true) by (apply eqb_spec; auto). congruence. }
      destruct (ltb_negtrans x b a Hxa) as [H|H]; [congruence|].
      destruct (Nat.eq_dec j r) as [->|Hne]; [congruence|].
      assert (ltb b a = false) by (apply (Hs r j a b); auto; lia). congruence.
Qed.

Lemma zneq0_nat (a : nat) : negb (Z.of_nat a =? 0)%Z = negb (a =? 0).
Proof. f_equal. destruct (Nat.eqb_spec a 0); [apply Z.eqb_eq|apply Z.eqb_neq]; lia. Qed.

Lemma find_lt_spec l x : sorted ltb l -> rightmost (fun a => ltb a x) l (find_lt ltb l x).
Proof.
  intros Hs. unfold find_lt, econd, ebind. bl l x Hs.
  rewrite zneq0_nat. destruct (Nat.eqb_spec r 0) as [E|E]; cbn.
  - intros j b Hb. apply (Hge j b); auto. lia.
  - assert (Hr : r - 1 < length l) by lia. destruct (nth_error_some_lt l (r - 1) Hr) as [a Ha].
    exists (r - 1), a. repeat split; auto; [lia|apply (Hlt (r - 1) a); auto; lia|].
    intros j b Hj Hb. apply (Hge j b); auto. lia.
Qed.

Lemma find_le_spec l x : sorted ltb l -> rightmost (fun a => negb (ltb x a)) l (find_le ltb l x).
Proof.
  intros Hs. unfold find_le, econd, ebind. br l x Hs.
  rewrite zneq0_nat. destruct (Nat.eqb_spec r 0) as [E|E]; cbn.
  - intros j b Hb. rewrite (Hge j b); auto. lia.
  - assert (Hr : r - 1 < length l) by lia. destruct (nth_error_some_lt l (r - 1) Hr) as [a Ha].
    exists (r - 1), a. repeat split; auto; [lia|rewrite (Hlt (r - 1) a); auto; lia|].
    intros j b Hj Hb. rewrite (Hge j b); auto. lia.
Qed.

Lemma find_gt_spec l x : sorted ltb l -> leftmost (fun a => ltb x a) l (find_gt ltb l x).
Proof.
  intros Hs. unfold find_gt, econd, ebind, py_len. br l x Hs.
  rewrite zneq_nat. destruct (Nat.eqb_spec r (length l)) as [E|E]; cbn.
  - intros j b Hb. apply (Hlt j b); auto. rewrite E. apply nth_error_Some. congruence.
  - assert (Hr : r < length l) by lia. destruct (nth_error_some_lt l r Hr) as [a Ha].
    exists r, a. repeat split; auto. apply (Hge r a); auto.
Qed.

Lemma find_ge_spec l x : sorted ltb l -> leftmost (fun a => negb (ltb a x)) l (find_ge ltb l x).
Proof.
  intros Hs. unfold find_ge, econd, ebind, py_len. bl l x Hs.
  rewrite zneq_nat. destruct (Nat.eqb_spec r (length l)) as [E|E]; cbn.
  - intros j b Hb. rewrite (Hlt j b); auto. rewrite E. apply nth_error_Some. congruence.
  - assert (Hr : r < length l) by lia. destruct (nth_error_some_lt l r Hr) as [a Ha].
    exists r, a. repeat split; auto; [rewrite (Hge r a); auto|].
    intros j b Hj Hb. rewrite (Hlt j b); auto.
Qed.
End UtilsHandP.

Lemma UtilsHandP_Z_hyps : (forall a b c, Z.ltb a c = true -> Z.ltb a b = true \/ Z.ltb b c = true) /\
                      (forall a b, Z.eqb a b = true <-> Z.ltb a b = false /\ Z.ltb b a = false).
Proof.
  split.
  - intros a b c H. apply Z.ltb_lt in H. destruct (Z.ltb_spec a b); auto. right. apply Z.ltb_lt. lia.
  - intros a b. rewrite Z.eqb_eq, !Z.ltb_ge. lia.
Qed.
Lemma UtilsHandP_example : find_eq Z.ltb Z.eqb (1 :: 3 :: 3 :: 7 :: nil)%Z 3%Z = Ret (Some 1%Z)
                   /\ find_le Z.ltb (1 :: 3 :: 3 :: 7 :: nil)%Z 3%Z = Ret (Some 2%Z)
                   /\ find_gt Z.ltb (1 :: 3 :: 3 :: 7 :: nil)%Z 7%Z = Ret None.
Proof. vm_compute. auto. Qed.
