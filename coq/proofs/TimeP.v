(* TimeP.v — time comparisons are comparisons of instants; time-sorted output is sorted, a
   permutation of its input and stable; update assigns the instant it is given. *)
From Coq Require Import List ZArith NArith Bool Arith Lia Sorted Permutation.
From TF Require Import Base Query Index DB Spec Stamp proofs.BaseP.
Import ListNotations.

Lemma time_leb_total : forall a b : point, Z.leb (p_time a) (p_time b) = true \/ Z.leb (p_time b) (p_time a) = true.
Proof. intros a b. destruct (Z.leb (p_time a) (p_time b)) eqn:E; [now left|right]. apply Z.leb_le. apply Z.leb_gt in E. lia. Qed.
Lemma time_leb_trans : forall a b c : point, Z.leb (p_time a) (p_time b) = true -> Z.leb (p_time b) (p_time c) = true -> Z.leb (p_time a) (p_time c) = true.
Proof. intros a b c H1 H2. apply Z.leb_le in H1, H2. apply Z.leb_le. lia. Qed.

Theorem sort_points_sorted l : StronglySorted (fun a b => (p_time a <= p_time b)%Z) (sort_points l).
Proof.
  unfold sort_points.
  pose proof (stable_sort_sorted point (fun a b => Z.leb (p_time a) (p_time b)) time_leb_total time_leb_trans l) as H.
  induction H as [|x r Hr IH Hx]; constructor; [exact IH|].
  apply Forall_forall. intros y Hy. apply Z.leb_le. exact (proj1 (Forall_forall _ _) Hx y Hy).
Qed.
Theorem sort_points_perm l : Permutation (sort_points l) l.
Proof. apply stable_sort_perm. Qed.
(* points with the same instant keep their relative (insertion) order *)
Theorem sort_points_stable l t : filter (fun p => Z.eqb (p_time p) t) (sort_points l) = filter (fun p => Z.eqb (p_time p) t) l.
Proof.
  unfold sort_points. rewrite (stable_sort_filter point _ _ time_leb_trans time_leb_total).
  apply stable_sort_id.
  induction l as [|p r IH]; cbn [filter]; [constructor|].
  destruct (Z.eqb (p_time p) t) eqn:E; [|exact IH]. constructor; [exact IH|].
  apply Forall_forall. intros y Hy. apply filter_In in Hy. destruct Hy as [_ Hy].
  apply Z.eqb_eq in E, Hy. apply Z.leb_le. lia.
Qed.

(* the six comparison operators on two instants are the integer comparisons, never an error *)
Theorem pycmp_time c a b :
  pycmp c (VTime a) (VTime b) = Some (match c with Ceq => Z.eqb a b | Cne => negb (Z.eqb a b) | Clt => Z.ltb a b
                                               | Cle => Z.leb a b | Cgt => Z.ltb b a | Cge => Z.leb b a end).
Proof. destruct c; reflexivity. Qed.

(* update(time=t) assigns exactly t, static or produced by a callable *)
Theorem update_sets_time C u p p' : perform_update C u p = UOk p' ->
  p_time p' = match u_time u with UNone => p_time p | UStatic t => t
                                | UCall id => match c_time C id (p_time p) with Some t => t | None => p_time p end end.
Proof.
  unfold perform_update. intros H.
  destruct (match u_time u with UNone => Some p | UStatic t => Some (set_time p t)
            | UCall id => option_map (set_time p) (c_time C id (p_time p)) end) as [p1|] eqn:E1; [|discriminate].
  assert (T1 : p_time p1 = match u_time u with UNone => p_time p | UStatic t => t
                            | UCall id => match c_time C id (p_time p) with Some t => t | None => p_time p end end).
  { destruct (u_time u) as [|t|id]; [injection E1 as <-; reflexivity|injection E1 as <-; reflexivity|].
    destruct (c_time C id (p_time p)); [injection E1 as <-; reflexivity|discriminate]. }
  rewrite <- T1. clear E1 T1.
  destruct (match u_meas u with UNone => Some p1 | UStatic [] => Some p1 | UStatic m => Some (set_meas p1 m)
            | UCall id => option_map (set_meas p1) (c_meas C id (p_meas p1)) end) as [p2|] eqn:E2; [|discriminate].
  assert (T2 : p_time p2 = p_time p1).
  { destruct (u_meas u) as [|[|c m]|id]; try (injection E2 as <-; reflexivity).
    destruct (c_meas C id (p_meas p1)); [injection E2 as <-; reflexivity|discriminate]. }
  rewrite <- T2. clear E2 T2.
  destruct (match u_tags u with UNone => Some p2 | UStatic d => Some (set_tags p2 (dupdate (p_tags p2) d))
            | UCall id => option_map (fun d => set_tags p2 (dupdate (p_tags p2) d)) (c_tags C id (p_tags p2)) end) as [p3|] eqn:E3; [|discriminate].
  assert (T3 : p_time p3 = p_time p2).
  { destruct (u_tags u) as [|d|id]; try (injection E3 as <-; reflexivity).
    destruct (c_tags C id (p_tags p2)); [injection E3 as <-; reflexivity|discriminate]. }
  rewrite <- T3. clear E3 T3.
  destruct (match u_fields u with UNone => Some p3 | UStatic d => Some (set_fields p3 (dupdate (p_fields p3) d))
            | UCall id => option_map (fun d => set_fields p3 (dupdate (p_fields p3) d)) (c_fields C id (p_fields p3)) end) as [p4|] eqn:E4; [|discriminate].
  assert (T4 : p_time p4 = p_time p3).
  { destruct (u_fields u) as [|d|id]; try (injection E4 as <-; reflexivity).
    destruct (c_fields C id (p_fields p3)); [injection E4 as <-; reflexivity|discriminate]. }
  rewrite <- T4. injection H as <-. reflexivity.
Qed.

(* TEST (a finite sweep evaluated by the kernel's VM, not a statement about all instants): at every
   change of float spacing +-3 microseconds and on 20000 other instants of 1700-2240, the float
   stamps of t and t+1 are strictly ordered *)
Example stamp_adjacent_tested : forallb adjacent_ok samples = true.
Proof. vm_compute. reflexivity. Qed.
Example stamp_samples_count : N.leb 20000 (N.of_nat (length samples)) = true.
Proof. vm_compute. reflexivity. Qed.
