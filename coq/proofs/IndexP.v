(* IndexP.v — an index that describes the stored points (Rep) answers every query of the
   shapes it is meant for exactly: isearch returns a duplicate-free list of positions that
   is precisely the set of stored points on which the query evaluates to true. *)
From Coq Require Import List ZArith NArith Bool Arith Lia.
From TF Require Import Base Query Index DB Spec proofs.BaseP proofs.QueryP proofs.TimeSearchP
     proofs.IndexDefs proofs.MapSearchP.
Import ListNotations.

(* the query shapes the index answers exactly: time comparisons against a datetime with no
   path, other time tests with no path, any measurement query, tag/field queries whose path
   starts with a key, noop, and boolean combinations in which no NOT sits directly on a
   field query (that one yields candidates; database.index_is_exact sends it to the scan) *)
Fixpoint exact_for_index (q : query) : bool :=
  match q with
  | QS ATime [] (TCmp _ (VTime _)) => true
  | QS ATime [] (TCmp _ _) => false
  | QS ATime [] _ => true
  | QS ATime (_ :: _) _ => false
  | QS AMeas _ _ => true
  | QS ATags (PKey _ :: _) _ => true
  | QS AFields (PKey _ :: _) _ => true
  | QS _ _ _ => false
  | QNoop _ => true
  | QAnd l r | QOr l r => exact_for_index l && exact_for_index r
  | QNot q' => negb (is_field_simple q') && exact_for_index q'
  end.

Definition exact_answer (E : env) (pts : list point) (q : query) (items : list nat) : Prop :=
  NoDup items /\ forall k, In k items <-> exists p, nth_error pts k = Some p /\ eval E q p = RB true.

Lemma wf_test_noraise E t : wf_test E t -> forall v, run_test E t v <> RRaise.
Proof.
  intros H v. destruct t as [c rhs| |re fl|re fl|id]; cbn [run_test]; try discriminate.
  cbn [wf_test] in H. destruct (tenv E id v) eqn:Et; [discriminate|]. exfalso. exact (H v Et).
Qed.

Theorem isearch_exact E i pts q :
  Rep i pts -> wf_points pts -> wf_query E q -> exact_for_index q = true ->
  exists items, isearch E i q = Some items /\ exact_answer E pts q items.
Proof.
  intros HR Hwf. revert q.
  induction q as [a path t|a|l IHl r IHr|l IHl r IHr|q' IH]; intros Hq Hx.
  - (* simple *)
    cbn [wf_query] in Hq. pose proof (wf_test_noraise E t Hq) as Hnr.
    unfold exact_answer. cbn [isearch eval].
    destruct a.
    + (* time *)
      destruct path as [|pp path']; [|cbn in Hx; destruct t as [c [ ]| | | |]; discriminate].
      destruct t as [c rhs| |re fl|re fl|id].
      * destruct rhs as [tt| | | | |]; cbn in Hx; try discriminate.
        destruct (search_time_cmp_exact i c tt pts (rep_time i pts HR)) as [items [Hs [Hnd Hin]]].
        exists items. cbn [search_simple]. split; [exact Hs|]. split; [exact Hnd|].
        intros k. rewrite Hin. split; intros [p [Hp Hc]]; exists p; split; auto.
        -- cbn [eval_simple resolve attr_value run_test]. now rewrite Hc.
        -- cbn [eval_simple resolve attr_value run_test] in Hc.
           destruct (pycmp c (VTime (p_time p)) (VTime tt)) as [[|]|] eqn:Ec; try discriminate; reflexivity.
      * destruct (search_time_scan_exact E i pts TExists (rep_time i pts HR) Hnr) as [items [Hs [Hnd Hin]]];
          [intros c rhs; discriminate|]. exists items. auto.
      * destruct (search_time_scan_exact E i pts (TMatch re fl) (rep_time i pts HR) Hnr) as [items [Hs [Hnd Hin]]];
          [intros c rhs; discriminate|]. exists items. auto.
      * destruct (search_time_scan_exact E i pts (TSearch re fl) (rep_time i pts HR) Hnr) as [items [Hs [Hnd Hin]]];
          [intros c rhs; discriminate|]. exists items. auto.
      * destruct (search_time_scan_exact E i pts (TUser id) (rep_time i pts HR) Hnr) as [items [Hs [Hnd Hin]]];
          [intros c rhs; discriminate|]. exists items. auto.
    + destruct (search_meas_exact E i pts path t (rep_meas i pts HR) Hnr) as [items [Hs [Hnd Hin]]].
      exists items. auto.
    + destruct path as [|[k'|id] rest]; cbn in Hx; try discriminate.
      destruct (search_tags_exact E i pts k' rest t (rep_tags i pts HR) Hwf Hnr) as [items [Hs [Hnd Hin]]].
      exists items. auto.
    + destruct path as [|[k'|id] rest]; cbn in Hx; try discriminate.
      destruct (search_fields_exact E i pts k' rest t (rep_fields i pts HR) Hwf Hnr) as [items [Hs [Hnd Hin]]].
      exists items. auto.
  - (* noop: every position *)
    exists (seq 0 (ix_n i)). cbn [isearch]. split; [reflexivity|]. split; [apply seq_NoDup|].
    intros k. rewrite in_seq, (rep_n i pts HR). cbn [eval]. split.
    + intros [_ Hk]. cbn in Hk. destruct (nth_error pts k) eqn:En; [eauto|].
      apply nth_error_None in En. lia.
    + intros [p [Hp _]]. split; [lia|]. cbn. apply nth_error_Some. congruence.
  - (* and *)
    cbn [wf_query] in Hq. destruct Hq as [Hql Hqr]. cbn [exact_for_index] in Hx.
    apply andb_true_iff in Hx. destruct Hx as [Hxl Hxr].
    destruct (IHl Hql Hxl) as [x [Hsx [Hndx Hinx]]]. destruct (IHr Hqr Hxr) as [y [Hsy [Hndy Hiny]]].
    exists (set_inter x y). cbn [isearch]. rewrite Hsx, Hsy. split; [reflexivity|].
    split; [apply set_inter_NoDup; exact Hndx|].
    intros k. rewrite set_inter_In, Hinx, Hiny. cbn [eval]. split.
    + intros [[p [Hp Hl]] [p' [Hp' Hr]]]. exists p. split; [exact Hp|].
      assert (p' = p) by congruence. subst. now rewrite Hl, Hr.
    + intros [p [Hp He]].
      destruct (eval_total E l p Hql) as [a Ha]. destruct (eval_total E r p Hqr) as [b Hb].
      rewrite Ha, Hb in He. cbn in He. injection He as He. apply andb_true_iff in He. destruct He; subst.
      split; exists p; auto.
  - (* or *)
    cbn [wf_query] in Hq. destruct Hq as [Hql Hqr]. cbn [exact_for_index] in Hx.
    apply andb_true_iff in Hx. destruct Hx as [Hxl Hxr].
    destruct (IHl Hql Hxl) as [x [Hsx [Hndx Hinx]]]. destruct (IHr Hqr Hxr) as [y [Hsy [Hndy Hiny]]].
    exists (set_union x y). cbn [isearch]. rewrite Hsx, Hsy. split; [reflexivity|].
    split; [apply set_union_NoDup; assumption|].
    intros k. rewrite set_union_In, Hinx, Hiny. cbn [eval]. split.
    + intros [[p [Hp Hl]]|[p [Hp Hr]]]; exists p; split; auto.
      * destruct (eval_total E r p Hqr) as [b Hb]. rewrite Hl, Hb. reflexivity.
      * destruct (eval_total E l p Hql) as [a Ha]. rewrite Ha, Hr. cbn. now rewrite orb_true_r.
    + intros [p [Hp He]].
      destruct (eval_total E l p Hql) as [a Ha]. destruct (eval_total E r p Hqr) as [b Hb].
      rewrite Ha, Hb in He. cbn in He. injection He as He. apply orb_true_iff in He.
      destruct He; subst; [left|right]; exists p; auto.
  - (* not: complement inside range(n) *)
    cbn [wf_query] in Hq. cbn [exact_for_index] in Hx. apply andb_true_iff in Hx. destruct Hx as [Hnf Hx'].
    destruct (IH Hq Hx') as [x [Hsx [Hndx Hinx]]].
    exists (set_compl (ix_n i) x). cbn [isearch]. rewrite Hsx.
    apply negb_true_iff in Hnf. rewrite Hnf. split; [reflexivity|]. split; [apply set_compl_NoDup|].
    intros k. rewrite set_compl_In, Hinx, (rep_n i pts HR). cbn [eval]. split.
    + intros [Hk Hn]. destruct (nth_error pts k) eqn:En; [|apply nth_error_None in En; lia].
      exists p. split; [reflexivity|]. destruct (eval_total E q' p Hq) as [b Hb]. rewrite Hb.
      destruct b; [exfalso; apply Hn; eauto|reflexivity].
    + intros [p [Hp He]]. split; [apply nth_error_Some; congruence|].
      intros [p' [Hp' He']]. assert (p' = p) by congruence. subst. rewrite He' in He. discriminate.
Qed.

(* the measurement filter `mq & query` keeps exactness *)
Lemma exact_with_meas m q : exact_for_index q = true -> exact_for_index (with_meas m q) = true.
Proof.
  intros H. unfold with_meas. destruct (truthy m); [|exact H]. cbn [exact_for_index]. now rewrite H.
Qed.
Lemma wf_with_meas E m q : wf_query E q -> wf_query E (with_meas m q).
Proof.
  intros H. unfold with_meas. destruct (truthy m); [|exact H]. cbn. auto.
Qed.
(* the queries the DSL can build: Time/Measurement paths hold only map() functions (a key on
   them raises "This query does not require a key"), Tag/Field paths are non-empty, a TimeQuery
   is compared against a datetime *)
Fixpoint dsl_query (q : query) : bool :=
  match q with
  | QS ATime path t => forallb part_is_map path && match t with TCmp _ (VTime _) => true | TCmp _ _ => false | _ => true end
  | QS AMeas path _ => forallb part_is_map path
  | QS _ [] _ => false
  | QS _ (_ :: _) _ => true
  | QNoop _ => true
  | QAnd l r | QOr l r => dsl_query l && dsl_query r
  | QNot q' => dsl_query q'
  end.

Lemma hashable_maps_nil path : path_hashable path = true -> forallb part_is_map path = true -> path = [].
Proof. destruct path as [|[k|id] r]; cbn; intros; try discriminate; reflexivity. Qed.

(* whenever the code's own guard (database.index_is_exact) sends a DSL query to the index, the
   query has a shape the index answers exactly *)
Lemma dsl_index_exact q : dsl_query q = true -> index_is_exact q = true -> exact_for_index q = true.
Proof.
  induction q as [a path t|a|l IHl r IHr|l IHl r IHr|q' IH]; cbn [dsl_query index_is_exact exact_for_index]; intros Hd Hx; auto.
  - destruct a.
    + apply andb_true_iff in Hd. destruct Hd as [Hm Ht]. rewrite (hashable_maps_nil path Hx Hm).
      destruct t as [c [ | | | | | ]| | | | ]; try discriminate; reflexivity.
    + destruct path; reflexivity.
    + destruct path as [|[k|id] rest]; cbn in *; try discriminate; reflexivity.
    + destruct path as [|[k|id] rest]; cbn in *; try discriminate; reflexivity.
  - apply andb_true_iff in Hd. apply andb_true_iff in Hx. destruct Hd, Hx. now rewrite IHl, IHr.
  - apply andb_true_iff in Hd. apply andb_true_iff in Hx. destruct Hd, Hx. now rewrite IHl, IHr.
  - destruct (is_field_simple q'); [discriminate|]. cbn [negb andb]. now apply IH.
Qed.
