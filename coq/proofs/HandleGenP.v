(* HandleGenP.v - the forwarding generated from measurement.py / database.py (gen/HandleGen.v) is the model's table. *)
From Coq Require Import List Bool.
From TF Require Import Base Query Index DB.
From TF Require gen.HandleGen.
Import ListNotations.

Lemma upd_eta : forall u : option updspec,
  option_map (fun u0 : updspec => mkUpd (u_time u0) (u_meas u0) (u_tags u0) (u_fields u0) (u_unset_fields u0) (u_unset_tags u0)) u = u.
Proof. intros [[a b c d e f]|]; reflexivity. Qed.

Lemma gen_forward_eq : forall name h, HandleGen.forward name h = restrict name h.
Proof. intros name h. destruct h; cbn [HandleGen.forward restrict]; rewrite ?upd_eta; reflexivity. Qed.

Lemma gen_forward_insert_multiple_eq : forall name ps, Some (HandleGen.forward_insert_multiple name ps) = restrict name (HInsert ps).
Proof. reflexivity. Qed.
