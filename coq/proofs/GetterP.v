(* GetterP.v — the exploration getters answered by an index that describes the stored points
   (Rep) are exactly the one-line specifications of Spec.v on those points: measurements, tag
   keys, field keys, field values, timestamps, tag values, with and without a measurement
   filter; hence (DB level) identical with a valid index and without one, and identical to
   what a rebuilt index gives. *)
From Coq Require Import List ZArith NArith Bool Arith Lia Sorted Permutation.
From TF Require Import Base Query Index DB Spec proofs.BaseP proofs.QueryP proofs.TimeSearchP proofs.TimeRepP
     proofs.IndexDefs proofs.MapRepP proofs.RepP proofs.DBReadP proofs.DBRemoveP.
Import ListNotations.

(* ---- generic facts ------------------------------------------------------------------------ *)
Lemma keys_iff {K V : Type} (m : imap K V) rel k : MapRep m rel -> (In k (map fst m) <-> exists i v, rel k i v).
Proof.
  intros HM. split.
  - intros H. apply in_map_fst_ex in H. destruct H as [b Hb].
    pose proof (mr_nonempty m rel HM k b Hb) as Hne. destruct b as [|[i v] b']; [congruence|].
    exists i, v. apply (mr_sound m rel HM k _ i v Hb). now left.
  - intros [i [v H]]. destruct (mr_complete m rel HM k i v H) as [b [Hb _]]. exact (in_map_fst_pair _ _ _ Hb).
Qed.

Lemma SSlt_ext : forall l1 l2 : list nat, StronglySorted lt l1 -> StronglySorted lt l2 ->
  (forall x, In x l1 <-> In x l2) -> l1 = l2.
Proof.
  induction l1 as [|a r1 IH]; intros l2 H1 H2 Hext.
  - destruct l2 as [|b r2]; [reflexivity|]. exfalso. apply (proj2 (Hext b)). now left.
  - destruct l2 as [|b r2]; [exfalso; apply (proj1 (Hext a)); now left|].
    inversion H1 as [|a' r1' Hr1 Ha]; subst. inversion H2 as [|b' r2' Hr2 Hb]; subst.
    rewrite Forall_forall in Ha, Hb.
    assert (a = b) as ->.
    { destruct (proj1 (Hext a) (or_introl eq_refl)) as [E|Hin]; [now symmetry|].
      destruct (proj2 (Hext b) (or_introl eq_refl)) as [E|Hin2]; [exact E|].
      pose proof (Hb a Hin). pose proof (Ha b Hin2). lia. }
    f_equal. apply IH; auto. intros x. split; intros Hx.
    + destruct (proj1 (Hext x) (or_intror Hx)) as [E|Hin]; [|exact Hin]. subst x. pose proof (Ha b Hx). lia.
    + destruct (proj2 (Hext x) (or_intror Hx)) as [E|Hin]; [|exact Hin]. subst x. pose proof (Hb b Hx). lia.
Qed.

(* lists of (position, payload) strictly sorted by position with the same members are equal *)
Lemma SSlt_pairs_ext {V : Type} : forall l1 l2 : list (nat * V),
  StronglySorted lt (map fst l1) -> StronglySorted lt (map fst l2) ->
  (forall x, In x l1 <-> In x l2) -> l1 = l2.
Proof.
  induction l1 as [|[a va] r1 IH]; intros l2 H1 H2 Hext.
  - destruct l2 as [|b r2]; [reflexivity|]. exfalso. apply (proj2 (Hext b)). now left.
  - destruct l2 as [|[b vb] r2]; [exfalso; apply (proj1 (Hext (a, va))); now left|].
    cbn [map fst] in H1, H2.
    inversion H1 as [|a' r1' Hr1 Ha]; subst. inversion H2 as [|b' r2' Hr2 Hb]; subst.
    rewrite Forall_forall in Ha, Hb.
    assert (Hfa : forall x, In x r1 -> a < fst x) by (intros x Hx; apply Ha; now apply in_map).
    assert (Hfb : forall x, In x r2 -> b < fst x) by (intros x Hx; apply Hb; now apply in_map).
    assert ((a, va) = (b, vb)) as E.
    { destruct (proj1 (Hext (a, va)) (or_introl eq_refl)) as [E|Hin]; [now symmetry|].
      destruct (proj2 (Hext (b, vb)) (or_introl eq_refl)) as [E|Hin2]; [exact E|].
      pose proof (Hfb _ Hin). pose proof (Hfa _ Hin2). cbn in *. lia. }
    injection E as -> ->. f_equal. apply IH; auto. intros x. split; intros Hx.
    + destruct (proj1 (Hext x) (or_intror Hx)) as [E|Hin]; [|exact Hin]. subst x. pose proof (Hfa _ Hx). cbn in *. lia.
    + destruct (proj2 (Hext x) (or_intror Hx)) as [E|Hin]; [|exact Hin]. subst x. pose proof (Hfb _ Hx). cbn in *. lia.
Qed.

Lemma filter_true {A : Type} (l : list A) : filter (fun _ => true) l = l.
Proof. induction l as [|x l IH]; [reflexivity|]. cbn. now rewrite IH. Qed.

Lemma in_meas_none m rows : truthy m = None -> in_meas m rows = rows.
Proof. intros H. unfold in_meas, meas_pass. rewrite H. apply filter_true. Qed.
Lemma in_meas_some m name rows : truthy m = Some name -> in_meas m rows = filter (fun p => str_eqb (p_meas p) name) rows.
Proof. intros H. unfold in_meas, meas_pass. now rewrite H. Qed.

Lemma filter_no_meas name pts : (forall p, In p pts -> p_meas p <> name) -> filter (fun p => str_eqb (p_meas p) name) pts = [].
Proof.
  induction pts as [|p r IH]; intros H; [reflexivity|]. cbn [filter].
  destruct (str_eqb (p_meas p) name) eqn:E; [apply str_eqb_eq in E; exfalso; apply (H p (or_introl eq_refl) E)|].
  apply IH. intros q Hq. apply H. now right.
Qed.

Lemma In_nth_error_iff {A : Type} (l : list A) x : In x l <-> exists k, nth_error l k = Some x.
Proof. split; [apply In_nth_error|intros [k H]; now apply nth_error_In in H]. Qed.

(* ---- the measurement's positions ------------------------------------------------------------ *)
Lemma meas_items_spec i pts name : Rep i pts ->
  match meas_items i name with
  | None => forall p, In p pts -> p_meas p <> name
  | Some ms => StronglySorted lt ms /\ forall k, In k ms <-> exists p, nth_error pts k = Some p /\ p_meas p = name
  end.
Proof.
  intros HR. pose proof (rep_meas _ _ HR) as HM. unfold meas_items.
  destruct (im_has str_eqb name (ix_meas i)) eqn:Eh.
  - split.
    + unfold positions. exact (MapRep_get_sorted str_eqb str_eqb_eq _ _ name HM).
    + intros k. unfold positions. rewrite in_map_iff. split.
      * intros [[k' u] [Hk Hin]]. cbn in Hk. subst k'. apply (MapRep_get str_eqb str_eqb_eq _ _ name k u HM) in Hin. exact Hin.
      * intros H. exists (k, tt). split; [reflexivity|]. apply (MapRep_get str_eqb str_eqb_eq _ _ name k tt HM). exact H.
  - intros p Hp Hn. apply In_nth_error_iff in Hp. destruct Hp as [k Hk].
    assert (im_has str_eqb name (ix_meas i) = true); [|congruence].
    apply (MapRep_has str_eqb str_eqb_eq _ _ name HM). exists k, tt. exists p. auto.
Qed.

Lemma overlaps_iff a b : overlaps a b = true <-> exists x, In x a /\ In x b.
Proof.
  unfold overlaps. rewrite existsb_exists. split; intros [x [H1 H2]]; exists x; split; auto; now apply mem_In.
Qed.

(* ---- measurements, field keys, tag keys -------------------------------------------------- *)
Theorem ix_get_measurements_spec i pts : Rep i pts -> ix_get_measurements i = sort_dedup (map p_meas pts).
Proof.
  intros HR. unfold ix_get_measurements, im_keys. apply sort_dedup_ext. intros k.
  rewrite (keys_iff _ _ k (rep_meas _ _ HR)). rewrite in_map_iff. split.
  - intros [j [u [p [Hp Hm]]]]. exists p. split; [exact Hm|]. now apply nth_error_In in Hp.
  - intros [p [Hm Hp]]. apply In_nth_error_iff in Hp. destruct Hp as [j Hj]. exists j, tt, p. auto.
Qed.

Theorem ix_get_field_keys_spec i pts m : Rep i pts ->
  ix_get_field_keys i m = sort_dedup (flat_map (fun p => map fst (p_fields p)) (in_meas m pts)).
Proof.
  intros HR. pose proof (rep_fields _ _ HR) as HF. unfold ix_get_field_keys.
  destruct (truthy m) as [name|] eqn:Et.
  - rewrite (in_meas_some m name pts Et). pose proof (meas_items_spec i pts name HR) as HMs.
    destruct (meas_items i name) as [ms|].
    + destruct HMs as [_ Hms]. apply sort_dedup_ext. intros k. rewrite in_map_iff, in_flat_map. split.
      * intros [[k' b] [Hk Hin]]. cbn in Hk. subst k'. apply filter_In in Hin. destruct Hin as [Hin Hov].
        apply overlaps_iff in Hov. destruct Hov as [x [Hx1 Hx2]]. cbn [snd] in Hx2.
        unfold positions in Hx2. apply in_map_iff in Hx2. destruct Hx2 as [[x' v] [Hxx Hxv]]. cbn in Hxx. subst x'.
        apply Hms in Hx1. destruct Hx1 as [p [Hp Hpm]].
        destruct (mr_sound _ _ HF k b x v Hin Hxv) as [p' [Hp' Hkv]]. assert (p' = p) by congruence. subst p'.
        exists p. split; [apply filter_In; split; [now apply nth_error_In in Hp|now apply str_eqb_eq]|].
        apply in_map_iff. exists (k, v). auto.
      * intros [p [Hp Hk]]. apply filter_In in Hp. destruct Hp as [Hp Hpm]. apply str_eqb_eq in Hpm.
        apply in_map_iff in Hk. destruct Hk as [[k' v] [Hkk Hkv]]. cbn in Hkk. subst k'.
        apply In_nth_error_iff in Hp. destruct Hp as [x Hx].
        destruct (mr_complete _ _ HF k x v (ex_intro _ p (conj Hx Hkv))) as [b [Hb Hxb]].
        exists (k, b). split; [reflexivity|]. apply filter_In. split; [exact Hb|].
        apply overlaps_iff. exists x. split; [apply Hms; eauto|]. cbn [snd]. unfold positions. apply in_map_iff. exists (x, v). auto.
    + rewrite (filter_no_meas name pts HMs). reflexivity.
  - rewrite (in_meas_none m pts Et). unfold im_keys. apply sort_dedup_ext. intros k.
    rewrite (keys_iff _ _ k HF). rewrite in_flat_map. split.
    + intros [j [v [p [Hp Hkv]]]]. exists p. split; [now apply nth_error_In in Hp|]. apply in_map_iff. exists (k, v). auto.
    + intros [p [Hp Hk]]. apply in_map_iff in Hk. destruct Hk as [[k' v] [Hkk Hkv]]. cbn in Hkk. subst k'.
      apply In_nth_error_iff in Hp. destruct Hp as [j Hj]. exists j, v, p. auto.
Qed.

(* ---- tag buckets of the whole database / of one measurement --------------------------------- *)
(* sel = which points count: all of them, or those of one measurement *)
Definition tag_buckets (i : index) (m : option str) : option (imap tkey unit) :=
  match truthy m with
  | None => Some (ix_tags i)
  | Some name => match meas_items i name with
                 | None => None
                 | Some ms => Some (filter (fun kb => overlaps ms (positions (snd kb))) (ix_tags i))
                 end
  end.

Lemma tag_buckets_spec i pts m : Rep i pts ->
  match tag_buckets i m with
  | None => in_meas m pts = []
  | Some B => forall kv, In kv (map fst B) <-> exists p, In p (in_meas m pts) /\ In kv (p_tags p)
  end.
Proof.
  intros HR. pose proof (rep_tags _ _ HR) as HT. unfold tag_buckets.
  destruct (truthy m) as [name|] eqn:Et.
  - rewrite (in_meas_some m name pts Et). pose proof (meas_items_spec i pts name HR) as HMs.
    destruct (meas_items i name) as [ms|]; [|now apply filter_no_meas].
    destruct HMs as [_ Hms]. intros kv. rewrite in_map_iff. split.
    + intros [[kv' b] [Hk Hin]]. cbn in Hk. subst kv'. apply filter_In in Hin. destruct Hin as [Hin Hov].
      apply overlaps_iff in Hov. destruct Hov as [x [Hx1 Hx2]]. cbn [snd] in Hx2.
      unfold positions in Hx2. apply in_map_iff in Hx2. destruct Hx2 as [[x' u] [Hxx Hxv]]. cbn in Hxx. subst x'.
      apply Hms in Hx1. destruct Hx1 as [p [Hp Hpm]].
      destruct (mr_sound _ _ HT kv b x u Hin Hxv) as [p' [Hp' Hkv]]. assert (p' = p) by congruence. subst p'.
      exists p. split; [apply filter_In; split; [now apply nth_error_In in Hp|now apply str_eqb_eq]|exact Hkv].
    + intros [p [Hp Hk]]. apply filter_In in Hp. destruct Hp as [Hp Hpm]. apply str_eqb_eq in Hpm.
      apply In_nth_error_iff in Hp. destruct Hp as [x Hx].
      destruct (mr_complete _ _ HT kv x tt (ex_intro _ p (conj Hx Hk))) as [b [Hb Hxb]].
      exists (kv, b). split; [reflexivity|]. apply filter_In. split; [exact Hb|].
      apply overlaps_iff. exists x. split; [apply Hms; eauto|]. cbn [snd]. unfold positions. apply in_map_iff. exists (x, tt). auto.
  - rewrite (in_meas_none m pts Et). intros kv. rewrite (keys_iff _ _ kv HT). split.
    + intros [j [u [p [Hp Hkv]]]]. exists p. split; [now apply nth_error_In in Hp|exact Hkv].
    + intros [p [Hp Hk]]. apply In_nth_error_iff in Hp. destruct Hp as [j Hj]. exists j, tt, p. auto.
Qed.

Theorem ix_get_tag_keys_spec i pts m : Rep i pts ->
  ix_get_tag_keys i m = sort_dedup (flat_map (fun p => map fst (p_tags p)) (in_meas m pts)).
Proof.
  intros HR. pose proof (tag_buckets_spec i pts m HR) as HB. unfold tag_buckets in HB. unfold ix_get_tag_keys.
  destruct (truthy m) as [name|] eqn:Et.
  - destruct (meas_items i name) as [ms|]; [|rewrite HB; reflexivity].
    apply sort_dedup_ext. intros k. rewrite in_map_iff, in_flat_map. split.
    + intros [[[k' v] b] [Hk Hin]]. cbn in Hk. subst k'.
      destruct (proj1 (HB (k, v)) (in_map fst _ _ Hin)) as [p [Hp Hkv]]. exists p. split; [exact Hp|].
      apply in_map_iff. exists (k, v). auto.
    + intros [p [Hp Hk]]. apply in_map_iff in Hk. destruct Hk as [[k' v] [Hkk Hkv]]. cbn in Hkk. subst k'.
      pose proof (proj2 (HB (k, v)) (ex_intro _ p (conj Hp Hkv))) as H. apply in_map_iff in H.
      destruct H as [[kv b] [Hkv' Hin]]. cbn in Hkv'. subst kv. exists ((k, v), b). auto.
  - unfold im_keys. apply sort_dedup_ext. intros k. rewrite in_map_iff, in_flat_map. split.
    + intros [[k' v] [Hk Hin]]. cbn in Hk. subst k'.
      destruct (proj1 (HB (k, v)) Hin) as [p [Hp Hkv]]. exists p. split; [exact Hp|]. apply in_map_iff. exists (k, v). auto.
    + intros [p [Hp Hk]]. apply in_map_iff in Hk. destruct Hk as [[k' v] [Hkk Hkv]]. cbn in Hkk. subst k'.
      exists (k, v). split; [reflexivity|]. apply (proj2 (HB (k, v))). eauto.
Qed.

(* ---- tag values ------------------------------------------------------------------------------ *)
Lemma sort_none_last_ext l1 l2 : (forall x, In x l1 <-> In x l2) -> sort_none_last l1 = sort_none_last l2.
Proof.
  intros H. unfold sort_none_last. f_equal.
  - f_equal. apply sort_dedup_ext. intros s. rewrite !in_flat_map. split; intros [o [Ho Hs]]; exists o; (split; [now apply H|exact Hs]).
  - assert (E : existsb (fun o : option str => match o with None => true | _ => false end) l1
               = existsb (fun o : option str => match o with None => true | _ => false end) l2).
    { destruct (existsb _ l1) eqn:E1; destruct (existsb _ l2) eqn:E2; try reflexivity.
      - apply existsb_exists in E1. destruct E1 as [o [Ho Hn]]. apply H in Ho.
        assert (existsb (fun o : option str => match o with None => true | _ => false end) l2 = true) by (apply existsb_exists; eauto). congruence.
      - apply existsb_exists in E2. destruct E2 as [o [Ho Hn]]. apply H in Ho.
        assert (existsb (fun o : option str => match o with None => true | _ => false end) l1 = true) by (apply existsb_exists; eauto). congruence. }
    now rewrite E.
Qed.

Lemma dget_flat_In {V : Type} k (v : V) (d : str -> point -> option V) rows :
  In v (flat_map (fun p => match d k p with Some x => [x] | None => [] end) rows) <-> exists p, In p rows /\ d k p = Some v.
Proof.
  rewrite in_flat_map. split.
  - intros [p [Hp Hv]]. exists p. split; [exact Hp|]. destruct (d k p); [destruct Hv as [->|[]]; reflexivity|destruct Hv].
  - intros [p [Hp Hv]]. exists p. split; [exact Hp|]. rewrite Hv. now left.
Qed.

Lemma ix_get_tag_values_unfold i ks m : ix_get_tag_values i ks m =
  let keys_of (b : imap tkey unit) := sort_dedup (map (fun kb => fst (fst kb)) b) in
  let vals_of (b : imap tkey unit) k := sort_none_last (map (fun kb => snd (fst kb)) (filter (fun kb => str_eqb (fst (fst kb)) k) b)) in
  match ks, tag_buckets i m with
  | [], None => []
  | [], Some b => map (fun k => (k, vals_of b k)) (keys_of b)
  | _ :: _, None => map (fun k => (k, [])) (sort_dedup ks)
  | _ :: _, Some b => map (fun k => (k, vals_of b k)) (sort_dedup ks)
  end.
Proof. reflexivity. Qed.

Theorem ix_get_tag_values_spec i pts ks m : Rep i pts -> wf_points pts ->
  ix_get_tag_values i ks m = scan_tag_values ks (in_meas m pts).
Proof.
  intros HR Hwf. pose proof (tag_buckets_spec i pts m HR) as HB.
  rewrite ix_get_tag_values_unfold. cbv zeta. unfold scan_tag_values.
  assert (Hwf' : forall p, In p (in_meas m pts) -> dsorted (p_tags p) = true).
  { intros p Hp. unfold in_meas in Hp. apply filter_In in Hp. exact (proj1 (Hwf p (proj1 Hp))). }
  destruct (tag_buckets i m) as [B|].
  - assert (Hvals : forall k, sort_none_last (map (fun kb : tkey * list (nat * unit) => snd (fst kb)) (filter (fun kb => str_eqb (fst (fst kb)) k) B))
                  = sort_none_last (flat_map (fun p => match dget k (p_tags p) with Some v => [v] | None => [] end) (in_meas m pts))).
    { intros k. apply sort_none_last_ext. intros v.
      rewrite (dget_flat_In k v (fun k p => dget k (p_tags p))). rewrite in_map_iff. split.
      - intros [[[k' v'] b] [Hv Hin]]. cbn in Hv. subst v'. apply filter_In in Hin. destruct Hin as [Hin Hk].
        cbn in Hk. apply str_eqb_eq in Hk. subst k'.
        destruct (proj1 (HB (k, v)) (in_map fst _ _ Hin)) as [p [Hp Hkv]]. exists p. split; [exact Hp|].
        apply dget_In; [now apply Hwf'|exact Hkv].
      - intros [p [Hp Hd]]. apply dget_Some_In in Hd.
        pose proof (proj2 (HB (k, v)) (ex_intro _ p (conj Hp Hd))) as H. apply in_map_iff in H.
        destruct H as [[kv b] [Hkv' Hin]]. cbn in Hkv'. subst kv. exists ((k, v), b). split; [reflexivity|].
        apply filter_In. split; [exact Hin|]. cbn. apply str_eqb_refl. }
    assert (Hkeys : sort_dedup (map (fun kb : tkey * list (nat * unit) => fst (fst kb)) B)
                    = sort_dedup (flat_map (fun p => map fst (p_tags p)) (in_meas m pts))).
    { apply sort_dedup_ext. intros k. rewrite in_map_iff, in_flat_map. split.
      - intros [[[k' v] b] [Hk Hin]]. cbn in Hk. subst k'.
        destruct (proj1 (HB (k, v)) (in_map fst _ _ Hin)) as [p [Hp Hkv]]. exists p. split; [exact Hp|].
        apply in_map_iff. exists (k, v). auto.
      - intros [p [Hp Hk]]. apply in_map_iff in Hk. destruct Hk as [[k' v] [Hkk Hkv]]. cbn in Hkk. subst k'.
        pose proof (proj2 (HB (k, v)) (ex_intro _ p (conj Hp Hkv))) as H. apply in_map_iff in H.
        destruct H as [[kv b] [Hkv' Hin]]. cbn in Hkv'. subst kv. exists ((k, v), b). auto. }
    unfold tkey in *. destruct ks as [|k0 ks'].
    + rewrite Hkeys. apply map_ext. intros k. now rewrite Hvals.
    + apply map_ext. intros k. now rewrite Hvals.
  - rewrite HB. destruct ks as [|k0 ks']; [reflexivity|]. cbn [flat_map]. reflexivity.
Qed.

(* ---- field values: the bucket of a key is the ascending list of (position, value) -------------- *)
Definition fbucket (k : str) (f : point -> bool) (pts : list point) (s : nat) : list (nat * option num) :=
  flat_map (fun ip : nat * point => if f (snd ip) then match dget k (p_fields (snd ip)) with Some v => [(fst ip, v)] | None => [] end else [])
           (combine (seq s (length pts)) pts).

Lemma fbucket_vals k f : forall pts s,
  map snd (fbucket k f pts s) = flat_map (fun p => match dget k (p_fields p) with Some v => [v] | None => [] end) (filter f pts).
Proof.
  induction pts as [|p r IH]; intros s; [reflexivity|].
  unfold fbucket. cbn [length seq combine flat_map filter snd fst]. fold (fbucket k f r (S s)).
  rewrite map_app, IH. destruct (f p); [|reflexivity]. cbn [flat_map]. destruct (dget k (p_fields p)); reflexivity.
Qed.

Lemma fbucket_In k f : forall pts s i v,
  In (i, v) (fbucket k f pts s) <-> s <= i /\ exists p, nth_error pts (i - s) = Some p /\ f p = true /\ dget k (p_fields p) = Some v.
Proof.
  induction pts as [|p r IH]; intros s i v.
  - cbn. split; [tauto|]. intros [_ [p [H _]]]. destruct (i - s); discriminate.
  - unfold fbucket. cbn [length seq combine flat_map snd fst]. fold (fbucket k f r (S s)).
    rewrite in_app_iff, IH. split.
    + intros [H|[Hle [q [Hq Hr]]]].
      * destruct (f p) eqn:Ef; [|destruct H]. destruct (dget k (p_fields p)) as [v'|] eqn:Ed; [|destruct H].
        destruct H as [H|[]]. injection H as <- <-. split; [lia|]. exists p. rewrite Nat.sub_diag. auto.
      * split; [lia|]. exists q. replace (i - s) with (S (i - S s)) by lia. auto.
    + intros [Hle [q [Hq [Hf Hd]]]]. destruct (Nat.eq_dec i s) as [->|Hne].
      * rewrite Nat.sub_diag in Hq. injection Hq as <-. left. rewrite Hf, Hd. now left.
      * right. split; [lia|]. exists q. replace (i - s) with (S (i - S s)) in Hq by lia. auto.
Qed.

Lemma fbucket_sorted k f : forall pts s, StronglySorted lt (map fst (fbucket k f pts s)) /\ Forall (fun x => s <= x) (map fst (fbucket k f pts s)).
Proof.
  induction pts as [|p r IH]; intros s; [split; constructor|].
  unfold fbucket. cbn [length seq combine flat_map snd fst]. fold (fbucket k f r (S s)).
  destruct (IH (S s)) as [Hs Hge]. rewrite map_app.
  assert (Hge' : Forall (fun x => s <= x) (map fst (fbucket k f r (S s)))) by (eapply Forall_impl; [|exact Hge]; cbn; lia).
  destruct (f p); [|split; assumption]. destruct (dget k (p_fields p)); [|split; assumption].
  cbn [map fst app]. split.
  - constructor; [exact Hs|]. eapply Forall_impl; [|exact Hge]. cbn. lia.
  - constructor; [lia|exact Hge'].
Qed.

Lemma field_rel_dget pts k i v : wf_points pts ->
  (field_rel pts k i v <-> exists p, nth_error pts i = Some p /\ dget k (p_fields p) = Some v).
Proof.
  intros Hwf. unfold field_rel. split; intros [p [Hp H]]; exists p; (split; [exact Hp|]).
  - apply dget_In; [|exact H]. apply nth_error_In in Hp. exact (proj2 (Hwf p Hp)).
  - now apply dget_Some_In.
Qed.

Theorem ix_get_field_values_spec i pts k m : Rep i pts -> wf_points pts ->
  ix_get_field_values i k m = flat_map (fun p => match dget k (p_fields p) with Some v => [v] | None => [] end) (in_meas m pts).
Proof.
  intros HR Hwf. pose proof (rep_fields _ _ HR) as HF. unfold ix_get_field_values.
  pose proof (MapRep_get_sorted str_eqb str_eqb_eq _ _ k HF) as Hsorted.
  assert (Hmem : forall j v, In (j, v) (im_get str_eqb k (ix_fields i)) <-> exists p, nth_error pts j = Some p /\ dget k (p_fields p) = Some v).
  { intros j v. rewrite (MapRep_get str_eqb str_eqb_eq _ _ k j v HF). now apply field_rel_dget. }
  destruct (truthy m) as [name|] eqn:Et.
  - rewrite (in_meas_some m name pts Et). pose proof (meas_items_spec i pts name HR) as HMs.
    destruct (meas_items i name) as [ms|]; [|now rewrite (filter_no_meas name pts HMs)].
    destruct HMs as [_ Hms].
    rewrite <- (fbucket_vals k (fun p => str_eqb (p_meas p) name) pts 0). f_equal.
    apply SSlt_pairs_ext.
    + apply SSlt_map_fst_filter. exact Hsorted.
    + exact (proj1 (fbucket_sorted k _ pts 0)).
    + intros [j v]. rewrite filter_In, Hmem, fbucket_In. cbn [fst]. rewrite Nat.sub_0_r. split.
      * intros [[p [Hp Hd]] Hm]. apply mem_In, Hms in Hm. destruct Hm as [p' [Hp' Hn]]. assert (p' = p) by congruence. subst p'.
        split; [lia|]. exists p. repeat split; auto. now apply str_eqb_eq.
      * intros [_ [p [Hp [Hn Hd]]]]. split; [eauto|]. apply mem_In, Hms. exists p. split; [exact Hp|now apply str_eqb_eq].
  - rewrite (in_meas_none m pts Et).
    rewrite <- (filter_true pts) at 1. rewrite <- (fbucket_vals k (fun _ => true) pts 0). f_equal.
    apply SSlt_pairs_ext.
    + exact Hsorted.
    + exact (proj1 (fbucket_sorted k _ pts 0)).
    + intros [j v]. rewrite Hmem, fbucket_In. rewrite Nat.sub_0_r. split.
      * intros [p [Hp Hd]]. split; [lia|]. exists p. auto.
      * intros [_ [p [Hp [_ Hd]]]]. eauto.
Qed.

(* ---- timestamps: the (instant, position) pairs sorted by position ------------------------------ *)
Definition tbucket (f : point -> bool) (pts : list point) (s : nat) : list (Z * nat) :=
  flat_map (fun ip : nat * point => if f (snd ip) then [(p_time (snd ip), fst ip)] else []) (combine (seq s (length pts)) pts).

Lemma tbucket_times f : forall pts s, map fst (tbucket f pts s) = map p_time (filter f pts).
Proof.
  induction pts as [|p r IH]; intros s; [reflexivity|].
  unfold tbucket. cbn [length seq combine flat_map filter snd fst]. fold (tbucket f r (S s)).
  rewrite map_app, IH. destruct (f p); reflexivity.
Qed.
Lemma tbucket_In f : forall pts s t k,
  In (t, k) (tbucket f pts s) <-> s <= k /\ exists p, nth_error pts (k - s) = Some p /\ f p = true /\ t = p_time p.
Proof.
  induction pts as [|p r IH]; intros s t k.
  - cbn. split; [tauto|]. intros [_ [p [H _]]]. destruct (k - s); discriminate.
  - unfold tbucket. cbn [length seq combine flat_map snd fst]. fold (tbucket f r (S s)).
    rewrite in_app_iff, IH. split.
    + intros [H|[Hle [q [Hq Hr]]]].
      * destruct (f p) eqn:Ef; [|destruct H]. destruct H as [H|[]]. injection H as <- <-. split; [lia|]. exists p. rewrite Nat.sub_diag. auto.
      * split; [lia|]. exists q. replace (k - s) with (S (k - S s)) by lia. auto.
    + intros [Hle [q [Hq [Hf Ht]]]]. destruct (Nat.eq_dec k s) as [->|Hne].
      * rewrite Nat.sub_diag in Hq. injection Hq as <-. left. rewrite Hf. left. now subst.
      * right. split; [lia|]. exists q. replace (k - s) with (S (k - S s)) in Hq by lia. auto.
Qed.
Lemma tbucket_sorted f : forall pts s, StronglySorted lt (map snd (tbucket f pts s)) /\ Forall (fun x => s <= x) (map snd (tbucket f pts s)).
Proof.
  induction pts as [|p r IH]; intros s; [split; constructor|].
  unfold tbucket. cbn [length seq combine flat_map snd fst]. fold (tbucket f r (S s)).
  destruct (IH (S s)) as [Hs Hge]. rewrite map_app.
  assert (Hge' : Forall (fun x => s <= x) (map snd (tbucket f r (S s)))) by (eapply Forall_impl; [|exact Hge]; cbn; lia).
  destruct (f p); [|split; assumption]. cbn [map snd app]. split.
  - constructor; [exact Hs|]. eapply Forall_impl; [|exact Hge]. cbn. lia.
  - constructor; [lia|exact Hge'].
Qed.

Lemma SSlt_pairs_ext_snd {A : Type} (l1 l2 : list (A * nat)) :
  StronglySorted lt (map snd l1) -> StronglySorted lt (map snd l2) -> (forall x, In x l1 <-> In x l2) -> l1 = l2.
Proof.
  intros H1 H2 Hext. set (sw := fun x : A * nat => (snd x, fst x)).
  assert (Hinj : forall a b : list (A * nat), map sw a = map sw b -> a = b).
  { induction a as [|[x1 x2] a IH]; intros [|[y1 y2] b] H; try discriminate; [reflexivity|].
    cbn in H. injection H as -> -> H. f_equal. now apply IH. }
  apply Hinj. apply SSlt_pairs_ext.
  - rewrite map_map. exact H1.
  - rewrite map_map. exact H2.
  - intros [k a]. rewrite !in_map_iff. split; intros [[a' k'] [E Hin]]; cbn in E; injection E as <- <-; exists (a', k'); (split; [reflexivity|now apply Hext]).
Qed.

Lemma NoDup_map_snd_filter {A B : Type} (g : A * B -> bool) : forall l : list (A * B), NoDup (map snd l) -> NoDup (map snd (filter g l)).
Proof.
  induction l as [|x l IH]; intros H; [constructor|]. cbn [map] in H. inversion H as [|? ? Hn Hd]; subst. cbn [filter].
  destruct (g x); [|now apply IH]. cbn [map]. constructor; [|now apply IH].
  intros Hc. apply Hn. apply in_map_iff in Hc. destruct Hc as [y [Hy Hin]]. apply filter_In in Hin. apply in_map_iff. exists y. tauto.
Qed.

Lemma SSle_NoDup_lt {A : Type} : forall l : list (A * nat),
  StronglySorted (fun a b => Nat.leb (snd a) (snd b) = true) l -> NoDup (map snd l) -> StronglySorted lt (map snd l).
Proof.
  induction l as [|x l IH]; intros Hs Hn; [constructor|]. inversion Hs as [|? ? Hs' Hx]; subst.
  cbn [map] in *. inversion Hn as [|? ? Hni Hn']; subst. constructor; [now apply IH|].
  apply Forall_forall. intros k Hk. apply in_map_iff in Hk. destruct Hk as [y [<- Hy]].
  rewrite Forall_forall in Hx. pose proof (Hx y Hy) as Hle. apply Nat.leb_le in Hle.
  assert (snd x <> snd y); [|lia]. intros E. apply Hni. rewrite E. now apply in_map.
Qed.

Theorem ix_get_timestamps_spec i pts m : Rep i pts -> ix_get_timestamps i m = map p_time (in_meas m pts).
Proof.
  intros HR. pose proof (rep_time _ _ HR) as HT. destruct HT as [Hlt [Hlp [Hnd [Hbd [_ Hnth]]]]].
  pose proof (TimeRep_covers _ _ _ (rep_time _ _ HR)) as Hcov.
  assert (Hzip : forall t k, In (t, k) (combine (ix_ts i) (ix_pos i)) <-> exists p, nth_error pts k = Some p /\ t = p_time p).
  { intros t k. rewrite In_nth_error_iff. split.
    - intros [j Hj]. apply nth_error_combine_iff in Hj. destruct Hj as [Ht Hp]. pose proof (Hnth j k Hp) as H. rewrite Ht in H.
      destruct (nth_error pts k) as [p|]; [|discriminate]. cbn in H. injection H as ->. eauto.
    - intros [p [Hp ->]]. assert (Hk : k < length pts) by (apply nth_error_Some; congruence).
      apply Hcov, In_nth_error_iff in Hk. destruct Hk as [j Hj]. exists j. apply nth_error_combine_iff. split; [|exact Hj].
      rewrite (Hnth j k Hj), Hp. reflexivity. }
  assert (Hnds : NoDup (map snd (combine (ix_ts i) (ix_pos i)))) by (rewrite map_snd_combine; [exact Hnd|lia]).
  assert (Hsort : forall g, StronglySorted lt (map snd (stable_sort (fun a b : Z * nat => Nat.leb (snd a) (snd b)) (filter g (combine (ix_ts i) (ix_pos i)))))).
  { intros g. apply SSle_NoDup_lt.
    - apply stable_sort_sorted.
      + intros a b. destruct (Nat.leb (snd a) (snd b)) eqn:E; [now left|right]. apply Nat.leb_le. apply Nat.leb_gt in E. lia.
      + intros a b c H1 H2. apply Nat.leb_le in H1, H2. apply Nat.leb_le. lia.
    - eapply Permutation_NoDup; [apply Permutation_map, Permutation_sym, stable_sort_perm|]. now apply NoDup_map_snd_filter. }
  unfold ix_get_timestamps. destruct (truthy m) as [name|] eqn:Et.
  - rewrite (in_meas_some m name pts Et). pose proof (meas_items_spec i pts name HR) as HMs.
    destruct (meas_items i name) as [ms|]; [|now rewrite (filter_no_meas name pts HMs)].
    destruct HMs as [_ Hms]. rewrite <- (tbucket_times (fun p => str_eqb (p_meas p) name) pts 0). f_equal.
    apply SSlt_pairs_ext_snd; [apply Hsort|exact (proj1 (tbucket_sorted _ pts 0))|].
    intros [t k]. rewrite stable_sort_In, filter_In, Hzip, tbucket_In. cbn [snd]. rewrite Nat.sub_0_r. split.
    + intros [[p [Hp ->]] Hm]. apply mem_In, Hms in Hm. destruct Hm as [p' [Hp' Hn]]. assert (p' = p) by congruence. subst p'.
      split; [lia|]. exists p. repeat split; auto. now apply str_eqb_eq.
    + intros [_ [p [Hp [Hn ->]]]]. split; [eauto|]. apply mem_In, Hms. exists p. split; [exact Hp|now apply str_eqb_eq].
  - rewrite (in_meas_none m pts Et). rewrite <- (filter_true pts) at 1. rewrite <- (tbucket_times (fun _ => true) pts 0). f_equal.
    rewrite <- (filter_true (combine (ix_ts i) (ix_pos i))).
    apply SSlt_pairs_ext_snd; [apply Hsort|exact (proj1 (tbucket_sorted _ pts 0))|].
    intros [t k]. rewrite stable_sort_In, filter_true, Hzip, tbucket_In. rewrite Nat.sub_0_r. split.
    + intros [p [Hp ->]]. split; [lia|]. exists p. auto.
    + intros [_ [p [Hp [_ ->]]]]. eauto.
Qed.

(* ---- the database getters, on both paths ------------------------------------------------------- *)
Lemma Inv_prelude s : Inv s -> Inv (read_prelude s).
Proof. apply (read_prelude_Inv Rep_build). Qed.

Theorem db_get_measurements_spec s : Inv s -> db_get_measurements s = (read_prelude s, OStrs (spec_measurements (st_rows s))).
Proof.
  intros HI. destruct (Inv_prelude s HI) as [_ HR]. unfold db_get_measurements, spec_measurements. rewrite <- (read_prelude_rows s).
  destruct (ix_valid (st_idx (read_prelude s))) eqn:Ev; [|reflexivity]. now rewrite (ix_get_measurements_spec _ _ (HR eq_refl)).
Qed.
Theorem db_get_tag_keys_spec s m : Inv s -> db_get_tag_keys s m = (read_prelude s, OStrs (spec_tag_keys m (st_rows s))).
Proof.
  intros HI. destruct (Inv_prelude s HI) as [_ HR]. unfold db_get_tag_keys, spec_tag_keys. rewrite <- (read_prelude_rows s).
  destruct (ix_valid (st_idx (read_prelude s))) eqn:Ev; [|reflexivity]. now rewrite (ix_get_tag_keys_spec _ _ m (HR eq_refl)).
Qed.
Theorem db_get_field_keys_spec s m : Inv s -> db_get_field_keys s m = (read_prelude s, OStrs (spec_field_keys m (st_rows s))).
Proof.
  intros HI. destruct (Inv_prelude s HI) as [_ HR]. unfold db_get_field_keys, spec_field_keys. rewrite <- (read_prelude_rows s).
  destruct (ix_valid (st_idx (read_prelude s))) eqn:Ev; [|reflexivity]. now rewrite (ix_get_field_keys_spec _ _ m (HR eq_refl)).
Qed.
Theorem db_get_field_values_spec s k m : Inv s -> db_get_field_values s k m = (read_prelude s, ONums (spec_field_values k m (st_rows s))).
Proof.
  intros HI. destruct (Inv_prelude s HI) as [Hwf HR]. unfold db_get_field_values, spec_field_values. rewrite <- (read_prelude_rows s).
  destruct (ix_valid (st_idx (read_prelude s))) eqn:Ev; [|reflexivity]. now rewrite (ix_get_field_values_spec _ _ k m (HR eq_refl) Hwf).
Qed.
Theorem db_get_timestamps_spec s m : Inv s -> db_get_timestamps s m = (read_prelude s, OTimes (spec_timestamps m (st_rows s))).
Proof.
  intros HI. destruct (Inv_prelude s HI) as [_ HR]. unfold db_get_timestamps, spec_timestamps. rewrite <- (read_prelude_rows s).
  destruct (ix_valid (st_idx (read_prelude s))) eqn:Ev; [|reflexivity]. now rewrite (ix_get_timestamps_spec _ _ m (HR eq_refl)).
Qed.
Theorem db_get_tag_values_spec s ks m : Inv s -> db_get_tag_values s ks m = (read_prelude s, OTagVals (spec_tag_values ks m (st_rows s))).
Proof.
  intros HI. destruct (Inv_prelude s HI) as [Hwf HR]. unfold db_get_tag_values, spec_tag_values. rewrite <- (read_prelude_rows s).
  destruct (ix_valid (st_idx (read_prelude s))) eqn:Ev; [|reflexivity]. now rewrite (ix_get_tag_values_spec _ _ ks m (HR eq_refl) Hwf).
Qed.
Theorem db_all_spec s srt : db_all s srt = (read_prelude s, OPoints (spec_all srt (st_rows s))).
Proof. unfold db_all, spec_all. now rewrite read_prelude_rows. Qed.

(* every getter answer of an index that describes the stored points is the answer of a rebuilt index *)
Theorem getters_as_rebuilt i pts : Rep i pts -> wf_points pts ->
  ix_get_measurements i = ix_get_measurements (ix_build pts) /\
  (forall m, ix_get_tag_keys i m = ix_get_tag_keys (ix_build pts) m) /\
  (forall m, ix_get_field_keys i m = ix_get_field_keys (ix_build pts) m) /\
  (forall k m, ix_get_field_values i k m = ix_get_field_values (ix_build pts) k m) /\
  (forall ks m, ix_get_tag_values i ks m = ix_get_tag_values (ix_build pts) ks m) /\
  (forall m, ix_get_timestamps i m = ix_get_timestamps (ix_build pts) m) /\
  ix_n i = ix_n (ix_build pts).
Proof.
  intros HR Hwf. pose proof (Rep_build pts Hwf) as HB. repeat split; intros.
  - now rewrite (ix_get_measurements_spec _ _ HR), (ix_get_measurements_spec _ _ HB).
  - now rewrite (ix_get_tag_keys_spec _ _ m HR), (ix_get_tag_keys_spec _ _ m HB).
  - now rewrite (ix_get_field_keys_spec _ _ m HR), (ix_get_field_keys_spec _ _ m HB).
  - now rewrite (ix_get_field_values_spec _ _ k m HR Hwf), (ix_get_field_values_spec _ _ k m HB Hwf).
  - now rewrite (ix_get_tag_values_spec _ _ ks m HR Hwf), (ix_get_tag_values_spec _ _ ks m HB Hwf).
  - now rewrite (ix_get_timestamps_spec _ _ m HR), (ix_get_timestamps_spec _ _ m HB).
  - now rewrite (rep_n _ _ HR), (rep_n _ _ HB).
Qed.

Lemma SS_filter {A : Type} (R : A -> A -> Prop) (f : A -> bool) : forall l, StronglySorted R l -> StronglySorted R (filter f l).
Proof.
  induction l as [|x l IH]; intros H; [constructor|]. inversion H as [|? ? Hs Hx]; subst. cbn [filter].
  destruct (f x); [|now apply IH]. constructor; [now apply IH|]. apply Forall_forall. intros y Hy. apply filter_In in Hy.
  rewrite Forall_forall in Hx. apply Hx. tauto.
Qed.
Lemma SS_seq : forall n s, StronglySorted lt (seq s n).
Proof.
  induction n as [|n IH]; intros s; [constructor|]. cbn [seq]. constructor; [apply IH|]. apply Forall_forall. intros y Hy. apply in_seq in Hy. lia.
Qed.
Lemma hitpos_sorted f rows : StronglySorted lt (hitpos f rows).
Proof. unfold hitpos. apply SS_filter, SS_seq. Qed.

(* len(handle): the number of stored points of that measurement, with a valid index and without *)
Theorem handle_len_spec (E : env) (C : cenv) (norm : point -> point) s name : Inv s ->
  handle_step E C norm s name HLen = (s, ONat (length (filter (fun p => str_eqb (p_meas p) name) (st_rows s)))).
Proof.
  intros [_ HR]. cbn [handle_step]. destruct (st_auto s && ix_valid (st_idx s)) eqn:Ea; [|reflexivity].
  apply andb_true_iff in Ea. destruct Ea as [_ Ev]. specialize (HR Ev).
  pose proof (meas_items_spec (st_idx s) (st_rows s) name HR) as HMs. unfold meas_items in HMs.
  destruct (im_has str_eqb name (ix_meas (st_idx s))).
  - destruct HMs as [Hs Hms]. f_equal. f_equal. unfold positions in *. rewrite <- (map_length fst).
    rewrite <- (hitpos_length (fun p => str_eqb (p_meas p) name) (st_rows s)). f_equal.
    apply SSlt_ext; [exact Hs|apply hitpos_sorted|].
    intros k. rewrite Hms, hitpos_In. split; intros [p [Hp Hm]]; exists p; (split; [exact Hp|]); now apply str_eqb_eq.
  - f_equal. f_equal. now rewrite (filter_no_meas name _ HMs).
Qed.
