(* StampP.v — the float stamps the index keeps order instants exactly as the integers do.
   datetime.timestamp() of an aware datetime is one correctly rounded division of the integer number of
   microseconds by 10^6 (Stamp.stamp, with the kernel's primitive binary64).  Proved here with Flocq for EVERY
   pair of instants with |t| < 2^33 seconds (years 1697-2242, which contains the supported 1700-2240 range):
   <, = and <= on the float stamps coincide with <, = and <= on the microsecond counts.  Hence the index, which
   sorts and bisects on the float stamps, can be modelled with exact Z microseconds (Index.v).
   Real analysis part: two reals of magnitude < 2^33 that differ by >= 10^-6 round (to nearest even, binary64)
   to different floats, because the spacing of floats below 2^33 is at most 2^-20 < 10^-6 / 2.
   Assumptions (all declared by the standard library): the classical real-number axioms, classic,
   functional_extensionality_dep, and the Uint63 / PrimFloat primitive specifications (FloatAxioms). *)
From Coq Require Import ZArith Reals Lra Lia Psatz Floats Uint63.
From Flocq Require Import Core BinarySingleNaN PrimFloat.
From TF Require Stamp.
Open Scope R_scope.

Definition prec := 53%Z.
Definition emax := 1024%Z.
Definition emin := (3 - emax - prec)%Z.
Notation fexp := (FLT_exp emin prec).
Local Instance Hprec : Prec_gt_0 prec := eq_refl _.

Lemma ulp_small x : Rabs x < bpow radix2 33 -> ulp radix2 fexp x <= bpow radix2 (-20).
Proof.
  intros Hx. destruct (Req_dec x 0) as [->|Hn].
  - rewrite ulp_FLT_0. apply bpow_le. unfold emin, emax, prec. lia. exact Hprec.
  - rewrite ulp_neq_0 by exact Hn. apply bpow_le. unfold cexp, FLT_exp.
    pose proof (mag_le_bpow radix2 x 33 Hn Hx). unfold emin, emax, prec. lia.
Qed.

Lemma round_strict x y : Rabs x < bpow radix2 33 -> Rabs y < bpow radix2 33 -> x + / 1000000 <= y ->
  round radix2 fexp ZnearestE x < round radix2 fexp ZnearestE y.
Proof.
  intros Hx Hy Hxy.
  pose proof (error_le_half_ulp radix2 fexp (fun z => negb (Z.even z)) x) as Ex.
  pose proof (error_le_half_ulp radix2 fexp (fun z => negb (Z.even z)) y) as Ey.
  pose proof (ulp_small x Hx) as Ux. pose proof (ulp_small y Hy) as Uy.
  assert (Hb : bpow radix2 (-20) < / 1000000).
  { change (bpow radix2 (-20)) with (/ IZR (Z.pow_pos 2 20)). apply Rinv_lt_contravar; [|apply IZR_lt; reflexivity].
    apply Rmult_lt_0_compat; apply IZR_lt; reflexivity. }
  apply Rabs_le_inv in Ex. apply Rabs_le_inv in Ey. lra.
Qed.

Notation fexpB := (SpecFloat.fexp FloatOps.prec FloatOps.emax).
Lemma fexp_eq : forall e, fexpB e = FLT_exp emin prec e.
Proof. reflexivity. Qed.

(* integers below 2^53 are floats *)
Lemma int_generic n : (Z.abs n < 2 ^ 53)%Z -> generic_format radix2 fexpB (IZR n).
Proof.
  intros H. apply (generic_format_FLT radix2 emin prec). apply (FLT_spec radix2 emin prec (IZR n) (Float radix2 n 0)).
  - unfold F2R. simpl. ring.
  - exact H.
  - unfold emin, emax, prec. simpl. lia.
Qed.

Lemma bpow33_lt_emax : bpow radix2 33 < bpow radix2 FloatOps.emax.
Proof. apply bpow_lt. reflexivity. Qed.

(* of_uint63 on a small natural number is exact *)
Lemma of_nat_exact n : (0 <= n < 2 ^ 53)%Z ->
  B2R (Prim2B (of_uint63 (of_Z n))) = IZR n /\ is_finite (Prim2B (of_uint63 (of_Z n))) = true.
Proof.
  intros Hn. rewrite of_int63_equiv.
  assert (Hphi : φ (of_Z n)%uint63 = n).
  { rewrite of_Z_spec. apply Z.mod_small. split; [lia|]. change wB with (2 ^ 63)%Z. lia. }
  rewrite Hphi.
  pose proof (binary_normalize_correct FloatOps.prec FloatOps.emax Hprec Hmax mode_NE n 0 false) as H.
  cbv zeta in H.
  assert (Hx : F2R (Float radix2 n 0) = IZR n) by (unfold F2R; simpl; ring).
  rewrite Hx in H.
  assert (Hr : round radix2 fexpB (round_mode mode_NE) (IZR n) = IZR n).
  { apply round_generic; [apply valid_rnd_round_mode|]. apply int_generic. lia. }
  rewrite Hr in H.
  rewrite Rlt_bool_true in H.
  - destruct H as [H1 [H2 _]]. split; assumption.
  - rewrite Rabs_pos_eq by (apply IZR_le; lia). apply Rlt_trans with (bpow radix2 53).
    + change (bpow radix2 53) with (IZR (2 ^ 53)). apply IZR_lt. lia.
    + apply bpow_lt. reflexivity.
Qed.

Notation f_of_Z := Stamp.f_of_Z. Notation million := Stamp.million. Notation stamp := Stamp.stamp.

Lemma f_of_Z_exact z : (Z.abs z < 2 ^ 53)%Z ->
  B2R (Prim2B (f_of_Z z)) = IZR z /\ is_finite (Prim2B (f_of_Z z)) = true.
Proof.
  intros H. destruct z as [|p|p]; unfold Stamp.f_of_Z.
  - split; reflexivity.
  - apply of_nat_exact. lia.
  - rewrite opp_equiv, B2R_Bopp, is_finite_Bopp.
    destruct (of_nat_exact (- Z.neg p) ltac:(lia)) as [H1 H2].
    rewrite H1, H2. split; [|reflexivity]. rewrite <- opp_IZR. f_equal; lia.
Qed.

Lemma million_exact : B2R (Prim2B million) = 1000000 /\ is_finite (Prim2B million) = true.
Proof. exact (of_nat_exact 1000000 ltac:(lia)). Qed.

Lemma stamp_exact z : (Z.abs z < 2 ^ 33 * 1000000)%Z ->
  B2R (Prim2B (stamp z)) = round radix2 (FLT_exp emin prec) ZnearestE (IZR z / 1000000)
  /\ is_finite (Prim2B (stamp z)) = true.
Proof.
  intros H. unfold Stamp.stamp. rewrite div_equiv.
  destruct (f_of_Z_exact z ltac:(lia)) as [Hz Fz]. destruct million_exact as [Hm Fm].
  pose proof (Bdiv_correct FloatOps.prec FloatOps.emax Hprec Hmax mode_NE (Prim2B (f_of_Z z)) (Prim2B million)) as HD.
  rewrite Hm, Hz in HD. specialize (HD ltac:(lra)).
  change (round_mode mode_NE) with ZnearestE in HD.
  change (SpecFloat.fexp FloatOps.prec FloatOps.emax) with (FLT_exp emin prec) in HD.
  rewrite Rlt_bool_true in HD.
  - destruct HD as [H1 [H2 _]]. split; [exact H1 | exact (eq_trans H2 Fz)].
  - apply Rle_lt_trans with (bpow radix2 33); [| apply bpow_lt; reflexivity].
    apply abs_round_le_generic; [apply FLT_exp_valid; reflexivity | apply valid_rnd_N | |].
    + apply generic_format_bpow. unfold FLT_exp, emin, prec, emax. simpl. lia.
    + unfold Rdiv. rewrite Rabs_mult. rewrite (Rabs_pos_eq (/ 1000000)) by (left; apply Rinv_0_lt_compat; lra).
      rewrite <- abs_IZR. apply Rmult_le_reg_r with 1000000; [lra|]. rewrite Rmult_assoc, Rinv_l by lra. rewrite Rmult_1_r.
      change (bpow radix2 33) with (IZR (2 ^ 33)). change 1000000 with (IZR 1000000). rewrite <- mult_IZR. apply IZR_le. lia.
Qed.

Lemma ratio_small z : (Z.abs z < 2 ^ 33 * 1000000)%Z -> Rabs (IZR z / 1000000) < bpow radix2 33.
Proof.
  intros H. unfold Rdiv. rewrite Rabs_mult. rewrite (Rabs_pos_eq (/ 1000000)) by (left; apply Rinv_0_lt_compat; lra).
  rewrite <- abs_IZR. apply Rmult_lt_reg_r with 1000000; [lra|]. rewrite Rmult_assoc, Rinv_l by lra. rewrite Rmult_1_r.
  change (bpow radix2 33) with (IZR (2 ^ 33)). change 1000000 with (IZR 1000000). rewrite <- mult_IZR. apply IZR_lt. lia.
Qed.

Theorem stamp_strict a b : (Z.abs a < 2 ^ 33 * 1000000)%Z -> (Z.abs b < 2 ^ 33 * 1000000)%Z -> (a < b)%Z ->
  PrimFloat.ltb (stamp a) (stamp b) = true.
Proof.
  intros Ha Hb Hab. rewrite ltb_equiv.
  destruct (stamp_exact a Ha) as [Ra Fa]. destruct (stamp_exact b Hb) as [Rb Fb].
  rewrite (Bltb_correct _ _ _ _ Fa Fb), Ra, Rb. apply Rlt_bool_true.
  apply round_strict; try (apply ratio_small; assumption).
  assert (IZR a + 1 <= IZR b) by (rewrite <- plus_IZR; apply IZR_le; lia).
  unfold Rdiv. nra.
Qed.

Lemma stamp_mono a b : (Z.abs a < 2 ^ 33 * 1000000)%Z -> (Z.abs b < 2 ^ 33 * 1000000)%Z ->
  PrimFloat.ltb (stamp a) (stamp b) = Z.ltb a b.
Proof.
  intros Ha Hb. destruct (Z.ltb_spec a b) as [Hab|Hab]; [apply stamp_strict; assumption|].
  rewrite ltb_equiv.
  destruct (stamp_exact a Ha) as [Ra Fa]. destruct (stamp_exact b Hb) as [Rb Fb].
  rewrite (Bltb_correct _ _ _ _ Fa Fb), Ra, Rb. apply Rlt_bool_false.
  apply round_le; [apply FLT_exp_valid; reflexivity | apply valid_rnd_N |].
  assert (IZR b <= IZR a) by (apply IZR_le; lia). unfold Rdiv. nra.
Qed.

Lemma stamp_eqb a b : (Z.abs a < 2 ^ 33 * 1000000)%Z -> (Z.abs b < 2 ^ 33 * 1000000)%Z ->
  PrimFloat.eqb (stamp a) (stamp b) = Z.eqb a b.
Proof.
  intros Ha Hb. rewrite eqb_equiv.
  destruct (stamp_exact a Ha) as [Ra Fa]. destruct (stamp_exact b Hb) as [Rb Fb].
  rewrite (Beqb_correct _ _ _ _ Fa Fb).
  destruct (Z.eqb_spec a b) as [->|Hne]; [apply Req_bool_true; reflexivity|].
  apply Req_bool_false. intros Heq.
  destruct (Z.lt_total a b) as [L|[E|L]]; [|contradiction|].
  - pose proof (stamp_strict a b Ha Hb L) as S. rewrite ltb_equiv, (Bltb_correct _ _ _ _ Fa Fb), Heq in S.
    rewrite Rlt_bool_false in S; [discriminate | lra].
  - pose proof (stamp_strict b a Hb Ha L) as S. rewrite ltb_equiv, (Bltb_correct _ _ _ _ Fb Fa), Heq in S.
    rewrite Rlt_bool_false in S; [discriminate | lra].
Qed.

Lemma in_range_small t : Stamp.in_range t = true -> (Z.abs t < 2 ^ 33 * 1000000)%Z.
Proof. unfold Stamp.in_range, Stamp.lo_us, Stamp.hi_us. intros H. apply andb_prop in H. destruct H as [H1 H2]. apply Z.leb_le in H1, H2. lia. Qed.

Theorem stamp_order_faithful a b : Stamp.in_range a = true -> Stamp.in_range b = true ->
  PrimFloat.ltb (stamp a) (stamp b) = Z.ltb a b /\ PrimFloat.eqb (stamp a) (stamp b) = Z.eqb a b /\
  PrimFloat.leb (stamp a) (stamp b) = Z.leb a b.
Proof.
  intros Ha Hb. apply in_range_small in Ha, Hb. split; [apply stamp_mono; assumption|]. split; [apply stamp_eqb; assumption|].
  rewrite leb_equiv.
  destruct (stamp_exact a Ha) as [Ra Fa]. destruct (stamp_exact b Hb) as [Rb Fb].
  rewrite (Bleb_correct _ _ _ _ Fa Fb), Ra, Rb.
  destruct (Z.leb_spec a b) as [L|L].
  - apply Rle_bool_true. apply round_le; [apply FLT_exp_valid; reflexivity | apply valid_rnd_N |].
    assert (IZR a <= IZR b) by (apply IZR_le; lia). unfold Rdiv. nra.
  - apply Rle_bool_false. apply round_strict; try (apply ratio_small; assumption).
    assert (IZR b + 1 <= IZR a) by (rewrite <- plus_IZR; apply IZR_le; lia). unfold Rdiv. nra.
Qed.
