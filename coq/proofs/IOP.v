(* IOP.v — properties of the I/O scripts of the CSV storage (IO.v):
   completed operations, crash atomicity, append-only inserts, side-effect-free reads. *)
From Coq Require Import List ZArith NArith Bool Arith Lia.
From TF Require Import Base Query Index DB IO.
Import ListNotations.

(* what the primary file must hold once the operation has completed *)
Definition plan_target (old : list point) (p : plan) : list point :=
  match p with PlAppend rows => old ++ rows | PlRewrite new_rows => new_rows | PlReset _ => [] | _ => old end.
(* the states a crash may leave: old, new, or for an insert old plus a prefix of the inserted rows *)
Definition crash_allowed (old : list point) (p : plan) (d : list point) : Prop :=
  match p with
  | PlAppend rows => exists j, d = old ++ firstn j rows
  | PlRewrite new_rows => d = old \/ d = new_rows
  | PlReset _ => d = old \/ d = []
  | _ => d = old
  end.
Definition clean (w : world) : Prop := w_pend w = [] /\ w_temp w = None /\ w_staged w = None /\ w_leftover w = 0 /\ w_open w = true.

(* ------------------------------------------------------------------------------------ *)
(* generic facts about run_steps                                                         *)

Lemma run_steps_app : forall a b w, run_steps w (a ++ b) = run_steps (run_steps w a) b.
Proof. intros a b w. unfold run_steps. apply fold_left_app. Qed.

Lemma run_steps_cons : forall s ss w, run_steps w (s :: ss) = run_steps (apply w s) ss.
Proof. reflexivity. Qed.

Lemma run_steps_nil : forall w, run_steps w [] = w.
Proof. reflexivity. Qed.

Lemma run_firstn_app : forall k a b w,
  run_steps w (firstn k (a ++ b)) = run_steps (run_steps w (firstn k a)) (firstn (k - length a) b).
Proof. intros k a b w. rewrite firstn_app. apply run_steps_app. Qed.

(* ------------------------------------------------------------------------------------ *)
(* steps that cannot change the primary file when nothing is buffered                     *)

Definition safe (s : iostep) : bool :=
  match s with
  | PWrite _ | PTruncate0 | Replace => false
  | _ => true
  end.

Lemma safe_apply : forall s w, safe s = true -> w_pend w = [] ->
  w_disk (apply w s) = w_disk w /\ w_pend (apply w s) = [].
Proof.
  intros s w Hs Hp. destruct w as [d pe o t st l]. cbn in Hp. subst pe.
  destruct s; cbn in Hs; try discriminate Hs; cbn;
    try (rewrite app_nil_r); try (split; reflexivity).
  - (* TSeekEnd *) unfold flush_temp; cbn. destruct t as [[td tb]|]; cbn; split; reflexivity.
  - (* TWrite *) destruct t as [[td tb]|]; cbn; split; reflexivity.
  - (* TFlush *) unfold flush_temp; cbn. destruct t as [[td tb]|]; cbn; split; reflexivity.
  - (* TClose *) unfold flush_temp; cbn. destruct t as [[td tb]|]; cbn; split; reflexivity.
  - (* CopyMid *) destruct t as [[td tb]|]; cbn; split; reflexivity.
  - (* CopyDone *) destruct t as [[td tb]|]; cbn; split; reflexivity.
Qed.

Lemma safe_run : forall ss w, forallb safe ss = true -> w_pend w = [] ->
  w_disk (run_steps w ss) = w_disk w /\ w_pend (run_steps w ss) = [].
Proof.
  induction ss as [|s ss IH]; intros w Hs Hp.
  - cbn. split; [reflexivity | exact Hp].
  - cbn [forallb] in Hs. apply andb_true_iff in Hs. destruct Hs as [Hs Hss].
    rewrite run_steps_cons.
    destruct (safe_apply s w Hs Hp) as [Hd Hp'].
    destruct (IH (apply w s) Hss Hp') as [Hd2 Hp2].
    split; [rewrite Hd2; exact Hd | exact Hp2].
Qed.

Lemma forallb_firstn : forall (A : Type) (f : A -> bool) k l,
  forallb f l = true -> forallb f (firstn k l) = true.
Proof.
  intros A f k. induction k as [|k IH]; intros l H.
  - reflexivity.
  - destruct l as [|x l]; [reflexivity|].
    cbn [forallb] in H. apply andb_true_iff in H. destruct H as [Hx Hl].
    cbn [firstn forallb]. rewrite Hx. cbn. apply IH. exact Hl.
Qed.

Lemma safe_run_firstn : forall ss k w, forallb safe ss = true -> w_pend w = [] ->
  w_disk (run_steps w (firstn k ss)) = w_disk w /\ w_pend (run_steps w (firstn k ss)) = [].
Proof.
  intros ss k w Hs Hp. apply safe_run; [apply forallb_firstn; exact Hs | exact Hp].
Qed.

Lemma safe_repeat_next : forall n, forallb safe (repeat PNext n) = true.
Proof. induction n as [|n IH]; [reflexivity | cbn; exact IH]. Qed.

Lemma safe_scan : forall n, forallb safe (scan_script n) = true.
Proof. intros n. unfold scan_script. cbn [forallb safe]. apply (safe_repeat_next (S n)). Qed.

Lemma safe_temp_appends : forall rows, forallb safe (flat_map temp_append_script rows) = true.
Proof.
  induction rows as [|r rows IH]; [reflexivity|].
  cbn [flat_map]. rewrite forallb_app. rewrite IH. reflexivity.
Qed.

Lemma safe_cleanup : forallb safe cleanup_script = true.
Proof. reflexivity. Qed.

Lemma safe_pre : forall n rows,
  forallb safe (TCreate :: scan_script n ++ flat_map temp_append_script rows) = true.
Proof.
  intros n rows. cbn [forallb]. rewrite forallb_app, safe_scan, safe_temp_appends. reflexivity.
Qed.

(* ------------------------------------------------------------------------------------ *)
(* exact effect of each block on the whole world                                         *)

Lemma run_repeat_next : forall n w, run_steps w (repeat PNext n) = w.
Proof. induction n as [|n IH]; intros w; [reflexivity | cbn [repeat]; rewrite run_steps_cons; cbn [apply]; apply IH]. Qed.

Lemma run_scan : forall n d o t st l,
  run_steps (mkWorld d [] o t st l) (scan_script n) = mkWorld d [] o t st l.
Proof.
  intros n d o t st l. unfold scan_script. rewrite run_steps_cons.
  rewrite run_repeat_next. cbn. rewrite app_nil_r. reflexivity.
Qed.

Lemma run_temp_appends : forall rows d o td st l,
  run_steps (mkWorld d [] o (Some (td, [])) st l) (flat_map temp_append_script rows)
  = mkWorld d [] o (Some (td ++ rows, [])) st l.
Proof.
  induction rows as [|r rows IH]; intros d o td st l.
  - cbn. rewrite app_nil_r. reflexivity.
  - cbn [flat_map]. rewrite run_steps_app.
    assert (H : run_steps (mkWorld d [] o (Some (td, [])) st l) (temp_append_script r)
                = mkWorld d [] o (Some (td ++ [r], [])) st l).
    { cbn. rewrite app_nil_r. reflexivity. }
    rewrite H. rewrite IH. rewrite <- app_assoc. reflexivity.
Qed.

Lemma run_append1 : forall r d o t st l,
  run_steps (mkWorld d [] o t st l) (append_script r) = mkWorld (d ++ [r]) [] o t st l.
Proof. intros r d o t st l. cbn. rewrite app_nil_r. reflexivity. Qed.

Lemma run_appends : forall rows d o t st l,
  run_steps (mkWorld d [] o t st l) (flat_map append_script rows) = mkWorld (d ++ rows) [] o t st l.
Proof.
  induction rows as [|r rows IH]; intros d o t st l.
  - cbn. rewrite app_nil_r. reflexivity.
  - cbn [flat_map]. rewrite run_steps_app, run_append1, IH, <- app_assoc. reflexivity.
Qed.

(* the world reached by the common prefix of the temp-file scripts *)
Lemma run_pre : forall old rows,
  run_steps (world_of old) (TCreate :: scan_script (length old) ++ flat_map temp_append_script rows)
  = mkWorld old [] true (Some (rows, [])) None 1.
Proof.
  intros old rows. rewrite run_steps_cons. unfold world_of. cbn [apply w_disk w_pend w_open w_staged w_leftover].
  rewrite run_steps_app, run_scan, run_temp_appends. reflexivity.
Qed.

(* ------------------------------------------------------------------------------------ *)
(* 1. completed operations                                                               *)

Theorem run_script_complete : forall old p,
  let w := run_steps (world_of old) (script_of old p) in w_disk w = plan_target old p /\ clean w.
Proof.
  intros old p. cbv zeta. unfold clean. destruct p as [| |rows|staged|new_rows|wt]; cbn [script_of plan_target].
  - cbn. repeat split; reflexivity.
  - unfold world_of. rewrite run_scan. cbn. repeat split; reflexivity.
  - unfold world_of. rewrite run_appends. cbn. repeat split; reflexivity.
  - change (TCreate :: scan_script (length old) ++ flat_map temp_append_script staged ++ cleanup_script)
      with ((TCreate :: scan_script (length old)) ++ flat_map temp_append_script staged ++ cleanup_script).
    rewrite app_assoc. rewrite run_steps_app.
    change ((TCreate :: scan_script (length old)) ++ flat_map temp_append_script staged)
      with (TCreate :: scan_script (length old) ++ flat_map temp_append_script staged).
    rewrite run_pre. cbn. repeat split; reflexivity.
  - change (TCreate :: scan_script (length old) ++ flat_map temp_append_script new_rows ++ swap_script ++ cleanup_script)
      with ((TCreate :: scan_script (length old)) ++ flat_map temp_append_script new_rows ++ swap_script ++ cleanup_script).
    rewrite app_assoc. rewrite run_steps_app.
    change ((TCreate :: scan_script (length old)) ++ flat_map temp_append_script new_rows)
      with (TCreate :: scan_script (length old) ++ flat_map temp_append_script new_rows).
    rewrite run_pre. cbn. rewrite ?app_nil_r. repeat split; reflexivity.
  - destruct wt.
    + rewrite run_steps_cons. unfold world_of. cbn [apply w_disk w_pend w_open w_staged w_leftover].
      rewrite run_steps_app, run_scan. cbn. repeat split; reflexivity.
    + cbn. repeat split; reflexivity.
Qed.

(* ------------------------------------------------------------------------------------ *)
(* 2. crash atomicity                                                                    *)

Lemma crash_appends : forall rows k d o t st l,
  exists j, w_disk (run_steps (mkWorld d [] o t st l) (firstn k (flat_map append_script rows))) = d ++ firstn j rows.
Proof.
  induction rows as [|r rows IH]; intros k d o t st l.
  - exists 0. cbn [flat_map]. rewrite firstn_nil. cbn. rewrite app_nil_r. reflexivity.
  - cbn [flat_map]. rewrite run_firstn_app.
    destruct (le_lt_dec (length (append_script r)) k) as [Hk|Hk].
    + rewrite firstn_all2 by exact Hk. rewrite run_append1.
      destruct (IH (k - length (append_script r)) (d ++ [r]) o t st l) as [j Hj].
      exists (S j). rewrite Hj. rewrite <- app_assoc. reflexivity.
    + replace (k - length (append_script r)) with 0 by lia.
      cbn [firstn]. rewrite run_steps_nil.
      cbn [append_script length] in Hk.
      do 6 (destruct k as [|k]; [cbn; rewrite ?app_nil_r;
             first [ exists 0; cbn; rewrite app_nil_r; reflexivity | exists 1; reflexivity ] |]).
      lia.
Qed.

(* the tail of a rewrite, started from the world reached by run_pre *)
Lemma crash_swap_tail : forall old new k,
  let d := w_disk (run_steps (mkWorld old [] true (Some (new, [])) None 1) (firstn k (swap_script ++ cleanup_script))) in
  d = old \/ d = new.
Proof.
  intros old new k. cbv zeta.
  do 10 (destruct k as [|k]; [cbn; rewrite ?app_nil_r; first [left; reflexivity | right; reflexivity] |]).
  cbn; rewrite ?app_nil_r; first [left; reflexivity | right; reflexivity].
Qed.

Lemma crash_reset_tail : forall w k, w_pend w = [] ->
  let d := w_disk (run_steps w (firstn k (reset_script ++ cleanup_script))) in
  d = w_disk w \/ d = [].
Proof.
  intros w k Hp. cbv zeta. destruct w as [d pe o t st l]. cbn in Hp. subst pe.
  destruct t as [[td tb]|];
    (do 5 (destruct k as [|k]; [cbn; rewrite ?app_nil_r; first [left; reflexivity | right; reflexivity] |]));
    cbn; right; reflexivity.
Qed.

Lemma world_of_pend : forall old, w_pend (world_of old) = [].
Proof. reflexivity. Qed.

Theorem crash_atomic : forall old p k, crash_allowed old p (w_disk (run_steps (world_of old) (firstn k (script_of old p)))).
Proof.
  intros old p k. destruct p as [| |rows|staged|new_rows|wt]; cbn [script_of crash_allowed].
  - rewrite firstn_nil. reflexivity.
  - destruct (safe_run_firstn (scan_script (length old)) k (world_of old) (safe_scan _) (world_of_pend old)) as [H _].
    exact H.
  - unfold world_of. apply crash_appends.
  - assert (Hs : forallb safe (TCreate :: scan_script (length old) ++ flat_map temp_append_script staged ++ cleanup_script) = true).
    { cbn [forallb]. rewrite !forallb_app, safe_scan, safe_temp_appends. reflexivity. }
    destruct (safe_run_firstn _ k (world_of old) Hs (world_of_pend old)) as [H _]. exact H.
  - change (TCreate :: scan_script (length old) ++ flat_map temp_append_script new_rows ++ swap_script ++ cleanup_script)
      with ((TCreate :: scan_script (length old)) ++ flat_map temp_append_script new_rows ++ swap_script ++ cleanup_script).
    rewrite app_assoc.
    change ((TCreate :: scan_script (length old)) ++ flat_map temp_append_script new_rows)
      with (TCreate :: scan_script (length old) ++ flat_map temp_append_script new_rows).
    set (pre := TCreate :: scan_script (length old) ++ flat_map temp_append_script new_rows).
    rewrite run_firstn_app.
    destruct (le_lt_dec (length pre) k) as [Hk|Hk].
    + rewrite firstn_all2 by exact Hk. unfold pre. rewrite run_pre.
      apply crash_swap_tail.
    + replace (k - length pre) with 0 by lia. cbn [firstn]. rewrite run_steps_nil.
      destruct (safe_run_firstn pre k (world_of old) (safe_pre _ _) (world_of_pend old)) as [H _].
      left. exact H.
  - destruct wt.
    + change (TCreate :: scan_script (length old) ++ reset_script ++ cleanup_script)
        with ((TCreate :: scan_script (length old)) ++ reset_script ++ cleanup_script).
      rewrite run_firstn_app.
      assert (Hs : forallb safe (TCreate :: scan_script (length old)) = true).
      { cbn [forallb]. rewrite safe_scan. reflexivity. }
      destruct (safe_run_firstn _ k (world_of old) Hs (world_of_pend old)) as [Hd Hp].
      pose proof (crash_reset_tail _ (k - length (TCreate :: scan_script (length old))) Hp) as H.
      cbv zeta in H. rewrite Hd in H. exact H.
    + do 3 (destruct k as [|k]; [cbn; rewrite ?app_nil_r; first [left; reflexivity | right; reflexivity] |]).
      cbn. right. reflexivity.
Qed.

Theorem crash_states_prefixes : forall w ss d, In d (crash_states w ss) <-> exists k, k <= length ss /\ d = w_disk (run_steps w (firstn k ss)).
Proof.
  intros w ss. revert w. induction ss as [|s ss IH]; intros w d.
  - cbn [crash_states]. split.
    + intros [H|[]]. exists 0. split; [cbn; lia | cbn; symmetry; exact H].
    + intros [k [_ H]]. rewrite firstn_nil in H. left. symmetry. exact H.
  - cbn [crash_states]. split.
    + intros [H|H].
      * exists 0. split; [lia | cbn; symmetry; exact H].
      * apply IH in H. destruct H as [k [Hk H]].
        exists (S k). split; [cbn [length]; lia | cbn [firstn]; rewrite run_steps_cons; exact H].
    + intros [k [Hk H]]. destruct k as [|k].
      * left. cbn in H. symmetry. exact H.
      * right. apply IH. exists k. cbn [length] in Hk. split; [lia|].
        cbn [firstn] in H. rewrite run_steps_cons in H. exact H.
Qed.

Theorem crash_states_allowed : forall old p d, In d (crash_states (world_of old) (script_of old p)) -> crash_allowed old p d.
Proof.
  intros old p d H. apply crash_states_prefixes in H. destruct H as [k [_ H]]. subst d. apply crash_atomic.
Qed.

Theorem crash_insert_keeps_old : forall old rows k, exists rest, w_disk (run_steps (world_of old) (firstn k (script_of old (PlAppend rows)))) = old ++ rest.
Proof.
  intros old rows k. destruct (crash_atomic old (PlAppend rows) k) as [j Hj].
  exists (firstn j rows). exact Hj.
Qed.

(* ------------------------------------------------------------------------------------ *)
(* 3. inserts are append-only, with size-independent I/O                                 *)

Theorem append_script_same_calls : forall old1 old2 rows, script_of old1 (PlAppend rows) = script_of old2 (PlAppend rows).
Proof. reflexivity. Qed.

Theorem append_script_length : forall old rows, length (script_of old (PlAppend rows)) = 6 * length rows.
Proof.
  intros old rows. cbn [script_of]. induction rows as [|r rows IH]; [reflexivity|].
  cbn [flat_map]. rewrite app_length, IH. cbn [append_script length]. lia.
Qed.

Theorem append_script_no_read : forall old rows, ~ In PNext (script_of old (PlAppend rows)) /\ ~ In PSeek0 (script_of old (PlAppend rows)) /\ ~ In PTruncate0 (script_of old (PlAppend rows)).
Proof.
  intros old rows. cbn [script_of].
  repeat split; intros H; apply in_flat_map in H; destruct H as [r [_ H]];
    cbn in H; repeat (destruct H as [H|H]; [discriminate H|]); exact H.
Qed.

Theorem append_prefix : forall old rows, exists added, w_disk (run_steps (world_of old) (script_of old (PlAppend rows))) = old ++ added.
Proof.
  intros old rows. exists rows. cbn [script_of]. unfold world_of. rewrite run_appends. reflexivity.
Qed.

(* ------------------------------------------------------------------------------------ *)
(* 4. reads and no-op writes change nothing and leave nothing behind                      *)

Definition pure_plan (p : plan) : Prop := match p with PlNone | PlRead | PlTempOnly _ => True | _ => False end.

Theorem pure_plan_disk_constant : forall old p k, pure_plan p -> w_disk (run_steps (world_of old) (firstn k (script_of old p))) = old.
Proof.
  intros old p k Hp.
  destruct p as [| |rows|staged|new_rows|wt]; cbn in Hp; try contradiction.
  - exact (crash_atomic old PlNone k).
  - exact (crash_atomic old PlRead k).
  - exact (crash_atomic old (PlTempOnly staged) k).
Qed.

Theorem no_leftovers : forall old p, w_leftover (run_steps (world_of old) (script_of old p)) = 0.
Proof.
  intros old p. pose proof (run_script_complete old p) as H. cbv zeta in H.
  destruct H as [_ [_ [_ [_ [H _]]]]]. exact H.
Qed.

(* ------------------------------------------------------------------------------------ *)
(* 5. non-vacuity                                                                        *)

Example crash_example : exists old p k, p = PlRewrite [] /\ old <> [] /\ w_disk (run_steps (world_of old) (firstn k (script_of old p))) = [].
Proof.
  exists [mkPoint 0%Z [] [] []], (PlRewrite []), 20.
  split; [reflexivity|]. split; [discriminate|]. vm_compute. reflexivity.
Qed.

Print Assumptions run_script_complete.
Print Assumptions crash_atomic.
Print Assumptions crash_states_allowed.
Print Assumptions crash_insert_keeps_old.
Print Assumptions append_script_no_read.
Print Assumptions pure_plan_disk_constant.
Print Assumptions no_leftovers.
