(* IndexDefs.v — what it means for an index to describe a list of stored points.
   The invariant is relational ("membership form"), not "equals a rebuilt index": after a
   partial remove the order of keys inside the inverted maps differs from a rebuild's, but
   every answer is a function of this relation. *)
From Coq Require Import List ZArith NArith Bool Arith Lia Sorted.
From TF Require Import Base Query Index proofs.TimeSearchP.
Import ListNotations.

(* what an entry (position i, payload v) under key k of an inverted map stands for *)
Definition meas_rel (pts : list point) (k : str) (i : nat) (v : unit) : Prop :=
  exists p, nth_error pts i = Some p /\ p_meas p = k.
Definition tag_rel (pts : list point) (k : tkey) (i : nat) (v : unit) : Prop :=
  exists p, nth_error pts i = Some p /\ In k (p_tags p).
Definition field_rel (pts : list point) (k : str) (i : nat) (v : option num) : Prop :=
  exists p, nth_error pts i = Some p /\ In (k, v) (p_fields p).

(* an inverted map represents the relation `rel`: keys pairwise distinct, no empty bucket,
   positions strictly ascending inside a bucket, entries sound and complete *)
Record MapRep {K V : Type} (m : imap K V) (rel : K -> nat -> V -> Prop) : Prop := mkMapRep {
  mr_nodup : NoDup (map fst m);
  mr_nonempty : forall k b, In (k, b) m -> b <> [];
  mr_sorted : forall k b, In (k, b) m -> StronglySorted lt (map fst b);
  mr_sound : forall k b i v, In (k, b) m -> In (i, v) b -> rel k i v;
  mr_complete : forall k i v, rel k i v -> exists b, In (k, b) m /\ In (i, v) b }.

(* the whole index describes pts (the valid flag is kept apart) *)
Record Rep (i : index) (pts : list point) : Prop := mkRep {
  rep_n : ix_n i = length pts;
  rep_time : TimeRep (ix_ts i) (ix_pos i) pts;
  rep_meas : MapRep (ix_meas i) (meas_rel pts);
  rep_tags : MapRep (ix_tags i) (tag_rel pts);
  rep_fields : MapRep (ix_fields i) (field_rel pts) }.

(* stored points have dictionaries with strictly ascending (hence unique) keys *)
Definition wf_point (p : point) : Prop := dsorted (p_tags p) = true /\ dsorted (p_fields p) = true.
Definition wf_points (pts : list point) : Prop := forall p, In p pts -> wf_point p.

(* the rows a removal keeps, and the new position of a kept row: the number of kept positions below it *)
Definition keep_rows (rm : nat -> bool) (pts : list point) : list point :=
  map snd (filter (fun ip => negb (rm (fst ip))) (combine (seq 0 (length pts)) pts)).
Definition renum (rm : nat -> bool) (i : nat) : nat := length (filter (fun j => negb (rm j)) (seq 0 i)).
