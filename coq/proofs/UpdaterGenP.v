(* UpdaterGenP.v - the per-point updater translated from database.py (gen/UpdaterGen.v) IS the model's DB.perform_update, for every argument record and
   every point whose tag and field mappings have distinct keys (kept sorted in the model). *)
From Coq Require Import List Bool ZArith NArith.
From TF Require Import Base Query DB UpdaterSem proofs.BaseP.
From TF Require Import gen.UpdaterGen.
Import ListNotations.

Section P.
Variable C : cenv.

Definition sorted_pt (p : point) : Prop := dsorted (p_tags p) = true /\ dsorted (p_fields p) = true.

(* the model's steps, named *)
Definition m_time (u : updspec) (p : point) : option point :=
  match u_time u with UNone => Some p | UStatic t => Some (set_time p t) | UCall id => option_map (set_time p) (c_time C id (p_time p)) end.
Definition m_meas (u : updspec) (p1 : point) : option point :=
  match u_meas u with UNone => Some p1 | UStatic [] => Some p1 | UStatic m => Some (set_meas p1 m)
  | UCall id => option_map (set_meas p1) (c_meas C id (p_meas p1)) end.
Definition m_tags (u : updspec) (p2 : point) : option point :=
  match u_tags u with UNone => Some p2 | UStatic d => Some (set_tags p2 (dupdate (p_tags p2) d))
  | UCall id => option_map (fun d => set_tags p2 (dupdate (p_tags p2) d)) (c_tags C id (p_tags p2)) end.
Definition m_fields (u : updspec) (p3 : point) : option point :=
  match u_fields u with UNone => Some p3 | UStatic d => Some (set_fields p3 (dupdate (p_fields p3) d))
  | UCall id => option_map (fun d => set_fields p3 (dupdate (p_fields p3) d)) (c_fields C id (p_fields p3)) end.
Definition m_unset_tags (u : updspec) (p4 : point) : point := set_tags p4 (fold_left (fun d k => ddel k d) (u_unset_tags u) (p_tags p4)).
Definition m_unset_fields (u : updspec) (p5 : point) : point := set_fields p5 (fold_left (fun d k => ddel k d) (u_unset_fields u) (p_fields p5)).

Lemma model_as_chain u p : perform_update C u p =
  match m_time u p with None => UFail p | Some p1 =>
  match m_meas u p1 with None => UFail p1 | Some p2 =>
  match m_tags u p2 with None => UFail p2 | Some p3 =>
  match m_fields u p3 with None => UFail p3 | Some p4 =>
  UOk (m_unset_fields u (m_unset_tags u p4)) end end end end.
Proof. reflexivity. Qed.

Lemma eta_pt p : mkPoint (p_time p) (p_meas p) (p_tags p) (p_fields p) = p.
Proof. destruct p; reflexivity. Qed.

(* the first four steps: equal outright *)
Lemma step_time_eq u p : gen_step_time C u p = m_time u p.
Proof. unfold gen_step_time, m_time, truthy_time. destruct (u_time u); reflexivity. Qed.
Lemma step_meas_eq u p : gen_step_measurement C u p = m_meas u p.
Proof. unfold gen_step_measurement, m_meas, truthy_str. destruct (u_meas u) as [|[|c s]|id]; reflexivity. Qed.
Lemma step_tags_eq u p : gen_step_tags C u p = m_tags u p.
Proof.
  unfold gen_step_tags, m_tags, truthy_dict. destruct (u_tags u) as [|[|kv d]|id]; try reflexivity.
  cbn [nonempty dupdate fold_left]. unfold set_tags. rewrite eta_pt. reflexivity.
Qed.
Lemma step_fields_eq u p : gen_step_fields C u p = m_fields u p.
Proof.
  unfold gen_step_fields, m_fields, truthy_dict. destruct (u_fields u) as [|[|kv d]|id]; try reflexivity.
  cbn [nonempty dupdate fold_left]. unfold set_fields. rewrite eta_pt. reflexivity.
Qed.

(* the dict comprehension against repeated deletion: equal on a mapping with distinct (sorted) keys *)
Lemma filter_true {A} (f : A -> bool) l : (forall x, In x l -> f x = true) -> filter f l = l.
Proof.
  induction l as [|x xs IH]; intros H; cbn [filter]; [reflexivity|].
  rewrite (H x (or_introl eq_refl)). rewrite IH; [reflexivity|]. intros y Hy. apply H. right. exact Hy.
Qed.

Lemma ddel_filter (V : Type) k (d : list (str * V)) : dsorted d = true ->
  ddel k d = filter (fun kv => negb (str_eqb k (fst kv))) d.
Proof.
  induction d as [|[k1 v1] r IH]; intros Hs; cbn [ddel filter fst]; [reflexivity|].
  apply dsorted_cons_iff in Hs. destruct Hs as [Hr Hk].
  destruct (str_eqb k k1) eqn:E; cbn [negb].
  - apply str_eqb_eq in E. subst k1. symmetry. apply filter_true. intros kv Hin.
    destruct (str_eqb k (fst kv)) eqn:E2; [|reflexivity].
    apply str_eqb_eq in E2. specialize (Hk kv Hin). rewrite <- E2, str_ltb_irrefl in Hk. discriminate.
  - rewrite IH by exact Hr. reflexivity.
Qed.

Lemma filter_filter {A} (f g : A -> bool) l : filter f (filter g l) = filter (fun x => g x && f x) l.
Proof.
  induction l as [|x xs IH]; cbn [filter]; [reflexivity|].
  destruct (g x); cbn [filter andb]; [destruct (f x); rewrite IH; reflexivity|exact IH].
Qed.

Lemma fold_ddel_filter (V : Type) ks : forall (d : list (str * V)), dsorted d = true ->
  fold_left (fun d k => ddel k d) ks d = dict_without ks d.
Proof.
  unfold dict_without. induction ks as [|k ks IH]; intros d Hs; cbn [fold_left existsb].
  - symmetry. apply filter_true. intros; reflexivity.
  - rewrite IH by (apply dsorted_ddel; exact Hs). rewrite ddel_filter by exact Hs. rewrite filter_filter.
    apply filter_ext. intros kv. rewrite negb_orb. reflexivity.
Qed.

Lemma step_unset_tags_eq u p : dsorted (p_tags p) = true -> gen_step_unset_tags u p = Some (m_unset_tags u p).
Proof.
  intros Hs. unfold gen_step_unset_tags, m_unset_tags, truthy_keys. destruct (u_unset_tags u) as [|k ks] eqn:E.
  - cbn [nonempty fold_left]. unfold set_tags. rewrite eta_pt. reflexivity.
  - cbn [nonempty]. rewrite (fold_ddel_filter _ (k :: ks) _ Hs). reflexivity.
Qed.
Lemma step_unset_fields_eq u p : dsorted (p_fields p) = true -> gen_step_unset_fields u p = Some (m_unset_fields u p).
Proof.
  intros Hs. unfold gen_step_unset_fields, m_unset_fields, truthy_keys. destruct (u_unset_fields u) as [|k ks] eqn:E.
  - cbn [nonempty fold_left]. unfold set_fields. rewrite eta_pt. reflexivity.
  - cbn [nonempty]. rewrite (fold_ddel_filter _ (k :: ks) _ Hs). reflexivity.
Qed.

(* distinct keys are kept by every step *)
Lemma m_time_sorted u p p' : sorted_pt p -> m_time u p = Some p' -> sorted_pt p'.
Proof.
  intros H E. unfold m_time in E. destruct (u_time u) as [|t|id].
  - injection E as <-. exact H.
  - injection E as <-. exact H.
  - destruct (c_time C id (p_time p)); [|discriminate]. injection E as <-. exact H.
Qed.
Lemma m_meas_sorted u p p' : sorted_pt p -> m_meas u p = Some p' -> sorted_pt p'.
Proof.
  intros H E. unfold m_meas in E. destruct (u_meas u) as [|[|c s]|id].
  - injection E as <-. exact H.
  - injection E as <-. exact H.
  - injection E as <-. exact H.
  - destruct (c_meas C id (p_meas p)); [|discriminate]. injection E as <-. exact H.
Qed.
Lemma m_tags_sorted u p p' : sorted_pt p -> m_tags u p = Some p' -> sorted_pt p'.
Proof.
  intros [Ht Hf] E. unfold m_tags in E. destruct (u_tags u) as [|d|id].
  - injection E as <-. split; assumption.
  - injection E as <-. split; [apply dsorted_dupdate; exact Ht|exact Hf].
  - destruct (c_tags C id (p_tags p)); [|discriminate]. injection E as <-. split; [apply dsorted_dupdate; exact Ht|exact Hf].
Qed.
Lemma m_fields_sorted u p p' : sorted_pt p -> m_fields u p = Some p' -> sorted_pt p'.
Proof.
  intros [Ht Hf] E. unfold m_fields in E. destruct (u_fields u) as [|d|id].
  - injection E as <-. split; assumption.
  - injection E as <-. split; [exact Ht|apply dsorted_dupdate; exact Hf].
  - destruct (c_fields C id (p_fields p)); [|discriminate]. injection E as <-. split; [exact Ht|apply dsorted_dupdate; exact Hf].
Qed.

Theorem gen_perform_update_eq u p : sorted_pt p -> gen_perform_update C u p = perform_update C u p.
Proof.
  first [ intros H; rewrite model_as_chain; unfold gen_perform_update;
          rewrite step_time_eq; destruct (m_time u p) as [p1|] eqn:E1; [|reflexivity];
          pose proof (m_time_sorted _ _ _ H E1) as H1;
          rewrite step_meas_eq; destruct (m_meas u p1) as [p2|] eqn:E2; [|reflexivity];
          pose proof (m_meas_sorted _ _ _ H1 E2) as H2;
          rewrite step_tags_eq; destruct (m_tags u p2) as [p3|] eqn:E3; [|reflexivity];
          pose proof (m_tags_sorted _ _ _ H2 E3) as H3;
          rewrite step_fields_eq; destruct (m_fields u p3) as [p4|] eqn:E4; [|reflexivity];
          pose proof (m_fields_sorted _ _ _ H3 E4) as [H4t H4f];
          rewrite (step_unset_tags_eq u p4 H4t);
          rewrite (step_unset_fields_eq u (m_unset_tags u p4)) by (unfold m_unset_tags, set_tags; cbn [p_fields]; exact H4f);
          reflexivity ].
Qed.

End P.
