(* IOGenP.v — the I/O calls CSVStorage makes, regenerated from tinyflux/storages.py on every run (gen/IOGen.v: symbolic execution of
   append, _write([]) / reset, _init_temp_storage, _swap_temp_with_primary, _cleanup_temp_storage along their success path), are the
   scripts of the model IO.v: per appended row seek-end / write / flush / fileno / fsync / truncate, a rewrite = create the temporary
   file, scan, stage every row, flush, close the primary, copy to the staged name, replace, reopen, close and remove the temporary file.
   Every theorem about IO.script_of (crash states C12, faults C13, nothing left behind C15, append-only C16, disk = target C04) is thereby a
   theorem about the calls the source makes now. *)
From Coq Require Import List Bool Arith Lia.
From TF Require gen.IOGen.
From TF Require Import Base Query Index DB IO.
Import ListNotations.

Lemma gen_append_primary row : IOGen.gen_append false true [row] = append_script row.
Proof. reflexivity. Qed.
Lemma gen_append_temp row : IOGen.gen_append true true [row] = temp_append_script row.
Proof. reflexivity. Qed.
(* flush_on_insert off: the row stays in the handle's buffer (seek-end, write; nothing forced to disk) *)
Lemma gen_append_unflushed row : IOGen.gen_append false false [row] = [PSeekEnd; PWrite row].
Proof. reflexivity. Qed.
Lemma gen_reset_eq : IOGen.gen_reset = reset_script.
Proof. reflexivity. Qed.
Lemma gen_swap_eq : IOGen.gen_swap = swap_script.
Proof. reflexivity. Qed.
Lemma gen_cleanup_eq : IOGen.gen_cleanup = cleanup_script.
Proof. reflexivity. Qed.
Lemma gen_init_temp_eq : IOGen.gen_init_temp = [TCreate].
Proof. reflexivity. Qed.
Lemma gen_iter_eq n : IOGen.gen_iter_start ++ repeat PNext (S n) = scan_script n.
Proof. reflexivity. Qed.

Lemma flat_map_ext_eq {A B} (f g : A -> list B) l : (forall x, f x = g x) -> flat_map f l = flat_map g l.
Proof. intro H. induction l as [|x r IH]; cbn; [reflexivity|]. now rewrite H, IH. Qed.

(* the whole plans of IO.v, spelled with the generated pieces only (database.py calls storage.append once per row) *)
Definition gen_script_of (old : list point) (p : plan) : list iostep :=
  let scan := IOGen.gen_iter_start ++ repeat PNext (S (length old)) in
  match p with
  | PlNone => []
  | PlRead => scan
  | PlAppend rows => flat_map (fun r => IOGen.gen_append false true [r]) rows
  | PlTempOnly staged => IOGen.gen_init_temp ++ scan ++ flat_map (fun r => IOGen.gen_append true true [r]) staged ++ IOGen.gen_cleanup
  | PlRewrite new_rows => IOGen.gen_init_temp ++ scan ++ flat_map (fun r => IOGen.gen_append true true [r]) new_rows
                          ++ IOGen.gen_swap ++ IOGen.gen_cleanup
  | PlReset true => IOGen.gen_init_temp ++ scan ++ IOGen.gen_reset ++ IOGen.gen_cleanup
  | PlReset false => IOGen.gen_reset
  end.

Theorem gen_script_of_eq : forall old p, gen_script_of old p = script_of old p.
Proof.
  intros old [| |rows|staged|new_rows|[|]]; reflexivity.
Qed.

(* with which options handles are opened *)
Theorem gen_handle_options :
  IOGen.temp_uses_storage_encoding = true /\ IOGen.temp_untranslated_newlines = true /\ IOGen.temp_kept_until_removed = true /\
  IOGen.reopen_uses_storage_encoding = true /\ IOGen.reopen_uses_storage_newline = true /\ IOGen.reopen_never_truncates = true /\
  IOGen.reopen_same_file = true /\ IOGen.open_uses_given_options = true /\ IOGen.newline_default_untranslated = true.
Proof. repeat split; reflexivity. Qed.
