(* LawsP.v - algebraic laws of the API a user relies on without thinking, as corollaries of the specifications:
   what was removed is gone and removing it again removes nothing; a query and its negation split the (filtered)
   database; & and | are intersection and union of answers; count / contains / get agree with search;
   drop_measurement is the removal by measurement name; an insert shows up in len, all and every later search. *)
From Coq Require Import List ZArith NArith Bool Arith Lia Permutation.
From TF Require Import Base Query Index DB Spec proofs.BaseP proofs.QueryP proofs.IndexDefs proofs.RepP proofs.DBReadP
     proofs.DBRemoveP proofs.DBStepP proofs.DBSpecP proofs.SelectP.
Import ListNotations.

Section Laws.
Variable E : env.
Variable C : cenv.
Variable norm : point -> point.

Lemma filter_filter_neg {A} (f : A -> bool) l : filter f (filter (fun x => negb (f x)) l) = [].
Proof. induction l as [|x l IH]; [reflexivity|]. cbn [filter]. destruct (f x) eqn:Ef; cbn [negb filter]; [exact IH|]. now rewrite Ef. Qed.
Lemma filter_neg_idem {A} (f : A -> bool) l : filter (fun x => negb (f x)) (filter (fun x => negb (f x)) l) = filter (fun x => negb (f x)) l.
Proof. induction l as [|x l IH]; [reflexivity|]. cbn [filter]. destruct (f x) eqn:Ef; cbn [negb filter]; [exact IH|]. rewrite Ef. cbn [negb]. now f_equal. Qed.

Lemma filter_partition_len {A} (f g h : A -> bool) l :
  (forall x, h x = true -> xorb (f x) (g x) = true) -> (forall x, h x = false -> f x = false /\ g x = false) ->
  length (filter f l) + length (filter g l) = length (filter h l).
Proof.
  intros H1 H0. induction l as [|x l IH]; [reflexivity|]. cbn [filter]. destruct (h x) eqn:Eh.
  - specialize (H1 x Eh). destruct (f x), (g x); cbn in H1; try discriminate; cbn [length]; lia.
  - destruct (H0 x Eh) as [-> ->]. exact IH.
Qed.

(* what a removal selected is gone afterwards, for every later read; removing it again removes nothing and changes nothing *)
Theorem removed_is_gone s q m : Inv s -> wf_query E q -> index_safe q ->
  let s' := fst (db_remove E s q m) in
  spec_search E q m false (st_rows s') = [] /\ spec_count E q m (st_rows s') = 0 /\ spec_contains E q m (st_rows s') = false /\
  snd (db_remove E s' q m) = ONat 0 /\ st_rows (fst (db_remove E s' q m)) = st_rows s'.
Proof.
  intros HI Hq Hs. cbv zeta. destruct (db_remove_spec E s q m HI Hq Hs) as [_ [Hr [_ HI']]].
  assert (Hnone : filter (hit E q m) (st_rows (fst (db_remove E s q m))) = []) by (rewrite Hr; apply filter_filter_neg).
  split; [exact Hnone|]. split; [unfold spec_count; now rewrite Hnone|].
  split.
  { unfold spec_contains. destruct (existsb (hit E q m) (st_rows (fst (db_remove E s q m)))) eqn:Ex; [|reflexivity].
    apply existsb_exists in Ex. destruct Ex as [p [Hp Hh]].
    assert (In p (filter (hit E q m) (st_rows (fst (db_remove E s q m))))) by (apply filter_In; auto). rewrite Hnone in H. contradiction. }
  destruct (db_remove_spec E _ q m HI' Hq Hs) as [Hc [Hr2 _]]. split.
  - rewrite Hc, Hnone. reflexivity.
  - rewrite Hr2, Hr. apply filter_neg_idem.
Qed.

(* a query and its negation split the database (restricted to the measurement filter): no point in both, every point in one *)
Theorem query_and_negation_partition q m db :
  spec_count E q m db + spec_count E (QNot q) m db = length (filter (meas_pass m) db) /\
  (forall p, hit E q m p = true -> hit E (QNot q) m p = false).
Proof.
  split.
  - unfold spec_count. apply filter_partition_len; intros p Hp; unfold hit; cbn [denote]; rewrite Hp; cbn [andb]; [destruct (denote E q p); reflexivity | split; reflexivity].
  - intros p. unfold hit. cbn [denote]. destruct (meas_pass m p), (denote E q p); cbn; congruence.
Qed.

(* & is the intersection and | the union of the answers (as filters on the stored list, order kept) *)
Theorem and_is_intersection a b m db :
  spec_search E (QAnd a b) m false db = filter (fun p => denote E b p) (spec_search E a m false db).
Proof.
  unfold spec_search, hit. induction db as [|p db IH]; [reflexivity|]. cbn [filter denote].
  destruct (meas_pass m p) eqn:Em, (denote E a p) eqn:Ea; cbn [andb filter]; try exact IH.
  destruct (denote E b p) eqn:Eb; [now f_equal | exact IH].
Qed.
Theorem or_is_union a b m db p :
  In p (spec_search E (QOr a b) m false db) <-> In p (spec_search E a m false db) \/ In p (spec_search E b m false db).
Proof using E.
  unfold spec_search. rewrite !filter_In. unfold hit. cbn [denote]. split.
  - intros [Hi Hh]. apply andb_prop in Hh. destruct Hh as [Hm Hd]. apply orb_prop in Hd.
    destruct Hd as [Hd|Hd]; [left|right]; (split; [exact Hi | now rewrite Hm, Hd]).
  - intros [[Hi Hh]|[Hi Hh]]; apply andb_prop in Hh; destruct Hh as [Hm Hd]; (split; [exact Hi | rewrite Hm, Hd; cbn [andb orb]; now rewrite ?orb_true_r]).
Qed.
Theorem and_commutes a b m db : spec_search E (QAnd a b) m false db = spec_search E (QAnd b a) m false db.
Proof. unfold spec_search. apply filter_ext. intros p. unfold hit. cbn [denote]. now rewrite andb_comm with (b1 := denote E a p). Qed.
Theorem or_commutes a b m db : spec_search E (QOr a b) m false db = spec_search E (QOr b a) m false db.
Proof. unfold spec_search. apply filter_ext. intros p. unfold hit. cbn [denote]. now rewrite orb_comm with (b1 := denote E a p). Qed.
Theorem double_negation q m db : spec_search E (QNot (QNot q)) m false db = spec_search E q m false db.
Proof. unfold spec_search. apply filter_ext. intros p. unfold hit. cbn [denote]. now rewrite negb_involutive. Qed.
Theorem noop_selects_everything a m db : spec_search E (QNoop a) m false db = filter (meas_pass m) db.
Proof. unfold spec_search. apply filter_ext. intros p. unfold hit. cbn [denote]. apply andb_true_r. Qed.

(* drop_measurement(name) is the removal of the points whose measurement is name *)
Theorem drop_is_removal_by_name s name : Inv s -> name <> [] ->
  st_rows (fst (db_drop E s name)) = st_rows (fst (db_remove E s (QS AMeas [] (TCmp Ceq (VStr name))) None)) /\
  snd (db_drop E s name) = snd (db_remove E s (QS AMeas [] (TCmp Ceq (VStr name))) None).
Proof.
  intros HI Hn. destruct (db_drop_spec E s name HI Hn) as [Hc [Hr _]].
  assert (Hq : wf_query E (QS AMeas [] (TCmp Ceq (VStr name)))) by exact I.
  assert (Hs : index_safe (QS AMeas [] (TCmp Ceq (VStr name)))) by (apply dsl_index_safe; reflexivity).
  destruct (db_remove_spec E s _ None HI Hq Hs) as [Hc2 [Hr2 _]].
  assert (Hh : forall p, hit E (QS AMeas [] (TCmp Ceq (VStr name))) None p = str_eqb (p_meas p) name).
  { intros p. unfold hit, meas_pass, truthy. cbn [andb denote denote_simple resolve attr_value denote_test pycmp].
    unfold denote_simple. cbn. destruct (str_eqb (p_meas p) name); reflexivity. }
  split.
  - rewrite Hr, Hr2. apply filter_ext. intros p. now rewrite Hh.
  - rewrite Hc, Hc2. f_equal; try (f_equal; apply filter_ext; intros p; now rewrite Hh).
Qed.

(* an insert shows: len grows by the number of points, they are the tail of all(), and a later search finds exactly
   the old answers followed by the matching new points *)
Theorem insert_shows s ps m q mf : Inv s -> wf_insert norm ps m -> all_points ps = true ->
  let s' := fst (db_insert norm s ps m) in
  length (st_rows s') = length (st_rows s) + length ps /\
  spec_search E q mf false (st_rows s') = spec_search E q mf false (st_rows s) ++ spec_search E q mf false (map (rename m) (prefix_points ps)).
Proof.
  intros HI Hw Ha. cbv zeta. destruct (db_insert_spec norm s ps m HI Hw) as [Hr _]. rewrite Hr. split.
  - rewrite app_length, map_length. f_equal. clear -Ha. induction ps as [|[p|] ps IH]; cbn in *; [reflexivity| |discriminate]. f_equal. now apply IH.
  - unfold spec_search. apply filter_app.
Qed.
End Laws.

(* ---- getters ------------------------------------------------------------------------------------------- *)
Section GetterLaws.
Variable E : env.

(* a dropped measurement is no longer listed, and nothing else disappears from the list *)
Theorem drop_removes_measurement s name : Inv s -> name <> [] ->
  let db' := st_rows (fst (db_drop E s name)) in
  ~ In name (spec_measurements db') /\
  (forall m, m <> name -> In m (spec_measurements (st_rows s)) -> In m (spec_measurements db')).
Proof.
  intros HI Hn. cbv zeta. destruct (db_drop_spec E s name HI Hn) as [_ [Hr _]]. rewrite Hr. unfold spec_measurements. split.
  - rewrite sort_dedup_In, in_map_iff. intros [p [Hm Hp]]. apply filter_In in Hp. destruct Hp as [_ Hf].
    rewrite <- Hm in Hf. apply negb_true_iff in Hf. assert (str_eqb (p_meas p) (p_meas p) = true) by (apply str_eqb_eq; reflexivity). congruence.
  - intros m Hm. rewrite !sort_dedup_In, !in_map_iff. intros [p [Hpm Hp]]. exists p. split; [exact Hpm|].
    apply filter_In. split; [exact Hp|]. apply negb_true_iff. destruct (str_eqb (p_meas p) name) eqn:Ee; [|reflexivity].
    apply str_eqb_eq in Ee. congruence.
Qed.

(* an insert only adds: every measurement, tag key and field key listed before is still listed afterwards *)
Theorem getters_grow_with_inserts m db new :
  (forall x, In x (spec_measurements db) -> In x (spec_measurements (db ++ new))) /\
  (forall x, In x (spec_tag_keys m db) -> In x (spec_tag_keys m (db ++ new))) /\
  (forall x, In x (spec_field_keys m db) -> In x (spec_field_keys m (db ++ new))) /\
  spec_len (db ++ new) = spec_len db + length new /\
  spec_timestamps m (db ++ new) = spec_timestamps m db ++ spec_timestamps m new.
Proof.
  unfold spec_measurements, spec_tag_keys, spec_field_keys, spec_len, spec_timestamps, in_meas.
  repeat split.
  - intros x. rewrite !sort_dedup_In, map_app, in_app_iff. auto.
  - intros x. rewrite !sort_dedup_In. destruct (truthy m); rewrite ?filter_app, flat_map_app, in_app_iff; auto.
  - intros x. rewrite !sort_dedup_In. destruct (truthy m); rewrite ?filter_app, flat_map_app, in_app_iff; auto.
  - apply app_length.
  - destruct (truthy m); rewrite ?filter_app, map_app; reflexivity.
Qed.
End GetterLaws.
