(* MapRepP.v — inverted maps: the representation invariant MapRep is preserved by
   im_add / im_remove / im_renumber, and characterises im_get / im_has. *)
From Coq Require Import List ZArith NArith Bool Arith Lia Sorted.
From TF Require Import Base Query Index proofs.BaseP proofs.IndexDefs.
Import ListNotations.

(* ---------- generic list helpers ---------- *)

Lemma SSlt_app_last : forall (l : list nat) n,
  StronglySorted lt l -> (forall i, In i l -> i < n) -> StronglySorted lt (l ++ [n]).
Proof.
  induction l as [|a l IH]; intros n Hs Hlt.
  - cbn [app]. constructor. constructor. constructor.
  - cbn [app]. inversion Hs as [|a' l' Hs' Hall]; subst.
    constructor.
    + apply IH. exact Hs'. intros i Hi. apply Hlt. right. exact Hi.
    + apply Forall_forall. intros x Hx. apply in_app_or in Hx. destruct Hx as [Hx|Hx].
      * rewrite Forall_forall in Hall. apply Hall. exact Hx.
      * cbn [In] in Hx. destruct Hx as [Hx|[]]. subst x. apply Hlt. left. reflexivity.
Qed.

Lemma SSlt_NoDup : forall l : list nat, StronglySorted lt l -> NoDup l.
Proof.
  induction l as [|a l IH]; intros Hs.
  - constructor.
  - inversion Hs as [|a' l' Hs' Hall]; subst. constructor.
    + intro Hin. rewrite Forall_forall in Hall. apply Hall in Hin. lia.
    + apply IH. exact Hs'.
Qed.

Lemma SSlt_map_fst_filter : forall {V : Type} (p : nat * V -> bool) (b : list (nat * V)),
  StronglySorted lt (map fst b) -> StronglySorted lt (map fst (filter p b)).
Proof.
  intros V p. induction b as [|x b IH]; intros Hs.
  - cbn [filter map]. constructor.
  - cbn [map] in Hs. inversion Hs as [|a' l' Hs' Hall]; subst.
    cbn [filter]. destruct (p x) eqn:E.
    + cbn [map]. constructor.
      * apply IH. exact Hs'.
      * apply Forall_forall. intros y Hy. rewrite Forall_forall in Hall. apply Hall.
        apply in_map_iff in Hy. destruct Hy as [z [Hz1 Hz2]]. apply filter_In in Hz2.
        apply in_map_iff. exists z. split. exact Hz1. apply Hz2.
    + apply IH. exact Hs'.
Qed.

Lemma SSlt_map_mono : forall (f : nat -> nat) (l : list nat),
  StronglySorted lt l ->
  (forall i j, In i l -> In j l -> i < j -> f i < f j) ->
  StronglySorted lt (map f l).
Proof.
  intros f. induction l as [|a l IH]; intros Hs Hm.
  - cbn [map]. constructor.
  - inversion Hs as [|a' l' Hs' Hall]; subst. cbn [map]. constructor.
    + apply IH. exact Hs'. intros i j Hi Hj Hij. apply Hm. right; exact Hi. right; exact Hj. exact Hij.
    + apply Forall_forall. intros y Hy. apply in_map_iff in Hy. destruct Hy as [z [Hz1 Hz2]]. subst y.
      apply Hm. left; reflexivity. right; exact Hz2.
      rewrite Forall_forall in Hall. apply Hall. exact Hz2.
Qed.

Lemma NoDup_app_last : forall {A : Type} (l : list A) a, NoDup l -> ~ In a l -> NoDup (l ++ [a]).
Proof.
  intros A. induction l as [|x l IH]; intros a Hn Hni.
  - cbn [app]. constructor. intros []. constructor.
  - cbn [app]. inversion Hn as [|x' l' Hx Hn']; subst. constructor.
    + intro Hin. apply in_app_or in Hin. destruct Hin as [Hin|Hin].
      * apply Hx. exact Hin.
      * cbn [In] in Hin. destruct Hin as [Hin|[]]. subst a. apply Hni. left. reflexivity.
    + apply IH. exact Hn'. intro Hin. apply Hni. right. exact Hin.
Qed.

Lemma in_map_fst_pair : forall {A B : Type} (l : list (A * B)) a b, In (a, b) l -> In a (map fst l).
Proof.
  intros A B l a b H. apply in_map_iff. exists (a, b). split. reflexivity. exact H.
Qed.

Lemma in_map_fst_ex : forall {A B : Type} (l : list (A * B)) a, In a (map fst l) -> exists b, In (a, b) l.
Proof.
  intros A B l a H. apply in_map_iff in H. destruct H as [[a' b] [H1 H2]]. cbn [fst] in H1. subst a'.
  exists b. exact H2.
Qed.

Section MapRepP.
Context {K V : Type} (keqb : K -> K -> bool).
Hypothesis keqb_eq : forall a b, keqb a b = true <-> a = b.

Lemma keqb_refl : forall a, keqb a a = true.
Proof. intro a. apply keqb_eq. reflexivity. Qed.

Lemma keqb_neq : forall a b, keqb a b = false <-> a <> b.
Proof.
  intros a b. split.
  - intros H E. apply keqb_eq in E. rewrite E in H. discriminate.
  - intros H. destruct (keqb a b) eqn:E. apply keqb_eq in E. contradiction. reflexivity.
Qed.

Lemma MapRep_nil : forall rel, (forall k i v, ~ rel k i v) -> MapRep (@nil (K * list (nat * V))) rel.
Proof.
  intros rel Hn. constructor.
  - cbn [map]. constructor.
  - intros k b [].
  - intros k b [].
  - intros k b i v [].
  - intros k i v H. exfalso. apply (Hn k i v). exact H.
Qed.

Lemma MapRep_ext : forall (m : imap K V) rel rel', (forall k i v, rel k i v <-> rel' k i v) -> MapRep m rel -> MapRep m rel'.
Proof.
  intros m rel rel' He H. destruct H as [H1 H2 H3 H4 H5]. constructor.
  - exact H1.
  - exact H2.
  - exact H3.
  - intros k b i v Hk Hi. apply He. apply (H4 k b i v Hk Hi).
  - intros k i v Hr. apply He in Hr. apply H5. exact Hr.
Qed.

Lemma im_get_In : forall (m : imap K V) k b, NoDup (map fst m) -> In (k, b) m -> im_get keqb k m = b.
Proof.
  induction m as [|[k0 b0] r IH]; intros k b Hn Hin.
  - destruct Hin.
  - cbn [map fst] in Hn. inversion Hn as [|x l Hx Hn']; subst.
    cbn [im_get]. cbn [In] in Hin. destruct Hin as [Hin|Hin].
    + inversion Hin; subst. rewrite keqb_refl. reflexivity.
    + destruct (keqb k k0) eqn:E.
      * apply keqb_eq in E. subst k0. exfalso. apply Hx. apply (in_map_fst_pair r k b Hin).
      * apply IH. exact Hn'. exact Hin.
Qed.

Lemma im_get_notin : forall (m : imap K V) k, (forall b, ~ In (k, b) m) -> im_get keqb k m = [].
Proof.
  induction m as [|[k0 b0] r IH]; intros k Hn.
  - reflexivity.
  - cbn [im_get]. destruct (keqb k k0) eqn:E.
    + apply keqb_eq in E. subst k0. exfalso. apply (Hn b0). left. reflexivity.
    + apply IH. intros b Hb. apply (Hn b). right. exact Hb.
Qed.

Lemma im_has_In : forall (m : imap K V) k, im_has keqb k m = true <-> exists b, In (k, b) m.
Proof.
  intros m k. unfold im_has. rewrite existsb_exists. split.
  - intros [[k0 b0] [Hin He]]. cbn [fst] in He. apply keqb_eq in He. subst k0. exists b0. exact Hin.
  - intros [b Hin]. exists (k, b). split. exact Hin. cbn [fst]. apply keqb_refl.
Qed.

Lemma im_has_false : forall (m : imap K V) k, im_has keqb k m = false -> forall b, ~ In (k, b) m.
Proof.
  intros m k H b Hin. assert (Ht : im_has keqb k m = true). { apply im_has_In. exists b. exact Hin. }
  rewrite Ht in H. discriminate.
Qed.

Lemma MapRep_get : forall (m : imap K V) rel k i v, MapRep m rel -> (In (i, v) (im_get keqb k m) <-> rel k i v).
Proof.
  intros m rel k i v H. destruct H as [H1 H2 H3 H4 H5]. split.
  - intros Hin. destruct (im_has keqb k m) eqn:E.
    + apply im_has_In in E. destruct E as [b Hb].
      rewrite (im_get_In m k b H1 Hb) in Hin. apply (H4 k b i v Hb Hin).
    + rewrite (im_get_notin m k (im_has_false m k E)) in Hin. destruct Hin.
  - intros Hr. apply H5 in Hr. destruct Hr as [b [Hb Hi]].
    rewrite (im_get_In m k b H1 Hb). exact Hi.
Qed.

Lemma MapRep_has : forall (m : imap K V) rel k, MapRep m rel -> (im_has keqb k m = true <-> exists i v, rel k i v).
Proof.
  intros m rel k H. rewrite im_has_In. destruct H as [H1 H2 H3 H4 H5]. split.
  - intros [b Hb]. destruct b as [|[i v] b'].
    + exfalso. apply (H2 k [] Hb). reflexivity.
    + exists i, v. apply (H4 k ((i, v) :: b') i v Hb). left. reflexivity.
  - intros [i [v Hr]]. apply H5 in Hr. destruct Hr as [b [Hb _]]. exists b. exact Hb.
Qed.

Lemma MapRep_get_sorted : forall (m : imap K V) rel k, MapRep m rel -> StronglySorted lt (map fst (im_get keqb k m)).
Proof.
  intros m rel k H. destruct H as [H1 H2 H3 H4 H5].
  destruct (im_has keqb k m) eqn:E.
  - apply im_has_In in E. destruct E as [b Hb]. rewrite (im_get_In m k b H1 Hb). apply (H3 k b Hb).
  - rewrite (im_get_notin m k (im_has_false m k E)). cbn [map]. constructor.
Qed.

(* ---------- im_add ---------- *)

Lemma im_add_keys : forall (m : imap K V) k n v,
  map fst (im_add keqb k n v m) = if im_has keqb k m then map fst m else map fst m ++ [k].
Proof.
  induction m as [|[k0 b0] r IH]; intros k n v.
  - reflexivity.
  - cbn [im_add]. unfold im_has. cbn [existsb fst]. destruct (keqb k k0) eqn:E.
    + cbn [orb map fst]. reflexivity.
    + cbn [orb map fst]. rewrite IH. unfold im_has.
      destruct (existsb (fun kb => keqb k (fst kb)) r); reflexivity.
Qed.

Lemma im_add_In : forall (m : imap K V) k n v k' b', NoDup (map fst m) ->
  (In (k', b') (im_add keqb k n v m) <->
   (k' <> k /\ In (k', b') m) \/ (k' = k /\ b' = im_get keqb k m ++ [(n, v)])).
Proof.
  induction m as [|[k0 b0] r IH]; intros k n v k' b' Hn.
  - cbn [im_add im_get In app]. split.
    + intros [H|[]]. inversion H; subst. right. split; reflexivity.
    + intros [[_ []]|[H1 H2]]. subst. left. reflexivity.
  - cbn [map fst] in Hn. inversion Hn as [|x l Hx Hn']; subst.
    cbn [im_add im_get]. destruct (keqb k k0) eqn:E.
    + apply keqb_eq in E. subst k0. cbn [In]. split.
      * intros [H|H].
        -- inversion H; subst. right. split; reflexivity.
        -- left. split.
           ++ intro Hk. subst k'. apply Hx. apply (in_map_fst_pair r k b' H).
           ++ right. exact H.
      * intros [[Hk [H|H]]|[Hk Hb]].
        -- inversion H; subst. exfalso. apply Hk. reflexivity.
        -- right. exact H.
        -- subst. left. reflexivity.
    + apply keqb_neq in E. cbn [In]. rewrite (IH k n v k' b' Hn'). split.
      * intros [H|[[Hk H]|[Hk Hb]]].
        -- inversion H; subst. left. split. intro Hk. apply E. symmetry. exact Hk. left. reflexivity.
        -- left. split. exact Hk. right. exact H.
        -- right. split. exact Hk. exact Hb.
      * intros [[Hk [H|H]]|[Hk Hb]].
        -- left. exact H.
        -- right. left. split. exact Hk. exact H.
        -- right. right. split. exact Hk. exact Hb.
Qed.

Lemma MapRep_add : forall (m : imap K V) rel k n v, MapRep m rel -> (forall i v', rel k i v' -> i < n) ->
  MapRep (im_add keqb k n v m) (fun k' i v' => rel k' i v' \/ (k' = k /\ i = n /\ v' = v)).
Proof.
  intros m rel k n v H Hlt. pose proof H as HR. destruct H as [H1 H2 H3 H4 H5]. constructor.
  - rewrite im_add_keys. destruct (im_has keqb k m) eqn:E.
    + exact H1.
    + apply NoDup_app_last. exact H1. intro Hin. apply in_map_fst_ex in Hin. destruct Hin as [b Hb].
      apply (im_has_false m k E b Hb).
  - intros k' b' Hin. apply (im_add_In m k n v k' b' H1) in Hin. destruct Hin as [[Hk Hin]|[Hk Hb]].
    + apply (H2 k' b' Hin).
    + subst b'. intro Hc. apply app_eq_nil in Hc. destruct Hc as [_ Hc]. discriminate.
  - intros k' b' Hin. apply (im_add_In m k n v k' b' H1) in Hin. destruct Hin as [[Hk Hin]|[Hk Hb]].
    + apply (H3 k' b' Hin).
    + subst b'. rewrite map_app. cbn [map fst]. apply SSlt_app_last.
      * apply (MapRep_get_sorted m rel k HR).
      * intros i Hi. apply in_map_fst_ex in Hi. destruct Hi as [w Hw].
        apply (MapRep_get m rel k i w HR) in Hw. apply (Hlt i w Hw).
  - intros k' b' i w Hin Hi. apply (im_add_In m k n v k' b' H1) in Hin. destruct Hin as [[Hk Hin]|[Hk Hb]].
    + left. apply (H4 k' b' i w Hin Hi).
    + subst b' k'. apply in_app_or in Hi. destruct Hi as [Hi|Hi].
      * left. apply (MapRep_get m rel k i w HR). exact Hi.
      * cbn [In] in Hi. destruct Hi as [Hi|[]]. inversion Hi; subst. right. repeat split.
  - intros k' i w [Hr|[Hk [Hi Hw]]].
    + destruct (keqb k' k) eqn:E.
      * apply keqb_eq in E. subst k'. exists (im_get keqb k m ++ [(n, v)]). split.
        -- apply (im_add_In m k n v k _ H1). right. split; reflexivity.
        -- apply in_or_app. left. apply (MapRep_get m rel k i w HR). exact Hr.
      * apply keqb_neq in E. destruct (H5 k' i w Hr) as [b [Hb Hib]]. exists b. split.
        -- apply (im_add_In m k n v k' b H1). left. split. exact E. exact Hb.
        -- exact Hib.
    + subst k' i w. exists (im_get keqb k m ++ [(n, v)]). split.
      * apply (im_add_In m k n v k _ H1). right. split; reflexivity.
      * apply in_or_app. right. left. reflexivity.
Qed.

(* ---------- im_remove ---------- *)

Lemma im_remove_In : forall (m : imap K V) (rm : nat -> bool) k b',
  In (k, b') (im_remove rm m) <->
  exists b, In (k, b) m /\ b' = filter (fun iv => negb (rm (fst iv))) b /\ b' <> [].
Proof.
  intros m rm k b'. unfold im_remove. rewrite filter_In. rewrite in_map_iff. cbn [snd]. split.
  - intros [[[k0 b0] [He Hin]] Hne]. cbn [fst snd] in He. inversion He; subst. exists b0.
    split. exact Hin. split. reflexivity. intro Hc. rewrite Hc in Hne. discriminate.
  - intros [b [Hin [Hb Hne]]]. split.
    + exists (k, b). split. cbn [fst snd]. rewrite Hb. reflexivity. exact Hin.
    + destruct b' as [|x b'']. exfalso. apply Hne. reflexivity. reflexivity.
Qed.

Lemma NoDup_map_fst_filter : forall {A B : Type} (p : A * B -> bool) (l : list (A * B)),
  NoDup (map fst l) -> NoDup (map fst (filter p l)).
Proof.
  intros A B p. induction l as [|x l IH]; intros Hn.
  - cbn [filter map]. constructor.
  - cbn [map] in Hn. inversion Hn as [|x' l' Hx Hn']; subst. cbn [filter]. destruct (p x) eqn:E.
    + cbn [map]. constructor.
      * intro Hin. apply Hx. apply in_map_iff in Hin. destruct Hin as [z [Hz1 Hz2]].
        apply filter_In in Hz2. apply in_map_iff. exists z. split. exact Hz1. apply Hz2.
      * apply IH. exact Hn'.
    + apply IH. exact Hn'.
Qed.

Lemma MapRep_remove : forall (m : imap K V) rel (rm : nat -> bool), MapRep m rel ->
  MapRep (im_remove rm m) (fun k i v => rel k i v /\ rm i = false).
Proof.
  intros m rel rm H. destruct H as [H1 H2 H3 H4 H5]. constructor.
  - unfold im_remove. apply NoDup_map_fst_filter. rewrite map_map. cbn [fst]. exact H1.
  - intros k b' Hin. apply im_remove_In in Hin. destruct Hin as [b [_ [_ Hne]]]. exact Hne.
  - intros k b' Hin. apply im_remove_In in Hin. destruct Hin as [b [Hb [He _]]]. subst b'.
    apply SSlt_map_fst_filter. apply (H3 k b Hb).
  - intros k b' i v Hin Hi. apply im_remove_In in Hin. destruct Hin as [b [Hb [He _]]]. subst b'.
    apply filter_In in Hi. destruct Hi as [Hi Hr]. cbn [fst] in Hr. split.
    + apply (H4 k b i v Hb Hi).
    + destruct (rm i). discriminate. reflexivity.
  - intros k i v [Hr Hrm]. destruct (H5 k i v Hr) as [b [Hb Hi]].
    assert (Hf : In (i, v) (filter (fun iv : nat * V => negb (rm (fst iv))) b)).
    { apply filter_In. split. exact Hi. cbn [fst]. rewrite Hrm. reflexivity. }
    exists (filter (fun iv : nat * V => negb (rm (fst iv))) b). split.
    + apply im_remove_In. exists b. split. exact Hb. split. reflexivity.
      intro Hc. rewrite Hc in Hf. destruct Hf.
    + exact Hf.
Qed.

(* ---------- im_renumber ---------- *)

Lemma im_renumber_In : forall (m : imap K V) (f : nat -> nat) k b',
  In (k, b') (im_renumber f m) <->
  exists b, In (k, b) m /\ b' = map (fun iv => (f (fst iv), snd iv)) b.
Proof.
  intros m f k b'. unfold im_renumber. rewrite in_map_iff. split.
  - intros [[k0 b0] [He Hin]]. cbn [fst snd] in He. inversion He; subst. exists b0. split. exact Hin. reflexivity.
  - intros [b [Hin Hb]]. exists (k, b). split. cbn [fst snd]. rewrite Hb. reflexivity. exact Hin.
Qed.

Lemma MapRep_renumber : forall (m : imap K V) rel (f : nat -> nat), MapRep m rel ->
  (forall k i j v w, rel k i v -> rel k j w -> i < j -> f i < f j) ->
  MapRep (im_renumber f m) (fun k j v => exists i, f i = j /\ rel k i v).
Proof.
  intros m rel f H Hm. destruct H as [H1 H2 H3 H4 H5]. constructor.
  - unfold im_renumber. rewrite map_map. cbn [fst]. exact H1.
  - intros k b' Hin. apply im_renumber_In in Hin. destruct Hin as [b [Hb He]]. subst b'.
    intro Hc. apply map_eq_nil in Hc. apply (H2 k b Hb Hc).
  - intros k b' Hin. apply im_renumber_In in Hin. destruct Hin as [b [Hb He]]. subst b'.
    rewrite map_map. cbn [fst]. rewrite <- (map_map fst f). apply SSlt_map_mono.
    + apply (H3 k b Hb).
    + intros i j Hi Hj Hij. apply in_map_fst_ex in Hi. destruct Hi as [v Hv].
      apply in_map_fst_ex in Hj. destruct Hj as [w Hw].
      apply (Hm k i j v w). apply (H4 k b i v Hb Hv). apply (H4 k b j w Hb Hw). exact Hij.
  - intros k b' j v Hin Hj. apply im_renumber_In in Hin. destruct Hin as [b [Hb He]]. subst b'.
    apply in_map_iff in Hj. destruct Hj as [[i v0] [He Hi]]. cbn [fst snd] in He. inversion He; subst.
    exists i. split. reflexivity. apply (H4 k b i v Hb Hi).
  - intros k j v [i [Hf Hr]]. destruct (H5 k i v Hr) as [b [Hb Hi]].
    exists (map (fun iv : nat * V => (f (fst iv), snd iv)) b). split.
    + apply im_renumber_In. exists b. split. exact Hb. reflexivity.
    + apply in_map_iff. exists (i, v). split. cbn [fst snd]. rewrite Hf. reflexivity. exact Hi.
Qed.

Lemma MapRep_bucket_NoDup : forall (m : imap K V) rel k b, MapRep m rel -> In (k, b) m -> NoDup (map fst b).
Proof.
  intros m rel k b H Hin. apply SSlt_NoDup. apply (mr_sorted m rel H k b Hin).
Qed.

End MapRepP.

Lemma tkey_eqb_eq : forall a b : tkey, tkey_eqb a b = true <-> a = b.
Proof.
  intros [a1 a2] [b1 b2]. unfold tkey_eqb. cbn [fst snd]. rewrite andb_true_iff.
  rewrite str_eqb_eq. rewrite ostr_eqb_eq. split.
  - intros [H1 H2]. subst. reflexivity.
  - intros H. inversion H; subst. split; reflexivity.
Qed.

Print Assumptions MapRep_add.
Print Assumptions MapRep_remove.
Print Assumptions MapRep_renumber.
Print Assumptions MapRep_get.
