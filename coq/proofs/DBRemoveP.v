(* DBRemoveP.v — remove / drop_measurement / remove_all of the database model delete exactly
   the rows the query (and measurement filter) selects, report that number, keep every other
   row in order, and keep the state invariant (an index that stays valid still describes the
   rows), on the index-served path and on the scan path. *)
From Coq Require Import List ZArith NArith Bool Arith Lia.
From TF Require Import Base Query Index DB Spec proofs.BaseP proofs.QueryP proofs.TimeSearchP
     proofs.IndexDefs proofs.ScanP proofs.IndexP proofs.RepP proofs.DBReadP.
Import ListNotations.

(* positions (ascending) of the rows on which f holds *)
Definition posf (f : point -> bool) (rows : list point) (k : nat) : bool :=
  match nth_error rows k with Some p => f p | None => false end.
Definition hitpos (f : point -> bool) (rows : list point) : list nat := filter (posf f rows) (seq 0 (length rows)).

Lemma filter_ext_in' : forall (A : Type) (f g : A -> bool) l, (forall x, In x l -> f x = g x) -> filter f l = filter g l.
Proof.
  intros A f g l H. induction l as [|x l IH]; [reflexivity|]. cbn [filter].
  rewrite (H x (or_introl eq_refl)). rewrite IH; [reflexivity|]. intros y Hy. apply H. now right.
Qed.

Lemma hitpos_In f rows k : In k (hitpos f rows) <-> exists p, nth_error rows k = Some p /\ f p = true.
Proof.
  unfold hitpos, posf. rewrite filter_In, in_seq. split.
  - intros [_ H]. destruct (nth_error rows k) as [p|]; [eauto|discriminate].
  - intros [p [Hp Hf]]. split; [split; [lia|cbn; apply nth_error_Some; congruence]|]. now rewrite Hp.
Qed.
Lemma hitpos_NoDup f rows : NoDup (hitpos f rows).
Proof. apply NoDup_filter, seq_NoDup. Qed.

(* generalised over the offset, for inductions over the rows *)
Lemma filter_pos_shift (f : point -> bool) : forall rows s,
  filter (fun i => posf f rows (i - s)) (seq s (length rows)) = map (fun i => s + i) (hitpos f rows).
Proof.
  induction rows as [|p r IH]; intros s; [reflexivity|].
  unfold hitpos. cbn [length seq filter]. rewrite Nat.sub_diag. change (posf f (p :: r) 0) with (f p).
  assert (H1 : filter (fun i => posf f (p :: r) (i - s)) (seq (S s) (length r)) = map (fun i => s + i) (filter (posf f (p :: r)) (seq 1 (length r)))).
  { rewrite (filter_ext_in' _ (fun i => posf f (p :: r) (i - s)) (fun i => posf f r (i - S s))).
    - rewrite IH. rewrite (filter_ext_in' _ (posf f (p :: r)) (fun i => posf f r (i - 1)) (seq 1 (length r))).
      + rewrite (IH 1). rewrite map_map. apply map_ext. intros; lia.
      + intros x Hx. apply in_seq in Hx. unfold posf. destruct x; [lia|]. replace (S x - 1) with x by lia. reflexivity.
    - intros x Hx. apply in_seq in Hx. unfold posf. replace (x - s) with (S (x - S s)) by lia. reflexivity. }
  destruct (f p); cbn [map]; rewrite H1; [rewrite Nat.add_0_r|]; reflexivity.
Qed.

Lemma hitpos_cons f p r : hitpos f (p :: r) = (if f p then [0] else []) ++ map S (hitpos f r).
Proof.
  unfold hitpos at 1. cbn [length seq filter]. unfold posf at 1. cbn [nth_error].
  pose proof (filter_pos_shift f r 1) as H.
  rewrite (filter_ext_in' _ (posf f (p :: r)) (fun i => posf f r (i - 1)) (seq 1 (length r))).
  - rewrite H. destruct (f p); reflexivity.
  - intros x Hx. apply in_seq in Hx. unfold posf. destruct x; [lia|]. replace (S x - 1) with x by lia. reflexivity.
Qed.

Lemma hitpos_length f rows : length (hitpos f rows) = length (filter f rows).
Proof.
  induction rows as [|p r IH]; [reflexivity|]. rewrite hitpos_cons, app_length, map_length, IH. cbn [filter].
  destruct (f p); reflexivity.
Qed.

(* the rows kept when the positions of the hits are removed are the rows that are not hits *)
Lemma keep_hitpos_gen f : forall rows s,
  map snd (filter (fun ip => negb (mem (fst ip) (map (fun i => s + i) (hitpos f rows)))) (combine (seq s (length rows)) rows))
  = filter (fun p => negb (f p)) rows.
Proof.
  induction rows as [|p r IH]; intros s; [reflexivity|].
  cbn [length seq combine filter fst]. rewrite hitpos_cons.
  assert (Hs : mem s (map (fun i => s + i) ((if f p then [0] else []) ++ map S (hitpos f r))) = f p).
  { destruct (f p) eqn:Ef.
    - cbn [app map mem existsb]. rewrite Nat.add_0_r, Nat.eqb_refl. reflexivity.
    - cbn [app]. apply mem_false_In. rewrite in_map_iff. intros [x [Hx Hin]]. apply in_map_iff in Hin.
      destruct Hin as [y [Hy _]]. lia. }
  rewrite Hs.
  assert (Hrest : filter (fun ip : nat * point => negb (mem (fst ip) (map (fun i => s + i) ((if f p then [0] else []) ++ map S (hitpos f r)))))
                         (combine (seq (S s) (length r)) r)
                  = filter (fun ip => negb (mem (fst ip) (map (fun i => S s + i) (hitpos f r)))) (combine (seq (S s) (length r)) r)).
  { apply filter_ext_in'. intros [i q] Hin. cbn [fst]. f_equal.
    apply in_combine_l in Hin. apply in_seq in Hin.
    rewrite map_app, map_map.
    assert (Hm : map (fun x => s + S x) (hitpos f r) = map (fun i0 => S s + i0) (hitpos f r)) by (apply map_ext; intros; lia).
    rewrite Hm. destruct (f p); cbn [map app]; [|reflexivity].
    cbn [mem existsb]. rewrite Nat.add_0_r. destruct (Nat.eqb i s) eqn:Ei; [apply Nat.eqb_eq in Ei; lia|reflexivity]. }
  destruct (f p) eqn:Ef; cbn [negb filter map snd]; rewrite ?Ef; cbn [negb]; rewrite Hrest, IH; reflexivity.
Qed.

Lemma keep_hitpos f rows :
  map snd (filter (fun ip => negb (mem (fst ip) (hitpos f rows))) (combine (seq 0 (length rows)) rows))
  = filter (fun p => negb (f p)) rows.
Proof.
  pose proof (keep_hitpos_gen f rows 0) as H. rewrite (map_ext (fun i => 0 + i) (fun i => i)) in H by reflexivity.
  now rewrite map_id in H.
Qed.

Lemma filter_length_le' (A : Type) (f : A -> bool) l : length (filter f l) <= length l.
Proof. induction l as [|x l IH]; [auto|]. cbn [filter]. destruct (f x); cbn [length]; lia. Qed.
Lemma filter_all_length (A : Type) (f : A -> bool) l : length (filter f l) = length l -> filter f l = l.
Proof.
  induction l as [|x l IH]; [reflexivity|]. cbn [filter]. destruct (f x); cbn [length]; intros H.
  - f_equal. apply IH. lia.
  - pose proof (filter_length_le' _ f l). lia.
Qed.
Lemma filter_neg_all (A : Type) (f : A -> bool) l : filter f l = l -> filter (fun x => negb (f x)) l = [].
Proof.
  induction l as [|x l IH]; [reflexivity|]. cbn [filter]. destruct (f x) eqn:Ef; cbn [negb]; intros H.
  - apply IH. now injection H.
  - exfalso. pose proof (filter_length_le' _ f l) as Hl. rewrite H in Hl. cbn in Hl. lia.
Qed.
Lemma filter_none (A : Type) (f : A -> bool) l : filter f l = [] -> filter (fun x => negb (f x)) l = l.
Proof.
  induction l as [|x l IH]; [reflexivity|]. cbn [filter]. destruct (f x) eqn:Ef; cbn [negb]; intros H; [discriminate|].
  f_equal. now apply IH.
Qed.

Section DBRemoveP.
Variable E : env.

Lemma scan_positions_spec q m : wf_query E q -> forall rows s,
  scan_positions E q m s rows = Some (map (fun i => s + i) (hitpos (hit E q m) rows)).
Proof.
  intros Hq. induction rows as [|p r IH]; intros s; [reflexivity|].
  cbn [scan_positions]. rewrite hitpos_cons. unfold hit at 1.
  assert (Hm : map (fun i => s + i) (map S (hitpos (hit E q m) r)) = map (fun i => S s + i) (hitpos (hit E q m) r)).
  { rewrite map_map. apply map_ext. intros; lia. }
  destruct (meas_pass m p); cbn [andb].
  - rewrite (eval_denote E q p Hq), IH. cbn [option_map]. rewrite map_app, Hm.
    destruct (denote E q p); cbn [map app]; rewrite ?Nat.add_0_r; reflexivity.
  - rewrite IH. cbn [app]. now rewrite Hm.
Qed.

(* the number of removed positions below i, two ways *)
Lemma renum_as_sub (removed : list nat) (n : nat) : NoDup removed -> forall i,
  i - length (filter (fun r => Nat.ltb r i) removed) = renum (fun j => mem j removed) i.
Proof.
  intros Hnd i. pose proof (count_removed_renum (fun j => mem j removed) i) as Hc.
  assert (Hl : length (filter (fun r => Nat.ltb r i) removed) = length (filter (fun j => mem j removed) (seq 0 i))).
  { apply NoDup_length_filter_seq; [now apply NoDup_filter|].
    intros k. rewrite filter_In, mem_In. rewrite Nat.ltb_lt. tauto. }
  lia.
Qed.

Lemma filter_mem_hitpos f rows : filter (fun i => mem i (hitpos f rows)) (seq 0 (length rows)) = hitpos f rows.
Proof.
  unfold hitpos at 2. apply filter_ext_in'. intros k Hk.
  destruct (posf f rows k) eqn:Ep.
  - apply mem_In. unfold hitpos. rewrite filter_In. auto.
  - apply mem_false_In. unfold hitpos. rewrite filter_In. intros [_ H]. congruence.
Qed.

(* an exact item set, filtered through range(len), is the ascending list of hit positions *)
Lemma items_hitpos f items rows :
  (forall k, In k items <-> exists p, nth_error rows k = Some p /\ f p = true) ->
  filter (fun i => mem i items) (seq 0 (length rows)) = hitpos f rows.
Proof.
  intros H. unfold hitpos. apply filter_ext_in'. intros k _. unfold posf.
  destruct (mem k items) eqn:Em.
  - apply mem_In, H in Em. destruct Em as [p [Hp Hf]]. now rewrite Hp.
  - apply mem_false_In in Em. destruct (nth_error rows k) as [p|] eqn:En; [|reflexivity].
    destruct (f p) eqn:Ef; [|reflexivity]. exfalso. apply Em, H. eauto.
Qed.

Lemma reset_database_Inv s : Inv (reset_database s).
Proof.
  unfold reset_database, Inv. cbn [st_rows st_idx]. split; [intros p []|].
  destruct (st_auto s); cbn; intros _; apply Rep_empty.
Qed.

(* the tail of the removal, given the ascending list of hit positions *)
Lemma remove_finish_spec (f : point -> bool) (ui : bool) (s : state) :
  Inv s -> (ui = true -> ix_valid (st_idx s) = true) ->
  let r := remove_finish ui (hitpos f (st_rows s)) s in
  snd r = ONat (length (filter f (st_rows s))) /\
  st_rows (fst r) = filter (fun p => negb (f p)) (st_rows s) /\
  st_auto (fst r) = st_auto s /\ Inv (fst r).
Proof.
  intros [Hwf HR] Hui. unfold remove_finish.
  pose proof (hitpos_length f (st_rows s)) as Hlen.
  destruct (hitpos f (st_rows s)) as [|k0 rest] eqn:Eh.
  - cbn [nonempty negb fst snd]. cbn [length] in Hlen.
    assert (Hnil : filter f (st_rows s) = []) by (destruct (filter f (st_rows s)); [reflexivity|discriminate]).
    rewrite Hnil. cbn [length]. split; [reflexivity|]. split; [symmetry; now apply filter_none|]. split; [reflexivity|]. split; assumption.
  - rewrite <- Eh in *. assert (Hne : nonempty (hitpos f (st_rows s)) = true) by (rewrite Eh; reflexivity).
    rewrite Hne. cbn [negb].
    destruct (Nat.eqb (length (hitpos f (st_rows s))) (length (st_rows s))) eqn:Eall.
    + apply Nat.eqb_eq in Eall. cbn [fst snd]. rewrite Hlen. split; [reflexivity|]. split; [|split; [reflexivity|apply reset_database_Inv]].
      unfold reset_database. cbn [st_rows]. symmetry. apply filter_neg_all, filter_all_length. lia.
    + cbn [fst snd st_rows st_auto st_idx]. rewrite Hlen. split; [reflexivity|]. split; [apply keep_hitpos|].
      split; [reflexivity|]. unfold Inv. cbn [st_rows st_idx]. split.
      * rewrite keep_hitpos. intros p Hp. apply filter_In in Hp. apply Hwf. tauto.
      * destruct (st_auto s && ui) eqn:Eau; [|cbn; discriminate].
        apply andb_true_iff in Eau. destruct Eau as [_ Eu]. intros _.
        specialize (HR (Hui Eu)).
        rewrite (ix_renumber_ext _ _ (renum (fun j => mem j (hitpos f (st_rows s))))
                   (renum_as_sub _ (length (st_rows s)) (hitpos_NoDup f (st_rows s)))).
        apply (Rep_remove (st_idx s) (st_rows s) (fun j => mem j (hitpos f (st_rows s)))); [exact HR|].
        now rewrite filter_mem_hitpos.
Qed.

Theorem remove_helper_spec s q m : Inv s -> wf_query E q -> index_safe q ->
  let r := remove_helper E s q m in
  snd r = ONat (snd (spec_remove E q m (st_rows s))) /\
  st_rows (fst r) = fst (spec_remove E q m (st_rows s)) /\
  st_auto (fst r) = st_auto s /\ Inv (fst r).
Proof.
  intros HI Hq Hs. unfold remove_helper, spec_remove. cbn [fst snd].
  destruct (ix_valid (st_idx s) && index_is_exact q) eqn:Eui.
  - apply andb_true_iff in Eui. destruct Eui as [Ev Ex].
    destruct (index_plan_spec E s q m HI Hq Hs) as [Hp|[items [Hp [Hnd [Hin Hn]]]]];
      unfold index_plan in Hp; rewrite Ev, Ex in Hp; cbn [andb] in Hp.
    + destruct (isearch E (st_idx s) (with_meas m q)); discriminate.
    + destruct (isearch E (st_idx s) (with_meas m q)) as [items'|]; [|discriminate].
      assert (items' = items) by congruence. subst items'. clear Hp.
      pose proof (items_length (hit E q m) items (st_rows s) Hnd Hin) as Hlen.
      destruct items as [|k0 rest] eqn:Ei.
      * cbn [fst snd]. cbn [length] in Hlen.
        assert (Hnil : filter (hit E q m) (st_rows s) = []) by (destruct (filter (hit E q m) (st_rows s)); [reflexivity|discriminate]).
        rewrite Hnil. cbn [length]. split; [reflexivity|]. split; [symmetry; now apply filter_none|]. split; [reflexivity|exact HI].
      * rewrite <- Ei in *. clear Ei.
        destruct (Nat.eqb (length items) (ix_n (st_idx s))) eqn:Eall.
        -- apply Nat.eqb_eq in Eall. cbn [fst snd]. rewrite Hlen. split; [reflexivity|]. split; [|split; [reflexivity|apply reset_database_Inv]].
           unfold reset_database. cbn [st_rows]. symmetry. apply filter_neg_all, filter_all_length. lia.
        -- rewrite (items_hitpos (hit E q m) items (st_rows s) Hin).
           apply (remove_finish_spec (hit E q m) true s HI). intros _. exact Ev.
  - rewrite (scan_positions_spec q m Hq (st_rows s) 0).
    rewrite (map_ext (fun i => 0 + i) (fun i => i)) by reflexivity. rewrite map_id.
    apply (remove_finish_spec (hit E q m) false s HI). discriminate.
Qed.
End DBRemoveP.
