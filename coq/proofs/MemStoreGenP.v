(* MemStoreGenP.v - what the database layer relies on, proved of the functions GENERATED from class MemoryStorage (gen/MemStoreGen.v). *)
From Coq Require Import List Bool ZArith.
From TF Require Import Base Query MemSem.
From TF Require Import gen.MemStoreGen.
Import ListNotations.

Definition rows (s : pymem) : list point := m_read AMem s.
Definition staged (s : pymem) : list point := m_read ATmp s.

(* a new object: nothing stored, nothing staged, two list objects *)
Lemma gen_init_empty : rows gen___init__ = [] /\ staged gen___init__ = [] /\ m_shared gen___init__ = false /\ m_initially_empty gen___init__ = true.
Proof. first [ repeat split; reflexivity | vm_compute; repeat split; reflexivity ]. Qed.

Lemma gen_iter_eq s : gen___iter__ s = rows s.
Proof. reflexivity. Qed.
Lemma gen_len_eq s : gen___len__ s = length (rows s).
Proof. reflexivity. Qed.
Lemma gen_read_eq s : gen_read s = rows s.
Proof. unfold gen_read, gen__deserialize_storage_item. rewrite map_id. reflexivity. Qed.
Lemma gen_deserialize_eq s p : gen__deserialize_storage_item s p = p /\ gen__serialize_point s p = p
                               /\ gen__deserialize_measurement s p = p_meas p /\ gen__deserialize_timestamp s p = p_time p.
Proof. repeat split; reflexivity. Qed.

(* append, primary: the stored rows grow by the items, in order - shared or not; the sharing flag stays *)
Lemma append_primary_loop items : forall s,
  let s' := fold_left (fun s item => m_append AMem item s) items s in
  rows s' = rows s ++ items /\ m_shared s' = m_shared s /\ (m_shared s = false -> staged s' = staged s).
Proof.
  induction items as [|x xs IH]; intros s; cbn [fold_left].
  - rewrite app_nil_r. repeat split; reflexivity.
  - specialize (IH (m_append AMem x s)). cbv zeta in IH |- *. destruct IH as (R & Sh & St).
    assert (E1 : rows (m_append AMem x s) = rows s ++ [x]) by (unfold m_append, rows, m_read; destruct (m_shared s); reflexivity).
    assert (E2 : m_shared (m_append AMem x s) = m_shared s) by (unfold m_append; destruct (m_shared s); reflexivity).
    rewrite R, Sh, E1, E2, <- app_assoc. split; [reflexivity|]. split; [reflexivity|].
    intros Hs. rewrite St by (rewrite E2; exact Hs).
    unfold m_append, staged, m_read. rewrite Hs. reflexivity.
Qed.

Lemma gen_append_primary s items :
  rows (gen_append s items false) = rows s ++ items /\ m_shared (gen_append s items false) = m_shared s
  /\ (m_shared s = false -> staged (gen_append s items false) = staged s).
Proof. unfold gen_append. cbv beta. exact (append_primary_loop items s). Qed.

(* append, temporary, on an object whose two names are bound to two lists: the staged rows grow, the stored rows do not move *)
Lemma append_temp_loop items : forall s, m_shared s = false ->
  let s' := fold_left (fun s item => m_append ATmp item s) items s in
  staged s' = staged s ++ items /\ rows s' = rows s /\ m_shared s' = false.
Proof.
  induction items as [|x xs IH]; intros s Hs; cbn [fold_left].
  - rewrite app_nil_r. split; [reflexivity|]. split; [reflexivity|exact Hs].
  - assert (Hs' : m_shared (m_append ATmp x s) = false) by (unfold m_append; rewrite Hs; reflexivity).
    destruct (IH _ Hs') as (St & R & Sh). cbv zeta. rewrite St, R, Sh.
    unfold m_append, rows, staged, m_read. rewrite Hs. cbn [m_mem m_tmp m_shared]. rewrite <- app_assoc. repeat split; reflexivity.
Qed.

Lemma gen_append_temporary s items : m_shared s = false ->
  staged (gen_append s items true) = staged s ++ items /\ rows (gen_append s items true) = rows s /\ m_shared (gen_append s items true) = false.
Proof. intros H. unfold gen_append. cbv beta. exact (append_temp_loop items s H). Qed.

(* _init_temp_storage / _cleanup_temp_storage: a NEW empty list under the scratch name - whatever the two names shared before, they share nothing now *)
Lemma gen_init_temp s : rows (gen__init_temp_storage s) = rows s /\ staged (gen__init_temp_storage s) = [] /\ m_shared (gen__init_temp_storage s) = false.
Proof. repeat split; reflexivity. Qed.
Lemma gen_cleanup s : rows (gen__cleanup_temp_storage s) = rows s /\ staged (gen__cleanup_temp_storage s) = [] /\ m_shared (gen__cleanup_temp_storage s) = false.
Proof. repeat split; reflexivity. Qed.

(* _swap_temp_with_primary: the stored rows ARE the staged list now - one list object under both names *)
Lemma gen_swap s : rows (gen__swap_temp_with_primary s) = staged s /\ m_shared (gen__swap_temp_with_primary s) = true.
Proof. split; reflexivity. Qed.

Lemma gen_write s items : rows (gen__write s items) = items /\ staged (gen__write s items) = staged s /\ m_shared (gen__write s items) = false.
Proof. repeat split; reflexivity. Qed.
Lemma gen_reset_rows s : rows (gen_reset s) = [] /\ staged (gen_reset s) = staged s.
Proof. split; reflexivity. Qed.

(* the staged appends of a rewrite: any number of append(.., temporary=True) calls *)
Definition stage (s : pymem) (batches : list (list point)) : pymem := fold_left (fun s b => gen_append s b true) batches s.

Lemma stage_spec batches : forall s, m_shared s = false ->
  staged (stage s batches) = staged s ++ concat batches /\ rows (stage s batches) = rows s /\ m_shared (stage s batches) = false.
Proof.
  induction batches as [|b bs IH]; intros s Hs; cbn [stage fold_left concat].
  - rewrite app_nil_r. split; [reflexivity|]. split; [reflexivity|exact Hs].
  - destruct (gen_append_temporary s b Hs) as (St & R & Sh).
    destruct (IH _ Sh) as (St' & R' & Sh'). unfold stage in *. rewrite St', R', Sh', St, R, app_assoc. repeat split; reflexivity.
Qed.

(* THE REWRITE PROTOCOL of database.py's temp_storage_op (init - staged appends - swap - cleanup), from ANY state of the object: the stored rows are
   exactly the staged ones, in the order staged; the scratch list is empty; the two names are bound to two lists again *)
Theorem gen_rewrite_protocol s batches :
  let s' := gen__cleanup_temp_storage (gen__swap_temp_with_primary (stage (gen__init_temp_storage s) batches)) in
  rows s' = concat batches /\ staged s' = [] /\ m_shared s' = false.
Proof.
  cbv zeta. destruct (gen_init_temp s) as (R0 & S0 & H0).
  destruct (stage_spec batches _ H0) as (St & R & Sh).
  destruct (gen_cleanup (gen__swap_temp_with_primary (stage (gen__init_temp_storage s) batches))) as (Rc & Sc & Hc).
  rewrite Rc, Sc, Hc. destruct (gen_swap (stage (gen__init_temp_storage s) batches)) as (Rs & _). rewrite Rs, St, S0. repeat split; reflexivity.
Qed.

Lemma concat_singletons {A} (l : list A) : concat (map (fun x => [x]) l) = l.
Proof. induction l as [|x xs IH]; cbn [map concat app]; [reflexivity|]. rewrite IH. reflexivity. Qed.

Definition rewrite_with (s : pymem) (batches : list (list point)) : pymem :=
  gen__cleanup_temp_storage (gen__swap_temp_with_primary (stage (gen__init_temp_storage s) batches)).

(* the shape of a removal (every kept row staged by its own append call): the stored rows are the kept ones, in their order *)
Theorem gen_rewrite_keeps_filtered s keep :
  rows (rewrite_with s (map (fun p => [p]) (filter keep (rows s)))) = filter keep (rows s).
Proof. unfold rewrite_with. destruct (gen_rewrite_protocol s (map (fun p => [p]) (filter keep (rows s)))) as (R & _). rewrite R. apply concat_singletons. Qed.

(* the shape of an update (every row staged, changed or not, by its own append call): the stored rows are the images, in order *)
Theorem gen_rewrite_maps s (f : point -> point) :
  rows (rewrite_with s (map (fun p => [f p]) (rows s))) = map f (rows s).
Proof.
  unfold rewrite_with. destruct (gen_rewrite_protocol s (map (fun p => [f p]) (rows s))) as (R & _). rewrite R.
  rewrite <- (concat_singletons (map f (rows s))), map_map. reflexivity.
Qed.

(* ... and WITHOUT the swap (nothing changed / the operation raised: the decorator's finally still cleans up): the stored rows are what they were *)
Theorem gen_abandoned_rewrite s batches :
  let s' := gen__cleanup_temp_storage (stage (gen__init_temp_storage s) batches) in
  rows s' = rows s /\ staged s' = [] /\ m_shared s' = false.
Proof.
  cbv zeta. destruct (gen_init_temp s) as (R0 & S0 & H0). destruct (stage_spec batches _ H0) as (St & R & Sh).
  destruct (gen_cleanup (stage (gen__init_temp_storage s) batches)) as (Rc & Sc & Hc). rewrite Rc, Sc, Hc, R, R0. repeat split; reflexivity.
Qed.

(* ... and appends after a completed rewrite go to the stored rows only *)
Theorem gen_insert_after_rewrite s batches items :
  let s' := gen_append (gen__cleanup_temp_storage (gen__swap_temp_with_primary (stage (gen__init_temp_storage s) batches))) items false in
  rows s' = concat batches ++ items /\ staged s' = [].
Proof.
  cbv zeta. destruct (gen_rewrite_protocol s batches) as (R & St & Sh).
  destruct (gen_append_primary (gen__cleanup_temp_storage (gen__swap_temp_with_primary (stage (gen__init_temp_storage s) batches))) items) as (Ra & _ & Sa).
  rewrite Ra, R, (Sa Sh), St. split; reflexivity.
Qed.

(* It is the REBINDING in the cleanup that ends the sharing: between swap and cleanup both names are one list, and a staged append shows in the stored rows *)
Lemma gen_swap_then_staged_append_is_visible s x :
  rows (gen_append (gen__swap_temp_with_primary s) [x] true) = staged s ++ [x].
Proof. reflexivity. Qed.

(* non-vacuity: a populated object, a rewrite that keeps two of three rows and changes one *)
Example rewrite_example :
  let p (t : Z) := mkPoint t [109%N] [] [] in
  let s0 := gen_append gen___init__ [p 1; p 2; p 3]%Z false in
  let s1 := gen__cleanup_temp_storage (gen__swap_temp_with_primary (stage (gen__init_temp_storage s0) [[p 1]; [p 30]]%Z)) in
  rows s0 = [p 1; p 2; p 3]%Z /\ rows s1 = [p 1; p 30]%Z /\ gen___len__ s1 = 2 /\ m_shared s1 = false.
Proof. vm_compute. repeat split; reflexivity. Qed.
