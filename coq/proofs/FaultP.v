(* FaultP.v — an I/O error at any call of any operation: the steps before the failing call have
   run (and the call's own effect too, when it fails after taking effect); what follows is the
   error path — closing and removing the temporary file, removing a staged copy, reopening
   the primary, later seeks and flushes of the same handle — none of which writes new rows,
   truncates or replaces the primary file.  Whatever such steps follow, in any number and
   order, the primary file holds the old contents, the new contents, or (insert) the old
   contents plus a prefix of the inserted rows.  In particular a row that was written to the
   handle but whose flush failed may still reach the file at the next seek: that is the
   "old plus a prefix" case, never a torn or foreign state. *)
From Coq Require Import List ZArith NArith Bool Arith Lia.
From TF Require Import Base Query Index DB IO proofs.IOP.
Import ListNotations.

(* both what is on disk and what would be on disk once the handle's buffer is flushed are allowed states *)
Definition allowed2 (old : list point) (p : plan) (w : world) : Prop :=
  crash_allowed old p (w_disk w) /\ crash_allowed old p (w_disk w ++ w_pend w).

Lemma safe_keeps_allowed2 old p s w : safe s = true -> allowed2 old p w -> allowed2 old p (apply w s).
Proof.
  intros Hs [Hd Hp]. destruct w as [d pe o t st l]. cbn [w_disk w_pend] in *.
  destruct s; cbn in Hs; try discriminate Hs; unfold allowed2; cbn [apply w_disk w_pend];
    rewrite ?app_nil_r; try (split; assumption).
  - (* TSeekEnd *) unfold flush_temp; cbn. destruct t as [[td tb]|]; cbn; split; assumption.
  - (* TWrite *) destruct t as [[td tb]|]; cbn; split; assumption.
  - (* TFlush *) unfold flush_temp; cbn. destruct t as [[td tb]|]; cbn; split; assumption.
  - (* TClose *) unfold flush_temp; cbn. destruct t as [[td tb]|]; cbn; split; assumption.
  - (* CopyMid *) destruct t as [[td tb]|]; cbn; split; assumption.
  - (* CopyDone *) destruct t as [[td tb]|]; cbn; split; assumption.
Qed.

Lemma safe_run_allowed2 old p : forall ss w, forallb safe ss = true -> allowed2 old p w -> allowed2 old p (run_steps w ss).
Proof.
  induction ss as [|s ss IH]; intros w Hs Hw; [exact Hw|]. cbn [forallb] in Hs. apply andb_true_iff in Hs.
  destruct Hs as [H1 H2]. rewrite run_steps_cons. apply IH; [exact H2|]. now apply safe_keeps_allowed2.
Qed.

(* scripts that never write to the primary handle leave its buffer empty *)
Definition no_pwrite (s : iostep) : bool := match s with PWrite _ => false | _ => true end.
Lemma no_pwrite_pend : forall ss w, forallb no_pwrite ss = true -> w_pend w = [] -> w_pend (run_steps w ss) = [].
Proof.
  induction ss as [|s ss IH]; intros w Hs Hp; [exact Hp|]. cbn [forallb] in Hs. apply andb_true_iff in Hs.
  destruct Hs as [H1 H2]. rewrite run_steps_cons. apply IH; [exact H2|].
  destruct w as [d pe o t st l]. cbn in Hp. subst pe.
  destruct s; cbn in H1; try discriminate H1; cbn; try reflexivity.
  - unfold flush_temp; cbn. destruct t as [[td tb]|]; reflexivity.
  - destruct t as [[td tb]|]; reflexivity.
  - unfold flush_temp; cbn. destruct t as [[td tb]|]; reflexivity.
  - unfold flush_temp; cbn. destruct t as [[td tb]|]; reflexivity.
  - destruct t as [[td tb]|]; reflexivity.
  - destruct t as [[td tb]|]; reflexivity.
  - destruct st; reflexivity.
Qed.
Lemma forallb_firstn' (A : Type) (f : A -> bool) : forall k l, forallb f l = true -> forallb f (firstn k l) = true.
Proof.
  induction k as [|k IH]; intros l H; [reflexivity|]. destruct l as [|x l]; [reflexivity|].
  cbn [firstn forallb] in *. apply andb_true_iff in H. destruct H as [H1 H2]. now rewrite H1, IH.
Qed.

Lemma np_scan n : forallb no_pwrite (scan_script n) = true.
Proof. unfold scan_script. cbn [forallb no_pwrite andb]. induction (S n) as [|m IH]; [reflexivity|exact IH]. Qed.
Lemma np_temp rows : forallb no_pwrite (flat_map temp_append_script rows) = true.
Proof. induction rows as [|r rs IH]; [reflexivity|exact IH]. Qed.

Lemma script_no_pwrite old p : (forall rows, p <> PlAppend rows) -> forallb no_pwrite (script_of old p) = true.
Proof.
  intros Hp. destruct p as [| |rows|staged|new_rows|[|]]; cbn [script_of]; try reflexivity.
  - apply np_scan.
  - exfalso. now apply (Hp rows).
  - cbn [forallb no_pwrite andb]. rewrite !forallb_app, np_scan, np_temp. reflexivity.
  - cbn [forallb no_pwrite andb]. rewrite !forallb_app, np_scan, np_temp. reflexivity.
  - cbn [forallb no_pwrite andb]. rewrite !forallb_app, np_scan. reflexivity.
Qed.

(* every prefix of an insert's script: disk and disk-plus-buffer are both "old plus a prefix" *)
Lemma prefix_appends2 : forall rows k d o t st l,
  let w := run_steps (mkWorld d [] o t st l) (firstn k (flat_map append_script rows)) in
  (exists j, w_disk w = d ++ firstn j rows) /\ (exists j, w_disk w ++ w_pend w = d ++ firstn j rows).
Proof.
  induction rows as [|r rows IH]; intros k d o t st l; cbv zeta.
  - cbn [flat_map]. rewrite firstn_nil. cbn. split; exists 0; cbn; now rewrite ?app_nil_r.
  - cbn [flat_map]. rewrite run_firstn_app.
    destruct (le_lt_dec (length (append_script r)) k) as [Hk|Hk].
    + rewrite firstn_all2 by exact Hk. rewrite run_append1.
      destruct (IH (k - length (append_script r)) (d ++ [r]) o t st l) as [[j Hj] [j' Hj']].
      split; [exists (S j); rewrite Hj|exists (S j'); rewrite Hj']; rewrite <- app_assoc; reflexivity.
    + replace (k - length (append_script r)) with 0 by lia.
      cbn [firstn]. rewrite run_steps_nil.
      cbn [append_script length] in Hk.
      do 6 (destruct k as [|k]; [cbn; rewrite ?app_nil_r;
             (split; first [ exists 0; cbn; rewrite app_nil_r; reflexivity | exists 1; reflexivity ]) |]).
      lia.
Qed.

Theorem prefix_allowed2 old p k : allowed2 old p (run_steps (world_of old) (firstn k (script_of old p))).
Proof.
  destruct p as [| |rows|staged|new_rows|wt] eqn:Ep.
  3:{ unfold allowed2, world_of. cbn [script_of crash_allowed]. apply prefix_appends2. }
  all: rewrite <- Ep; unfold allowed2;
    assert (Hnp : forallb no_pwrite (firstn k (script_of old p)) = true)
      by (apply forallb_firstn', script_no_pwrite; subst p; intros rows; discriminate);
    rewrite (no_pwrite_pend _ (world_of old) Hnp eq_refl), app_nil_r;
    split; apply crash_atomic.
Qed.

(* the fault theorem: any prefix of the operation's script followed by any error-path steps *)
Theorem fault_disk_allowed old p k recovery : forallb safe recovery = true ->
  crash_allowed old p (w_disk (run_steps (run_steps (world_of old) (firstn k (script_of old p))) recovery)).
Proof.
  intros Hs. exact (proj1 (safe_run_allowed2 old p recovery _ Hs (prefix_allowed2 old p k))).
Qed.
(* and once the handle is flushed or closed, likewise *)
Theorem fault_disk_after_flush old p k recovery : forallb safe recovery = true ->
  crash_allowed old p (w_disk (apply (run_steps (run_steps (world_of old) (firstn k (script_of old p))) recovery) PClose)).
Proof.
  intros Hs. pose proof (safe_run_allowed2 old p (recovery ++ [PClose]) (run_steps (world_of old) (firstn k (script_of old p)))) as H.
  rewrite run_steps_app in H. apply H; [rewrite forallb_app, Hs; reflexivity|apply prefix_allowed2].
Qed.
