(* RemoveGenP.v — what a removal decides, regenerated from tinyflux/database.py on every run (gen/RemoveGen.v: _remove_helper executed symbolically -
   is the index asked and with which query; nothing named: 0; everything named: reset; after the loop nothing removed: 0 and nothing swapped in,
   nothing kept: reset; else the staged rows are swapped in and the index is maintained (remove + update) or dropped - together with
   _reset_database, remove and drop_measurement), is the model's remove_helper / reset_database / db_remove / db_drop for EVERY state, query and
   measurement argument.  The theorems about removals (C02: exactly the matching points go, the rest stay in order; C06: the invariant through
   removals; C10: drop_measurement) are thereby theorems about the decisions the source takes now. *)
From Coq Require Import List ZArith Bool Arith Lia.
From TF Require gen.ReadGen gen.RemoveGen.
From TF Require Import Base Query Index DB Spec InsertSem ReadSem RemoveSem proofs.ReadGenP proofs.LawsP proofs.IndexDefs proofs.RepP proofs.DBReadP proofs.DBRemoveP proofs.DBStepP proofs.DBRunP proofs.DBSpecP.
Import ListNotations.

Lemma gen_reset_eq s : RemoveGen.gen_reset s = reset_database s.
Proof. reflexivity. Qed.

Lemma filter_len_le {A} (f : A -> bool) (l : list A) : length (filter f l) <= length l.
Proof. induction l as [|x l IH]; cbn [filter length]; [lia|]. destruct (f x); cbn [length]; lia. Qed.

Section P.
Variable E : env.

Lemma scan_positions_len q m : forall rows i l, scan_positions E q m i rows = Some l -> length l <= length rows.
Proof.
  induction rows as [|p r IH]; intros i l H; cbn [scan_positions] in H.
  - injection H as <-. cbn. lia.
  - destruct (meas_pass m p).
    + destruct (eval E q p) as [b|]; [|discriminate].
      destruct (scan_positions E q m (S i) r) as [l'|] eqn:Hl; [|discriminate].
      cbn [option_map] in H. injection H as <-. specialize (IH _ _ Hl). destruct b; cbn [length]; lia.
    + specialize (IH _ _ H). cbn [length]. lia.
Qed.

(* the statements after the loops are the model's remove_finish, for a set of positions no larger than the storage *)
Lemma finish_eq (u : bool) removed s : length removed <= length (st_rows s) ->
  (if Nat.eqb (length removed) 0 then (s, ONat 0)
   else if Nat.eqb (keep_count removed s) 0 then (RemoveGen.gen_reset s, ONat (length removed))
   else (swapped_in removed s (if andb (st_auto s) u then index_remove_update removed s else ix_invalidate (st_idx s)), ONat (length removed)))
  = remove_finish u removed s.
Proof.
  intros Hle. unfold remove_finish, keep_count.
  destruct (Nat.eqb (length removed) 0) eqn:H0.
  - apply Nat.eqb_eq in H0. destruct removed; [reflexivity|discriminate].
  - apply Nat.eqb_neq in H0.
    assert (Hn : nonempty removed = true) by (destruct removed; [contradiction H0; reflexivity|reflexivity]).
    rewrite Hn. cbn [negb].
    destruct (Nat.eqb_spec (length (st_rows s) - length removed) 0) as [H1|H1];
    destruct (Nat.eqb_spec (length removed) (length (st_rows s))) as [H2|H2]; try lia; reflexivity.
Qed.

Theorem gen_remove_helper_eq s q m : RemoveGen.gen_remove_helper E s q m = remove_helper E s q m.
Proof.
  unfold RemoveGen.gen_remove_helper, remove_helper. rewrite search_with_meas.
  destruct (ix_valid (st_idx s) && index_is_exact q) eqn:Hu.
  - destruct (isearch E (st_idx s) (with_meas m q)) as [[|i items]|]; try reflexivity.
    cbn [nonempty negb]. unfold index_len.
    destruct (Nat.eqb (length (i :: items)) (ix_n (st_idx s))); [reflexivity|].
    cbv zeta. unfold loop_remove_by_items.
    apply (finish_eq true). rewrite <- (seq_length (length (st_rows s)) 0) at 2. apply filter_len_le.
  - unfold loop_remove_by_scan. destruct (scan_positions E q m 0 (st_rows s)) as [removed|] eqn:Hs; [|reflexivity].
    apply (finish_eq false). exact (scan_positions_len _ _ _ _ _ Hs).
Qed.

Theorem gen_remove_eq s q m : RemoveGen.gen_remove E s q m = db_remove E s q m.
Proof. unfold RemoveGen.gen_remove, db_remove. rewrite gen_read_prelude_eq. apply gen_remove_helper_eq. Qed.

Theorem gen_drop_eq s name : RemoveGen.gen_drop E s name = db_drop E s name.
Proof. unfold RemoveGen.gen_drop, db_drop. rewrite gen_read_prelude_eq. apply gen_remove_helper_eq. Qed.

(* hence remove and drop_measurement as the source defines them - decorator included - remove exactly the selected points *)
Theorem gen_remove_spec s q m : Inv s -> wf_query E q -> index_safe q ->
  let r := RemoveGen.gen_remove E s q m in
  snd r = ONat (length (filter (hit E q m) (st_rows s))) /\
  st_rows (fst r) = filter (fun p => negb (hit E q m p)) (st_rows s) /\
  st_auto (fst r) = st_auto s /\ Inv (fst r).
Proof. intros Hi Hw Hs. rewrite gen_remove_eq. exact (db_remove_spec E s q m Hi Hw Hs). Qed.
Theorem gen_drop_spec s name : Inv s -> name <> [] ->
  let r := RemoveGen.gen_drop E s name in
  snd r = ONat (length (filter (fun p => str_eqb (p_meas p) name) (st_rows s))) /\
  st_rows (fst r) = filter (fun p => negb (str_eqb (p_meas p) name)) (st_rows s) /\ Inv (fst r).
Proof. intros Hi Hn. rewrite gen_drop_eq. exact (db_drop_spec E s name Hi Hn). Qed.
End P.
