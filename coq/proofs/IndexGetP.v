(* IndexGetP.v — the index's own list- and count-valued getters as compiled from tinyflux/index.py (gen/IndexGen.v) answer exactly what is
   stored whenever the object describes the stored points: the compiled getters are the model's (proofs/IndexGenP.v), the model's are the
   specification's (proofs/GetterP.v). *)
From Coq Require Import List ZArith NArith Bool Arith.
From TF Require Import Base Query Index DB Spec IndexSem proofs.IndexDefs proofs.RepP proofs.GetterP proofs.IndexGenP.
From TF Require gen.IndexGen.
Import ListNotations.

Theorem source_len_exact g pts : Rep (abs g) pts -> IndexGen.gen___len__ g = length pts.
Proof. intros HR. rewrite gen_len_eq. apply (rep_n _ _ HR). Qed.
Theorem source_measurements_exact g pts : Rep (abs g) pts -> sort_dedup (IndexGen.gen_get_measurements g) = sort_dedup (map p_meas pts).
Proof. intros HR. rewrite gen_get_measurements_eq. apply ix_get_measurements_spec. exact HR. Qed.
Theorem source_timestamps_exact g pts m : Rep (abs g) pts -> IndexGen.gen_get_timestamps g m = map p_time (in_meas m pts).
Proof. intros HR. rewrite gen_get_timestamps_eq. apply ix_get_timestamps_spec. exact HR. Qed.
Theorem source_field_values_exact g pts k m : gwf g -> Rep (abs g) pts -> wf_points pts ->
  IndexGen.gen_get_field_values g k m = flat_map (fun p => match dget k (p_fields p) with Some v => [v] | None => [] end) (in_meas m pts).
Proof. intros [_ [Hf _]] HR Hw. rewrite (gen_get_field_values_eq g k m Hf). apply ix_get_field_values_spec; assumption. Qed.
Theorem source_field_keys_exact g pts m : Rep (abs g) pts ->
  sort_dedup (IndexGen.gen_get_field_keys g m) = sort_dedup (flat_map (fun p => map fst (p_fields p)) (in_meas m pts)).
Proof. intros HR. rewrite gen_get_field_keys_eq. apply ix_get_field_keys_spec. exact HR. Qed.
Theorem source_tag_keys_exact g pts m : tne (_tags g) -> Rep (abs g) pts ->
  sort_dedup (IndexGen.gen_get_tag_keys g m) = sort_dedup (flat_map (fun p => map fst (p_tags p)) (in_meas m pts)).
Proof. intros Ht HR. rewrite (gen_get_tag_keys_eq g m Ht). apply ix_get_tag_keys_spec. exact HR. Qed.
Theorem source_tne g pts p r u : gwf g -> tne (_tags g) ->
  tne (_tags (IndexGen.gen_build g pts)) /\ tne (_tags (IndexGen.gen_insert g [p])) /\ tne (_tags (IndexGen.gen_update (IndexGen.gen_remove g r) u)) /\ tne (_tags (IndexGen.gen__reset g)).
Proof.
  intros Hg Ht. split; [apply tne_build|]. split; [apply tne_insert_one; assumption|]. split; [| apply tne_reset].
  apply tne_update. - apply (gen_remove_eq g r Hg). - apply tne_remove. exact Hg.
Qed.
