(* DBStepP.v — insert and update of the database model meet their specification, every
   operation preserves the state invariant, and therefore every state reachable through the
   public API satisfies it (on which the read theorems of DBReadP.v rest). *)
From Coq Require Import List ZArith NArith Bool Arith Lia.
From TF Require Import Base Query Index DB Spec proofs.BaseP proofs.QueryP proofs.TimeSearchP proofs.TimeRepP
     proofs.IndexDefs proofs.ScanP proofs.IndexP proofs.RepP proofs.DBReadP proofs.DBRemoveP.
Import ListNotations.

Section DBStepP.
Variable E : env.
Variable C : cenv.
Variable norm : point -> point.

(* what the storage round trip and the user's callables may be assumed to do *)
Hypothesis norm_wf : forall p, wf_point p -> wf_point (norm p).
(* points handed to insert: well formed, and storage keeps them as they are (always so for
   MemoryStorage; for CSVStorage exactly the reserved-free points, CodecP.csv_norm_id) *)
Definition wf_insert (ps : list (option point)) (m : option str) : Prop :=
  forall p, In (Some p) ps -> wf_point p /\ norm (rename m p) = rename m p.
Definition wf_q (q : query) : Prop := wf_query E q /\ index_safe q.

Definition Inv' := Inv.

(* ---- init, reindex, reopen, remove_all ------------------------------------------------- *)
Lemma Inv_init auto : Inv (init auto).
Proof. unfold init, Inv. cbn. split; [intros p []|]. intros _. apply Rep_empty. Qed.

Lemma db_reopen_Inv s auto : Inv s -> Inv (fst (db_reopen s auto)).
Proof.
  intros [Hwf HR]. unfold db_reopen. cbn [fst].
  set (s0 := mkState (st_rows s) (ix_empty_valid (negb (nonempty (st_rows s)))) auto).
  assert (H0 : Inv s0).
  { unfold Inv, s0. cbn [st_rows st_idx]. split; [exact Hwf|]. destruct (st_rows s); cbn; [intros _; apply Rep_empty|discriminate]. }
  destruct (auto && negb (negb (nonempty (st_rows s)))); [apply (do_reindex_Inv Rep_build); exact H0|exact H0].
Qed.

(* ---- insert ------------------------------------------------------------------------------- *)
(* the points before the first element that is not a Point *)

Lemma last_map_Some (l : list Z) : forall d, l <> [] -> last (map Some l) None = Some (last l d).
Proof.
  induction l as [|x l IH]; intros d H; [congruence|]. destruct l as [|y l]; [reflexivity|].
  change (last (map Some (x :: y :: l)) None) with (last (map Some (y :: l)) None).
  change (last (x :: y :: l) d) with (last (y :: l) d). apply IH. discriminate.
Qed.
Lemma ix_latest_last (i : index) : ix_latest i = match ix_ts i with [] => None | t :: r => Some (last (ix_ts i) t) end.
Proof.
  unfold ix_latest. destruct (ix_ts i) as [|t r] eqn:Et; [reflexivity|]. apply last_map_Some. discriminate.
Qed.

Lemma insert_one_Inv (s : state) (p : point) : Inv s -> wf_point p -> norm p = p ->
  let ix := st_idx s in
  let ix' := if st_auto s && ix_valid ix then
               (if negb (ix_is_empty ix) && match ix_latest ix with Some t => Z.ltb (p_time p) t | None => false end
                then ix_invalidate ix else ix_insert ix p)
             else if ix_valid ix then ix_invalidate ix else ix in
  Inv (mkState (st_rows s ++ [norm p]) ix' (st_auto s)).
Proof.
  intros [Hwf HR] Hp Hn. cbn zeta. rewrite Hn. unfold Inv. cbn [st_rows st_idx]. split.
  - intros x Hx. apply in_app_iff in Hx. destruct Hx as [Hx|[Hx|[]]]; [now apply Hwf|now subst].
  - destruct (ix_valid (st_idx s)) eqn:Ev.
    + destruct (st_auto s); cbn [andb]; [|cbn; discriminate].
      destruct (negb (ix_is_empty (st_idx s)) && _) eqn:Eo; [cbn; discriminate|].
      intros _. apply Rep_insert; [exact (HR eq_refl)|exact Hp|].
      intros t Ht. specialize (HR eq_refl). pose proof (rep_time _ _ HR) as HT.
      apply andb_false_iff in Eo. destruct Eo as [Eo|Eo].
      * apply negb_false_iff in Eo. unfold ix_is_empty in Eo. repeat (apply andb_true_iff in Eo; destruct Eo as [Eo ?]).
        destruct (ix_ts (st_idx s)); [destruct Ht|discriminate].
      * rewrite ix_latest_last in Eo. destruct (ix_ts (st_idx s)) as [|t0 r] eqn:Ets; [destruct Ht|].
        rewrite <- Ets in *. apply Z.ltb_ge in Eo.
        destruct HT as [_ [_ [_ [_ [Hs _]]]]].
        pose proof (sorted_last_max (ix_ts (st_idx s)) t t0 Hs Ht). lia.
    + rewrite andb_false_r. rewrite Ev. discriminate.
Qed.

Lemma insert_loop_spec : forall ps s m count, Inv s -> wf_insert ps m ->
  let r := insert_loop norm s ps m count in
  st_rows (fst r) = st_rows s ++ map (rename m) (prefix_points ps) /\
  snd r = (if all_points ps then ONat (count + length ps) else ORaise) /\
  st_auto (fst r) = st_auto s /\ Inv (fst r).
Proof.
  induction ps as [|[p0|] ps IH]; intros s m count HI Hw; cbn zeta.
  - cbn. rewrite app_nil_r, Nat.add_0_r. auto.
  - cbn [insert_loop prefix_points all_points forallb map length].
    destruct (Hw p0 (or_introl eq_refl)) as [Hp0 Hn0].
    assert (Hwp : wf_point (rename m p0)).
    { unfold rename. destruct (truthy m); [|exact Hp0]. exact Hp0. }
    pose proof (insert_one_Inv s (rename m p0) HI Hwp Hn0) as H1. cbn zeta in H1.
    fold (rename m p0).
    match goal with |- context [insert_loop norm ?s1 ps m (S count)] => set (s1' := s1) in * end.
    specialize (IH s1' m (S count) H1 (fun p Hin => Hw p (or_intror Hin))). cbn zeta in IH.
    destruct IH as [Hr [Ho [Ha HI']]]. split; [|split; [|split]]; auto.
    + rewrite Hr. unfold s1'. cbn [st_rows]. rewrite Hn0, <- app_assoc. reflexivity.
    + rewrite Ho. cbn [andb]. fold (all_points ps). destruct (all_points ps); [f_equal; lia|reflexivity].
  - cbn. rewrite app_nil_r. auto.
Qed.

(* ---- update ------------------------------------------------------------------------------- *)
Lemma fold_ddel_sorted (V : Type) (ks : list str) : forall d : list (str * V), dsorted d = true ->
  dsorted (fold_left (fun d k => ddel k d) ks d) = true.
Proof. induction ks as [|k ks IH]; intros d H; [exact H|]. cbn [fold_left]. apply IH. now apply dsorted_ddel. Qed.

Lemma perform_update_wf u p p' : wf_point p -> perform_update C u p = UOk p' -> wf_point p'.
Proof.
  intros [Hpt Hpf] H. unfold perform_update in H.
  destruct (match u_time u with UNone => Some p | UStatic t => Some (set_time p t) | UCall id => option_map (set_time p) (c_time C id (p_time p)) end) as [p1|] eqn:E1; [|discriminate].
  assert (W1 : wf_point p1).
  { destruct (u_time u); [injection E1 as <-|injection E1 as <-|]; try (split; assumption).
    destruct (c_time C id (p_time p)); [|discriminate]. injection E1 as <-. split; assumption. }
  destruct (match u_meas u with UNone => Some p1 | UStatic [] => Some p1 | UStatic m => Some (set_meas p1 m)
            | UCall id => option_map (set_meas p1) (c_meas C id (p_meas p1)) end) as [p2|] eqn:E2; [|discriminate].
  assert (W2 : wf_point p2).
  { destruct W1 as [A B]. destruct (u_meas u) as [|[|c m]|id]; try (injection E2 as <-; split; assumption).
    destruct (c_meas C id (p_meas p1)); [|discriminate]. injection E2 as <-. split; assumption. }
  destruct (match u_tags u with UNone => Some p2 | UStatic d => Some (set_tags p2 (dupdate (p_tags p2) d))
            | UCall id => option_map (fun d => set_tags p2 (dupdate (p_tags p2) d)) (c_tags C id (p_tags p2)) end) as [p3|] eqn:E3; [|discriminate].
  assert (W3 : wf_point p3).
  { destruct W2 as [A B]. destruct (u_tags u) as [|d|id] eqn:Eu.
    - injection E3 as <-. split; assumption.
    - injection E3 as <-. split; cbn; [apply dsorted_dupdate; exact A|exact B].
    - destruct (c_tags C id (p_tags p2)) as [d|] eqn:Ec; [|discriminate]. injection E3 as <-.
      split; cbn; [apply dsorted_dupdate; exact A|exact B]. }
  destruct (match u_fields u with UNone => Some p3 | UStatic d => Some (set_fields p3 (dupdate (p_fields p3) d))
            | UCall id => option_map (fun d => set_fields p3 (dupdate (p_fields p3) d)) (c_fields C id (p_fields p3)) end) as [p4|] eqn:E4; [|discriminate].
  assert (W4 : wf_point p4).
  { destruct W3 as [A B]. destruct (u_fields u) as [|d|id] eqn:Eu.
    - injection E4 as <-. split; assumption.
    - injection E4 as <-. split; cbn; [exact A|apply dsorted_dupdate; exact B].
    - destruct (c_fields C id (p_fields p3)) as [d|] eqn:Ec; [|discriminate]. injection E4 as <-.
      split; cbn; [exact A|apply dsorted_dupdate; exact B]. }
  injection H as <-. destruct W4 as [A B]. split; cbn; [apply fold_ddel_sorted; exact A|apply fold_ddel_sorted; exact B].
Qed.

(* the rewrite loop computes the specification's map; when a callable fails, the rows are
   handed back as they were *)
Lemma update_loop_spec u (selp : point -> bool) : forall rows i (sel : nat -> point -> res),
  (forall j p, nth_error rows j = Some p -> sel (i + j) p = RB (selp p)) ->
  match spec_update_rows C norm selp u rows with
  | Some (l, n) => update_loop C norm u sel i rows = inl (l, n)
  | None => update_loop C norm u sel i rows = inr rows
  end.
Proof.
  induction rows as [|p r IH]; intros i sel Hsel; [reflexivity|].
  cbn [spec_update_rows update_loop].
  pose proof (Hsel 0 p eq_refl) as H0. rewrite Nat.add_0_r in H0. rewrite H0.
  assert (Hr : forall j q, nth_error r j = Some q -> sel (S i + j) q = RB (selp q)).
  { intros j q Hj. replace (S i + j) with (i + S j) by lia. apply Hsel. exact Hj. }
  specialize (IH (S i) sel Hr).
  destruct (selp p).
  - destruct (perform_update C u p) as [p'|part].
    + destruct (spec_update_rows C norm selp u r) as [[l n]|].
      * rewrite IH. destruct (point_eqb p' p); reflexivity.
      * rewrite IH. reflexivity.
    + reflexivity.
  - destruct (spec_update_rows C norm selp u r) as [[l n]|]; cbn [option_map fst snd].
    + rewrite IH. reflexivity.
    + rewrite IH. reflexivity.
Qed.

Lemma spec_update_rows_wf u (selp : point -> bool) : forall rows l n, wf_points rows ->
  spec_update_rows C norm selp u rows = Some (l, n) -> wf_points l /\ (n = 0 -> l = rows).
Proof.
  induction rows as [|p r IH]; intros l n Hwf H.
  - injection H as <- <-. split; [intros x []|reflexivity].
  - cbn [spec_update_rows] in H.
    assert (Hp : wf_point p) by (apply Hwf; now left).
    assert (Hr : wf_points r) by (intros x Hx; apply Hwf; now right).
    destruct (selp p).
    + destruct (perform_update C u p) as [p'|] eqn:Eu; [|discriminate].
      destruct (spec_update_rows C norm selp u r) as [[l' n']|]; [|discriminate].
      destruct (IH l' n' Hr eq_refl) as [Hl' Hz].
      destruct (point_eqb p' p); injection H as <- <-.
      * split; [intros x [<-|Hx]; [exact Hp|now apply Hl']|]. intros Hn. now rewrite (Hz Hn).
      * split; [|discriminate]. intros x [<-|Hx]; [|now apply Hl'].
        apply norm_wf. exact (perform_update_wf u p p' Hp Eu).
    + destruct (spec_update_rows C norm selp u r) as [[l' n']|]; [|discriminate].
      cbn in H. injection H as <- <-. destruct (IH l' n' Hr eq_refl) as [Hl' Hz].
      split; [intros x [<-|Hx]; [exact Hp|now apply Hl']|]. intros Hn. now rewrite (Hz Hn).
Qed.

Definition upd_sel (update_all : bool) (q : query) (m : option str) (p : point) : bool :=
  meas_pass m p && (if update_all then true else denote E q p).

Lemma state_eta s : mkState (st_rows s) (st_idx s) (st_auto s) = s.
Proof. destruct s; reflexivity. Qed.

(* one run of the loop followed by the index maintenance of _update_helper *)
Lemma update_run_spec s u (selp : point -> bool) (sel : nat -> point -> res) :
  Inv s -> (forall j p, nth_error (st_rows s) j = Some p -> sel j p = RB (selp p)) ->
  let r := match update_loop C norm u sel 0 (st_rows s) with
           | inr rows' => (mkState rows' (st_idx s) (st_auto s), ORaise)
           | inl (rows', 0) => (s, ONat 0)
           | inl (rows', n) => (mkState rows' (if st_auto s then ix_build rows' else ix_invalidate (st_idx s)) (st_auto s), ONat n)
           end in
  match spec_update_rows C norm selp u (st_rows s) with
  | Some (l, n) => snd r = ONat n /\ st_rows (fst r) = l /\ st_auto (fst r) = st_auto s /\ Inv (fst r)
  | None => snd r = ORaise /\ fst r = s
  end.
Proof.
  intros HI Hsel. cbn zeta. pose proof (update_loop_spec u selp (st_rows s) 0 sel Hsel) as H.
  destruct (spec_update_rows C norm selp u (st_rows s)) as [[l n]|] eqn:Es.
  - rewrite H. destruct HI as [Hwf HR]. destruct (spec_update_rows_wf u selp _ _ _ Hwf Es) as [Hl Hz].
    destruct n as [|n].
    + cbn [fst snd]. rewrite (Hz eq_refl). split; [reflexivity|]. split; [reflexivity|]. split; [reflexivity|split; assumption].
    + cbn [fst snd st_rows st_auto]. split; [reflexivity|]. split; [reflexivity|]. split; [reflexivity|].
      unfold Inv. cbn [st_rows st_idx]. split; [exact Hl|].
      destruct (st_auto s); [intros _; now apply Rep_build|cbn; discriminate].
  - rewrite H. cbn [fst snd]. split; [reflexivity|]. apply state_eta.
Qed.

Theorem update_helper_spec s update_all q u m : Inv s -> wf_q q -> upd_given u = true ->
  let r := update_helper E C norm s update_all q (Some u) m in
  match spec_update_rows C norm (upd_sel update_all q m) u (st_rows s) with
  | Some (l, n) => snd r = ONat n /\ st_rows (fst r) = l /\ st_auto (fst r) = st_auto s /\ Inv (fst r)
  | None => snd r = ORaise /\ fst r = s
  end.
Proof.
  intros HI [Hq Hs] Hg. unfold update_helper. rewrite Hg. cbn [negb].
  assert (Hscan : forall j p, nth_error (st_rows s) j = Some p ->
            (fun (_ : nat) p => if meas_pass m p then (if update_all then RB true else eval E q p) else RB false) j p
            = RB (upd_sel update_all q m p)).
  { intros j p _. unfold upd_sel. destruct (meas_pass m p); [|reflexivity]. destruct update_all; [reflexivity|].
    now rewrite (eval_denote E q p Hq). }
  destruct (negb update_all && ix_valid (st_idx s) && index_is_exact q) eqn:Eui.
  - apply andb_true_iff in Eui. destruct Eui as [Eui Ex]. apply andb_true_iff in Eui. destruct Eui as [Ea Ev].
    apply negb_true_iff in Ea. subst update_all.
    destruct (index_plan_spec E s q m HI Hq Hs) as [Hp|[items [Hp [Hnd [Hin Hn]]]]];
      unfold index_plan in Hp; rewrite Ev, Ex in Hp; cbn [andb] in Hp.
    + destruct (isearch E (st_idx s) (with_meas m q)); discriminate.
    + destruct (isearch E (st_idx s) (with_meas m q)) as [items'|]; [|discriminate].
      assert (items' = items) by congruence. subst items'. clear Hp.
      assert (Hsame : forall p, upd_sel false q m p = hit E q m p) by reflexivity.
      destruct items as [|k0 rest] eqn:Ei.
      * (* no candidate: the specification changes nothing either *)
        assert (Hno : forall p, In p (st_rows s) -> upd_sel false q m p = false).
        { intros p Hp. destruct (upd_sel false q m p) eqn:Eh; [|reflexivity]. exfalso.
          apply In_nth_error in Hp. destruct Hp as [k Hk]. apply (proj2 (Hin k)). eauto. }
        assert (Hspec : spec_update_rows C norm (upd_sel false q m) u (st_rows s) = Some (st_rows s, 0)).
        { clear -Hno. induction (st_rows s) as [|p r IH]; [reflexivity|]. cbn [spec_update_rows].
          rewrite (Hno p (or_introl eq_refl)). rewrite IH; [reflexivity|]. intros x Hx. apply Hno. now right. }
        rewrite Hspec. cbn [fst snd]. split; [reflexivity|]. split; [reflexivity|]. split; [reflexivity|exact HI].
      * rewrite <- Ei in *. clear Ei.
        destruct (Nat.eqb (length items) (ix_n (st_idx s))).
        -- exact (update_run_spec s u (upd_sel false q m) _ HI Hscan).
        -- apply (update_run_spec s u (upd_sel false q m) (fun i _ => RB (mem i items)) HI).
           intros j p Hj. f_equal. rewrite Hsame. destruct (hit E q m p) eqn:Eh.
           ++ apply mem_In, Hin. eauto.
           ++ apply mem_false_In. intros Hc. apply Hin in Hc. destruct Hc as [p' [Hp' Hh]]. congruence.
  - exact (update_run_spec s u (upd_sel update_all q m) _ HI Hscan).
Qed.
End DBStepP.
