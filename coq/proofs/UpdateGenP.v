(* UpdateGenP.v — what an update decides around its per-point updater, regenerated from tinyflux/database.py on every run (gen/UpdateGen.v:
   _update_helper executed symbolically - is the index asked (never for update_all) and with which query; nothing named: 0; everything named: the
   scan; the rewrite inside try / except; nothing changed: 0 and nothing swapped in; else the index dropped, the staged rows swapped in, the index
   rebuilt when automatic indexing is on - with update and update_all), is the model's update_helper / db_update / db_update_all for EVERY state,
   query, valid update arguments and measurement filter.  The theorems about updates (C03: exactly the matching points change, by exactly the
   given arguments; C06: the invariant through updates; C11: a failed update changes nothing) are thereby theorems about the decisions the source
   takes now. *)
From Coq Require Import List ZArith Bool Arith Lia.
From TF Require gen.ReadGen gen.UpdateGen.
From TF Require Import Base Query Index DB Spec InsertSem ReadSem UpdateSem proofs.ReadGenP proofs.IndexDefs proofs.BaseP proofs.RepP proofs.DBReadP proofs.DBRemoveP proofs.DBStepP proofs.DBRunP proofs.DBSpecP.
Import ListNotations.

Section P.
Variable E : env.
Variable C : cenv.
Variable norm : point -> point.

Lemma finish_eq (s : state) (r : (list point * nat) + list point) :
  match r with
  | inr rows' => (left_behind rows' s, ORaise)
  | inl (rows', n) => if Nat.eqb n 0 then (s, ONat 0)
                      else (swapped_rows rows' s (if st_auto s then ix_build rows' else ix_invalidate (st_idx s)), ONat n)
  end =
  match r with
  | inr rows' => (mkState rows' (st_idx s) (st_auto s), ORaise)
  | inl (rows', 0) => (s, ONat 0)
  | inl (rows', n) => (mkState rows' (if st_auto s then ix_build rows' else ix_invalidate (st_idx s)) (st_auto s), ONat n)
  end.
Proof. destruct r as [[rows' [|n]]|rows']; reflexivity. Qed.

Theorem gen_update_helper_eq s ua q u m : upd_given u = true ->
  UpdateGen.gen_update_helper E C norm s ua q u m = update_helper E C norm s ua q (Some u) m.
Proof.
  intros Hg. unfold UpdateGen.gen_update_helper, update_helper. rewrite Hg. cbn [negb]. cbv zeta.
  rewrite search_with_meas. rewrite andb_assoc.
  unfold loop_update_by_scan, loop_update_by_items, index_len.
  destruct (negb ua && ix_valid (st_idx s) && index_is_exact q).
  - destruct (isearch E (st_idx s) (with_meas m q)) as [[|i items]|]; try reflexivity.
    cbn [nonempty negb].
    destruct (Nat.eqb (length (i :: items)) (ix_n (st_idx s))); apply finish_eq.
  - apply finish_eq.
Qed.

Theorem gen_update_eq s q u m : upd_given u = true -> UpdateGen.gen_update E C norm s q u m = db_update E C norm s q (Some u) m.
Proof. intros Hg. unfold UpdateGen.gen_update, db_update. rewrite gen_read_prelude_eq. apply gen_update_helper_eq, Hg. Qed.

Theorem gen_update_all_eq s u : upd_given u = true -> UpdateGen.gen_update_all E C norm s u = db_update_all E C norm s (Some u).
Proof. intros Hg. unfold UpdateGen.gen_update_all, db_update_all. rewrite gen_read_prelude_eq. apply gen_update_helper_eq, Hg. Qed.

(* hence update and update_all as the source defines them - decorators included - are the specification's map over the stored rows *)
Theorem gen_update_spec : (forall p, wf_point p -> wf_point (norm p)) ->
  forall s q u m, Inv s -> wf_query E q -> index_safe q -> upd_given u = true ->
  let r := UpdateGen.gen_update E C norm s q u m in
  match spec_update_rows C norm (hit E q m) u (st_rows s) with
  | Some (l, n) => snd r = ONat n /\ st_rows (fst r) = l /\ Inv (fst r)
  | None => snd r = ORaise /\ fst r = read_prelude s
  end.
Proof. intros Hn s q u m Hi Hw Hs Hg. rewrite (gen_update_eq s q u m Hg). exact (db_update_spec E C norm Hn s q u m Hi Hw Hs Hg). Qed.
Theorem gen_update_all_spec : (forall p, wf_point p -> wf_point (norm p)) ->
  forall s u, Inv s -> upd_given u = true ->
  let r := UpdateGen.gen_update_all E C norm s u in
  match spec_update_rows C norm (fun _ => true) u (st_rows s) with
  | Some (l, n) => snd r = ONat n /\ st_rows (fst r) = l /\ Inv (fst r)
  | None => snd r = ORaise /\ fst r = read_prelude s
  end.
Proof. intros Hn s u Hi Hg. rewrite (gen_update_all_eq s u Hg). exact (db_update_all_spec E C norm Hn s u Hi Hg). Qed.
End P.
