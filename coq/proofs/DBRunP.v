(* DBRunP.v — every operation of the public API preserves the state invariant, hence every
   state reachable from an empty database satisfies it: an index that the database reports as
   valid describes exactly the stored points (Rep), whatever the history.  Also: what each
   writing operation does to the stored rows. *)
From Coq Require Import List ZArith NArith Bool Arith Lia.
From TF Require Import Base Query Index DB Spec proofs.BaseP proofs.QueryP proofs.TimeSearchP proofs.TimeRepP
     proofs.IndexDefs proofs.ScanP proofs.IndexP proofs.RepP proofs.DBReadP proofs.DBRemoveP proofs.DBStepP.
Import ListNotations.

Section DBRunP.
Variable E : env.
Variable C : cenv.
Variable norm : point -> point.
Hypothesis norm_wf : forall p, wf_point p -> wf_point (norm p).

Notation step := (step E C norm).
Notation run := (run E C norm).
Notation wf_q := (wf_q E).
Notation wf_insert := (wf_insert norm).

(* ---- reads leave the rows alone and only (re)build the index ---------------------------- *)
Ltac crush_fst :=
  repeat match goal with
         | |- context [match ?x with _ => _ end] => destruct x
         end; reflexivity.

Lemma db_search_fst s q m srt : fst (db_search E s q m srt) = read_prelude s.
Proof. unfold db_search. crush_fst. Qed.
Lemma db_count_fst s q m : fst (db_count E s q m) = read_prelude s.
Proof. unfold db_count. crush_fst. Qed.
Lemma db_contains_fst s q m : fst (db_contains E s q m) = read_prelude s.
Proof. unfold db_contains. crush_fst. Qed.
Lemma db_get_fst s q m : fst (db_get E s q m) = read_prelude s.
Proof. unfold db_get. crush_fst. Qed.
Lemma db_select_fst s ks q m : fst (db_select E s ks q m) = read_prelude s.
Proof. unfold db_select. crush_fst. Qed.

Definition wf_ou_q (q : query) (u : option updspec) : Prop := wf_q q.

Definition wf_hop (name : str) (h : hop) : Prop :=
  match h with
  | HRemove q | HUpdate q _ => wf_q q
  | HInsert ps => wf_insert ps (Some name)
  | _ => True
  end.
(* the documented domain of each operation, as far as the invariant needs it *)
Definition wf_op (o : op) : Prop :=
  match o with
  | Insert ps m => wf_insert ps m
  | Remove q _ | Update q _ _ => wf_q q
  | Handle name h => wf_hop name h
  | _ => True
  end.

Lemma wf_q_drop name : wf_q (QS AMeas [] (TCmp Ceq (VStr name))).
Proof. split; [exact I|]. intros _. reflexivity. Qed.
Lemma wf_q_noop a : wf_q (QNoop a).
Proof. split; [exact I|]. intros _. reflexivity. Qed.

Lemma remove_Inv s q m : Inv s -> wf_q q -> Inv (fst (db_remove E s q m)).
Proof.
  intros HI [Hq Hs]. unfold db_remove.
  exact (proj2 (proj2 (proj2 (remove_helper_spec E (read_prelude s) q m (read_prelude_Inv Rep_build s HI) Hq Hs)))).
Qed.

Lemma update_helper_Inv s ua q u m : Inv s -> wf_q q -> Inv (fst (update_helper E C norm s ua q u m)).
Proof.
  intros HI Hq. destruct u as [u|]; [|cbn; exact HI].
  destruct (upd_given u) eqn:Eg; [|unfold update_helper; rewrite Eg; cbn; exact HI].
  pose proof (update_helper_spec E C norm norm_wf s ua q u m HI Hq Eg) as H. cbn zeta in *.
  destruct (spec_update_rows C norm (upd_sel E ua q m) u (st_rows s)) as [[l n]|].
  - tauto.
  - destruct H as [Hr Hs]. rewrite Hs. exact HI.
Qed.

Theorem step_Inv s o : Inv s -> wf_op o -> Inv (fst (step s o)).
Proof.
  intros HI Hw.
  assert (HP : Inv (read_prelude s)) by (apply (read_prelude_Inv Rep_build); exact HI).
  destruct o as [ps m|q m|name| |q u m|u|q m srt|q m|q m|q m|ks q m|srt| | | |m|ks m|m|k m|m| |auto| |name h];
    cbn [step wf_op] in *.
  - exact (proj2 (proj2 (proj2 (insert_loop_spec norm ps s m 0 HI Hw)))).
  - now apply remove_Inv.
  - unfold db_drop. exact (proj2 (proj2 (proj2 (remove_helper_spec E _ _ _ HP (proj1 (wf_q_drop name)) (proj2 (wf_q_drop name)))))).
  - apply reset_database_Inv.
  - unfold db_update. now apply update_helper_Inv.
  - unfold db_update_all. apply update_helper_Inv; [exact HP|apply wf_q_noop].
  - now rewrite db_search_fst.
  - now rewrite db_count_fst.
  - now rewrite db_contains_fst.
  - now rewrite db_get_fst.
  - now rewrite db_select_fst.
  - exact HP.
  - exact HI.
  - exact HI.
  - exact HP.
  - exact HP.
  - exact HP.
  - exact HP.
  - exact HP.
  - exact HP.
  - apply (do_reindex_Inv Rep_build). exact HI.
  - now apply db_reopen_Inv.
  - exact HI.
  - destruct h as [| |srt|q|q|q|q srt|ks q|  |k| |ks| |ps|q| |q u|u]; cbn [handle_step wf_hop fst] in *; try exact HI; try exact HP.
    + now rewrite db_contains_fst.
    + now rewrite db_count_fst.
    + now rewrite db_get_fst.
    + now rewrite db_search_fst.
    + now rewrite db_select_fst.
    + exact (proj2 (proj2 (proj2 (insert_loop_spec norm ps s (Some name) 0 HI Hw)))).
    + now apply remove_Inv.
    + unfold db_drop. exact (proj2 (proj2 (proj2 (remove_helper_spec E _ _ _ HP (proj1 (wf_q_drop name)) (proj2 (wf_q_drop name)))))).
    + unfold db_update. now apply update_helper_Inv.
    + unfold db_update. apply update_helper_Inv; [exact HP|apply wf_q_noop].
Qed.

(* a history all of whose operations are in their documented domain *)
Fixpoint wf_history (ops : list op) : Prop := match ops with [] => True | o :: r => wf_op o /\ wf_history r end.

Lemma run_cons s o r : run s (o :: r) = (snd (step s o) :: fst (run (fst (step s o)) r), snd (run (fst (step s o)) r)).
Proof. cbn [DB.run]. destruct (step s o) as [s' x]. cbn [fst snd]. destruct (run s' r). reflexivity. Qed.

Theorem run_Inv : forall ops s, Inv s -> wf_history ops -> Inv (snd (run s ops)).
Proof.
  induction ops as [|o r IH]; intros s HI Hok; [exact HI|].
  destruct Hok as [Hw Hr]. rewrite run_cons. cbn [snd]. apply IH; [now apply step_Inv|exact Hr].
Qed.

Theorem reachable_Inv auto ops : wf_history ops -> Inv (snd (run (init auto) ops)).
Proof. apply run_Inv, Inv_init. Qed.

(* a described index and a rebuilt one give the same set of matches for every query the index serves *)
Theorem valid_is_rebuilt_search i pts q : Rep i pts -> wf_points pts -> wf_query E q -> exact_for_index q = true ->
  exists a b, isearch E i q = Some a /\ isearch E (ix_build pts) q = Some b /\ NoDup a /\ NoDup b /\ forall k, In k a <-> In k b.
Proof.
  intros HR Hwf Hq Hx.
  destruct (isearch_exact E i pts q HR Hwf Hq Hx) as [a [Ha [Hna Hia]]].
  destruct (isearch_exact E (ix_build pts) pts q (Rep_build pts Hwf) Hwf Hq Hx) as [b [Hb [Hnb Hib]]].
  exists a, b. repeat split; auto; intros H; [apply Hib, Hia|apply Hia, Hib]; exact H.
Qed.
End DBRunP.
