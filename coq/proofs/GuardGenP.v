(* GuardGenP.v — the guard regenerated from tinyflux/database.py on every run (gen/GuardGen.v:
   index_is_exact, which decides whether the index or a storage scan answers a query) is, for
   EVERY query and enough fuel, the hand model's DB.index_is_exact: so every theorem that rests
   on the guard (index_safe, dsl_index_safe, the read / remove / update specifications) is a
   theorem about what the source says now. *)
From Coq Require Import List Bool Arith Lia.
From TF Require gen.GuardGen.
From TF Require Import Base Query Index DB QueryObj.
Import ListNotations.

Lemma field_simple_obj x : q_isinst KSimple x && attr_name_eqb (q_point_attr x) AFields = is_field_simple x.
Proof. destruct x as [a path t|a| | |]; try reflexivity; destruct a; reflexivity. Qed.

(* (every case starts with `first [reflexivity | ...]`: when the translator refuses the source, gen/GuardGen.v holds the hand model itself) *)
Theorem gen_index_is_exact_eq : forall q fuel, q_size q <= fuel -> GuardGen.index_is_exact fuel q = DB.index_is_exact q.
Proof.
  induction q as [a path t|a|l IHl r IHr|l IHl r IHr|x IH]; intros fuel Hf; (destruct fuel as [|f]; [cbn in Hf; lia|]).
  - first [reflexivity | cbn; destruct (path_hashable path); reflexivity].
  - reflexivity.
  - first [reflexivity |
    cbn [q_size] in Hf; cbn [GuardGen.index_is_exact DB.index_is_exact];
    change (q_isinst KCompound (QAnd l r)) with true; change (q_isinst KSimple (QAnd l r)) with false; change (opname_eqb (q_operator (QAnd l r)) ONot) with false;
    change (q_query1 (QAnd l r)) with l; change (q_query2 (QAnd l r)) with (Some r); cbn [andb orb negb];
    rewrite IHl, IHr by lia; reflexivity ].
  - first [reflexivity |
    cbn [q_size] in Hf; cbn [GuardGen.index_is_exact DB.index_is_exact];
    change (q_isinst KCompound (QOr l r)) with true; change (q_isinst KSimple (QOr l r)) with false; change (opname_eqb (q_operator (QOr l r)) ONot) with false;
    change (q_query1 (QOr l r)) with l; change (q_query2 (QOr l r)) with (Some r); cbn [andb orb negb];
    rewrite IHl, IHr by lia; reflexivity ].
  - first [reflexivity |
    cbn [q_size] in Hf; cbn [GuardGen.index_is_exact DB.index_is_exact];
    change (q_isinst KCompound (QNot x)) with true; change (q_isinst KSimple (QNot x)) with false; change (opname_eqb (q_operator (QNot x)) ONot) with true;
    change (q_query1 (QNot x)) with x; change (q_query2 (QNot x)) with (@None query); cbn [andb orb negb];
    rewrite field_simple_obj; destruct (is_field_simple x); [reflexivity|]; rewrite IH by lia; first [apply andb_true_r | reflexivity] ].
Qed.

Corollary gen_index_is_exact_size q : GuardGen.index_is_exact (q_size q) q = DB.index_is_exact q.
Proof. apply gen_index_is_exact_eq. lia. Qed.
