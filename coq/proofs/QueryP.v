(* QueryP.v - queries: evaluation meaning (C09) and equality soundness (C17). *)
From Coq Require Import List ZArith NArith Bool Arith Lia.
From TF Require Import Base Query Index DB Spec.
Import ListNotations.

(* ====================================================================================== *)
(* C09                                                                                    *)
(* ====================================================================================== *)

Lemma str_eqb_eq : forall a b : str, str_eqb a b = true <-> a = b.
Proof.
  induction a as [|x a IH]; intros b; destruct b as [|y b]; cbn [str_eqb].
  - split; intros _; reflexivity.
  - split; intros H; discriminate H.
  - split; intros H; discriminate H.
  - rewrite andb_true_iff, N.eqb_eq, IH. split.
    + intros [H1 H2]. subst. reflexivity.
    + intros H. injection H as H1 H2. split; assumption.
Qed.

Lemma str_eqb_refl : forall a : str, str_eqb a a = true.
Proof. intros a. apply str_eqb_eq. reflexivity. Qed.

Lemma num_eqb_eq : forall a b : num, num_eqb a b = true -> a = b.
Proof.
  intros a b H. destruct a as [m1 e1| | |]; destruct b as [m2 e2| | |]; cbn [num_eqb] in H;
    try discriminate H; try reflexivity.
  apply andb_true_iff in H. destruct H as [H1 H2].
  apply Z.eqb_eq in H1. apply Z.eqb_eq in H2. subst. reflexivity.
Qed.

Lemma value_eqb_eq : forall a b : value, value_eqb a b = true -> a = b.
Proof.
  intros a b H.
  destruct a as [t1|s1| |x1|d1|n1]; destruct b as [t2|s2| |x2|d2|n2]; cbn [value_eqb] in H;
    try discriminate H; try reflexivity.
  - apply Z.eqb_eq in H. subst. reflexivity.
  - apply str_eqb_eq in H. subst. reflexivity.
  - apply num_eqb_eq in H. subst. reflexivity.
  - apply N.eqb_eq in H. subst. reflexivity.
Qed.

Lemma run_test_denote : forall E t v, wf_test E t -> run_test E t v = RB (denote_test E t v).
Proof.
  intros E t v Hwf. destruct t as [c rhs| |re fl|re fl|id]; cbn [run_test denote_test]; try reflexivity.
  cbn [wf_test] in Hwf. specialize (Hwf v).
  destruct (tenv E id v) as [b|] eqn:Et.
  - reflexivity.
  - exfalso. apply Hwf. reflexivity.
Qed.

Theorem eval_denote : forall E q p, wf_query E q -> eval E q p = RB (denote E q p).
Proof.
  intros E q p. induction q as [a path t|a|l IHl r IHr|l IHl r IHr|q IHq]; intros Hwf.
  - cbn [eval denote wf_query] in *. unfold eval_simple, denote_simple.
    destruct (resolve E path (attr_value a p)) as [v|] eqn:Er.
    + apply run_test_denote. exact Hwf.
    + reflexivity.
  - reflexivity.
  - cbn [wf_query] in Hwf. destruct Hwf as [Hl Hr].
    cbn [eval denote]. rewrite (IHl Hl), (IHr Hr). reflexivity.
  - cbn [wf_query] in Hwf. destruct Hwf as [Hl Hr].
    cbn [eval denote]. rewrite (IHl Hl), (IHr Hr). reflexivity.
  - cbn [wf_query] in Hwf. cbn [eval denote]. rewrite (IHq Hwf). reflexivity.
Qed.

Theorem eval_total : forall E q p, wf_query E q -> exists b, eval E q p = RB b.
Proof.
  intros E q p Hwf. exists (denote E q p). apply eval_denote. exact Hwf.
Qed.

Theorem eval_not : forall E q p b, eval E q p = RB b -> eval E (QNot q) p = RB (negb b).
Proof. intros E q p b H. cbn [eval]. rewrite H. reflexivity. Qed.

Theorem eval_and : forall E l r p a b, eval E l p = RB a -> eval E r p = RB b -> eval E (QAnd l r) p = RB (a && b).
Proof. intros E l r p a b Hl Hr. cbn [eval]. rewrite Hl, Hr. reflexivity. Qed.

Theorem eval_or : forall E l r p a b, eval E l p = RB a -> eval E r p = RB b -> eval E (QOr l r) p = RB (a || b).
Proof. intros E l r p a b Hl Hr. cbn [eval]. rewrite Hl, Hr. reflexivity. Qed.

Lemma dget_map : forall (A B : Type) (f : A -> B) (k : str) (d : list (str * A)),
  dget k (map (fun kv => (fst kv, f (snd kv))) d) = option_map f (dget k d).
Proof.
  intros A B f k d. induction d as [|[k' v] d IH].
  - reflexivity.
  - cbn [map dget fst snd]. destruct (str_eqb k k') eqn:Ek.
    + reflexivity.
    + exact IH.
Qed.

Theorem missing_tag_false : forall E k path t p, dget k (p_tags p) = None -> eval E (QS ATags (PKey k :: path) t) p = RB false.
Proof.
  intros E k path t p H. cbn [eval]. unfold eval_simple. cbn [attr_value]. unfold vtags.
  cbn [resolve]. rewrite dget_map, H. reflexivity.
Qed.

Theorem missing_field_false : forall E k path t p, dget k (p_fields p) = None -> eval E (QS AFields (PKey k :: path) t) p = RB false.
Proof.
  intros E k path t p H. cbn [eval]. unfold eval_simple. cbn [attr_value]. unfold vfields.
  cbn [resolve]. rewrite dget_map, H. reflexivity.
Qed.

Theorem none_order_false : forall E c rhs, c <> Ceq -> c <> Cne -> run_test E (TCmp c rhs) VNone = RB false.
Proof.
  intros E c rhs H1 H2. cbn [run_test].
  destruct c; try (exfalso; apply H1; reflexivity); try (exfalso; apply H2; reflexivity);
    destruct rhs; reflexivity.
Qed.

Theorem cmp_eq_meaning : forall E rhs v, run_test E (TCmp Ceq rhs) v = RB (value_eqb v rhs).
Proof. intros E rhs v. reflexivity. Qed.

Theorem present_tag_cmp : forall E k c rhs p v, dget k (p_tags p) = Some v -> eval E (QS ATags [PKey k] (TCmp c rhs)) p = RB (match pycmp c (tagval v) rhs with Some b => b | None => false end).
Proof.
  intros E k c rhs p v H. cbn [eval]. unfold eval_simple. cbn [attr_value]. unfold vtags.
  cbn [resolve]. rewrite dget_map, H. reflexivity.
Qed.

Theorem noop_true : forall E a p, eval E (QNoop a) p = RB true.
Proof. intros E a p. reflexivity. Qed.

(* ====================================================================================== *)
(* C17                                                                                    *)
(* ====================================================================================== *)

(* meaning of a hash tree *)
Fixpoint hden (E : env) (h : hv) (p : point) : res :=
  match h with
  | HCmp a c ks rhs => eval_simple E a (map PKey ks) (TCmp c rhs) p
  | HExists a ks => eval_simple E a (map PKey ks) TExists p
  | HRegex s a ks re fl => eval_simple E a (map PKey ks) (if s then TSearch re fl else TMatch re fl) p
  | HTest a ks id => eval_simple E a (map PKey ks) (TUser id) p
  | HEmpty => RB true
  | HAnd x y => res_and (hden E x p) (hden E y p)
  | HOr x y => res_or (hden E x p) (hden E y p)
  | HNot x => res_not (hden E x p)
  end.

Lemma path_keys_map : forall path ks, path_keys path = Some ks -> path = map PKey ks.
Proof.
  induction path as [|pt path IH]; intros ks H.
  - cbn [path_keys] in H. injection H as H. subst. reflexivity.
  - destruct pt as [k|id]; cbn [path_keys] in H.
    + destruct (path_keys path) as [ks'|] eqn:Ep; cbn [option_map] in H.
      * injection H as H. subst. cbn [map]. f_equal. apply IH. reflexivity.
      * discriminate H.
    + discriminate H.
Qed.

Lemma qhash_hden : forall E q h, qhash q = Some h -> forall p, eval E q p = hden E h p.
Proof.
  intros E q. induction q as [a path t|a|l IHl r IHr|l IHl r IHr|q IHq]; intros h H p.
  - cbn [qhash] in H. destruct (path_keys path) as [ks|] eqn:Ep.
    + apply path_keys_map in Ep. subst path. injection H as H. subst h.
      destruct t as [c rhs| |re fl|re fl|id]; reflexivity.
    + discriminate H.
  - cbn [qhash] in H. injection H as H. subst h. reflexivity.
  - cbn [qhash] in H. destruct (qhash l) as [x|]; [|discriminate H].
    destruct (qhash r) as [y|]; [|discriminate H].
    injection H as H. subst h. cbn [eval hden].
    rewrite (IHl x eq_refl p), (IHr y eq_refl p). reflexivity.
  - cbn [qhash] in H. destruct (qhash l) as [x|]; [|discriminate H].
    destruct (qhash r) as [y|]; [|discriminate H].
    injection H as H. subst h. cbn [eval hden].
    rewrite (IHl x eq_refl p), (IHr y eq_refl p). reflexivity.
  - cbn [qhash] in H. destruct (qhash q) as [x|]; cbn [option_map] in H; [|discriminate H].
    injection H as H. subst h. cbn [eval hden].
    rewrite (IHq x eq_refl p). reflexivity.
Qed.

Lemma attr_eqb_eq : forall a b, attr_eqb a b = true -> a = b.
Proof. intros a b H. destruct a; destruct b; try discriminate H; reflexivity. Qed.

Lemma cmp_eqb_eq : forall a b, cmp_eqb a b = true -> a = b.
Proof. intros a b H. destruct a; destruct b; try discriminate H; reflexivity. Qed.

Lemma strs_eqb_eq : forall a b, strs_eqb a b = true -> a = b.
Proof.
  induction a as [|x a IH]; intros b H; destruct b as [|y b]; cbn [strs_eqb] in H;
    try discriminate H; try reflexivity.
  apply andb_true_iff in H. destruct H as [H1 H2].
  apply str_eqb_eq in H1. apply IH in H2. subst. reflexivity.
Qed.

Lemma res_and_comm : forall x y, res_and x y = res_and y x.
Proof. intros x y. destruct x as [a|]; destruct y as [b|]; cbn [res_and]; try reflexivity. rewrite andb_comm. reflexivity. Qed.

Lemma res_or_comm : forall x y, res_or x y = res_or y x.
Proof. intros x y. destruct x as [a|]; destruct y as [b|]; cbn [res_or]; try reflexivity. rewrite orb_comm. reflexivity. Qed.

(* two-element frozensets: the four disjunctions force one of the two pairings *)
Lemma set2_cases : forall ac ad bc bd : bool,
  (ac || ad) && (bc || bd) && (ac || bc) && (ad || bd) = true ->
  (ac = true /\ bd = true) \/ (ad = true /\ bc = true).
Proof.
  intros ac ad bc bd H. destruct ac; destruct ad; destruct bc; destruct bd; cbn in H;
    try discriminate H; auto.
Qed.

Lemma hv_eqb_hden : forall E x y, hv_eqb x y = true -> forall p, hden E x p = hden E y p.
Proof.
  intros E x.
  induction x as [a c ks rhs|a ks|s a ks re fl|a ks id| |x1 IH1 x2 IH2|x1 IH1 x2 IH2|x1 IH1];
    intros y H p;
    destruct y as [a' c' ks' rhs'|a' ks'|s' a' ks' re' fl'|a' ks' id'| |y1 y2|y1 y2|y1];
    cbn [hv_eqb] in H; try discriminate H.
  - apply andb_true_iff in H. destruct H as [H H4].
    apply andb_true_iff in H. destruct H as [H H3].
    apply andb_true_iff in H. destruct H as [H1 H2].
    apply attr_eqb_eq in H1. apply cmp_eqb_eq in H2. apply strs_eqb_eq in H3. apply value_eqb_eq in H4.
    subst. reflexivity.
  - apply andb_true_iff in H. destruct H as [H1 H2].
    apply attr_eqb_eq in H1. apply strs_eqb_eq in H2. subst. reflexivity.
  - apply andb_true_iff in H. destruct H as [H H5].
    apply andb_true_iff in H. destruct H as [H H4].
    apply andb_true_iff in H. destruct H as [H H3].
    apply andb_true_iff in H. destruct H as [H1 H2].
    apply Bool.eqb_prop in H1. apply attr_eqb_eq in H2. apply strs_eqb_eq in H3.
    apply N.eqb_eq in H4. apply N.eqb_eq in H5. subst. reflexivity.
  - apply andb_true_iff in H. destruct H as [H H3].
    apply andb_true_iff in H. destruct H as [H1 H2].
    apply attr_eqb_eq in H1. apply strs_eqb_eq in H2. apply N.eqb_eq in H3. subst. reflexivity.
  - reflexivity.
  - apply set2_cases in H. cbn [hden]. destruct H as [[Ha Hb]|[Ha Hb]].
    + rewrite (IH1 _ Ha p), (IH2 _ Hb p). reflexivity.
    + rewrite (IH1 _ Ha p), (IH2 _ Hb p). apply res_and_comm.
  - apply set2_cases in H. cbn [hden]. destruct H as [[Ha Hb]|[Ha Hb]].
    + rewrite (IH1 _ Ha p), (IH2 _ Hb p). reflexivity.
    + rewrite (IH1 _ Ha p), (IH2 _ Hb p). apply res_or_comm.
  - cbn [hden]. rewrite (IH1 _ H p). reflexivity.
Qed.

Theorem qeq_hash : forall q1 q2, qeq q1 q2 = true -> exists h1 h2, qhash q1 = Some h1 /\ qhash q2 = Some h2 /\ hv_eqb h1 h2 = true.
Proof.
  intros q1 q2 H. unfold qeq in H.
  destruct (qhash q1) as [h1|]; [|discriminate H].
  destruct (qhash q2) as [h2|]; [|discriminate H].
  exists h1, h2. split; [reflexivity|]. split; [reflexivity|].
  apply andb_true_iff in H. destruct H as [H _].
  apply andb_true_iff in H. destruct H as [_ H]. exact H.
Qed.

Theorem qeq_sound : forall E q1 q2, qeq q1 q2 = true -> forall p, eval E q1 p = eval E q2 p.
Proof.
  intros E q1 q2 H p. apply qeq_hash in H. destruct H as [h1 [h2 [H1 [H2 H3]]]].
  rewrite (qhash_hden E q1 h1 H1 p), (qhash_hden E q2 h2 H2 p).
  apply hv_eqb_hden. exact H3.
Qed.

(* ---- reflexivity ---------------------------------------------------------------------- *)

Definition value_not_nan (v : value) : bool := match v with VNum NNaN => false | _ => true end.
Definition value_not_dict (v : value) : bool := match v with VDict _ => false | _ => true end.

(* literally: no [VNum NNaN] as the rhs of any HCmp *)
Fixpoint hv_nan_free (h : hv) : bool :=
  match h with
  | HCmp _ _ _ rhs => value_not_nan rhs
  | HAnd x y | HOr x y => hv_nan_free x && hv_nan_free y
  | HNot x => hv_nan_free x
  | _ => true
  end.

(* no dictionary as the rhs of any HCmp (value_eqb is never true on dictionaries) *)
Fixpoint hv_dict_free (h : hv) : bool :=
  match h with
  | HCmp _ _ _ rhs => value_not_dict rhs
  | HAnd x y | HOr x y => hv_dict_free x && hv_dict_free y
  | HNot x => hv_dict_free x
  | _ => true
  end.

Lemma attr_eqb_refl : forall a, attr_eqb a a = true.
Proof. intros a. destruct a; reflexivity. Qed.
Lemma cmp_eqb_refl : forall c, cmp_eqb c c = true.
Proof. intros c. destruct c; reflexivity. Qed.
Lemma strs_eqb_refl : forall l, strs_eqb l l = true.
Proof.
  induction l as [|x l IH]; cbn [strs_eqb]; [reflexivity|].
  rewrite str_eqb_refl, IH. reflexivity.
Qed.
Lemma num_eqb_refl : forall x, x <> NNaN -> num_eqb x x = true.
Proof.
  intros x H. destruct x as [m e| | |]; cbn [num_eqb]; try reflexivity.
  - rewrite !Z.eqb_refl. reflexivity.
  - exfalso. apply H. reflexivity.
Qed.
Lemma value_eqb_refl : forall v, value_not_nan v = true -> value_not_dict v = true -> value_eqb v v = true.
Proof.
  intros v Hn Hd. destruct v as [t|s| |x|d|n]; cbn [value_eqb].
  - apply Z.eqb_refl.
  - apply str_eqb_refl.
  - reflexivity.
  - apply num_eqb_refl. intros Hx. subst x. discriminate Hn.
  - discriminate Hd.
  - apply N.eqb_refl.
Qed.

(* The statement [forall h, hv_nan_free h = true -> hv_eqb h h = true] is false: *)
Example hv_eqb_refl_counterexample :
  exists h, hv_nan_free h = true /\ hv_eqb h h = false.
Proof. exists (HCmp ATime Ceq [] (VDict [])). split; reflexivity. Qed.

Lemma hv_eqb_refl_alt : forall h, hv_nan_free h = true -> hv_dict_free h = true -> hv_eqb h h = true.
Proof.
  induction h as [a c ks rhs|a ks|s a ks re fl|a ks id| |x1 IH1 x2 IH2|x1 IH1 x2 IH2|x1 IH1];
    intros Hn Hd; cbn [hv_eqb hv_nan_free hv_dict_free] in *.
  - rewrite attr_eqb_refl, cmp_eqb_refl, strs_eqb_refl, (value_eqb_refl rhs Hn Hd). reflexivity.
  - rewrite attr_eqb_refl, strs_eqb_refl. reflexivity.
  - rewrite Bool.eqb_reflx, attr_eqb_refl, strs_eqb_refl, !N.eqb_refl. reflexivity.
  - rewrite attr_eqb_refl, strs_eqb_refl, N.eqb_refl. reflexivity.
  - reflexivity.
  - apply andb_true_iff in Hn. destruct Hn as [Hn1 Hn2].
    apply andb_true_iff in Hd. destruct Hd as [Hd1 Hd2].
    rewrite (IH1 Hn1 Hd1), (IH2 Hn2 Hd2). cbn. rewrite !orb_true_r. reflexivity.
  - apply andb_true_iff in Hn. destruct Hn as [Hn1 Hn2].
    apply andb_true_iff in Hd. destruct Hd as [Hd1 Hd2].
    rewrite (IH1 Hn1 Hd1), (IH2 Hn2 Hd2). cbn. rewrite !orb_true_r. reflexivity.
  - apply IH1; assumption.
Qed.

Lemma qeq_comm_core : forall ha hb, hv_eqb ha ha = true -> hv_eqb hb hb = true ->
  (hv_eqb ha hb || hv_eqb ha ha) && (hv_eqb hb hb || hv_eqb hb ha) &&
  (hv_eqb ha hb || hv_eqb hb hb) && (hv_eqb ha ha || hv_eqb hb ha) = true.
Proof.
  intros ha hb Ha Hb. rewrite Ha, Hb. rewrite !orb_true_r. reflexivity.
Qed.

Theorem qeq_and_comm_alt : forall a b ha hb, qhash a = Some ha -> qhash b = Some hb ->
  hv_nan_free ha = true -> hv_nan_free hb = true -> hv_dict_free ha = true -> hv_dict_free hb = true ->
  qeq (QAnd a b) (QAnd b a) = true.
Proof.
  intros a b ha hb Ha Hb Na Nb Da Db. unfold qeq. cbn [qhash]. rewrite Ha, Hb.
  cbn [hv_truthy is_simple negb andb orb hv_eqb].
  rewrite (qeq_comm_core ha hb (hv_eqb_refl_alt ha Na Da) (hv_eqb_refl_alt hb Nb Db)). reflexivity.
Qed.

Theorem qeq_or_comm_alt : forall a b ha hb, qhash a = Some ha -> qhash b = Some hb ->
  hv_nan_free ha = true -> hv_nan_free hb = true -> hv_dict_free ha = true -> hv_dict_free hb = true ->
  qeq (QOr a b) (QOr b a) = true.
Proof.
  intros a b ha hb Ha Hb Na Nb Da Db. unfold qeq. cbn [qhash]. rewrite Ha, Hb.
  cbn [hv_truthy is_simple negb andb orb hv_eqb].
  rewrite (qeq_comm_core ha hb (hv_eqb_refl_alt ha Na Da) (hv_eqb_refl_alt hb Nb Db)). reflexivity.
Qed.

(* The commutativity statements with hv_nan_free alone are false as well: *)
Example qeq_and_comm_counterexample :
  exists a b ha hb, qhash a = Some ha /\ qhash b = Some hb /\ hv_nan_free ha = true /\ hv_nan_free hb = true /\
                    qeq (QAnd a b) (QAnd b a) = false.
Proof.
  exists (QS ATime [] (TCmp Ceq (VDict []))), (QS ATime [] (TCmp Ceq (VDict []))),
         (HCmp ATime Ceq [] (VDict [])), (HCmp ATime Ceq [] (VDict [])).
  repeat split; reflexivity.
Qed.
Example qeq_or_comm_counterexample :
  exists a b ha hb, qhash a = Some ha /\ qhash b = Some hb /\ hv_nan_free ha = true /\ hv_nan_free hb = true /\
                    qeq (QOr a b) (QOr b a) = false.
Proof.
  exists (QS ATime [] (TCmp Ceq (VDict []))), (QS ATime [] (TCmp Ceq (VDict []))),
         (HCmp ATime Ceq [] (VDict [])), (HCmp ATime Ceq [] (VDict [])).
  repeat split; reflexivity.
Qed.

(* Drop-in variants: the given shapes, with the single predicate [hv_refl_ok] (no NaN and no
   dictionary as a comparison rhs) in place of [hv_nan_free]. *)
Definition hv_refl_ok (h : hv) : bool := hv_nan_free h && hv_dict_free h.

Lemma hv_eqb_refl_ok_alt : forall h, hv_refl_ok h = true -> hv_eqb h h = true.
Proof.
  intros h H. unfold hv_refl_ok in H. apply andb_true_iff in H. destruct H as [Hn Hd].
  apply hv_eqb_refl_alt; assumption.
Qed.

Theorem qeq_and_comm_ok_alt : forall a b ha hb, qhash a = Some ha -> qhash b = Some hb ->
  hv_refl_ok ha = true -> hv_refl_ok hb = true -> qeq (QAnd a b) (QAnd b a) = true.
Proof.
  intros a b ha hb Ha Hb Oa Ob. unfold hv_refl_ok in Oa, Ob.
  apply andb_true_iff in Oa. destruct Oa as [Na Da].
  apply andb_true_iff in Ob. destruct Ob as [Nb Db].
  apply (qeq_and_comm_alt a b ha hb); assumption.
Qed.

Theorem qeq_or_comm_ok_alt : forall a b ha hb, qhash a = Some ha -> qhash b = Some hb ->
  hv_refl_ok ha = true -> hv_refl_ok hb = true -> qeq (QOr a b) (QOr b a) = true.
Proof.
  intros a b ha hb Ha Hb Oa Ob. unfold hv_refl_ok in Oa, Ob.
  apply andb_true_iff in Oa. destruct Oa as [Na Da].
  apply andb_true_iff in Ob. destruct Ob as [Nb Db].
  apply (qeq_or_comm_alt a b ha hb); assumption.
Qed.

(* ---- map() kills the hash ------------------------------------------------------------- *)

Definition part_is_map (pt : part) : bool := match pt with PMap _ => true | PKey _ => false end.

Fixpoint has_map (q : query) : bool :=
  match q with
  | QS _ path _ => existsb part_is_map path
  | QNoop _ => false
  | QAnd l r | QOr l r => has_map l || has_map r
  | QNot q => has_map q
  end.

Lemma path_keys_has_map : forall path, existsb part_is_map path = true -> path_keys path = None.
Proof.
  induction path as [|pt path IH]; intros H.
  - discriminate H.
  - destruct pt as [k|id]; cbn [existsb part_is_map orb path_keys] in *.
    + rewrite (IH H). reflexivity.
    + reflexivity.
Qed.

Theorem map_unhashable : forall q, has_map q = true -> qhash q = None.
Proof.
  induction q as [a path t|a|l IHl r IHr|l IHl r IHr|q IHq]; intros H; cbn [has_map qhash] in *.
  - rewrite (path_keys_has_map path H). reflexivity.
  - discriminate H.
  - apply orb_true_iff in H. destruct H as [H|H].
    + rewrite (IHl H). reflexivity.
    + rewrite (IHr H). destruct (qhash l); reflexivity.
  - apply orb_true_iff in H. destruct H as [H|H].
    + rewrite (IHl H). reflexivity.
    + rewrite (IHr H). destruct (qhash l); reflexivity.
  - rewrite (IHq H). reflexivity.
Qed.

Theorem map_never_equal : forall q q', has_map q = true -> qeq q q' = false /\ qeq q' q = false.
Proof.
  intros q q' H. apply map_unhashable in H. unfold qeq. rewrite H. split.
  - reflexivity.
  - destruct (qhash q'); reflexivity.
Qed.

Theorem noop_never_equal : forall a q, qeq (QNoop a) q = false /\ qeq q (QNoop a) = false.
Proof.
  intros a q. unfold qeq. cbn [qhash]. split.
  - destruct (qhash q) as [h|]; reflexivity.
  - destruct (qhash q) as [h|]; [|reflexivity].
    cbn [hv_truthy]. rewrite andb_false_r. reflexivity.
Qed.

Example qeq_example : exists q1 q2, q1 <> q2 /\ qeq q1 q2 = true.
Proof.
  exists (QAnd (QS ATime [] (TCmp Clt (VTime 5))) (QS AMeas [] TExists)),
         (QAnd (QS AMeas [] TExists) (QS ATime [] (TCmp Clt (VTime 5)))).
  split.
  - intros H. discriminate H.
  - vm_compute. reflexivity.
Qed.

Print Assumptions eval_denote.
Print Assumptions eval_total.
Print Assumptions qeq_sound.
Print Assumptions qeq_hash.
Print Assumptions qeq_and_comm_alt.
Print Assumptions qeq_or_comm_alt.
Print Assumptions qeq_and_comm_ok_alt.
Print Assumptions qeq_or_comm_ok_alt.
Print Assumptions hv_eqb_refl_alt.
Print Assumptions map_never_equal.
Print Assumptions noop_never_equal.
