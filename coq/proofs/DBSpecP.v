(* DBSpecP.v — the writing operations of the database model, stated against Spec.v at the level
   of the public API (db_insert / db_remove / db_drop / db_remove_all / db_update /
   db_update_all and the Measurement handle), and what an operation that raises leaves behind. *)
From Coq Require Import List ZArith NArith Bool Arith Lia.
From TF Require Import Base Query Index DB Spec proofs.BaseP proofs.QueryP proofs.TimeSearchP proofs.TimeRepP
     proofs.IndexDefs proofs.ScanP proofs.IndexP proofs.RepP proofs.DBReadP proofs.DBRemoveP proofs.DBStepP proofs.DBRunP.
Import ListNotations.

Section DBSpecP.
Variable E : env.
Variable C : cenv.
Variable norm : point -> point.
Hypothesis norm_wf : forall p, wf_point p -> wf_point (norm p).

(* ---- removal ---------------------------------------------------------------------------- *)
Theorem db_remove_spec s q m : Inv s -> wf_query E q -> index_safe q ->
  let r := db_remove E s q m in
  snd r = ONat (length (filter (hit E q m) (st_rows s))) /\
  st_rows (fst r) = filter (fun p => negb (hit E q m p)) (st_rows s) /\
  st_auto (fst r) = st_auto s /\ Inv (fst r).
Proof.
  intros HI Hq Hs. unfold db_remove.
  pose proof (remove_helper_spec E (read_prelude s) q m (read_prelude_Inv Rep_build s HI) Hq Hs) as H.
  cbn zeta in H. unfold spec_remove in H. cbn [fst snd] in H. rewrite read_prelude_rows, read_prelude_auto in H. exact H.
Qed.

(* drop_measurement(name) selects exactly the points stored under that name *)
Lemma hit_drop name p : name <> [] ->
  hit E (QS AMeas [] (TCmp Ceq (VStr name))) (Some name) p = str_eqb (p_meas p) name.
Proof.
  intros Hn. unfold hit, meas_pass, truthy. destruct name as [|c name]; [congruence|].
  cbn [denote denote_simple resolve attr_value denote_test pycmp value_eqb]. apply andb_diag.
Qed.

Theorem db_drop_spec s name : Inv s -> name <> [] ->
  let r := db_drop E s name in
  snd r = ONat (length (filter (fun p => str_eqb (p_meas p) name) (st_rows s))) /\
  st_rows (fst r) = filter (fun p => negb (str_eqb (p_meas p) name)) (st_rows s) /\ Inv (fst r).
Proof.
  intros HI Hn. unfold db_drop.
  pose proof (remove_helper_spec E (read_prelude s) _ (Some name) (read_prelude_Inv Rep_build s HI)
                (proj1 (wf_q_drop E name)) (proj2 (wf_q_drop E name))) as H.
  cbn zeta in H. unfold spec_remove in H. cbn [fst snd] in H. rewrite read_prelude_rows in H.
  destruct H as [H1 [H2 [_ H3]]]. cbn zeta. split; [|split; [|exact H3]].
  - etransitivity; [exact H1|]. f_equal. f_equal. apply filter_ext. intros p. now apply hit_drop.
  - etransitivity; [exact H2|]. apply filter_ext. intros p. f_equal. now apply hit_drop.
Qed.

Theorem db_remove_all_spec s : st_rows (fst (db_remove_all s)) = [] /\ Inv (fst (db_remove_all s)).
Proof. split; [reflexivity|apply reset_database_Inv]. Qed.

(* a removal never touches a point the query (or the measurement filter) does not select *)
Corollary remove_keeps_others s q m (keep : point -> bool) : Inv s -> wf_query E q -> index_safe q ->
  (forall p, keep p = true -> hit E q m p = false) ->
  filter keep (st_rows (fst (db_remove E s q m))) = filter keep (st_rows s).
Proof.
  intros HI Hq Hs Hk. destruct (db_remove_spec s q m HI Hq Hs) as [_ [Hr _]]. rewrite Hr. clear Hr.
  induction (st_rows s) as [|p r IH]; [reflexivity|]. cbn [filter].
  destruct (keep p) eqn:Ek.
  - rewrite (Hk p Ek). cbn [negb filter]. rewrite Ek. now rewrite IH.
  - destruct (hit E q m p); cbn [negb filter]; rewrite ?Ek; exact IH.
Qed.

(* ---- insert ----------------------------------------------------------------------------- *)
Theorem db_insert_spec s ps m : Inv s -> wf_insert norm ps m ->
  let r := db_insert norm s ps m in
  st_rows (fst r) = st_rows s ++ map (rename m) (prefix_points ps) /\
  snd r = (if all_points ps then ONat (length ps) else ORaise) /\ Inv (fst r).
Proof.
  intros HI Hw. destruct (insert_loop_spec norm ps s m 0 HI Hw) as [H1 [H2 [_ H3]]]. auto.
Qed.

(* ---- update ----------------------------------------------------------------------------- *)
Theorem db_update_spec s q u m : Inv s -> wf_query E q -> index_safe q -> upd_given u = true ->
  let r := db_update E C norm s q (Some u) m in
  match spec_update_rows C norm (hit E q m) u (st_rows s) with
  | Some (l, n) => snd r = ONat n /\ st_rows (fst r) = l /\ Inv (fst r)
  | None => snd r = ORaise /\ fst r = read_prelude s
  end.
Proof.
  intros HI Hq Hs Hg. unfold db_update.
  pose proof (update_helper_spec E C norm norm_wf (read_prelude s) false q u m
                (read_prelude_Inv Rep_build s HI) (conj Hq Hs) Hg) as H.
  cbn zeta in H. rewrite read_prelude_rows in H.
  change (upd_sel E false q m) with (hit E q m) in H.
  destruct (spec_update_rows C norm (hit E q m) u (st_rows s)) as [[l n]|]; tauto.
Qed.

Theorem db_update_all_spec s u : Inv s -> upd_given u = true ->
  let r := db_update_all E C norm s (Some u) in
  match spec_update_rows C norm (fun _ => true) u (st_rows s) with
  | Some (l, n) => snd r = ONat n /\ st_rows (fst r) = l /\ Inv (fst r)
  | None => snd r = ORaise /\ fst r = read_prelude s
  end.
Proof.
  intros HI Hg. unfold db_update_all.
  pose proof (update_helper_spec E C norm norm_wf (read_prelude s) true (QNoop ATags) u None
                (read_prelude_Inv Rep_build s HI) (wf_q_noop E ATags) Hg) as H.
  cbn zeta in H. rewrite read_prelude_rows in H.
  change (upd_sel E true (QNoop ATags) None) with (fun _ : point => true) in H.
  destruct (spec_update_rows C norm (fun _ => true) u (st_rows s)) as [[l n]|]; tauto.
Qed.

(* what the specification's map does: order and length kept, unselected rows untouched, the
   count is the number of rows whose content changed *)
Lemma spec_update_rows_shape u (sel : point -> bool) : forall rows l n,
  spec_update_rows C norm sel u rows = Some (l, n) ->
  length l = length rows /\
  (forall k p, nth_error rows k = Some p -> sel p = false -> nth_error l k = Some p) /\
  (forall k p, nth_error rows k = Some p -> sel p = true ->
     exists p', perform_update C u p = UOk p' /\ nth_error l k = Some (if point_eqb p' p then p else norm p')) /\
  n = length (filter (fun p => sel p && match perform_update C u p with UOk p' => negb (point_eqb p' p) | UFail _ => false end) rows).
Proof.
  induction rows as [|p r IH]; intros l n H.
  - injection H as <- <-. repeat split; intros k p Hk; destruct k; discriminate.
  - cbn [spec_update_rows] in H. destruct (sel p) eqn:Es.
    + destruct (perform_update C u p) as [p'|] eqn:Eu; [|discriminate].
      destruct (spec_update_rows C norm sel u r) as [[l' n']|]; [|discriminate].
      destruct (IH l' n' eq_refl) as [Hl [Hun [Hsel Hn]]].
      assert (l = (if point_eqb p' p then p else norm p') :: l' /\ n = if point_eqb p' p then n' else S n') as [-> ->].
      { destruct (point_eqb p' p); injection H as <- <-; auto. }
      split; [cbn; lia|]. split; [|split].
      * intros [|k] x Hk Hx; [injection Hk as <-; congruence|]. cbn. now apply Hun.
      * intros [|k] x Hk Hx; [injection Hk as <-; exists p'; auto|]. cbn. now apply Hsel.
      * cbn [filter]. rewrite Es, Eu. cbn [andb]. destruct (point_eqb p' p); cbn [negb length]; lia.
    + destruct (spec_update_rows C norm sel u r) as [[l' n']|]; [|discriminate].
      cbn in H. injection H as <- <-. destruct (IH l' n' eq_refl) as [Hl [Hun [Hsel Hn]]].
      split; [cbn; lia|]. split; [|split].
      * intros [|k] x Hk Hx; [injection Hk as <-; reflexivity|]. cbn. now apply Hun.
      * intros [|k] x Hk Hx; [injection Hk as <-; congruence|]. cbn. now apply Hsel.
      * cbn [filter]. rewrite Es. exact Hn.
Qed.

(* ---- an operation that raises ------------------------------------------------------------- *)
(* reads never change the stored rows *)
Lemma read_rows s (f : state -> state * out) : fst (f s) = read_prelude s -> st_rows (fst (f s)) = st_rows s.
Proof. intros H. rewrite H. apply read_prelude_rows. Qed.

Theorem raise_leaves_rows s o : Inv s -> wf_op E norm o ->
  snd (step E C norm s o) = ORaise ->
  let s' := fst (step E C norm s o) in
  Inv s' /\
  match o with
  | Insert ps m => st_rows s' = st_rows s ++ map (rename m) (prefix_points ps)
  | Handle name (HInsert ps) => st_rows s' = st_rows s ++ map (rename (Some name)) (prefix_points ps)
  | _ => st_rows s' = st_rows s
  end.
Proof.
  intros HI Hw Hr. cbn zeta.
  split; [apply (step_Inv E C norm norm_wf); auto|].
  assert (HP : Inv (read_prelude s)) by (apply (read_prelude_Inv Rep_build); exact HI).
  assert (Hupd : forall q u m, wf_q E q -> snd (db_update E C norm s q u m) = ORaise ->
            st_rows (fst (db_update E C norm s q u m)) = st_rows s).
  { intros q u m [Hq Hs] Hx. destruct u as [u|]; [|cbn; apply read_prelude_rows].
    destruct (upd_given u) eqn:Eg.
    - pose proof (db_update_spec s q u m HI Hq Hs Eg) as H. cbn zeta in H.
      destruct (spec_update_rows C norm (hit E q m) u (st_rows s)) as [[l n]|].
      + destruct H as [H _]. congruence.
      + destruct H as [_ H]. rewrite H. apply read_prelude_rows.
    - unfold db_update, update_helper. rewrite Eg. cbn. apply read_prelude_rows. }
  destruct o as [ps m|q m|name| |q u m|u|q m srt|q m|q m|q m|ks q m|srt| | | |m|ks m|m|k m|m| |auto| |name h];
    cbn [step wf_op] in *; try discriminate;
    try (apply read_prelude_rows); try reflexivity.
  - exact (proj1 (insert_loop_spec norm ps s m 0 HI Hw)).
  - destruct Hw as [Hq Hs]. destruct (db_remove_spec s q m HI Hq Hs) as [H _]. congruence.
  - unfold db_drop in Hr.
    pose proof (remove_helper_spec E (read_prelude s) _ (Some name) HP (proj1 (wf_q_drop E name)) (proj2 (wf_q_drop E name))) as H.
    destruct H as [H _]. congruence.
  - now apply Hupd.
  - unfold db_update_all in *. change (update_helper E C norm (read_prelude s) true (QNoop ATags) u None)
      with (update_helper E C norm (read_prelude s) true (QNoop ATags) u None) in *.
    destruct u as [u|]; [|cbn; apply read_prelude_rows].
    destruct (upd_given u) eqn:Eg.
    + pose proof (db_update_all_spec s u HI Eg) as H. cbn zeta in H. unfold db_update_all in H.
      destruct (spec_update_rows C norm (fun _ => true) u (st_rows s)) as [[l n]|].
      * destruct H as [H _]. congruence.
      * destruct H as [_ H]. rewrite H. apply read_prelude_rows.
    + unfold update_helper. rewrite Eg. cbn. apply read_prelude_rows.
  - rewrite db_search_fst. apply read_prelude_rows.
  - rewrite db_count_fst. apply read_prelude_rows.
  - rewrite db_contains_fst. apply read_prelude_rows.
  - rewrite db_get_fst. apply read_prelude_rows.
  - rewrite db_select_fst. apply read_prelude_rows.
  - destruct h as [| |srt|q|q|q|q srt|ks q|  |k| |ks| |ps|q| |q u|u]; cbn [handle_step wf_hop fst snd] in *;
      try discriminate; try (apply read_prelude_rows); try reflexivity.
    + rewrite db_contains_fst. apply read_prelude_rows.
    + rewrite db_count_fst. apply read_prelude_rows.
    + rewrite db_get_fst. apply read_prelude_rows.
    + rewrite db_search_fst. apply read_prelude_rows.
    + rewrite db_select_fst. apply read_prelude_rows.
    + exact (proj1 (insert_loop_spec norm ps s (Some name) 0 HI Hw)).
    + destruct Hw as [Hq Hs]. destruct (db_remove_spec s q (Some name) HI Hq Hs) as [H _]. congruence.
    + unfold db_drop in Hr.
      pose proof (remove_helper_spec E (read_prelude s) _ (Some name) HP (proj1 (wf_q_drop E name)) (proj2 (wf_q_drop E name))) as H.
      destruct H as [H _]. congruence.
    + now apply Hupd.
    + apply Hupd; [apply wf_q_noop|exact Hr].
Qed.

(* ---- len, and the Measurement handle ------------------------------------------------------ *)
Theorem db_len_spec s : Inv s -> db_len s = (s, ONat (length (st_rows s))).
Proof.
  intros [_ HR]. unfold db_len. destruct (st_auto s && ix_valid (st_idx s)) eqn:Ea; [|reflexivity].
  apply andb_true_iff in Ea. destruct Ea as [_ Ev]. now rewrite (rep_n _ _ (HR Ev)).
Qed.

(* a point of another measurement is never selected through a handle (name non-empty) *)
Lemma hit_other_meas q name p : name <> [] -> str_eqb (p_meas p) name = false -> hit E q (Some name) p = false.
Proof.
  intros Hn Hp. unfold hit, meas_pass, truthy. destruct name as [|c name]; [congruence|]. now rewrite Hp.
Qed.
Lemma hit_meas q name p : name <> [] -> hit E q (Some name) p = true -> p_meas p = name.
Proof.
  intros Hn H. destruct (str_eqb (p_meas p) name) eqn:Ep; [now apply str_eqb_eq|].
  rewrite (hit_other_meas q name p Hn Ep) in H. discriminate.
Qed.

(* reads through a handle only return points of that measurement *)
Theorem handle_search_confined q name srt db p : name <> [] -> In p (spec_search E q (Some name) srt db) -> p_meas p = name.
Proof.
  intros Hn Hin. unfold spec_search in Hin.
  assert (H : In p (filter (hit E q (Some name)) db)).
  { destruct srt; [|exact Hin]. unfold sort_points in Hin. now apply stable_sort_In in Hin. }
  apply filter_In in H. destruct H as [_ H]. now apply (hit_meas q name p Hn).
Qed.

(* remove through a handle leaves every other measurement's points as they were, in order *)
Theorem handle_remove_confined s q name : Inv s -> wf_query E q -> index_safe q -> name <> [] ->
  filter (fun p => negb (str_eqb (p_meas p) name)) (st_rows (fst (handle_step E C norm s name (HRemove q))))
  = filter (fun p => negb (str_eqb (p_meas p) name)) (st_rows s).
Proof.
  intros HI Hq Hs Hn. cbn [handle_step]. apply remove_keeps_others; auto.
  intros p Hp. apply negb_true_iff in Hp. now apply hit_other_meas.
Qed.

(* update through a handle: points of other measurements are untouched, position by position *)
Theorem handle_update_confined s q u name l n : name <> [] ->
  spec_update_rows C norm (hit E q (Some name)) u (st_rows s) = Some (l, n) ->
  forall k p, nth_error (st_rows s) k = Some p -> str_eqb (p_meas p) name = false -> nth_error l k = Some p.
Proof.
  intros Hn Hspec k p Hk Hp. destruct (spec_update_rows_shape u _ _ _ _ Hspec) as [_ [Hun _]].
  apply (Hun k p Hk). now apply hit_other_meas.
Qed.

(* insert through a handle stores the points under the handle's name *)
Theorem handle_insert_named s ps name : Inv s -> wf_insert norm ps (Some name) -> name <> [] ->
  let r := handle_step E C norm s name (HInsert ps) in
  st_rows (fst r) = st_rows s ++ map (fun p => set_meas p name) (prefix_points ps).
Proof.
  intros HI Hw Hn. cbn [handle_step]. destruct (db_insert_spec s ps (Some name) HI Hw) as [H _].
  cbn zeta. rewrite H. f_equal. apply map_ext. intros p. unfold rename, truthy. destruct name; [congruence|reflexivity].
Qed.
End DBSpecP.
