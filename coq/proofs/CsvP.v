(* CsvP.v — csv.writer / csv.reader round trip for all rows and all cell contents. *)
From Coq Require Import List ZArith NArith Bool Arith Lia.
From TF Require Import Base Csv.
Import ListNotations.

(* the dialects the model covers: delimiter and quote character are different and neither is CR or LF *)
Definition wf_dialect (D : dialect) : Prop :=
  dl_delim D <> dl_quote D /\ dl_delim D <> CR /\ dl_delim D <> LF /\ dl_quote D <> CR /\ dl_quote D <> LF.

(* ---- a fuel-free version of split_lines ------------------------------------------------ *)
Fixpoint lines (cur : str) (s : str) : list str :=
  match s with
  | [] => match cur with [] => [] | _ => [rev cur] end
  | c :: r =>
    if N.eqb c LF then rev (c :: cur) :: lines [] r
    else if N.eqb c CR then
      match r with
      | c' :: r' => if N.eqb c' LF then rev (c' :: c :: cur) :: lines [] r'
                    else rev (c :: cur) :: lines [] r
      | [] => [rev (c :: cur)]
      end
    else lines (c :: cur) r
  end.

Lemma split_lines_lines : forall fuel cur s, length s < fuel -> split_lines fuel cur s = lines cur s.
Proof.
  induction fuel as [|f IH]; intros cur s Hl.
  - lia.
  - destruct s as [|c r]; cbn [split_lines lines].
    + reflexivity.
    + cbn [length] in Hl.
      destruct (N.eqb c LF).
      * rewrite IH by lia. reflexivity.
      * destruct (N.eqb c CR).
        -- destruct r as [|c' r']; [reflexivity|]. cbn [length] in Hl.
           destruct (N.eqb c' LF); rewrite IH by (cbn [length]; lia); reflexivity.
        -- apply IH. lia.
Qed.

Lemma file_lines_lines : forall s, file_lines s = lines [] s.
Proof. intros s. unfold file_lines. apply split_lines_lines. lia. Qed.

(* ---- feeding characters without the end-of-line marker --------------------------------- *)
Fixpoint feeds (D : dialect) (r : reader) (s : str) : option reader :=
  match s with
  | [] => Some r
  | c :: t => match feed D r (Some c) with None => None | Some r' => feeds D r' t end
  end.

Lemma feeds_app : forall D a b r,
  feeds D r (a ++ b) = match feeds D r a with Some r' => feeds D r' b | None => None end.
Proof.
  intros D a; induction a as [|c a IH]; intros b r; cbn [app feeds].
  - reflexivity.
  - destruct (feed D r (Some c)) as [r'|]; [apply IH | reflexivity].
Qed.

Lemma feed_line_app : forall D a b r,
  feed_line D r (a ++ b) = match feeds D r a with Some r' => feed_line D r' b | None => None end.
Proof.
  intros D a; induction a as [|c a IH]; intros b r; cbn [app feeds].
  - reflexivity.
  - cbn [feed_line]. destruct (feed D r (Some c)) as [r'|]; [apply IH | reflexivity].
Qed.

Definition rr_step (D : dialect) (o : option reader) (rest : list str) : next :=
  match o with
  | None => NError
  | Some r' => match r_state r' with
               | StartRecord => NRecord (rev (r_fields r')) rest
               | _ => read_record D r' rest
               end
  end.

Lemma read_record_cons : forall D r l rest, read_record D r (l :: rest) = rr_step D (feed_line D r l) rest.
Proof. reflexivity. Qed.

Lemma rr_line_app : forall D r a b rest,
  read_record D r ((a ++ b) :: rest) =
  match feeds D r a with Some r' => read_record D r' (b :: rest) | None => NError end.
Proof.
  intros D r a b rest. rewrite read_record_cons, feed_line_app.
  destruct (feeds D r a) as [r'|]; reflexivity.
Qed.

(* the characters already accumulated in the current line can be fed first *)
Lemma rr_lines_cur : forall D s cur r, s <> [] ->
  read_record D r (lines cur s) =
  match feeds D r (rev cur) with Some r' => read_record D r' (lines [] s) | None => NError end.
Proof.
  intros D s; induction s as [|c s IH]; intros cur r Hne.
  - contradiction.
  - cbn [lines]. destruct (N.eqb c LF).
    + cbn [rev app]. apply rr_line_app.
    + destruct (N.eqb c CR).
      * destruct s as [|c' s'].
        -- cbn [rev app]. apply rr_line_app.
        -- destruct (N.eqb c' LF).
           ++ cbn [rev app]. rewrite <- app_assoc. cbn [app]. apply rr_line_app.
           ++ cbn [rev app]. apply rr_line_app.
      * destruct s as [|c' s'].
        -- cbn [lines rev app]. apply rr_line_app.
        -- rewrite (IH (c :: cur)) by discriminate.
           cbn [rev app]. rewrite feeds_app.
           destruct (feeds D r (rev cur)) as [r1|]; [|reflexivity].
           rewrite (IH [c]) by discriminate.
           cbn [rev app feeds]. destruct (feed D r1 (Some c)); reflexivity.
Qed.

(* ---- generic facts about read_all ------------------------------------------------------- *)
Lemma read_record_rest_len : forall D ls r rec rest,
  read_record D r ls = NRecord rec rest -> length rest <= pred (length ls).
Proof.
  intros D ls; induction ls as [|l ls IH]; intros r rec rest E.
  - cbn [read_record] in E.
    destruct (r_state r);
      try discriminate;
      match type of E with
      | (if ?b then _ else _) = _ => destruct b; [inversion E; subst; cbn; lia | discriminate]
      end.
  - rewrite read_record_cons in E. unfold rr_step in E.
    destruct (feed_line D r l) as [r'|]; [|discriminate].
    cbn [length pred].
    destruct (r_state r');
      try (apply IH in E; lia);
      inversion E; subst; lia.
Qed.

Lemma read_all_len : forall D f ls rows, read_all D f ls = Some rows -> length rows <= length ls.
Proof.
  intros D f; induction f as [|f IH]; intros ls rows E; cbn [read_all] in E.
  - discriminate.
  - destruct (read_record D r_init ls) as [rec rest| |] eqn:ER.
    + destruct ls as [|l ls']; [cbn in ER; discriminate|].
      apply read_record_rest_len in ER. cbn [length pred] in ER.
      destruct (read_all D f rest) as [rs|] eqn:EA; cbn [option_map] in E; [|discriminate].
      inversion E; subst. apply IH in EA. cbn [length]. lia.
    + inversion E; subst. cbn. lia.
    + discriminate.
Qed.

Lemma app_ne : forall (A : Type) (s t : list A), t <> [] -> s ++ t <> [].
Proof. intros A s t Ht E. apply app_eq_nil in E. destruct E as [_ E]. contradiction. Qed.

Lemma app_cons_ne : forall (A : Type) (s : list A) x t, s ++ x :: t <> [].
Proof. intros A s x t. apply app_ne. discriminate. Qed.

Lemma write_row_eq : forall D cells, cells <> [[]] ->
  write_row D cells = join_fields D (map (write_field D) cells) ++ [CR; LF].
Proof.
  intros D cells Hne. destruct cells as [|[|x s] [|c2 cs]]; try reflexivity. contradiction.
Qed.

Lemma join_fields_cons2 : forall D a b r, join_fields D (a :: b :: r) = a ++ dl_delim D :: join_fields D (b :: r).
Proof. reflexivity. Qed.

(* ---- the reader on written text --------------------------------------------------------- *)
Section Reader.
Context (D : dialect) (Hwf : wf_dialect D).

Definition rdH (r : reader) (s : str) : next := read_record D r (lines [] s).

Lemma Hdq : N.eqb (dl_delim D) (dl_quote D) = false.
Proof. apply N.eqb_neq. apply Hwf. Qed.
Lemma Hqd : N.eqb (dl_quote D) (dl_delim D) = false.
Proof. apply N.eqb_neq. intro E. symmetry in E. revert E. apply Hwf. Qed.
Lemma HdCR : N.eqb (dl_delim D) CR = false.
Proof. apply N.eqb_neq. apply Hwf. Qed.
Lemma HdLF : N.eqb (dl_delim D) LF = false.
Proof. apply N.eqb_neq. apply Hwf. Qed.
Lemma HqCR : N.eqb (dl_quote D) CR = false.
Proof. apply N.eqb_neq. apply Hwf. Qed.
Lemma HqLF : N.eqb (dl_quote D) LF = false.
Proof. apply N.eqb_neq. apply Hwf. Qed.
Lemma HCRd : N.eqb CR (dl_delim D) = false.
Proof. rewrite N.eqb_sym. apply HdCR. Qed.
Lemma HLFd : N.eqb LF (dl_delim D) = false.
Proof. rewrite N.eqb_sym. apply HdLF. Qed.
Lemma HCRq : N.eqb CR (dl_quote D) = false.
Proof. rewrite N.eqb_sym. apply HqCR. Qed.
Lemma HLFq : N.eqb LF (dl_quote D) = false.
Proof. rewrite N.eqb_sym. apply HqLF. Qed.
Lemma HCRLF : N.eqb CR LF = false.
Proof. reflexivity. Qed.
Lemma HLFCR : N.eqb LF CR = false.
Proof. reflexivity. Qed.

Ltac ev1 :=
  cbn [feed feed_line rr_step r_state r_field r_fields orb];
  unfold save_field, add_char, set_state;
  cbn [feed feed_line rr_step r_state r_field r_fields orb].
Ltac ev :=
  repeat (ev1;
          rewrite ?N.eqb_refl, ?Hdq, ?Hqd, ?HdCR, ?HdLF, ?HqCR, ?HqLF, ?HCRd, ?HLFd, ?HCRq, ?HLFq, ?HCRLF, ?HLFCR);
  ev1.

Ltac ne := first [ assumption | discriminate | apply app_cons_ne | (apply app_ne; assumption) ].

(* stepping over one character that is neither CR nor LF *)
Lemma H_plain : forall c s r, N.eqb c LF = false -> N.eqb c CR = false -> s <> [] ->
  rdH r (c :: s) = match feed D r (Some c) with Some r' => rdH r' s | None => NError end.
Proof.
  intros c s r E1 E2 Hne. unfold rdH. cbn [lines]. rewrite E1, E2.
  rewrite rr_lines_cur by assumption. cbn [rev app feeds].
  destruct (feed D r (Some c)); reflexivity.
Qed.

Lemma H_LF : forall r s, rdH r (LF :: s) = rr_step D (feed_line D r [LF]) (lines [] s).
Proof. reflexivity. Qed.

Lemma H_CRLF : forall r s, rdH r (CR :: LF :: s) = rr_step D (feed_line D r [CR; LF]) (lines [] s).
Proof. reflexivity. Qed.

Lemma H_CR_other : forall r c s, N.eqb c LF = false ->
  rdH r (CR :: c :: s) = rr_step D (feed_line D r [CR]) (lines [] (c :: s)).
Proof.
  intros r c s E. unfold rdH. cbn [lines]. rewrite HCRLF, N.eqb_refl, E. reflexivity.
Qed.

(* any character other than the quote character inside a quoted field, line boundaries included *)
Lemma Hq_char : forall c s f fs, N.eqb c (dl_quote D) = false -> s <> [] ->
  rdH (mkReader InQuoted f fs) (c :: s) = rdH (mkReader InQuoted (c :: f) fs) s.
Proof.
  intros c s f fs Eq Hne.
  destruct (N.eqb c LF) eqn:E1.
  - apply N.eqb_eq in E1. subst c. rewrite H_LF. ev. reflexivity.
  - destruct (N.eqb c CR) eqn:E2.
    + apply N.eqb_eq in E2. subst c.
      destruct s as [|c' s']; [contradiction|].
      destruct (N.eqb c' LF) eqn:E3.
      * apply N.eqb_eq in E3. subst c'. rewrite H_CRLF, H_LF. ev. reflexivity.
      * rewrite H_CR_other by assumption. ev. reflexivity.
    + rewrite H_plain by assumption. ev. rewrite Eq. reflexivity.
Qed.

Lemma Hq_body : forall s f fs t, t <> [] ->
  rdH (mkReader InQuoted f fs) (flat_map (fun c => if N.eqb c (dl_quote D) then [c; c] else [c]) s ++ t) =
  rdH (mkReader InQuoted (rev s ++ f) fs) t.
Proof.
  intros s; induction s as [|c s IH]; intros f fs t Hne.
  - reflexivity.
  - cbn [flat_map]. destruct (N.eqb c (dl_quote D)) eqn:E.
    + apply N.eqb_eq in E. subst c. cbn [app].
      rewrite H_plain by (first [apply HqLF | apply HqCR | discriminate]). ev.
      rewrite H_plain by (first [apply HqLF | apply HqCR | apply app_ne; assumption]). ev.
      rewrite IH by assumption. cbn [rev]. rewrite <- app_assoc. reflexivity.
    + cbn [app]. rewrite Hq_char by (first [assumption | apply app_ne; assumption]).
      rewrite IH by assumption. cbn [rev]. rewrite <- app_assoc. reflexivity.
Qed.

Lemma special_false : forall c, special D c = false ->
  N.eqb c (dl_delim D) = false /\ N.eqb c (dl_quote D) = false /\ N.eqb c CR = false /\ N.eqb c LF = false.
Proof.
  intros c E. unfold special in E.
  apply orb_false_iff in E. destruct E as [E E4].
  apply orb_false_iff in E. destruct E as [E E3].
  apply orb_false_iff in E. destruct E as [E1 E2]. auto.
Qed.

Lemma Hu_body : forall s f fs t, t <> [] -> existsb (special D) s = false ->
  rdH (mkReader InField f fs) (s ++ t) = rdH (mkReader InField (rev s ++ f) fs) t.
Proof.
  intros s; induction s as [|c s IH]; intros f fs t Hne Hs.
  - reflexivity.
  - cbn [existsb] in Hs. apply orb_false_iff in Hs. destruct Hs as [Hc Hs].
    apply special_false in Hc. destruct Hc as (E1 & E2 & E3 & E4).
    cbn [app]. rewrite H_plain by (first [assumption | apply app_ne; assumption]).
    ev. rewrite E3, E4, E1. ev.
    rewrite IH by assumption. cbn [rev]. rewrite <- app_assoc. reflexivity.
Qed.

(* a written field followed by the delimiter *)
Lemma H_field_delim : forall st s fs t, st = StartRecord \/ st = StartField -> t <> [] ->
  rdH (mkReader st [] fs) (write_field D s ++ dl_delim D :: t) = rdH (mkReader StartField [] (s :: fs)) t.
Proof.
  intros st s fs t Hst Hne. unfold write_field.
  destruct (dl_quote_all D || existsb (special D) s) eqn:E.
  - cbn [app]. rewrite <- app_assoc. cbn [app].
    rewrite H_plain by (first [apply HqLF | apply HqCR | apply app_cons_ne]).
    assert (E1 : feed D (mkReader st [] fs) (Some (dl_quote D)) = Some (mkReader InQuoted [] fs)).
    { destruct Hst; subst st; ev; reflexivity. }
    rewrite E1. rewrite Hq_body by discriminate.
    rewrite H_plain by (first [apply HqLF | apply HqCR | discriminate]). ev.
    rewrite H_plain by (first [apply HdLF | apply HdCR | assumption]). ev.
    rewrite app_nil_r, rev_involutive. reflexivity.
  - apply orb_false_iff in E. destruct E as [_ E].
    destruct s as [|c s].
    + cbn [app]. rewrite H_plain by (first [apply HdLF | apply HdCR | assumption]).
      destruct Hst; subst st; ev; reflexivity.
    + cbn [existsb] in E. apply orb_false_iff in E. destruct E as [Hc Hs].
      apply special_false in Hc. destruct Hc as (E1 & E2 & E3 & E4).
      cbn [app]. rewrite H_plain by (first [assumption | apply app_cons_ne]).
      assert (E5 : feed D (mkReader st [] fs) (Some c) = Some (mkReader InField [c] fs)).
      { destruct Hst; subst st; ev; rewrite E3, E4, E2, E1; ev; reflexivity. }
      rewrite E5. rewrite Hu_body by (first [assumption | discriminate]).
      rewrite H_plain by (first [apply HdLF | apply HdCR | assumption]). ev.
      rewrite rev_app_distr, rev_involutive. reflexivity.
Qed.

(* the last written field of a row followed by the line terminator *)
Lemma H_field_last : forall st s fs t, st = StartField \/ (st = StartRecord /\ s <> []) ->
  rdH (mkReader st [] fs) (write_field D s ++ CR :: LF :: t) = NRecord (rev (s :: fs)) (lines [] t).
Proof.
  intros st s fs t Hst. unfold write_field.
  destruct (dl_quote_all D || existsb (special D) s) eqn:E.
  - cbn [app]. rewrite <- app_assoc. cbn [app].
    rewrite H_plain by (first [apply HqLF | apply HqCR | apply app_cons_ne]).
    assert (E1 : feed D (mkReader st [] fs) (Some (dl_quote D)) = Some (mkReader InQuoted [] fs)).
    { destruct Hst as [Hst|[Hst _]]; subst st; ev; reflexivity. }
    rewrite E1. rewrite Hq_body by discriminate.
    rewrite H_plain by (first [apply HqLF | apply HqCR | discriminate]). ev.
    rewrite H_CRLF. ev.
    rewrite app_nil_r, rev_involutive. reflexivity.
  - apply orb_false_iff in E. destruct E as [_ E].
    destruct s as [|c s].
    + destruct Hst as [Hst|[_ Hst]]; [subst st | contradiction].
      cbn [app]. rewrite H_CRLF. ev. reflexivity.
    + cbn [existsb] in E. apply orb_false_iff in E. destruct E as [Hc Hs].
      apply special_false in Hc. destruct Hc as (E1 & E2 & E3 & E4).
      cbn [app]. rewrite H_plain by (first [assumption | apply app_cons_ne]).
      assert (E5 : feed D (mkReader st [] fs) (Some c) = Some (mkReader InField [c] fs)).
      { destruct Hst as [Hst|[Hst _]]; subst st; ev; rewrite E3, E4, E2, E1; ev; reflexivity. }
      rewrite E5. rewrite Hu_body by (first [assumption | discriminate]).
      rewrite H_CRLF. ev.
      rewrite rev_app_distr, rev_involutive. reflexivity.
Qed.

(* the fields of a row after the first one *)
Lemma H_row_tail : forall cells fs t, cells <> [] ->
  rdH (mkReader StartField [] fs) (join_fields D (map (write_field D) cells) ++ CR :: LF :: t) =
  NRecord (rev (rev cells ++ fs)) (lines [] t).
Proof.
  intros cells; induction cells as [|c cells IH]; intros fs t Hne.
  - contradiction.
  - destruct cells as [|c2 cs].
    + cbn [map join_fields]. rewrite H_field_last by (left; reflexivity). reflexivity.
    + cbn [map] in IH |- *. rewrite join_fields_cons2.
      rewrite <- app_assoc, <- app_comm_cons.
      rewrite H_field_delim by (first [right; reflexivity | apply app_cons_ne]).
      rewrite IH by discriminate.
      cbn [rev]. rewrite <- !app_assoc. reflexivity.
Qed.

(* one written row is read back as one record, whatever follows *)
Lemma H_row : forall row t, rdH r_init (write_row D row ++ t) = NRecord row (lines [] t).
Proof.
  intros row t. unfold r_init.
  destruct row as [|c cells].
  - cbn [write_row map join_fields app]. rewrite H_CRLF. ev. reflexivity.
  - destruct cells as [|c2 cs].
    + destruct c as [|x s].
      * cbn [write_row app].
        rewrite H_plain by (first [apply HqLF | apply HqCR | discriminate]). ev.
        rewrite H_plain by (first [apply HqLF | apply HqCR | discriminate]). ev.
        rewrite H_CRLF. ev. reflexivity.
      * rewrite write_row_eq by discriminate.
        cbn [map join_fields]. rewrite <- app_assoc. cbn [app].
        rewrite H_field_last by (right; split; [reflexivity | discriminate]). reflexivity.
    + rewrite write_row_eq by discriminate.
      cbn [map]. rewrite join_fields_cons2.
      rewrite <- !app_assoc, <- app_comm_cons. cbn [app].
      rewrite H_field_delim by (first [left; reflexivity | apply app_cons_ne]).
      change (write_field D c2 :: map (write_field D) cs) with (map (write_field D) (c2 :: cs)).
      rewrite H_row_tail by discriminate.
      rewrite rev_app_distr, rev_involutive. reflexivity.
Qed.

Lemma read_all_write : forall rows fuel, length rows < fuel ->
  read_all D fuel (lines [] (csv_write D rows)) = Some rows.
Proof.
  intros rows; induction rows as [|row rows IH]; intros fuel Hl.
  - destruct fuel as [|f]; [cbn in Hl; lia|]. reflexivity.
  - destruct fuel as [|f]; [lia|]. cbn [length] in Hl.
    cbn [csv_write flat_map read_all].
    change (read_record D r_init (lines [] (write_row D row ++ flat_map (write_row D) rows)))
      with (rdH r_init (write_row D row ++ csv_write D rows)).
    rewrite H_row. rewrite IH by lia. reflexivity.
Qed.

End Reader.

(* ---- main theorem and corollaries -------------------------------------------------------- *)
Theorem csv_roundtrip : forall (D : dialect) (rows : list (list str)), wf_dialect D -> csv_read D (csv_write D rows) = Some rows.
Proof.
  intros D rows Hwf. unfold csv_read. cbv zeta. rewrite file_lines_lines.
  assert (E : read_all D (S (length rows)) (lines [] (csv_write D rows)) = Some rows).
  { apply read_all_write; [assumption | lia]. }
  apply read_all_len in E.
  apply read_all_write; [assumption | lia].
Qed.

Theorem csv_write_app : forall D r1 r2, csv_write D (r1 ++ r2) = csv_write D r1 ++ csv_write D r2.
Proof. intros D r1 r2. unfold csv_write. apply flat_map_app. Qed.

Theorem csv_append_roundtrip : forall D r1 r2, wf_dialect D -> csv_read D (csv_write D r1 ++ csv_write D r2) = Some (r1 ++ r2).
Proof. intros D r1 r2 Hwf. rewrite <- csv_write_app. apply csv_roundtrip. assumption. Qed.

Theorem csv_write_injective : forall D r1 r2, wf_dialect D -> csv_write D r1 = csv_write D r2 -> r1 = r2.
Proof.
  intros D r1 r2 Hwf E.
  assert (E1 : Some r1 = Some r2).
  { rewrite <- (csv_roundtrip D r1 Hwf), <- (csv_roundtrip D r2 Hwf), E. reflexivity. }
  inversion E1. reflexivity.
Qed.

Example csv_roundtrip_example : csv_read excel (csv_write excel [[[97; 44; 34]%N; [13; 10; 13]%N; []]; []; [[]]]) = Some [[[97; 44; 34]%N; [13; 10; 13]%N; []]; []; [[]]].
Proof. vm_compute. reflexivity. Qed.

Print Assumptions csv_roundtrip.
Print Assumptions csv_write_app.
Print Assumptions csv_append_roundtrip.
Print Assumptions csv_write_injective.
Print Assumptions csv_roundtrip_example.
