(* DBReadP.v — every query read of the database model equals its specification, on both
   read paths, in every state that satisfies the invariant. *)
From Coq Require Import List ZArith NArith Bool Arith Lia.
From TF Require Import Base Query Index DB Spec proofs.BaseP proofs.QueryP proofs.TimeSearchP
     proofs.IndexDefs proofs.ScanP proofs.IndexP.
Import ListNotations.

Section DBReadP.
Variable E : env.
Variable C : cenv.
Variable norm : point -> point.

(* the state invariant: stored points are well-formed, and an index flagged valid describes them *)
Definition Inv (s : state) : Prop :=
  wf_points (st_rows s) /\ (ix_valid (st_idx s) = true -> Rep (st_idx s) (st_rows s)).

(* when the code decides to consult the index for q, q has a shape the index answers exactly *)
Definition index_safe (q : query) : Prop := index_is_exact q = true -> exact_for_index q = true.

Lemma dsl_index_safe q : dsl_query q = true -> index_safe q.
Proof. intros Hd Hx. now apply dsl_index_exact. Qed.

Hypothesis Rep_build : forall pts, wf_points pts -> Rep (ix_build pts) pts.

Lemma read_prelude_rows s : st_rows (read_prelude s) = st_rows s.
Proof. unfold read_prelude, do_reindex. destruct (st_auto s && negb (ix_valid (st_idx s))); [destruct (ix_valid (st_idx s))|]; reflexivity. Qed.
Lemma read_prelude_auto s : st_auto (read_prelude s) = st_auto s.
Proof. unfold read_prelude, do_reindex. destruct (st_auto s && negb (ix_valid (st_idx s))); [destruct (ix_valid (st_idx s))|]; reflexivity. Qed.

Lemma do_reindex_Inv s : Inv s -> Inv (do_reindex s).
Proof.
  intros [Hwf HR]. unfold do_reindex. destruct (ix_valid (st_idx s)) eqn:Ev; [split; auto|].
  split; cbn; auto.
Qed.
Lemma read_prelude_Inv s : Inv s -> Inv (read_prelude s).
Proof.
  intros H. unfold read_prelude. destruct (st_auto s && negb (ix_valid (st_idx s))); [apply do_reindex_Inv|]; exact H.
Qed.
(* with automatic indexing a read leaves the index valid *)
Lemma read_prelude_valid s : st_auto s = true -> ix_valid (st_idx (read_prelude s)) = true.
Proof.
  intros Ha. unfold read_prelude, do_reindex. rewrite Ha. cbn [andb].
  destruct (ix_valid (st_idx s)) eqn:Ev; cbn [negb]; [exact Ev|]. cbn [st_idx].
  unfold ix_build. destruct (fold_left _ _ _) as [[ms ts] fs]. reflexivity.
Qed.

Lemma eval_with_meas q m p : wf_query E q -> eval E (with_meas m q) p = RB (hit E q m p).
Proof.
  intros Hq. unfold with_meas, hit, meas_pass. destruct (truthy m) as [name|].
  - cbn [eval eval_simple resolve attr_value run_test pycmp value_eqb]. rewrite (eval_denote E q p Hq). reflexivity.
  - rewrite (eval_denote E q p Hq). reflexivity.
Qed.

(* what the index hands over, when it is consulted, is exactly the set of hits *)
Lemma index_plan_spec s q m : Inv s -> wf_query E q -> index_safe q ->
  index_plan E s q m = Some None \/
  exists items, index_plan E s q m = Some (Some items) /\ NoDup items /\
    (forall k, In k items <-> exists p, nth_error (st_rows s) k = Some p /\ hit E q m p = true) /\
    ix_n (st_idx s) = length (st_rows s).
Proof.
  intros [Hwf HR] Hq Hsafe. unfold index_plan.
  destruct (ix_valid (st_idx s)) eqn:Ev; [|left; reflexivity].
  destruct (index_is_exact q) eqn:Ex; [|left; reflexivity]. cbn [andb]. right.
  specialize (HR eq_refl).
  destruct (isearch_exact E (st_idx s) (st_rows s) (with_meas m q) HR Hwf (wf_with_meas E m q Hq)
              (exact_with_meas m q (Hsafe Ex))) as [items [Hs [Hnd Hin]]].
  exists items. rewrite Hs. repeat split; auto.
  - intros Hk. apply Hin in Hk. destruct Hk as [p [Hp He]]. exists p. split; auto.
    rewrite (eval_with_meas q m p Hq) in He. now injection He.
  - intros [p [Hp Hh]]. apply Hin. exists p. split; auto. rewrite (eval_with_meas q m p Hq). now rewrite Hh.
  - exact (rep_n _ _ HR).
Qed.

Lemma filter_nil_of_no_items (f : point -> bool) rows :
  (forall k, In k (@nil nat) <-> exists p, nth_error rows k = Some p /\ f p = true) -> filter f rows = [].
Proof.
  intros H. rewrite <- (pick_filter f [] rows H). unfold pick.
  induction (combine (seq 0 (length rows)) rows) as [|x l IH]; cbn; auto.
Qed.

Theorem db_search_spec s q m srt : Inv s -> wf_query E q -> index_safe q ->
  db_search E s q m srt = (read_prelude s, OPoints (spec_search E q m srt (st_rows s))).
Proof.
  intros HI Hq Hs. unfold db_search, spec_search.
  pose proof (read_prelude_Inv s HI) as HI'. pose proof (read_prelude_rows s) as Hrows.
  set (s1 := read_prelude s) in *. rewrite <- Hrows.
  destruct (index_plan_spec s1 q m HI' Hq Hs) as [Hp|[items [Hp [Hnd [Hin Hn]]]]]; rewrite Hp.
  - rewrite (scan_filter_spec E q m (st_rows s1) Hq). reflexivity.
  - destruct items as [|k0 items'] eqn:Ei.
    + rewrite (filter_nil_of_no_items _ _ Hin). destruct srt; reflexivity.
    + rewrite <- Ei in *. clear Ei.
      destruct (Nat.eqb (length items) (ix_n (st_idx s1))).
      * rewrite (scan_filter_spec E q m (st_rows s1) Hq). reflexivity.
      * rewrite (pick_filter (hit E q m) items (st_rows s1) Hin). reflexivity.
Qed.

Theorem db_count_spec s q m : Inv s -> wf_query E q -> index_safe q ->
  db_count E s q m = (read_prelude s, ONat (spec_count E q m (st_rows s))).
Proof.
  intros HI Hq Hs. unfold db_count, spec_count.
  pose proof (read_prelude_Inv s HI) as HI'. pose proof (read_prelude_rows s) as Hrows.
  set (s1 := read_prelude s) in *. rewrite <- Hrows.
  destruct (index_plan_spec s1 q m HI' Hq Hs) as [Hp|[items [Hp [Hnd [Hin Hn]]]]]; rewrite Hp.
  - rewrite (scan_filter_spec E q m (st_rows s1) Hq). reflexivity.
  - rewrite (items_length (hit E q m) items (st_rows s1) Hnd Hin). reflexivity.
Qed.

Lemma existsb_filter (f : point -> bool) rows : existsb f rows = match filter f rows with [] => false | _ => true end.
Proof. induction rows as [|p r IH]; cbn; auto. destruct (f p); cbn; auto. Qed.

Theorem db_contains_spec s q m : Inv s -> wf_query E q -> index_safe q ->
  db_contains E s q m = (read_prelude s, OBool (spec_contains E q m (st_rows s))).
Proof.
  intros HI Hq Hs. unfold db_contains, spec_contains.
  pose proof (read_prelude_Inv s HI) as HI'. pose proof (read_prelude_rows s) as Hrows.
  set (s1 := read_prelude s) in *. rewrite <- Hrows. rewrite existsb_filter.
  destruct (index_plan_spec s1 q m HI' Hq Hs) as [Hp|[items [Hp [Hnd [Hin Hn]]]]]; rewrite Hp.
  - rewrite (scan_first_spec E q m (st_rows s1) Hq). destruct (filter (hit E q m) (st_rows s1)); reflexivity.
  - pose proof (items_length (hit E q m) items (st_rows s1) Hnd Hin) as Hl.
    destruct items, (filter (hit E q m) (st_rows s1)); cbn in Hl; try discriminate; reflexivity.
Qed.

Theorem db_get_spec s q m : Inv s -> wf_query E q -> index_safe q ->
  db_get E s q m = (read_prelude s, OPoint (spec_get E q m (st_rows s))).
Proof.
  intros HI Hq Hs. unfold db_get, spec_get.
  pose proof (read_prelude_Inv s HI) as HI'. pose proof (read_prelude_rows s) as Hrows.
  set (s1 := read_prelude s) in *. rewrite <- Hrows.
  destruct (index_plan_spec s1 q m HI' Hq Hs) as [Hp|[items [Hp [Hnd [Hin Hn]]]]]; rewrite Hp.
  - rewrite (scan_first_spec E q m (st_rows s1) Hq). reflexivity.
  - destruct items as [|k0 items'] eqn:Ei.
    + rewrite (filter_nil_of_no_items _ _ Hin). reflexivity.
    + rewrite <- Ei in *. clear Ei.
      destruct (Nat.eqb (length items) (ix_n (st_idx s1))).
      * rewrite (scan_first_spec E q m (st_rows s1) Hq). reflexivity.
      * rewrite (pick_filter (hit E q m) items (st_rows s1) Hin). reflexivity.
Qed.
End DBReadP.
