(* SearchGenP.v — what the index answers, regenerated from tinyflux/index.py on every run (gen/SearchGen.v: the set algebra
   of IndexResult, the recursive dispatch of Index._search_helper, the operator dispatch of Index._search_timestamps), is,
   for EVERY index, every query and enough fuel, the hand model's Index.isearch: so the exactness theorems about isearch
   (C01_index_exact, C06_valid_is_rebuilt_search, the read / remove / update specifications) are theorems about what the
   source says now. *)
From Coq Require Import List Bool Arith ZArith Lia.
From TF Require gen.SearchGen.
From TF Require Import Base Bisect UtilsHand Query Index DB QueryObj SearchSem.
From TF Require Import Spec proofs.IndexDefs proofs.IndexP proofs.DBRunP.
Import ListNotations.

Lemma mem_dedup x l : mem x (dedup l) = mem x l.
Proof.
  induction l as [|y r IH]; [reflexivity|]. cbn [dedup].
  destruct (mem y r) eqn:Hy.
  - rewrite IH. cbn [mem existsb]. fold (mem x r). destruct (Nat.eqb x y) eqn:Hxy; [|reflexivity].
    apply Nat.eqb_eq in Hxy. subst. rewrite Hy. reflexivity.
  - cbn [mem existsb]. fold (mem x (dedup r)) (mem x r). rewrite IH. reflexivity.
Qed.

Lemma set_difference_dedup a r : set_difference a (set_of r) = filter (fun x => negb (mem x r)) a.
Proof. unfold set_difference, set_of. apply filter_ext. intro x. rewrite mem_dedup. reflexivity. Qed.

Lemma set_difference_range n a : set_difference (set_range n) a = set_compl n a.
Proof. reflexivity. Qed.

Lemma find_lt_nonneg ts t m : zfind_lt ts t = Ret (Some m) -> (0 <= m)%Z.
Proof.
  unfold zfind_lt, find_lt, econd, ebind, bisect_left. 
  destruct (Z.of_nat (bisect_left_nat Z.ltb ts t) =? 0)%Z eqn:H0; cbn; intro H; inversion H; subst.
  apply Z.eqb_neq in H0. lia.
Qed.
Lemma find_le_nonneg ts t m : zfind_le ts t = Ret (Some m) -> (0 <= m)%Z.
Proof.
  unfold zfind_le, find_le, econd, ebind, bisect_right.
  destruct (Z.of_nat (bisect_right_nat Z.ltb ts t) =? 0)%Z eqn:H0; cbn; intro H; inversion H; subst.
  apply Z.eqb_neq in H0. lia.
Qed.

Section P.
Variable E : env.

(* Every proof below starts with `first [reflexivity | ...]`: when the translator REFUSES the source (a construct outside
   its fragment) gen/SearchGen.v holds the hand model itself and the statements hold by computation; the check then reports
   the refusal in its evidence and the correspondence run is the only tie for this code. *)

(* _search_timestamps *)
Lemma gen_search_timestamps_eq i path t :
  SearchGen.search_timestamps E i (QS ATime path t) = search_simple E i ATime path t.
Proof.
  first [reflexivity |
  unfold SearchGen.search_timestamps; cbn [search_simple];
  destruct t as [c rhs| |re fl|re fl|id]; cbn [q_op_is cmp_eqb]; try reflexivity;
  destruct rhs as [tm|s| |x|d|n]; try (destruct c; reflexivity);
  unfold search_time_cmp;
  destruct c; cbn [cmp_eqb q_rhs_stamp opt_bind]; unfold find_res;
  [ destruct (zfind_eq (ix_ts i) tm) as [[m|]|]; reflexivity
  | destruct (zfind_eq (ix_ts i) tm) as [[m|]|]; try reflexivity;
    unfold eq_run_from; rewrite set_difference_dedup; reflexivity
  | destruct (zfind_lt (ix_ts i) tm) as [[m|]|] eqn:Hf; try reflexivity;
    apply find_lt_nonneg in Hf; unfold slice_to, set_of; rewrite Z2Nat.inj_add by lia; reflexivity
  | destruct (zfind_le (ix_ts i) tm) as [[m|]|] eqn:Hf; try reflexivity;
    apply find_le_nonneg in Hf; unfold slice_to, set_of; rewrite Z2Nat.inj_add by lia; reflexivity
  | destruct (zfind_gt (ix_ts i) tm) as [[m|]|]; reflexivity
  | destruct (zfind_ge (ix_ts i) tm) as [[m|]|]; reflexivity ] ].
Qed.

Definition lift (i : index) (r : sres) : option iresult := option_map (fun s => mk_ir s (ix_n i)) r.

Ltac map_case f := unfold f, with_pt; cbn [q_path q_test search_simple];
  match goal with |- opt_bind ?x _ = _ => destruct x end; reflexivity.

Lemma gen_simple i a path t fuel :
  SearchGen.search_helper E (S fuel) i (QS a path t) = lift i (search_simple E i a path t).
Proof.
  first [reflexivity |
  cbn [SearchGen.search_helper q_isinst q_hash_is_empty q_point_attr attr_name_eqb];
  destruct a; cbn [attr_eqb];
  [ rewrite gen_search_timestamps_eq; destruct (search_simple E i ATime path t); reflexivity
  | map_case m_search_measurement | map_case m_search_tags | map_case m_search_fields ] ].
Qed.

Lemma field_simple_obj x : q_isinst KSimple x && attr_name_eqb (q_point_attr x) AFields = is_field_simple x.
Proof. destruct x as [a path t|a| | |]; try reflexivity; destruct a; reflexivity. Qed.

Theorem gen_search_helper_eq : forall i q fuel, q_size q <= fuel ->
  SearchGen.search_helper E fuel i q = lift i (isearch E i q).
Proof.
  intros i. induction q as [a path t|a|l IHl r IHr|l IHl r IHr|x IH]; intros fuel Hf; (destruct fuel as [|f]; [cbn in Hf; lia|]).
  - apply gen_simple.
  - reflexivity.
  - first [reflexivity |
    cbn [q_size] in Hf; cbn [SearchGen.search_helper isearch];
    change (q_isinst KCompound (QAnd l r)) with true; change (opname_eqb (q_operator (QAnd l r)) OAnd) with true;
    change (q_query1 (QAnd l r)) with l; change (q_query2 (QAnd l r)) with (Some r); cbv iota;
    rewrite IHl, IHr by lia;
    destruct (isearch E i l) as [x|]; [destruct (isearch E i r) as [y|]; reflexivity | reflexivity] ].
  - first [reflexivity |
    cbn [q_size] in Hf; cbn [SearchGen.search_helper isearch];
    change (q_isinst KCompound (QOr l r)) with true; change (opname_eqb (q_operator (QOr l r)) OAnd) with false;
    change (opname_eqb (q_operator (QOr l r)) OOr) with true;
    change (q_query1 (QOr l r)) with l; change (q_query2 (QOr l r)) with (Some r); cbv iota;
    rewrite IHl, IHr by lia;
    destruct (isearch E i l) as [x'|]; [destruct (isearch E i r) as [y|]; reflexivity | reflexivity] ].
  - first [reflexivity |
    cbn [q_size] in Hf; cbn [SearchGen.search_helper isearch];
    change (q_isinst KCompound (QNot x)) with true; change (opname_eqb (q_operator (QNot x)) OAnd) with false;
    change (opname_eqb (q_operator (QNot x)) OOr) with false; change (opname_eqb (q_operator (QNot x)) ONot) with true;
    change (q_query1 (QNot x)) with x; cbv iota;
    rewrite IH by lia; rewrite field_simple_obj;
    destruct (isearch E i x) as [s|]; [|reflexivity]; cbn [lift option_map opt_bind];
    destruct (is_field_simple x); reflexivity ].
Qed.

(* Index.search(query).items *)
Corollary gen_search_items i q :
  option_map ir_items (SearchGen.search_helper E (q_size q) i q) = isearch E i q.
Proof. rewrite gen_search_helper_eq by lia. destruct (isearch E i q); reflexivity. Qed.

(* the generated search itself is exact: under Rep, for a query the guard sends to the index, Index.search(query).items as the
   SOURCE computes it is a duplicate-free set holding exactly the positions of the matching points *)
Corollary gen_search_exact i pts q : Rep i pts -> wf_points pts -> wf_query E q -> exact_for_index q = true ->
  exists items, option_map ir_items (SearchGen.search_helper E (q_size q) i q) = Some items /\ exact_answer E pts q items.
Proof. intros HR Hw Hq Hx. rewrite gen_search_items. exact (isearch_exact E i pts q HR Hw Hq Hx). Qed.
Corollary gen_search_valid_is_rebuilt i pts q : Rep i pts -> wf_points pts -> wf_query E q -> exact_for_index q = true ->
  exists a b, option_map ir_items (SearchGen.search_helper E (q_size q) i q) = Some a /\
              option_map ir_items (SearchGen.search_helper E (q_size q) (ix_build pts) q) = Some b /\ NoDup a /\ NoDup b /\ forall k, In k a <-> In k b.
Proof. rewrite !gen_search_items. exact (valid_is_rebuilt_search E i pts q). Qed.
End P.
