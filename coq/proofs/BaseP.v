(* BaseP.v -- library lemmas about the definitions of Base.v:
   strings, position sets, stable sort, sorted-dedup, sorted-key dictionaries. *)
From Coq Require Import List ZArith NArith Bool Arith Lia Permutation Sorted.
From TF Require Import Base.
Import ListNotations.

(* ------------------------------------------------------------------------------- *)
(* strings                                                                         *)
(* ------------------------------------------------------------------------------- *)

Lemma str_eqb_eq : forall a b : str, str_eqb a b = true <-> a = b.
Proof.
  induction a as [|x a IH]; intros [|y b]; cbn [str_eqb]; split; intro H;
    try reflexivity; try discriminate.
  - apply andb_true_iff in H. destruct H as [H1 H2].
    apply N.eqb_eq in H1. apply IH in H2. subst. reflexivity.
  - inversion H; subst. apply andb_true_iff. split.
    + apply N.eqb_refl.
    + apply IH. reflexivity.
Qed.

Lemma str_eqb_refl : forall a, str_eqb a a = true.
Proof. intro a. apply str_eqb_eq. reflexivity. Qed.

Lemma str_eqb_neq : forall a b : str, str_eqb a b = false <-> a <> b.
Proof.
  intros a b. split.
  - intros H E. apply str_eqb_eq in E. rewrite E in H. discriminate.
  - intro H. destruct (str_eqb a b) eqn:E; [|reflexivity].
    apply str_eqb_eq in E. contradiction.
Qed.

Lemma str_eqb_sym : forall a b, str_eqb a b = str_eqb b a.
Proof.
  intros a b. destruct (str_eqb a b) eqn:E1; destruct (str_eqb b a) eqn:E2; try reflexivity.
  - apply str_eqb_eq in E1. subst. rewrite str_eqb_refl in E2. discriminate.
  - apply str_eqb_eq in E2. subst. rewrite str_eqb_refl in E1. discriminate.
Qed.

Lemma str_ltb_irrefl : forall a, str_ltb a a = false.
Proof.
  induction a as [|x a IH]; cbn [str_ltb]; [reflexivity|].
  rewrite N.ltb_irrefl, N.eqb_refl. exact IH.
Qed.

Lemma str_ltb_trans : forall a b c,
  str_ltb a b = true -> str_ltb b c = true -> str_ltb a c = true.
Proof.
  induction a as [|x a IH]; intros [|y b] [|z c] H1 H2;
    cbn [str_ltb] in H1, H2 |- *; try discriminate; try reflexivity.
  destruct (N.ltb_spec x y) as [Hxy|Hxy].
  - destruct (N.ltb_spec y z) as [Hyz|Hyz].
    + destruct (N.ltb_spec x z) as [Hxz|Hxz]; [reflexivity|lia].
    + destruct (N.eqb_spec y z) as [E|E]; [|discriminate]. subst z.
      destruct (N.ltb_spec x y) as [Hxz|Hxz]; [reflexivity|lia].
  - destruct (N.eqb_spec x y) as [E|E]; [|discriminate]. subst y.
    destruct (N.ltb_spec x z) as [Hxz|Hxz]; [reflexivity|].
    destruct (N.eqb_spec x z) as [E|E]; [|discriminate].
    eapply IH; eassumption.
Qed.

Lemma str_ltb_asym : forall a b, str_ltb a b = true -> str_ltb b a = false.
Proof.
  intros a b H. destruct (str_ltb b a) eqn:E; [|reflexivity].
  pose proof (str_ltb_trans a b a H E) as H0.
  rewrite str_ltb_irrefl in H0. discriminate.
Qed.

Lemma str_ltb_total : forall a b, str_ltb a b = true \/ a = b \/ str_ltb b a = true.
Proof.
  induction a as [|x a IH]; intros [|y b]; cbn [str_ltb].
  - right. left. reflexivity.
  - left. reflexivity.
  - right. right. reflexivity.
  - destruct (N.ltb_spec x y) as [Hxy|Hxy]; [left; reflexivity|].
    destruct (N.ltb_spec y x) as [Hyx|Hyx]; [right; right; reflexivity|].
    assert (x = y) as E by lia. subst y.
    rewrite N.eqb_refl.
    destruct (IH b) as [H|[H|H]].
    + left. exact H.
    + right. left. subst. reflexivity.
    + right. right. exact H.
Qed.

Lemma ostr_eqb_eq : forall a b, ostr_eqb a b = true <-> a = b.
Proof.
  intros [a|] [b|]; cbn [ostr_eqb]; split; intro H; try reflexivity; try discriminate.
  - apply str_eqb_eq in H. subst. reflexivity.
  - inversion H; subst. apply str_eqb_refl.
Qed.

(* ------------------------------------------------------------------------------- *)
(* position sets                                                                   *)
(* ------------------------------------------------------------------------------- *)

Lemma mem_In : forall k s, mem k s = true <-> In k s.
Proof.
  intros k s. unfold mem. rewrite existsb_exists. split.
  - intros [x [Hx E]]. apply Nat.eqb_eq in E. subst. exact Hx.
  - intro H. exists k. split; [exact H|apply Nat.eqb_refl].
Qed.

Lemma mem_false_In : forall k s, mem k s = false <-> ~ In k s.
Proof.
  intros k s. split.
  - intros H HI. apply mem_In in HI. rewrite HI in H. discriminate.
  - intro H. destruct (mem k s) eqn:E; [|reflexivity].
    apply mem_In in E. contradiction.
Qed.

Lemma dedup_In : forall k l, In k (dedup l) <-> In k l.
Proof.
  intros k l. induction l as [|x r IH]; cbn [dedup]; [tauto|].
  destruct (mem x r) eqn:E.
  - rewrite IH. split; [intro H; right; exact H|].
    intros [H|H]; [|exact H]. subst. apply mem_In. exact E.
  - cbn [In]. rewrite IH. tauto.
Qed.

Lemma dedup_NoDup : forall l, NoDup (dedup l).
Proof.
  induction l as [|x r IH]; cbn [dedup]; [constructor|].
  destruct (mem x r) eqn:E; [exact IH|].
  constructor; [|exact IH].
  rewrite dedup_In. apply mem_false_In. exact E.
Qed.

Lemma dedup_id : forall l, NoDup l -> dedup l = l.
Proof.
  induction l as [|x r IH]; intro H; cbn [dedup]; [reflexivity|].
  inversion H as [|x' r' Hx Hr]; subst.
  apply mem_false_In in Hx. rewrite Hx. rewrite IH by exact Hr. reflexivity.
Qed.

Lemma NoDup_app_intro : forall (A : Type) (a b : list A),
  NoDup a -> NoDup b -> (forall x, In x a -> ~ In x b) -> NoDup (a ++ b).
Proof.
  intros A a b Ha Hb Hd. induction a as [|x a IH]; cbn [app]; [exact Hb|].
  inversion Ha as [|x' a' Hx Ha']; subst.
  constructor.
  - rewrite in_app_iff. intros [H|H]; [contradiction|].
    apply (Hd x); [left; reflexivity|exact H].
  - apply IH; [exact Ha'|]. intros y Hy. apply Hd. right. exact Hy.
Qed.

Lemma set_union_In : forall k a b, In k (set_union a b) <-> In k a \/ In k b.
Proof.
  intros k a b. unfold set_union. rewrite in_app_iff, filter_In.
  split.
  - intros [H|[H _]]; [left|right]; exact H.
  - intros [H|H]; [left; exact H|].
    destruct (mem k a) eqn:E.
    + left. apply mem_In. exact E.
    + right. split; [exact H|]. reflexivity.
Qed.

Lemma set_union_NoDup : forall a b, NoDup a -> NoDup b -> NoDup (set_union a b).
Proof.
  intros a b Ha Hb. unfold set_union. apply NoDup_app_intro.
  - exact Ha.
  - apply NoDup_filter. exact Hb.
  - intros x Hx Hf. apply filter_In in Hf. destruct Hf as [_ Hf].
    apply mem_In in Hx. cbv beta in Hf. rewrite Hx in Hf. discriminate.
Qed.

Lemma set_inter_In : forall k a b, In k (set_inter a b) <-> In k a /\ In k b.
Proof.
  intros k a b. unfold set_inter. rewrite filter_In. cbv beta. rewrite mem_In. tauto.
Qed.

Lemma set_inter_NoDup : forall a b, NoDup a -> NoDup (set_inter a b).
Proof.
  intros a b Ha. unfold set_inter. apply NoDup_filter. exact Ha.
Qed.

Lemma set_compl_In : forall k n a, In k (set_compl n a) <-> k < n /\ ~ In k a.
Proof.
  intros k n a. unfold set_compl. rewrite filter_In. cbv beta.
  rewrite in_seq, negb_true_iff, mem_false_In.
  split.
  - intros [[_ H1] H2]. split; [lia|exact H2].
  - intros [H1 H2]. split; [lia|exact H2].
Qed.

Lemma set_compl_NoDup : forall n a, NoDup (set_compl n a).
Proof.
  intros n a. unfold set_compl. apply NoDup_filter. apply seq_NoDup.
Qed.

Lemma NoDup_length_filter_seq : forall (n : nat) (s : list nat) (f : nat -> bool),
  NoDup s -> (forall k, In k s <-> k < n /\ f k = true) ->
  length s = length (filter f (seq 0 n)).
Proof.
  intros n s f Hs H. apply Permutation_length. apply NoDup_Permutation.
  - exact Hs.
  - apply NoDup_filter. apply seq_NoDup.
  - intro k. rewrite H, filter_In, in_seq. split.
    + intros [H1 H2]. split; [lia|exact H2].
    + intros [[_ H1] H2]. split; [lia|exact H2].
Qed.

Lemma filter_seq_nth_gen : forall (A : Type) (g : A -> bool) (d : A) (l pre : list A),
  map (fun k => nth k (pre ++ l) d)
      (filter (fun k => g (nth k (pre ++ l) d)) (seq (length pre) (length l)))
  = filter g l.
Proof.
  intros A g d. induction l as [|x r IH]; intro pre; [reflexivity|].
  cbn [length seq filter].
  rewrite nth_middle.
  assert (E : pre ++ x :: r = (pre ++ [x]) ++ r).
  { rewrite <- app_assoc. reflexivity. }
  assert (L : S (length pre) = length (pre ++ [x])).
  { rewrite app_length. cbn [length]. lia. }
  specialize (IH (pre ++ [x])). rewrite <- E, <- L in IH.
  destruct (g x) eqn:G.
  - cbn [map]. rewrite nth_middle. rewrite IH. reflexivity.
  - exact IH.
Qed.

Lemma filter_seq_nth : forall (A : Type) (l : list A) (g : A -> bool) (d : A),
  map (fun k => nth k l d) (filter (fun k => g (nth k l d)) (seq 0 (length l))) = filter g l.
Proof.
  intros A l g d. exact (filter_seq_nth_gen A g d l []).
Qed.

(* ------------------------------------------------------------------------------- *)
(* stable sort                                                                     *)
(* ------------------------------------------------------------------------------- *)

Lemma insert_sorted_perm : forall (A : Type) (leb : A -> A -> bool) x l,
  Permutation (insert_sorted leb x l) (x :: l).
Proof.
  intros A leb x l. induction l as [|y r IH]; cbn [insert_sorted].
  - apply Permutation_refl.
  - destruct (leb x y) eqn:E.
    + apply Permutation_refl.
    + eapply Permutation_trans.
      * apply perm_skip. exact IH.
      * apply perm_swap.
Qed.

Lemma stable_sort_perm : forall (A : Type) (leb : A -> A -> bool) l,
  Permutation (stable_sort leb l) l.
Proof.
  intros A leb l. induction l as [|x r IH]; cbn [stable_sort fold_right].
  - apply Permutation_refl.
  - eapply Permutation_trans.
    + apply insert_sorted_perm.
    + apply perm_skip. exact IH.
Qed.

Lemma stable_sort_length : forall (A : Type) (leb : A -> A -> bool) l,
  length (stable_sort leb l) = length l.
Proof.
  intros A leb l. apply Permutation_length. apply stable_sort_perm.
Qed.

Lemma stable_sort_In : forall (A : Type) (leb : A -> A -> bool) l x,
  In x (stable_sort leb l) <-> In x l.
Proof.
  intros A leb l x. split; intro H.
  - eapply Permutation_in; [apply stable_sort_perm|exact H].
  - eapply Permutation_in; [apply Permutation_sym; apply stable_sort_perm|exact H].
Qed.

Lemma insert_sorted_In : forall (A : Type) (leb : A -> A -> bool) x l z,
  In z (insert_sorted leb x l) <-> z = x \/ In z l.
Proof.
  intros A leb x l z. split; intro H.
  - apply (Permutation_in z (insert_sorted_perm A leb x l)) in H.
    destruct H as [H|H]; [left; symmetry; exact H|right; exact H].
  - apply (Permutation_in z (Permutation_sym (insert_sorted_perm A leb x l))).
    destruct H as [H|H]; [left; symmetry; exact H|right; exact H].
Qed.

Lemma insert_sorted_sorted : forall (A : Type) (leb : A -> A -> bool),
  (forall a b, leb a b = true \/ leb b a = true) ->
  (forall a b c, leb a b = true -> leb b c = true -> leb a c = true) ->
  forall x l, StronglySorted (fun a b => leb a b = true) l ->
  StronglySorted (fun a b => leb a b = true) (insert_sorted leb x l).
Proof.
  intros A leb Htot Htr x l Hl. induction l as [|y r IH]; cbn [insert_sorted].
  - constructor; constructor.
  - inversion Hl as [|y' r' Hr Hy]; subst.
    destruct (leb x y) eqn:E.
    + constructor; [exact Hl|].
      constructor; [exact E|].
      rewrite Forall_forall in Hy |- *. intros z Hz.
      apply (Htr x y z); [exact E|apply Hy; exact Hz].
    + constructor; [apply IH; exact Hr|].
      rewrite Forall_forall in Hy |- *. intros z Hz.
      apply insert_sorted_In in Hz. destruct Hz as [Hz|Hz].
      * subst z. destruct (Htot x y) as [H|H]; [rewrite H in E; discriminate|exact H].
      * apply Hy. exact Hz.
Qed.

Lemma stable_sort_sorted : forall (A : Type) (leb : A -> A -> bool),
  (forall a b, leb a b = true \/ leb b a = true) ->
  (forall a b c, leb a b = true -> leb b c = true -> leb a c = true) ->
  forall l, StronglySorted (fun a b => leb a b = true) (stable_sort leb l).
Proof.
  intros A leb Htot Htr l. induction l as [|x r IH]; cbn [stable_sort fold_right].
  - constructor.
  - apply insert_sorted_sorted; [exact Htot|exact Htr|exact IH].
Qed.

Lemma stable_sort_id : forall (A : Type) (leb : A -> A -> bool) l,
  StronglySorted (fun a b => leb a b = true) l -> stable_sort leb l = l.
Proof.
  intros A leb l. induction l as [|x r IH]; intro Hl; cbn [stable_sort fold_right].
  - reflexivity.
  - inversion Hl as [|x' r' Hr Hx]; subst.
    change (fold_right (insert_sorted leb) [] r) with (stable_sort leb r).
    rewrite IH by exact Hr.
    destruct r as [|y r2]; cbn [insert_sorted]; [reflexivity|].
    inversion Hx as [|y' r3 Hxy Hx2]; subst.
    rewrite Hxy. reflexivity.
Qed.

(* inserting below a lower bound of the list puts the element in front *)
Lemma insert_sorted_front : forall (A : Type) (leb : A -> A -> bool) x l,
  (forall z, In z l -> leb x z = true) -> insert_sorted leb x l = x :: l.
Proof.
  intros A leb x l H. destruct l as [|y r]; cbn [insert_sorted]; [reflexivity|].
  rewrite (H y) by (left; reflexivity). reflexivity.
Qed.

Lemma insert_sorted_filter : forall (A : Type) (leb : A -> A -> bool) (f : A -> bool),
  (forall a b c, leb a b = true -> leb b c = true -> leb a c = true) ->
  forall x l, StronglySorted (fun a b => leb a b = true) l ->
  filter f (insert_sorted leb x l)
  = if f x then insert_sorted leb x (filter f l) else filter f l.
Proof.
  intros A leb f Htr x l Hl. induction l as [|y r IH].
  - cbn [insert_sorted filter]. destruct (f x); reflexivity.
  - inversion Hl as [|y' r' Hr Hy]; subst.
    cbn [insert_sorted]. destruct (leb x y) eqn:E.
    + change (filter f (x :: y :: r)) with (if f x then x :: filter f (y :: r) else filter f (y :: r)).
      destruct (f x) eqn:Fx; [|reflexivity].
      symmetry. apply insert_sorted_front.
      intros z Hz. apply filter_In in Hz. destruct Hz as [Hz _].
      destruct Hz as [Hz|Hz].
      * subst z. exact E.
      * rewrite Forall_forall in Hy. apply (Htr x y z); [exact E|apply Hy; exact Hz].
    + cbn [filter]. rewrite (IH Hr).
      destruct (f y) eqn:Fy; destruct (f x) eqn:Fx; try reflexivity.
      cbn [insert_sorted]. rewrite E. reflexivity.
Qed.

Lemma stable_sort_filter : forall (A : Type) (leb : A -> A -> bool) (f : A -> bool),
  (forall a b c, leb a b = true -> leb b c = true -> leb a c = true) ->
  (forall a b, leb a b = true \/ leb b a = true) ->
  forall l, filter f (stable_sort leb l) = stable_sort leb (filter f l).
Proof.
  intros A leb f Htr Htot l. induction l as [|x r IH].
  - reflexivity.
  - cbn [stable_sort fold_right filter].
    change (fold_right (insert_sorted leb) [] r) with (stable_sort leb r).
    rewrite (insert_sorted_filter A leb f Htr x (stable_sort leb r)
               (stable_sort_sorted A leb Htot Htr r)).
    rewrite IH. destruct (f x); reflexivity.
Qed.

(* ------------------------------------------------------------------------------- *)
(* sorted-dedup of strings                                                         *)
(* ------------------------------------------------------------------------------- *)

Lemma sins_In : forall x l z, In z (sins x l) <-> z = x \/ In z l.
Proof.
  intros x l z. induction l as [|y r IH]; cbn [sins].
  - cbn [In]. split; intros [H|H]; try contradiction; left; symmetry; exact H.
  - destruct (str_eqb x y) eqn:E.
    + apply str_eqb_eq in E. subst y. cbn [In]. split.
      * intro H. right. exact H.
      * intros [H|H]; [left; symmetry; exact H|exact H].
    + destruct (str_ltb x y) eqn:L.
      * cbn [In]. split; intros [H|H]; try (right; exact H); left; symmetry; exact H.
      * cbn [In]. rewrite IH. tauto.
Qed.

Lemma sins_sorted : forall x l,
  StronglySorted (fun a b => str_ltb a b = true) l ->
  StronglySorted (fun a b => str_ltb a b = true) (sins x l).
Proof.
  intros x l Hl. induction l as [|y r IH]; cbn [sins].
  - constructor; constructor.
  - inversion Hl as [|y' r' Hr Hy]; subst.
    destruct (str_eqb x y) eqn:E; [exact Hl|].
    destruct (str_ltb x y) eqn:L.
    + constructor; [exact Hl|].
      constructor; [exact L|].
      rewrite Forall_forall in Hy |- *. intros z Hz.
      apply (str_ltb_trans x y z); [exact L|apply Hy; exact Hz].
    + constructor; [apply IH; exact Hr|].
      rewrite Forall_forall in Hy |- *. intros z Hz.
      apply sins_In in Hz. destruct Hz as [Hz|Hz].
      * subst z. destruct (str_ltb_total x y) as [H|[H|H]].
        -- rewrite H in L. discriminate.
        -- apply str_eqb_neq in E. contradiction.
        -- exact H.
      * apply Hy. exact Hz.
Qed.

Lemma sort_dedup_In : forall x l, In x (sort_dedup l) <-> In x l.
Proof.
  intros x l. induction l as [|y r IH]; cbn [sort_dedup fold_right].
  - tauto.
  - change (fold_right sins [] r) with (sort_dedup r).
    rewrite sins_In, IH. cbn [In]. split; intros [H|H]; try (right; exact H); left; symmetry; exact H.
Qed.

Lemma sort_dedup_sorted : forall l,
  StronglySorted (fun a b => str_ltb a b = true) (sort_dedup l).
Proof.
  induction l as [|y r IH]; cbn [sort_dedup fold_right].
  - constructor.
  - apply sins_sorted. exact IH.
Qed.

Lemma sorted_strict_ext : forall l1 l2 : list str,
  StronglySorted (fun a b => str_ltb a b = true) l1 ->
  StronglySorted (fun a b => str_ltb a b = true) l2 ->
  (forall x, In x l1 <-> In x l2) -> l1 = l2.
Proof.
  induction l1 as [|a r1 IH]; intros l2 H1 H2 Hext.
  - destruct l2 as [|b r2]; [reflexivity|].
    exfalso. apply (proj2 (Hext b)). left. reflexivity.
  - destruct l2 as [|b r2].
    + exfalso. apply (proj1 (Hext a)). left. reflexivity.
    + inversion H1 as [|a' r1' Hr1 Ha]; subst.
      inversion H2 as [|b' r2' Hr2 Hb]; subst.
      rewrite Forall_forall in Ha, Hb.
      assert (Eab : a = b).
      { destruct (proj1 (Hext a) (or_introl eq_refl)) as [E|Hin]; [symmetry; exact E|].
        destruct (proj2 (Hext b) (or_introl eq_refl)) as [E|Hin2]; [exact E|].
        exfalso. pose proof (Hb a Hin) as L1. pose proof (Ha b Hin2) as L2.
        apply str_ltb_asym in L1. rewrite L1 in L2. discriminate. }
      subst b. f_equal.
      apply IH; [exact Hr1|exact Hr2|].
      intro x. split; intro Hx.
      * destruct (proj1 (Hext x) (or_intror Hx)) as [E|Hin]; [|exact Hin].
        exfalso. subst x. pose proof (Ha a Hx) as L. rewrite str_ltb_irrefl in L. discriminate.
      * destruct (proj2 (Hext x) (or_intror Hx)) as [E|Hin]; [|exact Hin].
        exfalso. subst x. pose proof (Hb a Hx) as L. rewrite str_ltb_irrefl in L. discriminate.
Qed.

Lemma sort_dedup_ext : forall l1 l2,
  (forall x, In x l1 <-> In x l2) -> sort_dedup l1 = sort_dedup l2.
Proof.
  intros l1 l2 H. apply sorted_strict_ext.
  - apply sort_dedup_sorted.
  - apply sort_dedup_sorted.
  - intro x. rewrite !sort_dedup_In. apply H.
Qed.

(* ------------------------------------------------------------------------------- *)
(* dictionaries                                                                    *)
(* ------------------------------------------------------------------------------- *)

(* dsorted, unfolded one step: the tail is sorted and every key in it is above the head *)
Lemma dsorted_cons_iff : forall (V : Type) k (v : V) (r : list (str * V)),
  dsorted ((k, v) :: r) = true <->
  dsorted r = true /\ (forall kv, In kv r -> str_ltb k (fst kv) = true).
Proof.
  intros V k v r. revert k v. induction r as [|[k1 v1] r IH]; intros k v.
  - cbn [dsorted]. split; [|intros _; reflexivity].
    intros _. split; [reflexivity|]. intros kv H. destruct H.
  - change (dsorted ((k, v) :: (k1, v1) :: r))
      with (str_ltb k k1 && dsorted ((k1, v1) :: r)).
    rewrite andb_true_iff. split.
    + intros [L S]. split; [exact S|].
      intros kv [H|H].
      * subst kv. exact L.
      * apply (str_ltb_trans k k1 (fst kv)); [exact L|].
        apply (proj1 (IH k1 v1) S). exact H.
    + intros [S H]. split; [|exact S].
      apply (H (k1, v1)). left. reflexivity.
Qed.

Lemma dget_Some_In : forall (V : Type) k (v : V) d, dget k d = Some v -> In (k, v) d.
Proof.
  intros V k v d. induction d as [|[k1 v1] r IH]; cbn [dget]; intro H; [discriminate|].
  destruct (str_eqb k k1) eqn:E.
  - apply str_eqb_eq in E. subst k1. inversion H; subst. left. reflexivity.
  - right. apply IH. exact H.
Qed.

(* a key at or below a strict lower bound of all keys is absent *)
Lemma dget_above_None : forall (V : Type) k (r : list (str * V)),
  (forall kv, In kv r -> str_ltb k (fst kv) = true) -> dget k r = None.
Proof.
  intros V k r H. destruct (dget k r) as [v|] eqn:E; [|reflexivity].
  apply dget_Some_In in E. apply H in E. cbn [fst] in E.
  rewrite str_ltb_irrefl in E. discriminate.
Qed.

Lemma dget_In : forall (V : Type) k (v : V) d,
  dsorted d = true -> (dget k d = Some v <-> In (k, v) d).
Proof.
  intros V k v d Hs. split; [apply dget_Some_In|].
  induction d as [|[k1 v1] r IH]; intro H; [destruct H|].
  apply dsorted_cons_iff in Hs. destruct Hs as [Hr Hk].
  cbn [dget]. destruct H as [H|H].
  - inversion H; subst. rewrite str_eqb_refl. reflexivity.
  - destruct (str_eqb k k1) eqn:E.
    + exfalso. apply str_eqb_eq in E. subst k1.
      apply Hk in H. cbn [fst] in H. rewrite str_ltb_irrefl in H. discriminate.
    + apply IH; [exact Hr|exact H].
Qed.

Lemma dget_dset_same : forall (V : Type) k (v : V) d, dget k (dset k v d) = Some v.
Proof.
  intros V k v d. induction d as [|[k1 v1] r IH]; cbn [dset].
  - cbn [dget]. rewrite str_eqb_refl. reflexivity.
  - destruct (str_eqb k k1) eqn:E.
    + cbn [dget]. rewrite str_eqb_refl. reflexivity.
    + destruct (str_ltb k k1) eqn:L.
      * cbn [dget]. rewrite str_eqb_refl. reflexivity.
      * cbn [dget]. rewrite E. exact IH.
Qed.

Lemma dget_dset_other : forall (V : Type) k k' (v : V) d,
  k <> k' -> dget k' (dset k v d) = dget k' d.
Proof.
  intros V k k' v d Hne.
  assert (N : str_eqb k' k = false).
  { apply str_eqb_neq. intro E. apply Hne. symmetry. exact E. }
  induction d as [|[k1 v1] r IH]; cbn [dset].
  - cbn [dget]. rewrite N. reflexivity.
  - destruct (str_eqb k k1) eqn:E.
    + apply str_eqb_eq in E. subst k1. cbn [dget]. rewrite N. reflexivity.
    + destruct (str_ltb k k1) eqn:L.
      * cbn [dget]. rewrite N. reflexivity.
      * cbn [dget]. rewrite IH. reflexivity.
Qed.

Lemma dset_In : forall (V : Type) k (v : V) d kv,
  In kv (dset k v d) -> kv = (k, v) \/ In kv d.
Proof.
  intros V k v d kv. induction d as [|[k1 v1] r IH]; cbn [dset]; intro H.
  - destruct H as [H|H]; [left; symmetry; exact H|destruct H].
  - destruct (str_eqb k k1) eqn:E.
    + destruct H as [H|H]; [left; symmetry; exact H|right; right; exact H].
    + destruct (str_ltb k k1) eqn:L.
      * destruct H as [H|H]; [left; symmetry; exact H|right; exact H].
      * destruct H as [H|H]; [right; left; exact H|].
        destruct (IH H) as [H0|H0]; [left; exact H0|right; right; exact H0].
Qed.

Lemma dsorted_dset : forall (V : Type) k (v : V) d,
  dsorted d = true -> dsorted (dset k v d) = true.
Proof.
  intros V k v d. induction d as [|[k1 v1] r IH]; intro Hs; cbn [dset].
  - reflexivity.
  - pose proof Hs as Hs0.
    apply dsorted_cons_iff in Hs. destruct Hs as [Hr Hk].
    destruct (str_eqb k k1) eqn:E.
    + apply str_eqb_eq in E. subst k1.
      apply dsorted_cons_iff. split; [exact Hr|exact Hk].
    + destruct (str_ltb k k1) eqn:L.
      * apply dsorted_cons_iff. split; [exact Hs0|].
        intros kv [H|H].
        -- subst kv. exact L.
        -- apply (str_ltb_trans k k1 (fst kv)); [exact L|apply Hk; exact H].
      * apply dsorted_cons_iff. split; [apply IH; exact Hr|].
        intros kv H. apply dset_In in H. destruct H as [H|H].
        -- subst kv. cbn [fst].
           destruct (str_ltb_total k k1) as [T|[T|T]].
           ++ rewrite T in L. discriminate.
           ++ apply str_eqb_neq in E. contradiction.
           ++ exact T.
        -- apply Hk. exact H.
Qed.

Lemma dget_ddel_same : forall (V : Type) k (d : list (str * V)),
  dsorted d = true -> dget k (ddel k d) = None.
Proof.
  intros V k d. induction d as [|[k1 v1] r IH]; intro Hs; cbn [ddel].
  - reflexivity.
  - apply dsorted_cons_iff in Hs. destruct Hs as [Hr Hk].
    destruct (str_eqb k k1) eqn:E.
    + apply str_eqb_eq in E. subst k1. apply dget_above_None. exact Hk.
    + cbn [dget]. rewrite E. apply IH. exact Hr.
Qed.

Lemma dget_ddel_other : forall (V : Type) k k' (d : list (str * V)),
  k <> k' -> dget k' (ddel k d) = dget k' d.
Proof.
  intros V k k' d Hne.
  assert (N : str_eqb k' k = false).
  { apply str_eqb_neq. intro E. apply Hne. symmetry. exact E. }
  induction d as [|[k1 v1] r IH]; cbn [ddel].
  - reflexivity.
  - destruct (str_eqb k k1) eqn:E.
    + apply str_eqb_eq in E. subst k1. cbn [dget]. rewrite N. reflexivity.
    + cbn [dget]. rewrite IH. reflexivity.
Qed.

Lemma ddel_In : forall (V : Type) k (d : list (str * V)) kv,
  In kv (ddel k d) -> In kv d.
Proof.
  intros V k d kv. induction d as [|[k1 v1] r IH]; cbn [ddel]; intro H.
  - destruct H.
  - destruct (str_eqb k k1) eqn:E.
    + right. exact H.
    + destruct H as [H|H]; [left; exact H|right; apply IH; exact H].
Qed.

Lemma dsorted_ddel : forall (V : Type) k (d : list (str * V)),
  dsorted d = true -> dsorted (ddel k d) = true.
Proof.
  intros V k d. induction d as [|[k1 v1] r IH]; intro Hs; cbn [ddel].
  - reflexivity.
  - apply dsorted_cons_iff in Hs. destruct Hs as [Hr Hk].
    destruct (str_eqb k k1) eqn:E; [exact Hr|].
    apply dsorted_cons_iff. split; [apply IH; exact Hr|].
    intros kv H. apply Hk. apply ddel_In in H. exact H.
Qed.

Lemma dict_ext : forall (V : Type) (d1 d2 : list (str * V)),
  dsorted d1 = true -> dsorted d2 = true ->
  (forall k, dget k d1 = dget k d2) -> d1 = d2.
Proof.
  intros V. induction d1 as [|[k1 v1] r1 IH]; intros d2 H1 H2 Hext.
  - destruct d2 as [|[k2 v2] r2]; [reflexivity|].
    exfalso. specialize (Hext k2). cbn [dget] in Hext.
    rewrite str_eqb_refl in Hext. discriminate.
  - destruct d2 as [|[k2 v2] r2].
    + exfalso. specialize (Hext k1). cbn [dget] in Hext.
      rewrite str_eqb_refl in Hext. discriminate.
    + apply dsorted_cons_iff in H1. destruct H1 as [Hr1 Hk1].
      apply dsorted_cons_iff in H2. destruct H2 as [Hr2 Hk2].
      assert (G1 : In (k1, v1) ((k2, v2) :: r2)).
      { apply dget_Some_In. rewrite <- Hext. cbn [dget].
        rewrite str_eqb_refl. reflexivity. }
      assert (G2 : In (k2, v2) ((k1, v1) :: r1)).
      { apply dget_Some_In. rewrite Hext. cbn [dget].
        rewrite str_eqb_refl. reflexivity. }
      assert (E : (k1, v1) = (k2, v2)).
      { destruct G1 as [G1|G1]; [symmetry; exact G1|].
        destruct G2 as [G2|G2]; [exact G2|].
        exfalso. apply Hk2 in G1. apply Hk1 in G2. cbn [fst] in G1, G2.
        apply str_ltb_asym in G1. rewrite G1 in G2. discriminate. }
      inversion E; subst k2 v2. f_equal.
      apply IH; [exact Hr1|exact Hr2|].
      intro k. destruct (str_eqb k k1) eqn:Ek.
      * apply str_eqb_eq in Ek. subst k.
        rewrite (dget_above_None V k1 r1 Hk1), (dget_above_None V k1 r2 Hk2). reflexivity.
      * specialize (Hext k). cbn [dget] in Hext. rewrite Ek in Hext. exact Hext.
Qed.

Lemma dsorted_dupdate : forall (V : Type) (d o : list (str * V)),
  dsorted d = true -> dsorted (dupdate d o) = true.
Proof.
  intros V d o. unfold dupdate. revert d.
  induction o as [|[k v] o IH]; intros d Hs; cbn [fold_left].
  - exact Hs.
  - apply IH. cbn [fst snd]. apply dsorted_dset. exact Hs.
Qed.

Lemma dget_map : forall (V W : Type) (f : V -> W) k (d : list (str * V)),
  dget k (map (fun kv => (fst kv, f (snd kv))) d) = option_map f (dget k d).
Proof.
  intros V W f k d. induction d as [|[k1 v1] r IH]; cbn [map dget fst snd].
  - reflexivity.
  - destruct (str_eqb k k1); [reflexivity|exact IH].
Qed.

Lemma dsorted_keys_NoDup : forall (V : Type) (d : list (str * V)),
  dsorted d = true -> NoDup (map fst d).
Proof.
  intros V d. induction d as [|[k1 v1] r IH]; intro Hs; cbn [map fst].
  - constructor.
  - apply dsorted_cons_iff in Hs. destruct Hs as [Hr Hk].
    constructor; [|apply IH; exact Hr].
    intro Hin. apply in_map_iff in Hin. destruct Hin as [kv [E Hin]].
    apply Hk in Hin. rewrite E in Hin. rewrite str_ltb_irrefl in Hin. discriminate.
Qed.

Print Assumptions stable_sort_filter.
Print Assumptions stable_sort_sorted.
Print Assumptions sort_dedup_ext.
Print Assumptions dict_ext.
Print Assumptions NoDup_length_filter_seq.
Print Assumptions filter_seq_nth.
