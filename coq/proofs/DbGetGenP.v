(* DbGetGenP.v — the getters of class TinyFlux as compiled from tinyflux/database.py (gen/DbGetGen.v) - both paths, the read_op decorator included -
   answer the SPECIFICATION on the stored rows, in every state in which a valid index object describes the rows (DInv; kept by the decorator).
   Index path: the compiled index getters (gen/IndexGen.v) are exact under Rep (proofs/IndexGetP.v, proofs/TagValsP.v).  Scan path: the loops over
   storage, with their measurement filter, against the specification directly. *)
From Coq Require Import List ZArith NArith Bool Arith Lia.
From TF Require Import Base Query Index DB Spec IndexSem DbSem proofs.BaseP proofs.MapRepP proofs.IndexDefs proofs.RepP proofs.GetterP
     proofs.IndexGenP proofs.IndexGetP proofs.TagValsP.
From TF Require gen.IndexGen gen.DbGetGen.
Import ListNotations.
Import DbGetGen.

Definition DInv (d : pydb) : Prop :=
  wf_points (db_rows d) /\
  (IndexGen.gen_valid (db_index d) = true -> gwf (db_index d) /\ tne (_tags (db_index d)) /\ Rep (abs (db_index d)) (db_rows d)).

Lemma DInv_prelude d : DInv d -> DInv (db_prelude d).
Proof.
  intros [Hw Hv]. unfold db_prelude. destruct (db_auto d && negb (IndexGen.gen_valid (db_index d))); [| split; assumption].
  split; [exact Hw|]. cbn [db_rows db_index]. intros _. destruct (source_build_rep (db_index d) (db_rows d) Hw) as [Hg [HR _]].
  split; [exact Hg | split; [apply tne_build | exact HR]].
Qed.
Lemma prelude_rows d : db_rows (db_prelude d) = db_rows d.
Proof. unfold db_prelude. destruct (db_auto d && negb (IndexGen.gen_valid (db_index d))); reflexivity. Qed.

(* the measurement filter of every storage loop *)
Lemma skip_cond m p : andb (opt_truthy m) (negb (pyeq (p_meas p) (opt_str m))) = negb (meas_pass m p).
Proof. unfold meas_pass. destruct m as [[|c s]|]; cbn [opt_truthy truthy opt_str andb negb]; reflexivity. Qed.
Lemma scan_loop {A} m (body : A -> point -> A) : forall rows acc,
  fold_left (fun acc item => if andb (opt_truthy m) (negb (pyeq (p_meas item) (opt_str m))) then acc else body acc item) rows acc =
  fold_left body (in_meas m rows) acc.
Proof.
  unfold in_meas. induction rows as [|p rows IH]; intros acc; cbn [fold_left filter]. - reflexivity.
  - rewrite skip_cond. destruct (meas_pass m p); cbn [negb fold_left]; apply IH.
Qed.

(* sets of strings filled in loops *)
Lemma addall_In (ks : list str) : forall s x, In x (fold_left (fun s k => set_add k s) ks s) <-> In x s \/ In x ks.
Proof.
  induction ks as [|k ks IH]; intros s x; cbn [fold_left In]. - split; [intros H; left; exact H | intros [H|[]]; exact H].
  - rewrite IH, set_add_In. split; [intros [[H|H]|H]; [left; exact H | right; left; symmetry; exact H | right; right; exact H] | intros [H|[H|H]]; [left; left; exact H | left; right; symmetry; exact H | right; exact H]].
Qed.
Lemma collect_keys {V} (f : point -> list (str * V)) : forall pts s x,
  In x (fold_left (fun s p => fold_left (fun s k => set_add k s) (map fst (f p)) s) pts s) <-> In x s \/ In x (flat_map (fun p => map fst (f p)) pts).
Proof.
  induction pts as [|p pts IH]; intros s x; cbn [fold_left flat_map]. - split; [intros H; left; exact H | intros [H|[]]; exact H].
  - rewrite IH, addall_In, in_app_iff. split; [intros [[H|H]|H]; [left; exact H | right; left; exact H | right; right; exact H] | intros [H|[H|H]]; [left; left; exact H | left; right; exact H | right; exact H]].
Qed.
Lemma collect_meas : forall (pts : list point) s x, In x (fold_left (fun s p => set_add (p_meas p) s) pts s) <-> In x s \/ In x (map p_meas pts).
Proof.
  induction pts as [|p pts IH]; intros s x; cbn [fold_left map In]. - split; [intros H; left; exact H | intros [H|[]]; exact H].
  - rewrite IH, set_add_In. split; [intros [[H|H]|H]; [left; exact H | right; left; symmetry; exact H | right; right; exact H] | intros [H|[H|H]]; [left; left; exact H | left; right; symmetry; exact H | right; exact H]].
Qed.

(* ---------- __len__ ---------- *)
Theorem source_db_len d : DInv d -> gen_db___len__ d = length (db_rows d).
Proof.
  intros [_ Hv]. unfold gen_db___len__. destruct (db_auto d); cbn [andb]; [| reflexivity].
  destruct (IndexGen.gen_valid (db_index d)) eqn:E; [| reflexivity]. destruct (Hv eq_refl) as [_ [_ HR]]. apply source_len_exact. exact HR.
Qed.

(* ---------- get_measurements ---------- *)
Theorem source_db_get_measurements d : DInv d -> gen_db_get_measurements (db_prelude d) = spec_measurements (db_rows d).
Proof.
  intros H. apply DInv_prelude in H. rewrite <- (prelude_rows d). set (e := db_prelude d) in *. destruct H as [_ Hv]. unfold gen_db_get_measurements, spec_measurements.
  destruct (IndexGen.gen_valid (db_index e)) eqn:E.
  - destruct (Hv eq_refl) as [_ [_ HR]]. apply source_measurements_exact. exact HR.
  - apply sort_dedup_ext. intros x. rewrite collect_meas. split; [intros [[]|H]; exact H | intros H; right; exact H].
Qed.

(* ---------- get_field_keys / get_tag_keys ---------- *)
Theorem source_db_get_field_keys d m : DInv d -> gen_db_get_field_keys (db_prelude d) m = spec_field_keys m (db_rows d).
Proof.
  intros H. apply DInv_prelude in H. rewrite <- (prelude_rows d). set (e := db_prelude d) in *. destruct H as [_ Hv]. unfold gen_db_get_field_keys.
  destruct (IndexGen.gen_valid (db_index e)) eqn:E.
  - destruct (Hv eq_refl) as [_ [_ HR]]. apply source_field_keys_exact. exact HR.
  - cbv zeta. rewrite (scan_loop m (fun rst item => fold_left (fun rst fk => set_add fk rst) (map fst (p_fields item)) rst)).
    apply sort_dedup_ext. intros x. rewrite (collect_keys p_fields). split; [intros [[]|H]; exact H | intros H; right; exact H].
Qed.
Theorem source_db_get_tag_keys d m : DInv d -> gen_db_get_tag_keys (db_prelude d) m = spec_tag_keys m (db_rows d).
Proof.
  intros H. apply DInv_prelude in H. rewrite <- (prelude_rows d). set (e := db_prelude d) in *. destruct H as [_ Hv]. unfold gen_db_get_tag_keys.
  destruct (IndexGen.gen_valid (db_index e)) eqn:E.
  - destruct (Hv eq_refl) as [_ [Ht HR]]. apply source_tag_keys_exact; assumption.
  - cbv zeta. rewrite (scan_loop m (fun rst item => fold_left (fun rst tk => set_add tk rst) (map fst (p_tags item)) rst)).
    apply sort_dedup_ext. intros x. rewrite (collect_keys p_tags). split; [intros [[]|H]; exact H | intros H; right; exact H].
Qed.

(* ---------- get_timestamps ---------- *)
Lemma append_loop {A B} (f : A -> B) : forall (l : list A) acc, fold_left (fun acc x => acc ++ [f x]) l acc = acc ++ map f l.
Proof. induction l as [|x l IH]; intros acc; cbn [fold_left map]. - rewrite app_nil_r. reflexivity. - rewrite IH, <- app_assoc. reflexivity. Qed.
Theorem source_db_get_timestamps d m : DInv d -> gen_db_get_timestamps (db_prelude d) m = spec_timestamps m (db_rows d).
Proof.
  intros H. apply DInv_prelude in H. rewrite <- (prelude_rows d). set (e := db_prelude d) in *. destruct H as [_ Hv]. unfold gen_db_get_timestamps, spec_timestamps.
  destruct (IndexGen.gen_valid (db_index e)) eqn:E.
  - destruct (Hv eq_refl) as [_ [_ HR]]. rewrite map_id. apply source_timestamps_exact. exact HR.
  - cbv zeta. rewrite (scan_loop m (fun rst item => rst ++ [p_time item])). apply (append_loop p_time).
Qed.

(* ---------- get_field_values ---------- *)
Lemma pick_field (k : str) {V} : forall (d : list (str * V)) acc, dsorted d = true ->
  fold_left (fun rst (kv : str * V) => if pyeq (fst kv) k then rst ++ [snd kv] else rst) d acc = acc ++ match dget k d with Some v => [v] | None => [] end.
Proof.
  induction d as [|[k0 v0] d IH]; intros acc Hs; cbn [fold_left fst snd dget]. - rewrite app_nil_r. reflexivity.
  - apply dsorted_cons_iff in Hs. destruct Hs as [Hr Hlt]. change (pyeq k0 k) with (str_eqb k0 k). rewrite (str_eqb_sym k k0). destruct (str_eqb k0 k) eqn:E.
    + apply str_eqb_eq in E. subst k0. rewrite (IH _ Hr). rewrite <- app_assoc. cbn [app].
      assert (Hno : dget k d = None).
      { destruct (dget k d) as [v|] eqn:F; [|reflexivity]. exfalso. apply (dget_In _ k v d Hr) in F. pose proof (Hlt (k, v) F) as Hc. cbn [fst] in Hc. rewrite str_ltb_irrefl in Hc. discriminate. }
      rewrite Hno. reflexivity.
    + apply (IH _ Hr).
Qed.
Theorem source_db_get_field_values d k m : DInv d -> gen_db_get_field_values (db_prelude d) k m = spec_field_values k m (db_rows d).
Proof.
  intros H. apply DInv_prelude in H. pose proof H as [Hw _]. rewrite <- (prelude_rows d). set (e := db_prelude d) in *. destruct H as [_ Hv].
  unfold gen_db_get_field_values, spec_field_values.
  destruct (IndexGen.gen_valid (db_index e)) eqn:E.
  - destruct (Hv eq_refl) as [Hg [_ HR]]. apply source_field_values_exact; assumption.
  - cbv zeta. rewrite (scan_loop m (fun rst item => fold_left (fun rst '(fk, fv) => if pyeq fk k then rst ++ [fv] else rst) (p_fields item) rst)).
    assert (G : forall pts acc, (forall p, In p pts -> wf_point p) ->
              fold_left (fun rst item => fold_left (fun rst '(fk, fv) => if pyeq fk k then rst ++ [fv] else rst) (p_fields item) rst) pts acc =
              acc ++ flat_map (fun p => match dget k (p_fields p) with Some v => [v] | None => [] end) pts).
    { induction pts as [|p pts IH]; intros acc Hp; cbn [fold_left flat_map]. - rewrite app_nil_r. reflexivity.
      - rewrite (fold_left_ext (fun rst '(fk, fv) => if pyeq fk k then rst ++ [fv] else rst) (fun rst (kv : str * option num) => if pyeq (fst kv) k then rst ++ [snd kv] else rst)) by (intros a [fk fv]; reflexivity).
        rewrite (pick_field k (p_fields p) acc) by (apply (Hp p (or_introl eq_refl))). rewrite IH by (intros q Hq; apply Hp; right; exact Hq). rewrite <- app_assoc. reflexivity. }
    rewrite G; [reflexivity|]. intros p Hp. apply Hw. unfold in_meas in Hp. apply filter_In in Hp. apply Hp.
Qed.
