(* DbGetGenP.v — the getters of class TinyFlux as compiled from tinyflux/database.py (gen/DbGetGen.v) - both paths, the read_op decorator included -
   answer the SPECIFICATION on the stored rows, in every state in which a valid index object describes the rows (DInv; kept by the decorator).
   Index path: the compiled index getters (gen/IndexGen.v) are exact under Rep (proofs/IndexGetP.v, proofs/TagValsP.v).  Scan path: the loops over
   storage, with their measurement filter, against the specification directly. *)
From Coq Require Import List ZArith NArith Bool Arith Lia.
From TF Require Import Base Query Index DB Spec IndexSem DbSem proofs.BaseP proofs.MapRepP proofs.IndexDefs proofs.RepP proofs.GetterP
     proofs.IndexGenP proofs.IndexGetP proofs.TagValsP proofs.DBReadP.
From TF Require gen.IndexGen gen.DbGetGen.
Import ListNotations.
Import DbGetGen.

Definition DInv (d : pydb) : Prop :=
  wf_points (db_rows d) /\
  (IndexGen.gen_valid (db_index d) = true -> gwf (db_index d) /\ tne (_tags (db_index d)) /\ Rep (abs (db_index d)) (db_rows d)).

Lemma DInv_prelude d : DInv d -> DInv (db_prelude d).
Proof.
  intros [Hw Hv]. unfold db_prelude. destruct (db_auto d && negb (IndexGen.gen_valid (db_index d))); [| split; assumption].
  split; [exact Hw|]. cbn [db_rows db_index]. intros _. destruct (source_build_rep (db_index d) (db_rows d) Hw) as [Hg [HR _]].
  split; [exact Hg | split; [apply tne_build | exact HR]].
Qed.
Lemma prelude_rows d : db_rows (db_prelude d) = db_rows d.
Proof. unfold db_prelude. destruct (db_auto d && negb (IndexGen.gen_valid (db_index d))); reflexivity. Qed.

(* the measurement filter of every storage loop *)
Lemma skip_cond m p : andb (opt_truthy m) (negb (pyeq (p_meas p) (opt_str m))) = negb (meas_pass m p).
Proof. unfold meas_pass. destruct m as [[|c s]|]; cbn [opt_truthy truthy opt_str andb negb]; reflexivity. Qed.
Lemma scan_loop {A} m (body : A -> point -> A) : forall rows acc,
  fold_left (fun acc item => if andb (opt_truthy m) (negb (pyeq (p_meas item) (opt_str m))) then acc else body acc item) rows acc =
  fold_left body (in_meas m rows) acc.
Proof.
  unfold in_meas. induction rows as [|p rows IH]; intros acc; cbn [fold_left filter]. - reflexivity.
  - rewrite skip_cond. destruct (meas_pass m p); cbn [negb fold_left]; apply IH.
Qed.

(* sets of strings filled in loops *)
Lemma addall_In (ks : list str) : forall s x, In x (fold_left (fun s k => set_add k s) ks s) <-> In x s \/ In x ks.
Proof.
  induction ks as [|k ks IH]; intros s x; cbn [fold_left In]. - split; [intros H; left; exact H | intros [H|[]]; exact H].
  - rewrite IH, set_add_In. split; [intros [[H|H]|H]; [left; exact H | right; left; symmetry; exact H | right; right; exact H] | intros [H|[H|H]]; [left; left; exact H | left; right; symmetry; exact H | right; exact H]].
Qed.
Lemma collect_keys {V} (f : point -> list (str * V)) : forall pts s x,
  In x (fold_left (fun s p => fold_left (fun s k => set_add k s) (map fst (f p)) s) pts s) <-> In x s \/ In x (flat_map (fun p => map fst (f p)) pts).
Proof.
  induction pts as [|p pts IH]; intros s x; cbn [fold_left flat_map]. - split; [intros H; left; exact H | intros [H|[]]; exact H].
  - rewrite IH, addall_In, in_app_iff. split; [intros [[H|H]|H]; [left; exact H | right; left; exact H | right; right; exact H] | intros [H|[H|H]]; [left; left; exact H | left; right; exact H | right; exact H]].
Qed.
Lemma collect_meas : forall (pts : list point) s x, In x (fold_left (fun s p => set_add (p_meas p) s) pts s) <-> In x s \/ In x (map p_meas pts).
Proof.
  induction pts as [|p pts IH]; intros s x; cbn [fold_left map In]. - split; [intros H; left; exact H | intros [H|[]]; exact H].
  - rewrite IH, set_add_In. split; [intros [[H|H]|H]; [left; exact H | right; left; symmetry; exact H | right; right; exact H] | intros [H|[H|H]]; [left; left; exact H | left; right; symmetry; exact H | right; exact H]].
Qed.

(* ---------- __len__ ---------- *)
Theorem source_db_len d : DInv d -> gen_db___len__ d = length (db_rows d).
Proof.
  intros [_ Hv]. unfold gen_db___len__. destruct (db_auto d); cbn [andb]; [| reflexivity].
  destruct (IndexGen.gen_valid (db_index d)) eqn:E; [| reflexivity]. destruct (Hv eq_refl) as [_ [_ HR]]. apply source_len_exact. exact HR.
Qed.

(* ---------- get_measurements ---------- *)
Theorem source_db_get_measurements d : DInv d -> gen_db_get_measurements (db_prelude d) = spec_measurements (db_rows d).
Proof.
  intros H. apply DInv_prelude in H. rewrite <- (prelude_rows d). set (e := db_prelude d) in *. destruct H as [_ Hv]. unfold gen_db_get_measurements, spec_measurements.
  destruct (IndexGen.gen_valid (db_index e)) eqn:E.
  - destruct (Hv eq_refl) as [_ [_ HR]]. apply source_measurements_exact. exact HR.
  - apply sort_dedup_ext. intros x. rewrite collect_meas. split; [intros [[]|H]; exact H | intros H; right; exact H].
Qed.

(* ---------- get_field_keys / get_tag_keys ---------- *)
Theorem source_db_get_field_keys d m : DInv d -> gen_db_get_field_keys (db_prelude d) m = spec_field_keys m (db_rows d).
Proof.
  intros H. apply DInv_prelude in H. rewrite <- (prelude_rows d). set (e := db_prelude d) in *. destruct H as [_ Hv]. unfold gen_db_get_field_keys.
  destruct (IndexGen.gen_valid (db_index e)) eqn:E.
  - destruct (Hv eq_refl) as [_ [_ HR]]. apply source_field_keys_exact. exact HR.
  - cbv zeta. rewrite (scan_loop m (fun rst item => fold_left (fun rst fk => set_add fk rst) (map fst (p_fields item)) rst)).
    apply sort_dedup_ext. intros x. rewrite (collect_keys p_fields). split; [intros [[]|H]; exact H | intros H; right; exact H].
Qed.
Theorem source_db_get_tag_keys d m : DInv d -> gen_db_get_tag_keys (db_prelude d) m = spec_tag_keys m (db_rows d).
Proof.
  intros H. apply DInv_prelude in H. rewrite <- (prelude_rows d). set (e := db_prelude d) in *. destruct H as [_ Hv]. unfold gen_db_get_tag_keys.
  destruct (IndexGen.gen_valid (db_index e)) eqn:E.
  - destruct (Hv eq_refl) as [_ [Ht HR]]. apply source_tag_keys_exact; assumption.
  - cbv zeta. rewrite (scan_loop m (fun rst item => fold_left (fun rst tk => set_add tk rst) (map fst (p_tags item)) rst)).
    apply sort_dedup_ext. intros x. rewrite (collect_keys p_tags). split; [intros [[]|H]; exact H | intros H; right; exact H].
Qed.

(* ---------- get_timestamps ---------- *)
Lemma append_loop {A B} (f : A -> B) : forall (l : list A) acc, fold_left (fun acc x => acc ++ [f x]) l acc = acc ++ map f l.
Proof. induction l as [|x l IH]; intros acc; cbn [fold_left map]. - rewrite app_nil_r. reflexivity. - rewrite IH, <- app_assoc. reflexivity. Qed.
Theorem source_db_get_timestamps d m : DInv d -> gen_db_get_timestamps (db_prelude d) m = spec_timestamps m (db_rows d).
Proof.
  intros H. apply DInv_prelude in H. rewrite <- (prelude_rows d). set (e := db_prelude d) in *. destruct H as [_ Hv]. unfold gen_db_get_timestamps, spec_timestamps.
  destruct (IndexGen.gen_valid (db_index e)) eqn:E.
  - destruct (Hv eq_refl) as [_ [_ HR]]. rewrite map_id. apply source_timestamps_exact. exact HR.
  - cbv zeta. rewrite (scan_loop m (fun rst item => rst ++ [p_time item])). apply (append_loop p_time).
Qed.

(* ---------- get_field_values ---------- *)
Lemma pick_field (k : str) {V} : forall (d : list (str * V)) acc, dsorted d = true ->
  fold_left (fun rst (kv : str * V) => if pyeq (fst kv) k then rst ++ [snd kv] else rst) d acc = acc ++ match dget k d with Some v => [v] | None => [] end.
Proof.
  induction d as [|[k0 v0] d IH]; intros acc Hs; cbn [fold_left fst snd dget]. - rewrite app_nil_r. reflexivity.
  - apply dsorted_cons_iff in Hs. destruct Hs as [Hr Hlt]. change (pyeq k0 k) with (str_eqb k0 k). rewrite (str_eqb_sym k k0). destruct (str_eqb k0 k) eqn:E.
    + apply str_eqb_eq in E. subst k0. rewrite (IH _ Hr). rewrite <- app_assoc. cbn [app].
      assert (Hno : dget k d = None).
      { destruct (dget k d) as [v|] eqn:F; [|reflexivity]. exfalso. apply (dget_In _ k v d Hr) in F. pose proof (Hlt (k, v) F) as Hc. cbn [fst] in Hc. rewrite str_ltb_irrefl in Hc. discriminate. }
      rewrite Hno. reflexivity.
    + apply (IH _ Hr).
Qed.
Theorem source_db_get_field_values d k m : DInv d -> gen_db_get_field_values (db_prelude d) k m = spec_field_values k m (db_rows d).
Proof.
  intros H. apply DInv_prelude in H. pose proof H as [Hw _]. rewrite <- (prelude_rows d). set (e := db_prelude d) in *. destruct H as [_ Hv].
  unfold gen_db_get_field_values, spec_field_values.
  destruct (IndexGen.gen_valid (db_index e)) eqn:E.
  - destruct (Hv eq_refl) as [Hg [_ HR]]. apply source_field_values_exact; assumption.
  - cbv zeta. rewrite (scan_loop m (fun rst item => fold_left (fun rst '(fk, fv) => if pyeq fk k then rst ++ [fv] else rst) (p_fields item) rst)).
    assert (G : forall pts acc, (forall p, In p pts -> wf_point p) ->
              fold_left (fun rst item => fold_left (fun rst '(fk, fv) => if pyeq fk k then rst ++ [fv] else rst) (p_fields item) rst) pts acc =
              acc ++ flat_map (fun p => match dget k (p_fields p) with Some v => [v] | None => [] end) pts).
    { induction pts as [|p pts IH]; intros acc Hp; cbn [fold_left flat_map]. - rewrite app_nil_r. reflexivity.
      - rewrite (fold_left_ext (fun rst '(fk, fv) => if pyeq fk k then rst ++ [fv] else rst) (fun rst (kv : str * option num) => if pyeq (fst kv) k then rst ++ [snd kv] else rst)) by (intros a [fk fv]; reflexivity).
        rewrite (pick_field k (p_fields p) acc) by (apply (Hp p (or_introl eq_refl))). rewrite IH by (intros q Hq; apply Hp; right; exact Hq). rewrite <- app_assoc. reflexivity. }
    rewrite G; [reflexivity|]. intros p Hp. apply Hw. unfold in_meas in Hp. apply filter_In in Hp. apply Hp.
Qed.

(* ---------- get_tag_values ---------- *)
Definition canon_dict (d : list (str * list (option str))) : list (str * list (option str)) :=
  map (fun k => (k, d_get [] k d)) (sort_dedup (map fst d)).

(* {i: f(j) for i, j in d.items()} on a dict (distinct keys): the values mapped, keys and their order kept *)
Lemma mapvals_loop (f : list (option str) -> list (option str)) : forall (suf pre : list (str * list (option str))), NoDup (map fst (pre ++ suf)) ->
  fold_left (fun acc (ij : str * list (option str)) => d_set (fst ij) (f (snd ij)) acc) suf (map_vals f pre) = map_vals f (pre ++ suf).
Proof.
  induction suf as [|[k v] suf IH]; intros pre Hn; cbn [fold_left fst snd]. - rewrite app_nil_r. reflexivity.
  - assert (Hk : d_has k (map_vals f pre) = false).
    { rewrite (d_has_keys k _ pre (map_vals_keys f pre)). apply (d_has_false pyeq_str_eq). rewrite map_app in Hn. apply NoDup_remove_2 in Hn. intros H. apply Hn. apply in_or_app. left. exact H. }
    rewrite (d_set_fresh _ k (f v) Hk). rewrite (map_vals_snoc f pre k v). rewrite IH; rewrite <- app_assoc; [reflexivity | exact Hn].
Qed.
Lemma d_get_map_vals (f : list (option str) -> list (option str)) (Hf : f [] = []) k : forall d : list (str * list (option str)), d_get [] k (map_vals f d) = f (d_get [] k d).
Proof. induction d as [|[k0 v0] d IH]; cbn [map_vals map d_get fst snd]. - symmetry. exact Hf. - destruct (pyeq k k0); [reflexivity | exact IH]. Qed.
Lemma canon_dict_mapvals d : canon_dict (map_vals sort_none_last d) = canon_tv d.
Proof. unfold canon_dict, canon_tv. rewrite map_vals_keys. apply map_ext. intros k. rewrite (d_get_map_vals sort_none_last eq_refl). reflexivity. Qed.

(* the scan: for tk, tv in point.tags.items(): if wanted(tk): rst[tk] gets tv *)
Lemma dadd_alt2 k v (rst : list (str * list (option str))) : d_set k (if d_has k rst then set_union_s (d_get [] k rst) [v] else [v]) rst = dadd k v rst.
Proof. unfold dadd. destruct (d_has k rst) eqn:E; [reflexivity|]. rewrite (d_get_absent k [] rst E). reflexivity. Qed.
Lemma DS_addpairs (c : str -> bool) : forall (l : list (str * option str)) rst Kp Vp, DS rst Kp Vp ->
  DS (fold_left (fun rst (kv : str * option str) => if c (fst kv) then dadd (fst kv) (snd kv) rst else rst) l rst)
     (fun k' => Kp k' \/ (c k' = true /\ exists v, In (k', v) l)) (fun k' v' => Vp k' v' \/ (c k' = true /\ In (k', v') l)).
Proof.
  induction l as [|[k v] l IH]; intros rst Kp Vp H; cbn [fold_left fst snd].
  - apply (DS_ext rst Kp Vp); [intros k'; split; [intros H'; left; exact H' | intros [H'|[_ [v []]]]; exact H'] | intros k' v'; split; [intros H'; left; exact H' | intros [H'|[_ []]]; exact H'] | exact H].
  - destruct (c k) eqn:E.
    + apply (DS_ext _ _ _ _ _) with (3 := IH _ _ _ (DS_dadd rst Kp Vp k v H)).
      * intros k'. cbn [In]. split.
        -- intros [[H'|H']|[H1 [v0 H2]]]; [left; exact H' | subst k'; right; split; [exact E | exists v; left; reflexivity] | right; split; [exact H1 | exists v0; right; exact H2]].
        -- intros [H'|[H1 [v0 [H2|H2]]]]; [left; left; exact H' | inversion H2; subst; left; right; reflexivity | right; split; [exact H1 | exists v0; exact H2]].
      * intros k' v'. cbn [In]. split.
        -- intros [[H'|[H1 H2]]|[H1 H2]]; [left; exact H' | subst k' v'; right; split; [exact E | left; reflexivity] | right; split; [exact H1 | right; exact H2]].
        -- intros [H'|[H1 [H2|H2]]]; [left; left; exact H' | inversion H2; subst; left; right; split; reflexivity | right; split; assumption].
    + apply (DS_ext _ _ _ _ _) with (3 := IH _ _ _ H).
      * intros k'. cbn [In]. split.
        -- intros [H'|[H1 [v0 H2]]]; [left; exact H' | right; split; [exact H1 | exists v0; right; exact H2]].
        -- intros [H'|[H1 [v0 [H2|H2]]]]; [left; exact H' | inversion H2; subst; congruence | right; split; [exact H1 | exists v0; exact H2]].
      * intros k' v'. cbn [In]. split.
        -- intros [H'|[H1 H2]]; [left; exact H' | right; split; [exact H1 | right; exact H2]].
        -- intros [H'|[H1 [H2|H2]]]; [left; exact H' | inversion H2; subst; congruence | right; split; assumption].
Qed.
Lemma DS_rows (c : str -> bool) : forall (pts : list point) rst Kp Vp, DS rst Kp Vp ->
  DS (fold_left (fun rst p => fold_left (fun rst (kv : str * option str) => if c (fst kv) then dadd (fst kv) (snd kv) rst else rst) (p_tags p) rst) pts rst)
     (fun k' => Kp k' \/ (c k' = true /\ exists p v, In p pts /\ In (k', v) (p_tags p))) (fun k' v' => Vp k' v' \/ (c k' = true /\ exists p, In p pts /\ In (k', v') (p_tags p))).
Proof.
  induction pts as [|p pts IH]; intros rst Kp Vp H; cbn [fold_left].
  - apply (DS_ext rst Kp Vp); [intros k'; split; [intros H'; left; exact H' | intros [H'|[_ [p [v [[] _]]]]]; exact H'] | intros k' v'; split; [intros H'; left; exact H' | intros [H'|[_ [p [[] _]]]]; exact H'] | exact H].
  - apply (DS_ext _ _ _ _ _) with (3 := IH _ _ _ (DS_addpairs c (p_tags p) rst Kp Vp H)).
    + intros k'. cbn [In]. split.
      * intros [[H'|[H1 [v H2]]]|[H1 [q [v [H2 H3]]]]]; [left; exact H' | right; split; [exact H1 | exists p, v; split; [left; reflexivity | exact H2]] | right; split; [exact H1 | exists q, v; split; [right; exact H2 | exact H3]]].
      * intros [H'|[H1 [q [v [[H2|H2] H3]]]]]; [left; left; exact H' | subst q; left; right; split; [exact H1 | exists v; exact H3] | right; split; [exact H1 | exists q, v; split; assumption]].
    + intros k' v'. cbn [In]. split.
      * intros [[H'|[H1 H2]]|[H1 [q [H2 H3]]]]; [left; exact H' | right; split; [exact H1 | exists p; split; [left; reflexivity | exact H2]] | right; split; [exact H1 | exists q; split; [right; exact H2 | exact H3]]].
      * intros [H'|[H1 [q [[H2|H2] H3]]]]; [left; left; exact H' | subst q; left; right; split; assumption | right; split; [exact H1 | exists q; split; assumption]].
Qed.

Lemma set_mem_In (k : str) ks : set_mem k ks = true <-> In k ks.
Proof. unfold set_mem. rewrite existsb_exists. split; [intros [z [Hz Hq]]; apply pyeq_str_eq in Hq; subst z; exact Hz | intros H; exists k; split; [exact H | apply pyeq_str_eq; reflexivity]]. Qed.
Lemma DS_keys_sorted ks : DS (fold_left (fun acc i => d_set i [] acc) (sort_dedup ks) []) (fun k => In k ks) (fun _ _ => False).
Proof. apply (DS_ext _ _ _ _ _) with (3 := DS_keys0 (sort_dedup ks)); [intros k; apply sort_dedup_In | intros k v; reflexivity]. Qed.

Theorem source_db_get_tag_values d ks m : DInv d -> canon_dict (gen_db_get_tag_values (db_prelude d) ks m) = spec_tag_values ks m (db_rows d).
Proof.
  intros H. apply DInv_prelude in H. pose proof H as [Hw _]. rewrite <- (prelude_rows d). set (e := db_prelude d) in *. destruct H as [_ Hv].
  unfold gen_db_get_tag_values, spec_tag_values. destruct (IndexGen.gen_valid (db_index e)) eqn:E.
  - (* the index answers *)
    destruct (Hv eq_refl) as [Hg [Ht HR]]. cbv zeta.
    rewrite (fold_left_ext (fun acc '(i, j) => d_set i (sort_none_last j) acc) (fun acc (ij : str * list (option str)) => d_set (fst ij) (sort_none_last (snd ij)) acc)) by (intros a [i j]; reflexivity).
    pose proof (mapvals_loop sort_none_last (IndexGen.gen_get_tag_values (db_index e) ks m) [] (gen_get_tag_values_NoDup _ ks m Hg)) as X.
    change (map_vals sort_none_last []) with (@nil (str * list (option str))) in X. cbn [app] in X. rewrite X. clear X.
    rewrite canon_dict_mapvals. apply source_tag_values_exact; assumption.
  - (* the scan *)
    cbv zeta.
    set (c := fun tk : str => negb (nonempty_list ks && negb (set_mem tk ks))).
    rewrite (scan_loop m (fun rst item => fold_left (fun rst '(tk, tv) => if nonempty_list ks && negb (set_mem tk ks) then rst
               else d_set tk (if d_has tk rst then set_union_s (d_get [] tk rst) [tv] else [tv]) rst) (p_tags item) rst)).
    rewrite (fold_left_ext _ (fun rst p => fold_left (fun rst (kv : str * option str) => if c (fst kv) then dadd (fst kv) (snd kv) rst else rst) (p_tags p) rst)).
    2:{ intros a p. apply fold_left_ext. intros a' [tk tv]. cbn [fst snd]. unfold c. destruct (nonempty_list ks && negb (set_mem tk ks)); cbn [negb]; [reflexivity | apply dadd_alt2]. }
    pose proof (DS_rows c (in_meas m (db_rows e)) _ _ _ (DS_keys_sorted ks)) as HD.
    rewrite (fold_left_ext (fun acc '(i, j) => d_set i (sort_none_last j) acc) (fun acc (ij : str * list (option str)) => d_set (fst ij) (sort_none_last (snd ij)) acc)) by (intros a [i j]; reflexivity).
    pose proof (mapvals_loop sort_none_last _ [] (proj1 HD)) as X. change (map_vals sort_none_last []) with (@nil (str * list (option str))) in X. cbn [app] in X. rewrite X. clear X.
    rewrite canon_dict_mapvals.
    assert (Hrows : forall p, In p (in_meas m (db_rows e)) -> dsorted (p_tags p) = true).
    { intros p Hp. unfold in_meas in Hp. apply filter_In in Hp. apply (Hw p (proj1 Hp)). }
    assert (Hvals : forall k v, (exists p, In p (in_meas m (db_rows e)) /\ In (k, v) (p_tags p)) <->
                               In v (flat_map (fun p => match dget k (p_tags p) with Some v => [v] | None => [] end) (in_meas m (db_rows e)))).
    { intros k v. rewrite in_flat_map. split.
      - intros [p [Hp Hin]]. exists p. split; [exact Hp|]. apply (dget_In _ k v (p_tags p) (Hrows p Hp)) in Hin. rewrite Hin. left. reflexivity.
      - intros [p [Hp Hin]]. exists p. split; [exact Hp|]. destruct (dget k (p_tags p)) as [v0|] eqn:F; [| destruct Hin]. destruct Hin as [Hin|[]]. subst v0. apply (dget_In _ k v (p_tags p) (Hrows p Hp)). exact F. }
    unfold scan_tag_values. destruct ks as [|k0 ks'].
    + (* no keys asked for: every key met *)
      apply (canon_DS _ _ _ (flat_map (fun p => map fst (p_tags p)) (in_meas m (db_rows e))) (fun k => flat_map (fun p => match dget k (p_tags p) with Some v => [v] | None => [] end) (in_meas m (db_rows e))) HD).
      * intros k. rewrite in_flat_map. split.
        -- intros [[]|[_ [p [v [Hp Hin]]]]]. exists p. split; [exact Hp | apply (in_map_fst_pair _ k v Hin)].
        -- intros [p [Hp Hin]]. apply in_map_fst_ex in Hin. destruct Hin as [v Hin]. right. split; [reflexivity | exists p, v; split; assumption].
      * intros k _ v. rewrite <- Hvals. split; [intros [[]|[_ H']]; exact H' | intros H'; right; split; [reflexivity | exact H']].
    + (* the keys asked for *)
      apply (canon_DS _ _ _ (k0 :: ks') (fun k => flat_map (fun p => match dget k (p_tags p) with Some v => [v] | None => [] end) (in_meas m (db_rows e))) HD).
      * intros k. split; [intros [H'|[Hc _]]; [exact H' |] | intros H'; left; exact H'].
        unfold c in Hc. cbn [nonempty_list andb] in Hc. rewrite negb_involutive in Hc. apply set_mem_In. exact Hc.
      * intros k Hk v. rewrite <- Hvals. split; [intros [[]|[_ H']]; exact H' | intros H'; right; split; [| exact H']].
        unfold c. cbn [nonempty_list andb]. rewrite negb_involutive. apply set_mem_In. exact Hk.
Qed.

(* ---------- len(handle): Measurement.__len__ ---------- *)
Lemma count_loop (name : str) : forall (rows : list point) n,
  fold_left (fun count item => if pyeq (p_meas item) name then count + 1 else count) rows n = n + length (filter (fun p => str_eqb (p_meas p) name) rows).
Proof.
  induction rows as [|p rows IH]; intros n; cbn [fold_left filter]. - cbn. lia.
  - rewrite IH. change (pyeq (p_meas p) name) with (str_eqb (p_meas p) name). destruct (str_eqb (p_meas p) name); cbn [length]; lia.
Qed.
Theorem source_handle_len_is_the_model E C norm d name :
  ONat (gen_meas___len__ d name) = snd (handle_step E C norm (abs_db d) name HLen).
Proof.
  unfold gen_meas___len__, abs_db. cbn [handle_step snd st_auto st_idx st_rows]. unfold abs. cbn [ix_valid ix_meas]. unfold abs_meas.
  change (IndexGen.gen_valid (db_index d)) with (_valid (db_index d)).
  destruct (db_auto d && _valid (db_index d)).
  - rewrite <- d_has_im_has. destruct (d_has name (_measurements (db_index d))); [| reflexivity].
    rewrite d_get_positions. unfold positions. rewrite map_length. reflexivity.
  - cbv zeta. rewrite count_loop. reflexivity.
Qed.
Lemma DInv_Inv d : DInv d -> DBReadP.Inv (abs_db d).
Proof. intros [Hw Hv]. split; [exact Hw|]. cbn [abs_db st_idx st_rows]. intros H. apply (Hv H). Qed.
Theorem source_handle_len_exact d name : DInv d -> gen_meas___len__ d name = length (filter (fun p => str_eqb (p_meas p) name) (db_rows d)).
Proof.
  intros H. set (E0 := mkEnv (fun _ v => Some v) (fun _ _ => Some true) (fun _ _ _ => false) (fun _ _ _ => false)).
  set (C0 := mkCenv (fun _ t => Some t) (fun _ m => Some m) (fun _ d => Some d) (fun _ d => Some d)).
  pose proof (source_handle_len_is_the_model E0 C0 (fun p => p) d name) as E.
  rewrite (handle_len_spec _ _ _ (abs_db d) name (DInv_Inv d H)) in E. cbn [snd] in E. injection E as E. exact E.
Qed.

(* ---------- iteration: TinyFlux.__iter__ and Measurement.__iter__ (generator functions: what they yield, in order) ---------- *)
Theorem source_db_iter d : gen_db___iter__ d = db_rows d.
Proof. unfold gen_db___iter__. cbv zeta. rewrite (append_loop (fun p : point => p) (db_rows d) []). cbn [app]. apply map_id. Qed.
Lemma yield_loop (f : point -> bool) : forall (rows : list point) acc,
  fold_left (fun yielded item => if f item then yielded ++ [item] else yielded) rows acc = acc ++ filter f rows.
Proof.
  induction rows as [|p rows IH]; intros acc; cbn [fold_left filter]. - rewrite app_nil_r. reflexivity.
  - rewrite IH. destruct (f p); [rewrite <- app_assoc; reflexivity | reflexivity].
Qed.
Theorem source_handle_iter d name : gen_meas___iter__ d name = filter (fun p => str_eqb (p_meas p) name) (db_rows d).
Proof. unfold gen_meas___iter__. cbv zeta. apply (yield_loop (fun p => str_eqb (p_meas p) name) (db_rows d) []). Qed.

(* ---------- all(sorted) ---------- *)
Theorem source_db_all d srt : gen_db_all (db_prelude d) srt = if srt then sort_points (db_rows d) else db_rows d.
Proof. unfold gen_db_all. rewrite prelude_rows. destruct srt; reflexivity. Qed.
