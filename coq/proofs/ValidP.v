(* ValidP.v — the checks of Valid.v accept a value exactly when it has a typed reading: nothing
   but a datetime becomes a time, nothing but a str a measurement, nothing but a mapping of
   str to str|None a tag set, nothing but a mapping of str to int|float|None (never bool) a
   field set — for Point construction, attribute assignment, update arguments (static or
   returned by a callable) and insert. *)
From Coq Require Import List ZArith NArith Bool Arith.
From TF Require Import Base Query DB Valid.
Import ListNotations.

Lemma validate_tags_iff v : validate_tags v = true <-> exists d, to_tags v = Some d.
Proof.
  destruct v; cbn [validate_tags to_tags]; try (split; [discriminate|intros [? H]; discriminate]).
  induction d as [|[k x] d IH]; cbn [forallb fold_right fst snd andb].
  - split; eauto.
  - split.
    + intros H. apply andb_true_iff in H. destruct H as [H1 H2].
      apply andb_true_iff in H1. destruct H1 as [Hk H1]. apply andb_true_iff in H2. destruct H2 as [Hx H2].
      assert (Hd : forallb (fun kv : pyval * pyval => is_str (fst kv)) d && forallb (fun kv : pyval * pyval => is_tag_value (snd kv)) d = true) by now rewrite H1, H2.
      destruct (proj1 IH Hd) as [l Hl]. rewrite Hl.
      destruct k; try discriminate. destruct x; try discriminate; eauto.
    + intros [l H]. destruct (fold_right _ _ d) as [l'|] eqn:E; [|discriminate].
      pose proof (proj2 IH (ex_intro _ l' eq_refl)) as H'. apply andb_true_iff in H'. destruct H' as [H1 H2].
      destruct k; try discriminate; destruct x; try discriminate; cbn; now rewrite H1, H2.
Qed.

Lemma validate_fields_iff v : validate_fields v = true <-> exists d, to_fields v = Some d.
Proof.
  destruct v; cbn [validate_fields to_fields]; try (split; [discriminate|intros [? H]; discriminate]).
  induction d as [|[k x] d IH]; cbn [forallb fold_right fst snd andb].
  - split; eauto.
  - split.
    + intros H. apply andb_true_iff in H. destruct H as [H1 H2].
      apply andb_true_iff in H1. destruct H1 as [Hk H1]. apply andb_true_iff in H2. destruct H2 as [Hx H2].
      assert (Hd : forallb (fun kv : pyval * pyval => is_str (fst kv)) d && forallb (fun kv : pyval * pyval => is_field_value (snd kv)) d = true) by now rewrite H1, H2.
      destruct (proj1 IH Hd) as [l Hl]. rewrite Hl.
      destruct k; try discriminate. destruct x; try discriminate; eauto.
    + intros [l H]. destruct (fold_right _ _ d) as [l'|] eqn:E; [|discriminate].
      pose proof (proj2 IH (ex_intro _ l' eq_refl)) as H'. apply andb_true_iff in H'. destruct H' as [H1 H2].
      destruct k; try discriminate; destruct x; try discriminate; cbn; now rewrite H1, H2.
Qed.

(* the typed reading of a value for a slot *)
Definition typed (s : slot) (v : pyval) : Prop :=
  match s with
  | STime => exists t, v = PvTime t
  | SMeas => exists m, v = PvStr m
  | STags => exists d, to_tags v = Some d
  | SFields => exists d, to_fields v = Some d
  end.

Theorem slot_ok_typed s v : slot_ok s v = true <-> typed s v.
Proof.
  destruct s; cbn [slot_ok typed].
  - destruct v; cbn; split; try discriminate; eauto; intros [? H]; discriminate.
  - destruct v; cbn; split; try discriminate; eauto; intros [? H]; discriminate.
  - apply validate_tags_iff.
  - apply validate_fields_iff.
Qed.

(* a boolean is never a field value, whatever else the dictionary holds *)
Theorem bool_field_rejected d k b : In (k, PvBool b) d -> validate_fields (PvDict d) = false.
Proof.
  intros H. cbn [validate_fields]. apply andb_false_iff. right.
  induction d as [|kv d IH]; [destruct H|]. cbn [forallb]. destruct H as [->|H]; [reflexivity|].
  rewrite (IH H). apply andb_false_r.
Qed.

Theorem ctor_ok_typed time meas tags fields : ctor_ok time meas tags fields = true ->
  (forall v, time = Some v -> typed STime v) /\ (forall v, meas = Some v -> typed SMeas v) /\
  (forall v, tags = Some v -> typed STags v) /\ (forall v, fields = Some v -> typed SFields v).
Proof.
  unfold ctor_ok. intros H. repeat (apply andb_true_iff in H; destruct H as [H ?]).
  repeat split; intros v ->; now apply slot_ok_typed.
Qed.

(* an update argument is ignored (falsy: nothing is assigned), a callable (its result goes through
   slot_ok when assigned), a typed static value - or rejected *)
Theorem upd_arg_cases s v :
  match upd_arg s v with
  | ArgIgnored => truthy_v v = false
  | ArgCallable => is_callable v = true
  | ArgStatic => typed s v
  | ArgRejected => ~ typed s v /\ is_callable v = false /\ truthy_v v = true
  end.
Proof.
  unfold upd_arg. destruct (truthy_v v) eqn:Et; cbn [negb]; [|reflexivity].
  destruct (is_callable v) eqn:Ec; [reflexivity|].
  destruct (slot_ok s v) eqn:Es; [now apply slot_ok_typed|].
  split; [|auto]. intros H. apply slot_ok_typed in H. congruence.
Qed.

(* what a callable returns is assigned only as the typed reading of the mapping it denotes *)
Theorem call_result_typed s v : call_result_ok s v = true ->
  match s with
  | STime | SMeas => typed s v
  | _ => exists d, as_mapping v = Some d /\ typed s (PvDict d)
  end.
Proof.
  destruct s; cbn [call_result_ok]; intros H; try (now apply slot_ok_typed).
  - destruct (as_mapping v) as [d|]; [|discriminate]. exists d. split; [reflexivity|]. now apply (slot_ok_typed STags).
  - destruct (as_mapping v) as [d|]; [|discriminate]. exists d. split; [reflexivity|]. now apply (slot_ok_typed SFields).
Qed.

Theorem insert_ok_point p meas : insert_ok p meas = true ->
  (exists ok, p = PvPoint ok) /\ (truthy_v meas = true -> typed SMeas meas).
Proof.
  destruct p; cbn [insert_ok]; try discriminate. intros H. split; [eauto|]. intros Ht. rewrite Ht in H. cbn in H.
  destruct meas; try discriminate. cbn. eauto.
Qed.
