(* PureP.v - C15 in terms of the database model: the I/O plan of an operation is derived from the model's own step
   (IO.plan_of); reads, getters, reindex and reopen have a pure plan whatever the state, and so has every removal or
   update after which the model's rows are what they were.  A pure plan leaves the file as it was after EVERY prefix of
   its script (IOP.pure_plan_disk_constant). *)
From Coq Require Import List ZArith NArith Bool Lia.
From TF Require Import Base Query Index DB Spec IO proofs.IOP proofs.PlanP proofs.IndexDefs proofs.DBReadP proofs.DBSpecP.
Import ListNotations.

Lemma is_prefix_refl : forall l, forallb nan_free_point l = true -> is_prefix l l = Some [].
Proof.
  induction l as [|p l IH]; cbn [is_prefix forallb]; intros H; [reflexivity|].
  apply andb_prop in H. destruct H as [Hp Hl]. rewrite (point_eqb_refl p Hp). exact (IH Hl).
Qed.
Lemma rows_eqb_refl l : forallb nan_free_point l = true -> rows_eqb l l = true.
Proof. intros H. unfold rows_eqb. now rewrite is_prefix_refl. Qed.

Section PureP.
Variable E : env.
Variable C : cenv.
Variable norm : point -> point.
Notation step := (step E C norm).

(* reads, getters, iteration, reindex, reopen, index.valid, and the reads through a handle *)
Definition is_read (o : op) : bool := negb (is_insert o) && negb (uses_temp o) && negb (is_remove_all o).

Theorem read_plan_is_pure s o : is_read o = true -> pure_plan (plan_of o (st_rows s) (st_rows (fst (step s o)))).
Proof.
  unfold is_read. intros H. apply andb_prop in H. destruct H as [H Hr]. apply andb_prop in H. destruct H as [Hi Ht].
  apply negb_true_iff in Hi, Ht, Hr. unfold plan_of. rewrite Hi, Ht.
  destruct o; cbn in Hr; try discriminate; destruct (rows_eqb _ _); exact I.
Qed.

Theorem read_leaves_file s o k : is_read o = true ->
  let old := st_rows s in
  w_disk (run_steps (world_of old) (firstn k (script_of old (plan_of o old (st_rows (fst (step s o))))))) = old
  /\ st_rows (fst (step s o)) = old.
Proof.
  intros H. cbv zeta. split; [apply pure_plan_disk_constant, read_plan_is_pure, H|].
  unfold is_read in H. apply andb_prop in H. destruct H as [H Hr]. apply andb_prop in H. destruct H as [Hi Ht].
  apply negb_true_iff in Hi, Ht, Hr. now apply other_ops_keep_rows.
Qed.

(* a removal or update after which the rows are what they were *)
Theorem unchanged_write_plan_is_pure s o : uses_temp o = true -> forallb nan_free_point (st_rows s) = true ->
  st_rows (fst (step s o)) = st_rows s -> pure_plan (plan_of o (st_rows s) (st_rows (fst (step s o)))).
Proof.
  intros Ht Hn Heq. rewrite Heq. unfold plan_of.
  assert (Hi : is_insert o = false) by (destruct o as [| | | | | | | | | | | | | | | | | | | | | | |name h]; cbn in Ht |- *; try discriminate; try reflexivity; destruct h; cbn in Ht |- *; try discriminate; reflexivity).
  rewrite Hi, Ht, (rows_eqb_refl _ Hn). exact I.
Qed.

Theorem unchanged_write_leaves_file s o k : uses_temp o = true -> forallb nan_free_point (st_rows s) = true ->
  st_rows (fst (step s o)) = st_rows s ->
  let old := st_rows s in
  w_disk (run_steps (world_of old) (firstn k (script_of old (plan_of o old (st_rows (fst (step s o))))))) = old.
Proof. intros Ht Hn Heq. cbv zeta. now apply pure_plan_disk_constant, unchanged_write_plan_is_pure. Qed.

(* when a removal changes nothing: the query (with the measurement filter) selects no stored point *)
Lemma filter_none {A} (f : A -> bool) l : (forall x, In x l -> f x = false) -> filter (fun x => negb (f x)) l = l.
Proof.
  induction l as [|x l IH]; intros H; [reflexivity|]. cbn [filter]. rewrite (H x (or_introl eq_refl)). cbn [negb].
  f_equal. apply IH. intros y Hy. apply H. now right.
Qed.
Theorem remove_selecting_nothing_changes_nothing s q m : Inv s -> wf_query E q -> index_safe q ->
  (forall p, In p (st_rows s) -> hit E q m p = false) ->
  st_rows (fst (step s (Remove q m))) = st_rows s /\ snd (step s (Remove q m)) = ONat 0.
Proof.
  intros HI Hq Hs Hn. cbn [DB.step]. destruct (db_remove_spec E s q m HI Hq Hs) as [Hc [Hr _]].
  split.
  - rewrite Hr. now apply filter_none.
  - rewrite Hc. f_equal. clear Hc Hr. generalize dependent (st_rows s). intros l Hn.
    induction l as [|p l IH]; [reflexivity|]. cbn [filter].
    rewrite (Hn p (or_introl eq_refl)). apply IH. intros x Hx. apply Hn. now right.
Qed.
End PureP.
