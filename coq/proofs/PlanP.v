(* PlanP.v — the storage plan IO.v derives for an operation from the database model's step
   (plan_of) has as its target exactly the rows of the model's new state: so the completed I/O
   script of every operation leaves the new logical contents on disk (with IOP.run_script_complete). *)
From Coq Require Import List ZArith NArith Bool Arith Lia.
From TF Require Import Base Query Index DB Spec IO proofs.BaseP proofs.QueryP proofs.DBReadP proofs.DBRunP proofs.IOP.
Import ListNotations.

(* point_eqb is sound: equal points; and reflexive on points without NaN field values *)
Lemma onum_eqb_eq a b : onum_eqb a b = true -> a = b.
Proof. destruct a, b; cbn; try discriminate; auto. intros H. apply num_eqb_eq in H. now subst. Qed.
Lemma tags_eqb_eq : forall a b, tags_eqb a b = true -> a = b.
Proof.
  unfold tags_eqb. induction a as [|[k v] a IH]; intros [|[k' v'] b] H; cbn in H; try discriminate; [reflexivity|].
  apply andb_true_iff in H. destruct H as [Hl H]. apply andb_true_iff in H. destruct H as [Hkv H].
  apply andb_true_iff in Hkv. destruct Hkv as [Hk Hv]. apply str_eqb_eq in Hk. apply ostr_eqb_eq in Hv. subst.
  f_equal. apply IH. cbn in Hl. now rewrite Hl, H.
Qed.
Lemma fields_eqb_eq : forall a b, fields_eqb a b = true -> a = b.
Proof.
  unfold fields_eqb. induction a as [|[k v] a IH]; intros [|[k' v'] b] H; cbn in H; try discriminate; [reflexivity|].
  apply andb_true_iff in H. destruct H as [Hl H]. apply andb_true_iff in H. destruct H as [Hkv H].
  apply andb_true_iff in Hkv. destruct Hkv as [Hk Hv]. apply str_eqb_eq in Hk. apply onum_eqb_eq in Hv. subst.
  f_equal. apply IH. cbn in Hl. now rewrite Hl, H.
Qed.
Lemma point_eqb_eq a b : point_eqb a b = true -> a = b.
Proof.
  unfold point_eqb. intros H. repeat (apply andb_true_iff in H; destruct H as [H ?]).
  destruct a, b; cbn in *. apply Z.eqb_eq in H. apply str_eqb_eq in H2. apply tags_eqb_eq in H1. apply fields_eqb_eq in H0. now subst.
Qed.

Definition nan_free_point (p : point) : bool :=
  forallb (fun kv : str * option num => match snd kv with Some NNaN => false | _ => true end) (p_fields p).
Lemma point_eqb_refl p : nan_free_point p = true -> point_eqb p p = true.
Proof.
  intros H. unfold point_eqb. rewrite Z.eqb_refl, str_eqb_refl. cbn [andb].
  assert (Ht : tags_eqb (p_tags p) (p_tags p) = true).
  { unfold tags_eqb. rewrite Nat.eqb_refl. cbn [andb]. induction (p_tags p) as [|[k v] l IH]; [reflexivity|].
    cbn. rewrite str_eqb_refl. destruct v; cbn; [rewrite str_eqb_refl|]; exact IH. }
  rewrite Ht. cbn [andb]. unfold fields_eqb. rewrite Nat.eqb_refl. cbn [andb]. unfold nan_free_point in H.
  induction (p_fields p) as [|[k v] l IH]; [reflexivity|]. cbn in *. apply andb_true_iff in H. destruct H as [Hv H].
  rewrite str_eqb_refl. cbn. destruct v as [x|]; cbn; [|now apply IH].
  destruct x; try discriminate; cbn; rewrite ?Z.eqb_refl; cbn; now apply IH.
Qed.

Lemma is_prefix_app old added : forallb nan_free_point old = true -> is_prefix old (old ++ added) = Some added.
Proof.
  induction old as [|p r IH]; intros H; [reflexivity|]. cbn in *. apply andb_true_iff in H. destruct H as [Hp H].
  rewrite (point_eqb_refl p Hp). now apply IH.
Qed.
Lemma is_prefix_sound : forall a b rest, is_prefix a b = Some rest -> b = a ++ rest.
Proof.
  induction a as [|x a IH]; intros b rest H; [now injection H as <-|]. destruct b as [|y b]; [discriminate|].
  cbn in H. destruct (point_eqb x y) eqn:E; [|discriminate]. apply point_eqb_eq in E. subst y. cbn. f_equal. now apply IH.
Qed.
Lemma rows_eqb_eq a b : rows_eqb a b = true -> a = b.
Proof.
  unfold rows_eqb. destruct (is_prefix a b) as [[|x r]|] eqn:E; try discriminate. intros _.
  apply is_prefix_sound in E. now rewrite app_nil_r in E.
Qed.

Section PlanP.
Variable E : env.
Variable C : cenv.
Variable norm : point -> point.
Notation step := (step E C norm).

(* an insert only appends *)
Lemma insert_loop_appends : forall ps s m c, exists added, st_rows (fst (insert_loop norm s ps m c)) = st_rows s ++ added.
Proof.
  induction ps as [|[p|] ps IH]; intros s m c; cbn [insert_loop].
  - exists []. cbn. now rewrite app_nil_r.
  - match goal with |- context [insert_loop norm ?s1 ps m (S c)] => destruct (IH s1 m (S c)) as [a Ha]; rewrite Ha end.
    cbn [st_rows]. eexists. rewrite <- app_assoc. reflexivity.
  - exists []. cbn. now rewrite app_nil_r.
Qed.

(* what kind of operation leaves the rows alone *)
Definition is_remove_all (o : op) : bool := match o with RemoveAll => true | _ => false end.
Lemma other_ops_keep_rows s o : is_insert o = false -> uses_temp o = false -> is_remove_all o = false ->
  st_rows (fst (step s o)) = st_rows s.
Proof.
  intros Hi Ht Hr.
  destruct o as [ps m|q m|name| |q u m|u|q m srt|q m|q m|q m|ks q m|srt| | | |m|ks m|m|k m|m| |auto| |name h];
    cbn in Hi, Ht, Hr; try discriminate; cbn [DB.step fst].
  - rewrite db_search_fst. apply read_prelude_rows.
  - rewrite db_count_fst. apply read_prelude_rows.
  - rewrite db_contains_fst. apply read_prelude_rows.
  - rewrite db_get_fst. apply read_prelude_rows.
  - rewrite db_select_fst. apply read_prelude_rows.
  - apply read_prelude_rows.
  - reflexivity.
  - reflexivity.
  - apply read_prelude_rows.
  - apply read_prelude_rows.
  - apply read_prelude_rows.
  - apply read_prelude_rows.
  - apply read_prelude_rows.
  - apply read_prelude_rows.
  - unfold db_reindex, do_reindex. cbn. destruct (ix_valid (st_idx s)); reflexivity.
  - unfold db_reopen. cbn [fst]. destruct (auto && negb (negb (nonempty (st_rows s)))); [|reflexivity].
    unfold do_reindex. cbn. destruct (negb (nonempty (st_rows s))); reflexivity.
  - reflexivity.
  - destruct h; cbn in Hi, Ht; try discriminate; cbn [handle_step fst]; try reflexivity; try apply read_prelude_rows.
    + rewrite db_contains_fst. apply read_prelude_rows.
    + rewrite db_count_fst. apply read_prelude_rows.
    + rewrite db_get_fst. apply read_prelude_rows.
    + rewrite db_search_fst. apply read_prelude_rows.
    + rewrite db_select_fst. apply read_prelude_rows.
Qed.

Theorem plan_target_is_new_rows s o : (is_insert o = true -> forallb nan_free_point (st_rows s) = true) ->
  plan_target (st_rows s) (plan_of o (st_rows s) (st_rows (fst (step s o)))) = st_rows (fst (step s o)).
Proof.
  intros Hnan. unfold plan_of. destruct (is_insert o) eqn:Ei.
  - assert (Ha : exists added, st_rows (fst (step s o)) = st_rows s ++ added).
    { destruct o as [ps m| | | | | | | | | | | | | | | | | | | | | | |name h]; cbn in Ei; try discriminate.
      - apply insert_loop_appends.
      - destruct h; cbn in Ei; try discriminate. apply insert_loop_appends. }
    destruct Ha as [added Ha]. rewrite Ha. rewrite (is_prefix_app _ added (Hnan eq_refl)). reflexivity.
  - destruct (uses_temp o) eqn:Et.
    + destruct (rows_eqb (st_rows s) (st_rows (fst (step s o)))) eqn:Er; [cbn; now apply rows_eqb_eq|].
      destruct (st_rows (fst (step s o))); reflexivity.
    + destruct (is_remove_all o) eqn:Era.
      * destruct o; cbn in Era; try discriminate. reflexivity.
      * rewrite (other_ops_keep_rows s o Ei Et Era).
        destruct o; cbn in Era; try discriminate; destruct (rows_eqb (st_rows s) (st_rows s)); reflexivity.
  Qed.

(* the completed I/O script of ANY operation, started from a file holding the model's rows, leaves the model's new rows *)
Theorem file_after_operation s o : (is_insert o = true -> forallb nan_free_point (st_rows s) = true) ->
  let old := st_rows s in let new := st_rows (fst (step s o)) in
  let w := run_steps (world_of old) (script_of old (plan_of o old new)) in
  w_disk w = new /\ clean w.
Proof.
  intros Hnan. cbv zeta. destruct (run_script_complete (st_rows s) (plan_of o (st_rows s) (st_rows (fst (step s o))))) as [H1 H2].
  split; [|exact H2]. rewrite H1. now apply plan_target_is_new_rows.
Qed.

(* crash / fault states in terms of the database model's own old and new contents *)
Lemma allowed_old_new old p d : crash_allowed old p d ->
  d = old \/ d = plan_target old p \/ exists rows j, p = PlAppend rows /\ d = old ++ firstn j rows.
Proof.
  destruct p as [| |rows|staged|new_rows|wt]; cbn [crash_allowed plan_target]; intros H; auto.
  - destruct H as [j Hj]. right. right. eauto.
  - destruct H; auto.
  - destruct H; auto.
Qed.

Theorem operation_crash_old_or_new s o k : (is_insert o = true -> forallb nan_free_point (st_rows s) = true) ->
  let old := st_rows s in let new := st_rows (fst (step s o)) in
  let d := w_disk (run_steps (world_of old) (firstn k (script_of old (plan_of o old new)))) in
  d = old \/ d = new \/ exists added j, new = old ++ added /\ d = old ++ firstn j added.
Proof.
  intros Hnan. cbv zeta. pose proof (plan_target_is_new_rows s o Hnan) as Ht.
  destruct (allowed_old_new _ _ _ (crash_atomic (st_rows s) (plan_of o (st_rows s) (st_rows (fst (step s o)))) k)) as [H|[H|[rows [j [Hp Hd]]]]].
  - now left.
  - right. left. etransitivity; [exact H|exact Ht].
  - right. right. exists rows, j. split; [|exact Hd]. rewrite Hp in Ht. cbn [plan_target] in Ht. symmetry. exact Ht.
Qed.
End PlanP.
