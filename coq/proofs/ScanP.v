(* ScanP.v — the storage-scan read path computes the specification (filter by the query's
   documented meaning), and positions handed over by the index select the same rows. *)
From Coq Require Import List ZArith NArith Bool Arith Lia.
From TF Require Import Base Query Index DB Spec proofs.QueryP proofs.BaseP.
Import ListNotations.

Section ScanP.
Variable E : env.

Lemma scan_filter_spec q m rows : wf_query E q ->
  scan_filter E q m rows = Some (filter (hit E q m) rows).
Proof.
  intros Hq. induction rows as [|p r IH]; cbn [scan_filter filter]; [reflexivity|].
  unfold hit at 1. destruct (meas_pass m p); cbn [andb].
  - rewrite (eval_denote E q p Hq), IH. cbn [option_map]. destruct (denote E q p); reflexivity.
  - exact IH.
Qed.

Lemma scan_first_spec q m rows : wf_query E q ->
  scan_first E q m rows = Some (hd_error (filter (hit E q m) rows)).
Proof.
  intros Hq. induction rows as [|p r IH]; cbn [scan_first filter]; [reflexivity|].
  unfold hit at 1. destruct (meas_pass m p); cbn [andb].
  - rewrite (eval_denote E q p Hq). destruct (denote E q p); [reflexivity|exact IH].
  - exact IH.
Qed.

(* rows picked by a set of positions that is exactly the set of hits = the filtered rows *)
Lemma pick_filter_gen (f : point -> bool) (items : list nat) :
  forall rows s, (forall k, In k items -> forall p, nth_error rows (k - s) = Some p -> s <= k -> f p = true) ->
  (forall j p, nth_error rows j = Some p -> f p = true -> In (s + j) items) ->
  map snd (filter (fun ip => mem (fst ip) items) (combine (seq s (length rows)) rows)) = filter f rows.
Proof.
  induction rows as [|p r IH]; intros s Hs Hc; [reflexivity|].
  cbn [length seq combine filter fst map snd].
  destruct (mem s items) eqn:Em.
  - apply mem_In in Em. assert (f p = true) as ->.
    { apply (Hs s Em p); [rewrite Nat.sub_diag; reflexivity|lia]. }
    cbn [map snd]. f_equal. apply IH.
    + intros k Hk p' Hn Hle. apply (Hs k Hk p'); [|lia].
      replace (k - s) with (S (k - S s)) by lia. exact Hn.
    + intros j p' Hn Hf. replace (S s + j) with (s + S j) by lia. apply (Hc (S j) p'); assumption.
  - destruct (f p) eqn:Ef.
    + exfalso. assert (In (s + 0) items) by (apply (Hc 0 p); auto).
      rewrite Nat.add_0_r in H. apply mem_In in H. congruence.
    + apply IH.
      * intros k Hk p' Hn Hle. apply (Hs k Hk p'); [|lia].
        replace (k - s) with (S (k - S s)) by lia. exact Hn.
      * intros j p' Hn Hf. replace (S s + j) with (s + S j) by lia. apply (Hc (S j) p'); assumption.
Qed.

Lemma pick_filter (f : point -> bool) (items : list nat) (rows : list point) :
  (forall k, In k items <-> exists p, nth_error rows k = Some p /\ f p = true) ->
  pick items rows = filter f rows.
Proof.
  intros H. unfold pick. apply pick_filter_gen.
  - intros k Hk p Hn _. rewrite Nat.sub_0_r in Hn. apply H in Hk. destruct Hk as [p' [Hp' Hf]]. congruence.
  - intros j p Hn Hf. cbn. apply H. eauto.
Qed.

(* a duplicate-free position set that is exactly the set of hits has as many elements as there are hits *)
Lemma items_length (f : point -> bool) (items : list nat) (rows : list point) :
  NoDup items -> (forall k, In k items <-> exists p, nth_error rows k = Some p /\ f p = true) ->
  length items = length (filter f rows).
Proof.
  intros Hnd H.
  destruct rows as [|d rows'] eqn:Er.
  - destruct items as [|k it]; [reflexivity|]. exfalso.
    destruct (proj1 (H k) (or_introl eq_refl)) as [p [Hp _]]. destruct k; discriminate.
  - rewrite <- Er in *. 
    rewrite (NoDup_length_filter_seq (length rows) items (fun k => f (nth k rows d)) Hnd).
    + rewrite <- (filter_seq_nth point rows f d). now rewrite map_length.
    + intros k. rewrite H. split.
      * intros [p [Hp Hf]]. split; [apply nth_error_Some; congruence|].
        now rewrite (nth_error_nth rows k d Hp).
      * intros [Hk Hf]. exists (nth k rows d). split; [apply nth_error_nth'; exact Hk|exact Hf].
Qed.
End ScanP.
