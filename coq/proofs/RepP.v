(* RepP.v — the index invariant Rep is established by build and preserved by insert and
   by remove-then-renumber. *)
From Coq Require Import List ZArith NArith Bool Arith Lia Sorted Permutation.
From TF Require Import Base Query Index proofs.BaseP proofs.TimeSearchP proofs.IndexDefs proofs.MapRepP proofs.TimeRepP.
Import ListNotations.

(* ---- 1. empty ------------------------------------------------------------------------ *)
Lemma nth_error_nil_Some : forall (A : Type) i (a : A), nth_error (@nil A) i = Some a -> False.
Proof. intros A i a H. destruct i; cbn [nth_error] in H; discriminate. Qed.

Theorem Rep_empty : forall v, Rep (ix_empty_valid v) [].
Proof.
  intro v. unfold ix_empty_valid. constructor; cbn [ix_n ix_ts ix_pos ix_meas ix_tags ix_fields length].
  - reflexivity.
  - exact TimeRep_nil.
  - apply (MapRep_nil (K := str) (V := unit)). intros k i u [p [Hp _]]. exact (nth_error_nil_Some _ _ _ Hp).
  - apply (MapRep_nil (K := tkey) (V := unit)). intros k i u [p [Hp _]]. exact (nth_error_nil_Some _ _ _ Hp).
  - apply (MapRep_nil (K := str) (V := option num)). intros k i u [p [Hp _]]. exact (nth_error_nil_Some _ _ _ Hp).
Qed.

(* ---- 2. adding one point ------------------------------------------------------------- *)
Lemma nth_error_snoc_iff : forall (A : Type) (l : list A) a i q,
  nth_error (l ++ [a]) i = Some q <-> nth_error l i = Some q \/ (i = length l /\ q = a).
Proof.
  intros A l a i q. destruct (Nat.lt_ge_cases i (length l)) as [Hlt|Hge].
  - rewrite nth_error_app1 by exact Hlt. split.
    + intro H. left. exact H.
    + intros [H|[H _]]. exact H. lia.
  - rewrite nth_error_app2 by exact Hge. split.
    + intro H. right. destruct (i - length l) as [|d] eqn:E.
      * cbn [nth_error] in H. inversion H. split. lia. reflexivity.
      * cbn [nth_error] in H. exfalso. exact (nth_error_nil_Some _ _ _ H).
    + intros [H|[H1 H2]].
      * exfalso. assert (Hn : nth_error l i <> None) by (rewrite H; discriminate).
        apply nth_error_Some in Hn. lia.
      * subst i q. rewrite Nat.sub_diag. reflexivity.
Qed.

Lemma nth_error_Some_lt : forall (A : Type) (l : list A) i a, nth_error l i = Some a -> i < length l.
Proof. intros A l i a H. apply nth_error_Some. rewrite H. discriminate. Qed.

Section FoldAdd.
Context {K V A : Type} (keqb : K -> K -> bool).
Hypothesis keqb_eq : forall a b, keqb a b = true <-> a = b.
Variable kf : A -> K.
Variable vf : A -> V.

Lemma fold_add_gen : forall n (todo : list A) (m : imap K V) rel,
  MapRep m rel -> NoDup (map kf todo) ->
  (forall a i v, In a todo -> rel (kf a) i v -> i < n) ->
  MapRep (fold_left (fun acc a => im_add keqb (kf a) n (vf a) acc) todo m)
    (fun k i v => rel k i v \/ (exists a, In a todo /\ k = kf a /\ i = n /\ v = vf a)).
Proof.
  intros n todo. induction todo as [|a todo IH]; intros m rel HM Hnd Hlt.
  - cbn [fold_left]. apply (MapRep_ext m rel); [|exact HM].
    intros k i v. split.
    + intro H. left. exact H.
    + intros [H|[a [[] _]]]. exact H.
  - cbn [fold_left]. cbn [map] in Hnd. inversion Hnd as [|x l Hnotin Hnd']. subst x l.
    pose proof (MapRep_add keqb keqb_eq m rel (kf a) n (vf a) HM) as HA.
    assert (Hside : forall i v', rel (kf a) i v' -> i < n).
    { intros i v' Hr. apply (Hlt a i v'). left. reflexivity. exact Hr. }
    specialize (HA Hside).
    specialize (IH _ _ HA Hnd').
    assert (Hside2 : forall a0 i v, In a0 todo ->
              (rel (kf a0) i v \/ (kf a0 = kf a /\ i = n /\ v = vf a)) -> i < n).
    { intros a0 i v Hin [Hr|[Hk _]].
      - apply (Hlt a0 i v). right. exact Hin. exact Hr.
      - exfalso. apply Hnotin. rewrite <- Hk. apply in_map. exact Hin. }
    specialize (IH Hside2).
    eapply MapRep_ext; [|exact IH].
    intros k i v. cbn beta. split.
    + intros [[Hr|[Hk [Hi Hv]]]|[a0 [Hin Hrest]]].
      * left. exact Hr.
      * right. exists a. split. left. reflexivity. split. exact Hk. split. exact Hi. exact Hv.
      * right. exists a0. split. right. exact Hin. exact Hrest.
    + intros [Hr|[a0 [[He|Hin] [Hk [Hi Hv]]]]].
      * left. left. exact Hr.
      * subst a0. left. right. split. exact Hk. split. exact Hi. exact Hv.
      * right. exists a0. split. exact Hin. split. exact Hk. split. exact Hi. exact Hv.
Qed.
End FoldAdd.

Lemma maps_add_point : forall pts p ms ts fs, wf_point p ->
  MapRep ms (meas_rel pts) -> MapRep ts (tag_rel pts) -> MapRep fs (field_rel pts) ->
  MapRep (im_add str_eqb (p_meas p) (length pts) tt ms) (meas_rel (pts ++ [p])) /\
  MapRep (add_tags (length pts) (p_tags p) ts) (tag_rel (pts ++ [p])) /\
  MapRep (add_fields (length pts) (p_fields p) fs) (field_rel (pts ++ [p])).
Proof.
  intros pts p ms ts fs [Hwt Hwf] Hm Ht Hf. split; [|split].
  - pose proof (MapRep_add str_eqb str_eqb_eq ms (meas_rel pts) (p_meas p) (length pts) tt Hm) as HA.
    assert (Hside : forall i v', meas_rel pts (p_meas p) i v' -> i < length pts).
    { intros i v' [q [Hq _]]. exact (nth_error_Some_lt _ _ _ _ Hq). }
    specialize (HA Hside). eapply MapRep_ext; [|exact HA].
    intros k i v. cbn beta. unfold meas_rel. split.
    + intros [[q [Hq Hk]]|[Hk [Hi Hv]]].
      * exists q. split; [|exact Hk]. apply nth_error_snoc_iff. left. exact Hq.
      * exists p. split; [|symmetry; exact Hk]. apply nth_error_snoc_iff. right. split. exact Hi. reflexivity.
    + intros [q [Hq Hk]]. apply nth_error_snoc_iff in Hq. destruct Hq as [Hq|[Hi Hq]].
      * left. exists q. split. exact Hq. exact Hk.
      * right. subst q. split. symmetry. exact Hk. split. exact Hi. destruct v. reflexivity.
  - unfold add_tags.
    pose proof (fold_add_gen (K := tkey) (V := unit) (A := tkey) tkey_eqb tkey_eqb_eq (fun kv => kv) (fun _ => tt)
                  (length pts) (p_tags p) ts (tag_rel pts) Ht) as HA.
    assert (Hnd : NoDup (map (fun kv : tkey => kv) (p_tags p))).
    { rewrite map_id. apply (NoDup_map_inv fst). apply dsorted_keys_NoDup. exact Hwt. }
    assert (Hside : forall (a : tkey) i (v : unit), In a (p_tags p) -> tag_rel pts a i v -> i < length pts).
    { intros a i v _ [q [Hq _]]. exact (nth_error_Some_lt _ _ _ _ Hq). }
    specialize (HA Hnd Hside). cbn beta in HA. eapply MapRep_ext; [|exact HA].
    intros k i v. cbn beta. unfold tag_rel. split.
    + intros [[q [Hq Hk]]|[a [Hin [Hk [Hi Hv]]]]].
      * exists q. split; [|exact Hk]. apply nth_error_snoc_iff. left. exact Hq.
      * exists p. subst a. split; [|exact Hin]. apply nth_error_snoc_iff. right. split. exact Hi. reflexivity.
    + intros [q [Hq Hk]]. apply nth_error_snoc_iff in Hq. destruct Hq as [Hq|[Hi Hq]].
      * left. exists q. split. exact Hq. exact Hk.
      * right. subst q. exists k. split. exact Hk. split. reflexivity. split. exact Hi. destruct v. reflexivity.
  - unfold add_fields.
    pose proof (fold_add_gen (K := str) (V := option num) (A := str * option num) str_eqb str_eqb_eq fst snd
                  (length pts) (p_fields p) fs (field_rel pts) Hf) as HA.
    assert (Hnd : NoDup (map fst (p_fields p))).
    { apply dsorted_keys_NoDup. exact Hwf. }
    assert (Hside : forall (a : str * option num) i (v : option num), In a (p_fields p) ->
              field_rel pts (fst a) i v -> i < length pts).
    { intros a i v _ [q [Hq _]]. exact (nth_error_Some_lt _ _ _ _ Hq). }
    specialize (HA Hnd Hside). eapply MapRep_ext; [|exact HA].
    intros k i v. cbn beta. unfold field_rel. split.
    + intros [[q [Hq Hk]]|[a [Hin [Hk [Hi Hv]]]]].
      * exists q. split; [|exact Hk]. apply nth_error_snoc_iff. left. exact Hq.
      * exists p. split.
        -- apply nth_error_snoc_iff. right. split. exact Hi. reflexivity.
        -- subst k v. destruct a as [a1 a2]. exact Hin.
    + intros [q [Hq Hk]]. apply nth_error_snoc_iff in Hq. destruct Hq as [Hq|[Hi Hq]].
      * left. exists q. split. exact Hq. exact Hk.
      * right. subst q. exists (k, v). split. exact Hk. split. reflexivity. split. exact Hi. reflexivity.
Qed.

(* ---- 3. insert ----------------------------------------------------------------------- *)
Theorem Rep_insert : forall i pts p, Rep i pts -> wf_point p -> (forall t, In t (ix_ts i) -> (t <= p_time p)%Z) -> Rep (ix_insert i p) (pts ++ [p]).
Proof.
  intros i pts p HR Hwf Hmax. destruct HR as [Hn Ht Hm Htg Hf].
  assert (Hlen : length (ix_ts i) = length pts).
  { destruct Ht as [Hl _]. exact Hl. }
  unfold ix_insert. rewrite Hlen.
  destruct (maps_add_point pts p (ix_meas i) (ix_tags i) (ix_fields i) Hwf Hm Htg Hf) as [H1 [H2 H3]].
  constructor; cbn [ix_n ix_ts ix_pos ix_meas ix_tags ix_fields].
  - rewrite app_length. cbn [length]. lia.
  - apply TimeRep_snoc. exact Ht. exact Hmax.
  - exact H1.
  - exact H2.
  - exact H3.
Qed.

(* ---- 4. build ------------------------------------------------------------------------ *)
Definition mstep (acc : imap str unit * imap tkey unit * imap str (option num)) (ip : nat * point) :=
  let '(ms, ts, fs) := acc in
  (im_add str_eqb (p_meas (snd ip)) (fst ip) tt ms,
   add_tags (fst ip) (p_tags (snd ip)) ts,
   add_fields (fst ip) (p_fields (snd ip)) fs).

Definition build_maps (pts : list point) :=
  fold_left mstep (combine (seq 0 (length pts)) pts) ([], [], []).

Lemma wf_points_app : forall a b, wf_points a -> wf_points b -> wf_points (a ++ b).
Proof.
  intros a b Ha Hb p Hin. apply in_app_or in Hin. destruct Hin as [H|H].
  - apply Ha. exact H.
  - apply Hb. exact H.
Qed.

Lemma build_maps_snoc : forall pts p,
  build_maps (pts ++ [p]) = mstep (build_maps pts) (length pts, p).
Proof.
  intros pts p. unfold build_maps. rewrite app_length. cbn [length]. rewrite Nat.add_1_r.
  rewrite seq_S. cbn [plus].
  rewrite combine_snoc by (rewrite seq_length; reflexivity).
  rewrite fold_left_app. cbn [fold_left]. reflexivity.
Qed.

Lemma build_maps_rep : forall pts, wf_points pts ->
  MapRep (fst (fst (build_maps pts))) (meas_rel pts) /\
  MapRep (snd (fst (build_maps pts))) (tag_rel pts) /\
  MapRep (snd (build_maps pts)) (field_rel pts).
Proof.
  intros pts. induction pts as [|p pts IH] using rev_ind; intro Hwf.
  - unfold build_maps. cbn [length seq combine fold_left fst snd]. split; [|split].
    + apply (MapRep_nil (K := str) (V := unit)). intros k i u [p [Hp _]]. exact (nth_error_nil_Some _ _ _ Hp).
    + apply (MapRep_nil (K := tkey) (V := unit)). intros k i u [p [Hp _]]. exact (nth_error_nil_Some _ _ _ Hp).
    + apply (MapRep_nil (K := str) (V := option num)). intros k i u [p [Hp _]]. exact (nth_error_nil_Some _ _ _ Hp).
  - rewrite build_maps_snoc.
    assert (Hwf1 : wf_points pts).
    { intros q Hq. apply Hwf. apply in_or_app. left. exact Hq. }
    assert (Hwp : wf_point p).
    { apply Hwf. apply in_or_app. right. left. reflexivity. }
    specialize (IH Hwf1). destruct (build_maps pts) as [[ms ts] fs].
    cbn [fst snd] in IH. destruct IH as [I1 [I2 I3]].
    unfold mstep. cbn [fst snd].
    exact (maps_add_point pts p ms ts fs Hwp I1 I2 I3).
Qed.

Lemma ix_build_unfold : forall pts,
  ix_build pts =
  let buf := stable_sort (fun a b : Z * nat => Z.leb (fst a) (fst b))
                         (combine (map p_time pts) (seq 0 (length pts))) in
  mkIndex (length pts) true (map fst buf) (map snd buf)
          (fst (fst (build_maps pts))) (snd (fst (build_maps pts))) (snd (build_maps pts)).
Proof.
  intro pts. unfold ix_build. fold mstep. fold (build_maps pts).
  destruct (build_maps pts) as [[ms ts] fs]. cbn [fst snd]. reflexivity.
Qed.

Theorem Rep_build : forall pts, wf_points pts -> Rep (ix_build pts) pts.
Proof.
  intros pts Hwf. rewrite ix_build_unfold. cbv zeta.
  destruct (build_maps_rep pts Hwf) as [H1 [H2 H3]].
  constructor; cbn [ix_n ix_ts ix_pos ix_meas ix_tags ix_fields].
  - reflexivity.
  - exact (TimeRep_build pts).
  - exact H1.
  - exact H2.
  - exact H3.
Qed.

(* ---- 5. remove + renumber ------------------------------------------------------------ *)
Lemma count_removed_renum : forall rm n, length (filter rm (seq 0 n)) + renum rm n = n.
Proof.
  intros rm n. induction n as [|n IH].
  - reflexivity.
  - rewrite renum_S. rewrite seq_S. cbn [plus]. rewrite filter_app. rewrite app_length.
    cbn [filter]. destruct (rm n); cbn [length]; lia.
Qed.

Lemma rel_keep : forall (Q : point -> Prop) rm pts j,
  (exists p, nth_error (keep_rows rm pts) j = Some p /\ Q p) <->
  (exists i, renum rm i = j /\ (exists p, nth_error pts i = Some p /\ Q p) /\ rm i = false).
Proof.
  intros Q rm pts j. split.
  - intros [p [Hp HQ]]. apply keep_rows_surj in Hp. destruct Hp as [i [Hi [Hr [Hj Hn]]]].
    exists i. split. exact Hj. split; [|exact Hr]. exists p. split. exact Hn. exact HQ.
  - intros [i [Hj [[p [Hp HQ]] Hr]]]. exists p. split; [|exact HQ].
    subst j. rewrite keep_rows_nth. exact Hp. exact (nth_error_Some_lt _ _ _ _ Hp). exact Hr.
Qed.

Lemma MapRep_remove_renumber : forall (K V : Type) (Q : point -> K -> V -> Prop) (m : imap K V) rm pts,
  MapRep m (fun k i v => exists p, nth_error pts i = Some p /\ Q p k v) ->
  MapRep (im_renumber (renum rm) (im_remove rm m))
         (fun k i v => exists p, nth_error (keep_rows rm pts) i = Some p /\ Q p k v).
Proof.
  intros K V Q m rm pts HM.
  pose proof (MapRep_remove m _ rm HM) as H1.
  pose proof (MapRep_renumber _ _ (renum rm) H1) as H2.
  cbn beta in H2.
  assert (Hmono : forall (k : K) (i j : nat) (v w : V),
            (exists p, nth_error pts i = Some p /\ Q p k v) /\ rm i = false ->
            (exists p, nth_error pts j = Some p /\ Q p k w) /\ rm j = false ->
            i < j -> renum rm i < renum rm j).
  { intros k i j v w [_ Hi] _ Hlt. apply renum_mono. exact Hlt. exact Hi. }
  specialize (H2 Hmono).
  eapply MapRep_ext; [|exact H2].
  intros k j v. cbn beta. symmetry. apply (rel_keep (fun p => Q p k v)).
Qed.

Theorem Rep_remove : forall i pts (rm : nat -> bool) nrm, Rep i pts -> nrm = length (filter rm (seq 0 (length pts))) ->
  Rep (ix_renumber (ix_remove i rm nrm) (renum rm)) (keep_rows rm pts).
Proof.
  intros i pts rm nrm HR Hnrm. destruct HR as [Hn Ht Hm Htg Hf].
  unfold ix_renumber, ix_remove. cbn [ix_n ix_valid ix_ts ix_pos ix_meas ix_tags ix_fields].
  constructor; cbn [ix_n ix_ts ix_pos ix_meas ix_tags ix_fields].
  - rewrite keep_rows_length. rewrite Hn. subst nrm.
    pose proof (count_removed_renum rm (length pts)) as Hc. lia.
  - exact (TimeRep_remove (ix_ts i) (ix_pos i) pts rm Ht).
  - exact (MapRep_remove_renumber _ _ (fun p k (v : unit) => p_meas p = k) (ix_meas i) rm pts Hm).
  - exact (MapRep_remove_renumber _ _ (fun p k (v : unit) => In k (p_tags p)) (ix_tags i) rm pts Htg).
  - exact (MapRep_remove_renumber _ _ (fun p k (v : option num) => In (k, v) (p_fields p)) (ix_fields i) rm pts Hf).
Qed.

(* ---- 6. small facts ------------------------------------------------------------------ *)
Lemma im_renumber_ext : forall (K V : Type) (m : imap K V) f g, (forall k, f k = g k) -> im_renumber f m = im_renumber g m.
Proof.
  intros K V m f g H. unfold im_renumber. apply map_ext. intros [k b]. cbn [fst snd].
  f_equal. apply map_ext. intros [i v]. cbn [fst snd]. rewrite H. reflexivity.
Qed.

Lemma ix_renumber_ext : forall i f g, (forall k, f k = g k) -> ix_renumber i f = ix_renumber i g.
Proof.
  intros i f g H. unfold ix_renumber.
  rewrite (map_ext f g H).
  rewrite (im_renumber_ext _ _ (ix_meas i) f g H).
  rewrite (im_renumber_ext _ _ (ix_tags i) f g H).
  rewrite (im_renumber_ext _ _ (ix_fields i) f g H).
  reflexivity.
Qed.

Lemma ix_build_valid : forall pts, ix_valid (ix_build pts) = true.
Proof. intro pts. rewrite ix_build_unfold. reflexivity. Qed.

Lemma ix_insert_valid : forall i p, ix_valid (ix_insert i p) = ix_valid i.
Proof. intros i p. reflexivity. Qed.

Lemma ix_remove_valid : forall i rm n f, ix_valid (ix_renumber (ix_remove i rm n) f) = ix_valid i.
Proof. intros i rm n f. reflexivity. Qed.

Lemma wf_points_keep : forall rm pts, wf_points pts -> wf_points (keep_rows rm pts).
Proof.
  intros rm pts Hwf p Hin. apply In_nth_error in Hin. destruct Hin as [j Hj].
  apply keep_rows_surj in Hj. destruct Hj as [i [_ [_ [_ Hn]]]].
  apply Hwf. apply nth_error_In in Hn. exact Hn.
Qed.

Print Assumptions Rep_build.
Print Assumptions Rep_insert.
Print Assumptions Rep_remove.
