(* GatesGenP.v - the three gate rules, decided for the method table read off database.py / measurement.py on this run (gen/GatesGen.v).  The table is a finite
   domain: each rule is a boolean computed inside Coq (effects closed over the calls by GateSem.reach) and then lifted to the statement about every method. *)
From Coq Require Import List String Bool.
From TF Require Import GateSem gen.GatesGen.
Import ListNotations.

Lemma gates_closed : forallb (rule_closed gen_methods) gen_methods = true.
Proof. vm_compute. reflexivity. Qed.
Lemma gates_write : forallb (rule_write gen_methods) gen_methods = true.
Proof. vm_compute. reflexivity. Qed.
Lemma gates_append : forallb (rule_append gen_methods) gen_methods = true.
Proof. vm_compute. reflexivity. Qed.
Lemma gates_temp : forallb (rule_temp gen_methods) gen_methods = true.
Proof. vm_compute. reflexivity. Qed.
Lemma gates_nonvacuous : some_effect ESwap gen_methods = true /\ some_effect EReset gen_methods = true /\ some_effect EAppend gen_methods = true
                         /\ some_effect EStage gen_methods = true.
Proof. vm_compute. repeat split; reflexivity. Qed.

(* lifted: for EVERY public method of the table - of the database or of a Measurement handle *)
Theorem every_rewriting_method_is_behind_the_write_gate : forall m, In m gen_methods -> m_public m = true ->
  has_effect ESwap (reach_of (has_gate GWrite) gen_methods m) = false /\ has_effect EReset (reach_of (has_gate GWrite) gen_methods m) = false.
Proof.
  intros m Hin Hp. pose proof (proj1 (forallb_forall _ _) gates_write m Hin) as H. unfold rule_write in H. rewrite Hp in H. cbn [negb orb] in H.
  apply negb_true_iff in H. apply orb_false_iff in H. exact H.
Qed.
Theorem every_appending_method_is_behind_the_append_gate : forall m, In m gen_methods -> m_public m = true ->
  has_effect EAppend (reach_of (fun x => has_gate GAppend x || has_gate GWrite x) gen_methods m) = false.
Proof.
  intros m Hin Hp. pose proof (proj1 (forallb_forall _ _) gates_append m Hin) as H. unfold rule_append in H. rewrite Hp in H. cbn [negb orb] in H.
  apply negb_true_iff in H. exact H.
Qed.
Theorem every_staging_method_runs_inside_temp_storage_op : forall m, In m gen_methods -> m_public m = true ->
  has_effect EStage (reach_of (has_gate GTemp) gen_methods m) = false /\ has_effect ESwap (reach_of (has_gate GTemp) gen_methods m) = false.
Proof.
  intros m Hin Hp. pose proof (proj1 (forallb_forall _ _) gates_temp m Hin) as H. unfold rule_temp in H. rewrite Hp in H. cbn [negb orb] in H.
  apply negb_true_iff in H. apply orb_false_iff in H. exact H.
Qed.
Theorem every_call_stays_in_the_table : forall m n, In m gen_methods -> In n (m_calls m) -> exists m', find_meth gen_methods n = Some m'.
Proof.
  intros m n Hin Hn. pose proof (proj1 (forallb_forall _ _) gates_closed m Hin) as H. unfold rule_closed in H.
  pose proof (proj1 (forallb_forall _ _) H n Hn) as H2. cbv beta in H2. destruct (find_meth gen_methods n) as [m'|] eqn:E; [exists m'; reflexivity|discriminate H2].
Qed.
