(* UpdArgGenP.v — the argument checks at the head of TinyFlux._generate_updater as generated from tinyflux/database.py (gen/UpdArgGen.v) are the model's
   (Valid.upd_arg: a static argument is rejected iff it is truthy, not callable and fails the slot's check; Valid.unset_ok), for EVERY value. *)
From Coq Require Import List ZArith NArith Bool.
From TF Require Import Base Valid ValidSem UpdArgSem proofs.ValidGenP.
From TF Require gen.ValidGen gen.UpdArgGen.
Import ListNotations.
Import UpdArgGen.

Definition is_rejected (r : argres) : bool := match r with ArgRejected => true | _ => false end.

Theorem gen_rejected_time_eq v : gen_rejected_time v = is_rejected (upd_arg STime v).
Proof. unfold gen_rejected_time, upd_arg. destruct (truthy_v v); cbn [andb negb]; [| reflexivity]. destruct v; reflexivity. Qed.
Theorem gen_rejected_measurement_eq v : gen_rejected_measurement v = is_rejected (upd_arg SMeas v).
Proof. unfold gen_rejected_measurement, upd_arg. destruct (truthy_v v); cbn [andb negb]; [| reflexivity]. destruct v; reflexivity. Qed.
Theorem gen_rejected_tags_eq v : gen_rejected_tags v = is_rejected (upd_arg STags v).
Proof.
  unfold gen_rejected_tags, upd_arg. rewrite gen_validate_tags_eq. cbn [slot_ok]. destruct (truthy_v v); cbn [andb negb]; [| reflexivity].
  destruct (is_callable v); cbn [andb negb]; [reflexivity|]. destruct (Valid.validate_tags v); reflexivity.
Qed.
Theorem gen_rejected_fields_eq v : gen_rejected_fields v = is_rejected (upd_arg SFields v).
Proof.
  unfold gen_rejected_fields, upd_arg. rewrite gen_validate_fields_eq. cbn [slot_ok]. destruct (truthy_v v); cbn [andb negb]; [| reflexivity].
  destruct (is_callable v); cbn [andb negb]; [reflexivity|]. destruct (Valid.validate_fields v); reflexivity.
Qed.
Lemma forallb_isinst_str l : forallb (fun i : pyval => isinst CStr i) l = forallb is_str l.
Proof. apply forallb_ext. intros [] ; reflexivity. Qed.
Theorem gen_rejected_unset_eq v : gen_rejected_unset_tags v = negb (unset_ok v) /\ gen_rejected_unset_fields v = negb (unset_ok v).
Proof.
  assert (H : andb (truthy_v v) (negb (orb (isinst CStr v) (andb (is_iterable v) (forallb (fun i : pyval => isinst CStr i) (pv_iter v))))) = negb (unset_ok v)).
  { unfold unset_ok. destruct v as [| b | z | x | s | s | t | l | d | id | ok |]; cbn [truthy_v isinst is_iterable pv_iter andb orb negb]; try reflexivity.
    - destruct b; reflexivity.
    - destruct (negb (Z.eqb z 0)); reflexivity.
    - destruct (negb (num_eqb x (NFin 0 0))); reflexivity.
    - destruct s; reflexivity.
    - destruct s as [|c s]; reflexivity.
    - destruct l as [|a l]; [reflexivity|]. cbn [negb orb]. rewrite forallb_isinst_str. reflexivity.
    - destruct d as [|a d]; [reflexivity|]. cbn [negb orb]. rewrite forallb_isinst_str. rewrite forallb_map. reflexivity. }
  split; exact H.
Qed.
Theorem gen_nothing_given_eq a b c d e f : gen_nothing_given a b c d e f = forallb (fun v => negb (truthy_v v)) [a; b; c; d; e; f].
Proof. unfold gen_nothing_given. cbn [forallb]. destruct (truthy_v a), (truthy_v b), (truthy_v c), (truthy_v d), (truthy_v e), (truthy_v f); reflexivity. Qed.
