(* MapSearchP.v - the inverted maps of the index answer simple queries exactly. *)
From Coq Require Import List ZArith NArith Bool Arith Lia Sorted.
From TF Require Import Base Query Index proofs.BaseP proofs.TimeSearchP proofs.IndexDefs.
Import ListNotations.

(* ---- the scan with an accumulator ---------------------------------------------------- *)
Lemma scan_gen : forall E strict path t cands acc,
  (forall v, run_test E t v <> RRaise) ->
  (strict = true -> forall v its, In (v, its) cands -> resolve E path v <> None) ->
  NoDup acc ->
  exists items, search_scan E strict path t cands acc = Some items /\ NoDup items /\
    forall k, In k items <->
      (In k acc \/ exists v its w, In (v, its) cands /\ In k its /\
                     resolve E path v = Some w /\ run_test E t w = RB true).
Proof.
  intros E strict path t cands.
  induction cands as [|[v its] r IH]; intros acc Ht Hs Hnd.
  - exists acc. cbn [search_scan]. split; [reflexivity|]. split; [exact Hnd|].
    intro k. split; [intro H; left; exact H|].
    intros [H|[v [its [w [H _]]]]]; [exact H|destruct H].
  - cbn [search_scan].
    assert (Hs' : strict = true -> forall v0 its0, In (v0, its0) r -> resolve E path v0 <> None).
    { intros Hst v0 its0 Hin. apply (Hs Hst v0 its0). right. exact Hin. }
    assert (Hskip : forall items,
              (forall k, In k items <->
                (In k acc \/ exists v0 its0 w0, In (v0, its0) r /\ In k its0 /\
                     resolve E path v0 = Some w0 /\ run_test E t w0 = RB true)) ->
              (forall w, resolve E path v = Some w -> run_test E t w <> RB true) ->
              forall k, In k items <->
                (In k acc \/ exists v0 its0 w0, In (v0, its0) ((v, its) :: r) /\ In k its0 /\
                     resolve E path v0 = Some w0 /\ run_test E t w0 = RB true)).
    { intros items H3 Hno k. rewrite H3. split.
      - intros [H|[v0 [its0 [w0 [Hin Hrest]]]]].
        + left; exact H.
        + right. exists v0, its0, w0. split; [right; exact Hin|exact Hrest].
      - intros [H|[v0 [its0 [w0 [[Hin|Hin] [Hk [Hr Hrt]]]]]]].
        + left; exact H.
        + exfalso. inversion Hin; subst v0 its0. exact (Hno w0 Hr Hrt).
        + right. exists v0, its0, w0. split; [exact Hin|]. split; [exact Hk|].
          split; [exact Hr|exact Hrt]. }
    destruct (resolve E path v) as [w|] eqn:Er.
    + destruct (run_test E t w) as [[|]|] eqn:Et.
      * destruct (IH (set_union acc (dedup its)) Ht Hs') as [items [H1 [H2 H3]]].
        { apply set_union_NoDup; [exact Hnd|apply dedup_NoDup]. }
        exists items. split; [exact H1|]. split; [exact H2|].
        intro k. rewrite H3. rewrite set_union_In, dedup_In. split.
        -- intros [[H|H]|[v0 [its0 [w0 [Hin Hrest]]]]].
           ++ left; exact H.
           ++ right. exists v, its, w. split; [left; reflexivity|]. split; [exact H|].
              split; [exact Er|exact Et].
           ++ right. exists v0, its0, w0. split; [right; exact Hin|exact Hrest].
        -- intros [H|[v0 [its0 [w0 [[Hin|Hin] [Hk [Hr Hrt]]]]]]].
           ++ left; left; exact H.
           ++ inversion Hin; subst v0 its0. left; right; exact Hk.
           ++ right. exists v0, its0, w0. split; [exact Hin|]. split; [exact Hk|].
              split; [exact Hr|exact Hrt].
      * destruct (IH acc Ht Hs' Hnd) as [items [H1 [H2 H3]]].
        exists items. split; [exact H1|]. split; [exact H2|].
        apply Hskip; [exact H3|].
        intros w0 Hw0 Hrt. inversion Hw0; subst w0. rewrite Et in Hrt. discriminate Hrt.
      * exfalso. exact (Ht w Et).
    + destruct strict eqn:Es.
      * exfalso. apply (Hs eq_refl v its); [left; reflexivity|exact Er].
      * destruct (IH acc Ht Hs' Hnd) as [items [H1 [H2 H3]]].
        exists items. split; [exact H1|]. split; [exact H2|].
        apply Hskip; [exact H3|].
        intros w0 Hw0. discriminate Hw0.
Qed.

(* the scan from the empty accumulator *)
Lemma scan_nil : forall E strict path t cands,
  (forall v, run_test E t v <> RRaise) ->
  (strict = true -> forall v its, In (v, its) cands -> resolve E path v <> None) ->
  exists items, search_scan E strict path t cands [] = Some items /\ NoDup items /\
    forall k, In k items <->
      (exists v its w, In (v, its) cands /\ In k its /\
                     resolve E path v = Some w /\ run_test E t w = RB true).
Proof.
  intros E strict path t cands Ht Hs.
  destruct (scan_gen E strict path t cands [] Ht Hs (NoDup_nil nat)) as [items [H1 [H2 H3]]].
  exists items. split; [exact H1|]. split; [exact H2|].
  intro k. rewrite H3. split.
  - intros [H|H]; [destruct H|exact H].
  - intro H. right. exact H.
Qed.

Lemma false_true_no : forall (P : Prop), false = true -> P.
Proof. intros P H. discriminate H. Qed.

(* ---- eval_simple unfolded -------------------------------------------------------------- *)
Lemma eval_simple_true : forall E a path t p,
  eval_simple E a path t p = RB true <->
  exists w, resolve E path (attr_value a p) = Some w /\ run_test E t w = RB true.
Proof.
  intros E a path t p. unfold eval_simple.
  destruct (resolve E path (attr_value a p)) as [w|].
  - split.
    + intro H. exists w. split; [reflexivity|exact H].
    + intros [w0 [Hw0 H]]. inversion Hw0; subst w0. exact H.
  - split.
    + intro H. discriminate H.
    + intros [w0 [Hw0 _]]. discriminate Hw0.
Qed.

(* a one-entry dictionary under a key path *)
Lemma resolve_single : forall E k' rest tk x,
  resolve E (PKey k' :: rest) (VDict [(tk, x)]) =
  if str_eqb k' tk then resolve E rest x else None.
Proof.
  intros E k' rest tk x. cbn [resolve dget].
  destruct (str_eqb k' tk); reflexivity.
Qed.

(* a sorted dictionary under a key path *)
Lemma resolve_dict_key : forall E (V : Type) (f : V -> value) (d : list (str * V)) k' rest w,
  dsorted d = true ->
  (resolve E (PKey k' :: rest) (VDict (map (fun kv => (fst kv, f (snd kv))) d)) = Some w <->
   exists x, In (k', x) d /\ resolve E rest (f x) = Some w).
Proof.
  intros E V f d k' rest w Hs. cbn [resolve]. rewrite dget_map.
  destruct (dget k' d) as [x|] eqn:Eg; cbn [option_map opt_bind].
  - apply (dget_In V k' x d Hs) in Eg. split.
    + intro H. exists x. split; [exact Eg|exact H].
    + intros [x0 [Hin H]].
      apply (dget_In V k' x0 d Hs) in Hin. apply (dget_In V k' x d Hs) in Eg.
      rewrite Eg in Hin. inversion Hin; subst x0. exact H.
  - split.
    + intro H. discriminate H.
    + intros [x0 [Hin _]]. apply (dget_In V k' x0 d Hs) in Hin. rewrite Eg in Hin. discriminate Hin.
Qed.

(* ---- 1. measurements -------------------------------------------------------------------- *)
Theorem search_meas_exact : forall E i pts path t,
  MapRep (ix_meas i) (meas_rel pts) -> (forall v, run_test E t v <> RRaise) ->
  exists items, search_simple E i AMeas path t = Some items /\ NoDup items /\
    forall k, In k items <-> exists p, nth_error pts k = Some p /\ eval_simple E AMeas path t p = RB true.
Proof.
  intros E i pts path t HM Ht. cbn [search_simple].
  destruct (scan_nil E false path t
              (map (fun kb : str * list (nat * unit) => (VStr (fst kb), positions (snd kb))) (ix_meas i))
              Ht (false_true_no _)) as [items [H1 [H2 H3]]].
  exists items. split; [exact H1|]. split; [exact H2|].
  intro k. rewrite H3. split.
  - intros [v [its [w [Hin [Hk [Hr Hrt]]]]]].
    apply in_map_iff in Hin. destruct Hin as [[key b] [Heq Hin]].
    cbn [fst snd] in Heq. inversion Heq; subst v its.
    unfold positions in Hk. apply in_map_iff in Hk. destruct Hk as [[k0 u] [Hk0 Hku]].
    cbn [fst] in Hk0. subst k0.
    destruct (mr_sound _ _ HM key b k u Hin Hku) as [p [Hp Hm]].
    exists p. split; [exact Hp|].
    apply eval_simple_true. exists w. cbn [attr_value]. rewrite Hm. split; [exact Hr|exact Hrt].
  - intros [p [Hp He]].
    apply eval_simple_true in He. destruct He as [w [Hr Hrt]]. cbn [attr_value] in Hr.
    destruct (mr_complete _ _ HM (p_meas p) k tt) as [b [Hb Hkb]].
    { exists p. split; [exact Hp|reflexivity]. }
    exists (VStr (p_meas p)), (positions b), w.
    split.
    { apply in_map_iff. exists (p_meas p, b). split; [reflexivity|exact Hb]. }
    split.
    { unfold positions. apply in_map_iff. exists (k, tt). split; [reflexivity|exact Hkb]. }
    split; [exact Hr|exact Hrt].
Qed.

(* ---- 2. tags ------------------------------------------------------------------------------ *)
Theorem search_tags_exact : forall E i pts k' rest t,
  MapRep (ix_tags i) (tag_rel pts) -> wf_points pts -> (forall v, run_test E t v <> RRaise) ->
  exists items, search_simple E i ATags (PKey k' :: rest) t = Some items /\ NoDup items /\
    forall k, In k items <-> exists p, nth_error pts k = Some p /\ eval_simple E ATags (PKey k' :: rest) t p = RB true.
Proof.
  intros E i pts k' rest t HM Hwf Ht. cbn [search_simple].
  destruct (scan_nil E false (PKey k' :: rest) t
              (map (fun kb : tkey * list (nat * unit) =>
                      (VDict [(fst (fst kb), tagval (snd (fst kb)))], positions (snd kb))) (ix_tags i))
              Ht (false_true_no _)) as [items [H1 [H2 H3]]].
  exists items. split; [exact H1|]. split; [exact H2|].
  intro k. rewrite H3. split.
  - intros [v [its [w [Hin [Hk [Hr Hrt]]]]]].
    apply in_map_iff in Hin. destruct Hin as [[[tk tv] b] [Heq Hin]].
    cbn [fst snd] in Heq. inversion Heq; subst v its.
    unfold positions in Hk. apply in_map_iff in Hk. destruct Hk as [[k0 u] [Hk0 Hku]].
    cbn [fst] in Hk0. subst k0.
    rewrite resolve_single in Hr.
    destruct (str_eqb k' tk) eqn:Ek; [|discriminate Hr].
    apply str_eqb_eq in Ek. subst tk.
    destruct (mr_sound _ _ HM (k', tv) b k u Hin Hku) as [p [Hp Hm]].
    exists p. split; [exact Hp|].
    apply eval_simple_true. exists w. split; [|exact Hrt].
    cbn [attr_value]. unfold vtags.
    apply (resolve_dict_key E (option str) tagval).
    + apply (Hwf p). apply nth_error_In with (n := k). exact Hp.
    + exists tv. split; [exact Hm|exact Hr].
  - intros [p [Hp He]].
    apply eval_simple_true in He. destruct He as [w [Hr Hrt]].
    cbn [attr_value] in Hr. unfold vtags in Hr.
    apply (resolve_dict_key E (option str) tagval) in Hr.
    2:{ apply (Hwf p). apply nth_error_In with (n := k). exact Hp. }
    destruct Hr as [tv [Hin Hr]].
    destruct (mr_complete _ _ HM (k', tv) k tt) as [b [Hb Hkb]].
    { exists p. split; [exact Hp|exact Hin]. }
    exists (VDict [(k', tagval tv)]), (positions b), w.
    split.
    { apply in_map_iff. exists ((k', tv), b). split; [reflexivity|exact Hb]. }
    split.
    { unfold positions. apply in_map_iff. exists (k, tt). split; [reflexivity|exact Hkb]. }
    split; [|exact Hrt].
    rewrite resolve_single. rewrite str_eqb_refl. exact Hr.
Qed.

(* ---- 3. fields ---------------------------------------------------------------------------- *)
Theorem search_fields_exact : forall E i pts k' rest t,
  MapRep (ix_fields i) (field_rel pts) -> wf_points pts -> (forall v, run_test E t v <> RRaise) ->
  exists items, search_simple E i AFields (PKey k' :: rest) t = Some items /\ NoDup items /\
    forall k, In k items <-> exists p, nth_error pts k = Some p /\ eval_simple E AFields (PKey k' :: rest) t p = RB true.
Proof.
  intros E i pts k' rest t HM Hwf Ht. cbn [search_simple].
  destruct (scan_nil E false (PKey k' :: rest) t
              (flat_map (fun kb : str * list (nat * option num) =>
                           map (fun iv : nat * option num =>
                                  (VDict [(fst kb, fieldval (snd iv))], [fst iv])) (snd kb))
                        (ix_fields i))
              Ht (false_true_no _)) as [items [H1 [H2 H3]]].
  exists items. split; [exact H1|]. split; [exact H2|].
  intro k. rewrite H3. split.
  - intros [v [its [w [Hin [Hk [Hr Hrt]]]]]].
    apply in_flat_map in Hin. destruct Hin as [[fk b] [Hin Hin2]].
    cbn [fst snd] in Hin2.
    apply in_map_iff in Hin2. destruct Hin2 as [[k0 fv] [Heq Hiv]].
    cbn [fst snd] in Heq. inversion Heq; subst v its.
    destruct Hk as [Hk|Hk]; [|destruct Hk]. subst k0.
    rewrite resolve_single in Hr.
    destruct (str_eqb k' fk) eqn:Ek; [|discriminate Hr].
    apply str_eqb_eq in Ek. subst fk.
    destruct (mr_sound _ _ HM k' b k fv Hin Hiv) as [p [Hp Hm]].
    exists p. split; [exact Hp|].
    apply eval_simple_true. exists w. split; [|exact Hrt].
    cbn [attr_value]. unfold vfields.
    apply (resolve_dict_key E (option num) fieldval).
    + apply (Hwf p). apply nth_error_In with (n := k). exact Hp.
    + exists fv. split; [exact Hm|exact Hr].
  - intros [p [Hp He]].
    apply eval_simple_true in He. destruct He as [w [Hr Hrt]].
    cbn [attr_value] in Hr. unfold vfields in Hr.
    apply (resolve_dict_key E (option num) fieldval) in Hr.
    2:{ apply (Hwf p). apply nth_error_In with (n := k). exact Hp. }
    destruct Hr as [fv [Hin Hr]].
    destruct (mr_complete _ _ HM k' k fv) as [b [Hb Hkb]].
    { exists p. split; [exact Hp|exact Hin]. }
    exists (VDict [(k', fieldval fv)]), [k], w.
    split.
    { apply in_flat_map. exists (k', b). split; [exact Hb|].
      cbn [fst snd]. apply in_map_iff. exists (k, fv). split; [reflexivity|exact Hkb]. }
    split; [left; reflexivity|].
    split; [|exact Hrt].
    rewrite resolve_single. rewrite str_eqb_refl. exact Hr.
Qed.

(* ---- 4. the generic branch of the time index --------------------------------------------- *)
Lemma nth_error_combine : forall (A B : Type) (l : list A) (l' : list B) j a b,
  nth_error (combine l l') j = Some (a, b) <-> (nth_error l j = Some a /\ nth_error l' j = Some b).
Proof.
  intros A B l. induction l as [|x l IH]; intros l' j a b.
  - cbn [combine]. destruct j; cbn [nth_error]; split.
    + intro H; discriminate H.
    + intros [H _]; discriminate H.
    + intro H; discriminate H.
    + intros [H _]; discriminate H.
  - destruct l' as [|y l']; cbn [combine].
    + destruct j; cbn [nth_error]; split.
      * intro H; discriminate H.
      * intros [_ H]; discriminate H.
      * intro H; discriminate H.
      * intros [_ H]; discriminate H.
    + destruct j as [|j]; cbn [nth_error].
      * split.
        -- intro H. inversion H; subst. split; reflexivity.
        -- intros [H1 H2]. inversion H1; inversion H2; subst. reflexivity.
      * apply IH.
Qed.

Theorem search_time_scan_exact : forall E i pts t,
  TimeRep (ix_ts i) (ix_pos i) pts -> (forall v, run_test E t v <> RRaise) -> (forall c rhs, t <> TCmp c rhs) ->
  exists items, search_simple E i ATime [] t = Some items /\ NoDup items /\
    forall k, In k items <-> exists p, nth_error pts k = Some p /\ eval_simple E ATime [] t p = RB true.
Proof.
  intros E i pts t HR Ht Hnc.
  assert (Heq : search_simple E i ATime [] t =
                search_scan E true [] t
                  (map (fun tp : Z * nat => (VTime (fst tp), [snd tp])) (combine (ix_ts i) (ix_pos i))) []).
  { destruct t as [c rhs| | re fl | re fl | id]; cbn [search_simple]; try reflexivity.
    exfalso. apply (Hnc c rhs). reflexivity. }
  rewrite Heq.
  destruct (scan_nil E true [] t
              (map (fun tp : Z * nat => (VTime (fst tp), [snd tp])) (combine (ix_ts i) (ix_pos i))) Ht)
    as [items [H1 [H2 H3]]].
  { intros _ v its _ H. cbn [resolve] in H. discriminate H. }
  exists items. split; [exact H1|]. split; [exact H2|].
  assert (Hsel : forall k, In k items <->
            exists p, nth_error pts k = Some p /\ run_test E t (VTime (p_time p)) = RB true).
  { apply (rep_select (ix_ts i) (ix_pos i) pts HR (fun a => run_test E t (VTime a) = RB true) items).
    intro k. rewrite H3. split.
    - intros [v [its [w [Hin [Hk [Hr Hrt]]]]]].
      apply in_map_iff in Hin. destruct Hin as [[a k0] [Hveq Hin]].
      cbn [fst snd] in Hveq. inversion Hveq; subst v its.
      destruct Hk as [Hk|Hk]; [|destruct Hk]. subst k0.
      cbn [resolve] in Hr. inversion Hr; subst w.
      apply In_nth_error in Hin. destruct Hin as [j Hj].
      apply nth_error_combine in Hj. destruct Hj as [Hja Hjk].
      exists j, a. split; [exact Hjk|]. split; [exact Hja|exact Hrt].
    - intros [j [a [Hjk [Hja HQ]]]].
      exists (VTime a), [k], (VTime a).
      split.
      { apply in_map_iff. exists (a, k). split; [reflexivity|].
        apply nth_error_In with (n := j). apply nth_error_combine. split; [exact Hja|exact Hjk]. }
      split; [left; reflexivity|].
      split; [reflexivity|exact HQ]. }
  intro k. rewrite Hsel. split.
  - intros [p [Hp HQ]]. exists p. split; [exact Hp|].
    apply eval_simple_true. exists (VTime (p_time p)). split; [reflexivity|exact HQ].
  - intros [p [Hp He]]. exists p. split; [exact Hp|].
    apply eval_simple_true in He. destruct He as [w [Hr Hrt]].
    cbn [resolve attr_value] in Hr. inversion Hr; subst w. exact Hrt.
Qed.

Print Assumptions search_meas_exact.
Print Assumptions search_tags_exact.
Print Assumptions search_fields_exact.
Print Assumptions search_time_scan_exact.
