(* FaultOpP.v - C13 in terms of the database model: for every operation from every state, an I/O error at any call of its script,
   followed by any error-path steps (and by the flush of a later close), leaves the model's old rows, the model's new rows, or
   (insert) the old rows followed by a prefix of what the insert adds. *)
From Coq Require Import List ZArith NArith Bool.
From TF Require Import Base Query Index DB IO proofs.IOP proofs.FaultP proofs.PlanP.
Import ListNotations.

Section FaultOp.
Variable E : env.
Variable C : cenv.
Variable norm : point -> point.
Notation step := (step E C norm).

Definition old_new_or_prefix (old new d : list point) : Prop :=
  d = old \/ d = new \/ exists added j, new = old ++ added /\ d = old ++ firstn j added.

Lemma allowed_as_old_new s o d : (is_insert o = true -> forallb nan_free_point (st_rows s) = true) ->
  crash_allowed (st_rows s) (plan_of o (st_rows s) (st_rows (fst (step s o)))) d ->
  old_new_or_prefix (st_rows s) (st_rows (fst (step s o))) d.
Proof.
  intros Hnan Hc. pose proof (plan_target_is_new_rows E C norm s o Hnan) as Ht.
  destruct (allowed_old_new _ _ _ Hc) as [H|[H|[rows [j [Hp Hd]]]]].
  - now left.
  - right. left. etransitivity; [exact H|exact Ht].
  - right. right. exists rows, j. split; [|exact Hd]. rewrite Hp in Ht. cbn [plan_target] in Ht. symmetry. exact Ht.
Qed.

Theorem operation_fault_old_or_new s o k recovery :
  (is_insert o = true -> forallb nan_free_point (st_rows s) = true) -> forallb safe recovery = true ->
  let old := st_rows s in let new := st_rows (fst (step s o)) in
  let w := run_steps (run_steps (world_of old) (firstn k (script_of old (plan_of o old new)))) recovery in
  old_new_or_prefix old new (w_disk w) /\ old_new_or_prefix old new (w_disk (apply w PClose)).
Proof.
  intros Hnan Hs. cbv zeta. split; apply (allowed_as_old_new s o _ Hnan).
  - now apply fault_disk_allowed.
  - now apply fault_disk_after_flush.
Qed.
End FaultOp.
