(* TagValsP.v — Index.get_tag_values as compiled from tinyflux/index.py (gen/IndexGen.v: a dict of sets of optional strings built by four differently
   written loop nests - all keys / the keys asked for, every value / the values whose postings meet the measurement's) against the model's
   ix_get_tag_values, after canonicalisation (keys ascending, values ascending with None last).  The accumulator is followed in logical terms
   (`DS rst Kp Vp`: which keys it has, which values each key's set holds), loop by loop. *)
From Coq Require Import List ZArith NArith Bool Arith Lia.
From TF Require Import Base Query Index DB Spec IndexSem proofs.BaseP proofs.MapRepP proofs.IndexDefs proofs.RepP proofs.GetterP proofs.IndexGenP.
From TF Require gen.IndexGen.
Import ListNotations.

(* a dict of sets of optional strings, as get_tag_values builds it *)
Notation dsets := (list (str * list (option str))) (only parsing).
Definition dadd (k : str) (v : option str) (rst : dsets) : dsets := d_set k (set_add v (d_get [] k rst)) rst.

Lemma set_add_In_o (x y : option str) s : In y (set_add x s) <-> In y s \/ y = x.
Proof.
  unfold set_add. destruct (existsb (pyeq x) s) eqn:E.
  - split; [intros H; left; exact H | intros [H|H]; [exact H | subst y]]. apply existsb_exists in E. destruct E as [z [Hz Hq]]. apply pyeq_ostr_eq in Hq. subst z. exact Hz.
  - rewrite in_app_iff. cbn [In]. split; [intros [H|[H|[]]]; [left; exact H | right; symmetry; exact H] | intros [H|H]; [left; exact H | right; left; symmetry; exact H]].
Qed.

(* the state of the accumulator in logical terms *)
Definition DS (rst : dsets) (Kp : str -> Prop) (Vp : str -> option str -> Prop) : Prop :=
  NoDup (map fst rst) /\ (forall k, In k (map fst rst) <-> Kp k) /\ (forall k v, In v (d_get [] k rst) <-> Vp k v).

Lemma d_set_keys_In {V} (d : list (str * V)) k v k' : In k' (map fst (d_set k v d)) <-> In k' (map fst d) \/ k' = k.
Proof.
  rewrite (d_set_keys d k v). destruct (d_has k d) eqn:E.
  - split; [intros H; left; exact H | intros [H|H]; [exact H | subst k'; apply (d_has_In pyeq_str_eq); exact E]].
  - rewrite in_app_iff. cbn [In]. split; [intros [H|[H|[]]]; [left; exact H | right; symmetry; exact H] | intros [H|H]; [left; exact H | right; left; symmetry; exact H]].
Qed.
Lemma d_get_set_cases {V} (d : list (str * V)) dflt k v k' : d_get dflt k' (d_set k v d) = if str_eqb k' k then v else d_get dflt k' d.
Proof.
  destruct (str_eqb k' k) eqn:E.
  - apply str_eqb_eq in E. subst k'. apply d_get_set. apply pyeq_str_eq. reflexivity.
  - apply d_get_set_other; [exact E | exact pyeq_str_eq].
Qed.

Lemma DS_dadd rst Kp Vp k v : DS rst Kp Vp -> DS (dadd k v rst) (fun k' => Kp k' \/ k' = k) (fun k' v' => Vp k' v' \/ (k' = k /\ v' = v)).
Proof.
  intros [Hn [Hk Hv]]. unfold dadd. split; [apply (d_set_NoDup pyeq_str_eq); exact Hn | split].
  - intros k'. rewrite d_set_keys_In, Hk. reflexivity.
  - intros k' v'. rewrite d_get_set_cases. destruct (str_eqb k' k) eqn:E.
    + apply str_eqb_eq in E. subst k'. rewrite set_add_In_o, Hv. split; [intros [H|H]; [left; exact H | right; split; [reflexivity | exact H]] | intros [H|[_ H]]; [left; exact H | right; exact H]].
    + apply str_eqb_neq in E. rewrite Hv. split; [intros H; left; exact H | intros [H|[H _]]; [exact H | contradiction]].
Qed.
Lemma DS_ext rst Kp Vp Kp' Vp' : (forall k, Kp k <-> Kp' k) -> (forall k v, Vp k v <-> Vp' k v) -> DS rst Kp Vp -> DS rst Kp' Vp'.
Proof. intros E1 E2 [Hn [Hk Hv]]. split; [exact Hn | split; [intros k; rewrite Hk; apply E1 | intros k v; rewrite Hv; apply E2]]. Qed.
Lemma DS_nil : DS [] (fun _ => False) (fun _ _ => False).
Proof. split; [constructor | split; [intros k; split; [intros [] | intros []] | intros k v; split; [intros [] | intros []]]]. Qed.

(* inner loops *)
Lemma DS_addall k : forall vs rst Kp Vp, DS rst Kp Vp ->
  DS (fold_left (fun rst v => dadd k v rst) vs rst) (fun k' => Kp k' \/ (k' = k /\ vs <> [])) (fun k' v' => Vp k' v' \/ (k' = k /\ In v' vs)).
Proof.
  induction vs as [|v vs IH]; intros rst Kp Vp H; cbn [fold_left].
  - apply (DS_ext rst Kp Vp); [intros k'; split; [intros H'; left; exact H' | intros [H'|[_ H']]; [exact H' | congruence]] | intros k' v'; split; [intros H'; left; exact H' | intros [H'|[_ []]]; exact H'] | exact H].
  - apply (DS_ext _ _ _ _ _) with (3 := IH _ _ _ (DS_dadd rst Kp Vp k v H)).
    + intros k'. split; [intros [[H'|H']|[H' _]]; [left; exact H' | right; split; [exact H' | discriminate] | right; split; [exact H' | discriminate]] | intros [H'|[H' _]]; [left; left; exact H' | left; right; exact H']].
    + intros k' v'. cbn [In]. split; [intros [[H'|[H1 H2]]|[H1 H2]]; [left; exact H' | right; split; [exact H1 | left; symmetry; exact H2] | right; split; [exact H1 | right; exact H2]] |
        intros [H'|[H1 [H2|H2]]]; [left; left; exact H' | left; right; split; [exact H1 | symmetry; exact H2] | right; split; assumption]].
Qed.
Lemma DS_addsel k (c : list nat -> bool) : forall (inner : list (option str * list nat)) rst Kp Vp, DS rst Kp Vp ->
  DS (fold_left (fun rst (vi : option str * list nat) => if c (snd vi) then dadd k (fst vi) rst else rst) inner rst)
     (fun k' => Kp k' \/ (k' = k /\ exists v items, In (v, items) inner /\ c items = true))
     (fun k' v' => Vp k' v' \/ (k' = k /\ exists items, In (v', items) inner /\ c items = true)).
Proof.
  induction inner as [|[v items] inner IH]; intros rst Kp Vp H; cbn [fold_left fst snd].
  - apply (DS_ext rst Kp Vp); [intros k'; split; [intros H'; left; exact H' | intros [H'|[_ [v [i [[] _]]]]]; exact H'] | intros k' v'; split; [intros H'; left; exact H' | intros [H'|[_ [i [[] _]]]]; exact H'] | exact H].
  - destruct (c items) eqn:E.
    + apply (DS_ext _ _ _ _ _) with (3 := IH _ _ _ (DS_dadd rst Kp Vp k v H)).
      * intros k'. split.
        -- intros [[H'|H']|[H1 [v0 [i0 [H2 H3]]]]]; [left; exact H' | right; split; [exact H' | exists v, items; split; [left; reflexivity | exact E]] | right; split; [exact H1 | exists v0, i0; split; [right; exact H2 | exact H3]]].
        -- intros [H'|[H1 [v0 [i0 [[H2|H2] H3]]]]]; [left; left; exact H' | left; right; exact H1 | right; split; [exact H1 | exists v0, i0; split; assumption]].
      * intros k' v'. split.
        -- intros [[H'|[H1 H2]]|[H1 [i0 [H2 H3]]]]; [left; exact H' | subst v'; right; split; [exact H1 | exists items; split; [left; reflexivity | exact E]] | right; split; [exact H1 | exists i0; split; [right; exact H2 | exact H3]]].
        -- intros [H'|[H1 [i0 [[H2|H2] H3]]]]; [left; left; exact H' | inversion H2; subst; left; right; split; reflexivity | right; split; [exact H1 | exists i0; split; assumption]].
    + apply (DS_ext _ _ _ _ _) with (3 := IH _ _ _ H).
      * intros k'. split.
        -- intros [H'|[H1 [v0 [i0 [H2 H3]]]]]; [left; exact H' | right; split; [exact H1 | exists v0, i0; split; [right; exact H2 | exact H3]]].
        -- intros [H'|[H1 [v0 [i0 [[H2|H2] H3]]]]]; [left; exact H' | inversion H2; subst; congruence | right; split; [exact H1 | exists v0, i0; split; assumption]].
      * intros k' v'. split.
        -- intros [H'|[H1 [i0 [H2 H3]]]]; [left; exact H' | right; split; [exact H1 | exists i0; split; [right; exact H2 | exact H3]]].
        -- intros [H'|[H1 [i0 [[H2|H2] H3]]]]; [left; exact H' | inversion H2; subst; congruence | right; split; [exact H1 | exists i0; split; assumption]].
Qed.
(* the two spellings of "add v to the set of k" in the source are one *)
Lemma dadd_alt k v (rst : list (str * list (option str))) : (if negb (d_has k rst) then d_set k [v] rst else d_set k (set_add v (d_get [] k rst)) rst) = dadd k v rst.
Proof. unfold dadd. destruct (d_has k rst) eqn:E; cbn [negb]; [reflexivity|]. rewrite (d_get_absent k [] rst E). reflexivity. Qed.
Lemma d_has_dadd k v (rst : list (str * list (option str))) : d_has k (dadd k v rst) = true.
Proof. unfold dadd. apply d_has_set. apply pyeq_str_eq. reflexivity. Qed.
(* case 4: the guard `tag_key in rst` does not change while values are added to an existing key *)
Lemma guarded_addsel k (c : list nat -> bool) : forall (inner : list (option str * list nat)) (rst : list (str * list (option str))),
  fold_left (fun rst (vi : option str * list nat) => if d_has k rst && c (snd vi) then dadd k (fst vi) rst else rst) inner rst =
  if d_has k rst then fold_left (fun rst (vi : option str * list nat) => if c (snd vi) then dadd k (fst vi) rst else rst) inner rst else rst.
Proof.
  induction inner as [|[v items] inner IH]; intros rst; cbn [fold_left fst snd]. - destruct (d_has k rst); reflexivity.
  - rewrite IH. destruct (d_has k rst) eqn:E; cbn [andb]; [| rewrite E; reflexivity]. destruct (c items); [rewrite d_has_dadd; reflexivity | rewrite E; reflexivity].
Qed.

(* outer loops *)
Definition allv (t : list (str * list (option str * list nat))) (k : str) (v : option str) : Prop := exists inner, In (k, inner) t /\ In v (map fst inner).
Definition selv (c : list nat -> bool) (t : list (str * list (option str * list nat))) (k : str) (v : option str) : Prop :=
  exists inner items, In (k, inner) t /\ In (v, items) inner /\ c items = true.

Lemma DS_reset rst Kp Vp k : DS rst Kp Vp -> ~ Kp k -> DS (d_set k [] rst) (fun k' => Kp k' \/ k' = k) Vp.
Proof.
  intros [Hn [Hk Hv]] Hnk. split; [apply (d_set_NoDup pyeq_str_eq); exact Hn | split].
  - intros k'. rewrite d_set_keys_In, Hk. reflexivity.
  - intros k' v'. rewrite d_get_set_cases. destruct (str_eqb k' k) eqn:E; [| apply Hv].
    apply str_eqb_eq in E. subst k'. split; [intros [] |]. intros H. exfalso. apply Hnk. apply Hk. apply Hv in H.
    destruct (d_has k rst) eqn:F; [apply (d_has_In pyeq_str_eq); exact F | rewrite (d_get_absent k [] rst F) in H; destruct H].
Qed.
Definition step1 (rst : list (str * list (option str))) (ki : str * list (option str * list nat)) :=
  fold_left (fun rst v => dadd (fst ki) v rst) (map fst (snd ki)) (d_set (fst ki) [] rst).
Lemma DS_O1 : forall (t : list (str * list (option str * list nat))) rst Kp Vp, NoDup (map fst t) -> (forall k, In k (map fst t) -> ~ Kp k) -> DS rst Kp Vp ->
  DS (fold_left step1 t rst) (fun k' => Kp k' \/ In k' (map fst t)) (fun k' v' => Vp k' v' \/ allv t k' v').
Proof.
  induction t as [|[k inner] t IH]; intros rst Kp Vp Hn Hnk H; cbn [fold_left].
  - apply (DS_ext rst Kp Vp); [intros k'; split; [intros H'; left; exact H' | intros [H'|[]]; exact H'] | intros k' v'; split; [intros H'; left; exact H' | intros [H'|[i [[] _]]]; exact H'] | exact H].
  - cbn [map fst] in Hn. inversion Hn as [|x l Hx Hn']; subst. unfold step1 at 2. cbn [fst snd].
    pose proof (DS_addall k (map fst inner) _ _ _ (DS_reset rst Kp Vp k H (Hnk k (or_introl eq_refl)))) as H1.
    assert (Hfresh : forall k', In k' (map fst t) -> ~ ((Kp k' \/ k' = k) \/ (k' = k /\ map fst inner <> []))).
    { intros k' Hk' [[Hc|Hc]|[Hc _]]; [apply (Hnk k' (or_intror Hk')); exact Hc | subst k'; contradiction | subst k'; contradiction]. }
    apply (DS_ext _ _ _ _ _) with (3 := IH _ _ _ Hn' Hfresh H1).
    + intros k'. cbn [map fst In]. split.
      * intros [[[H'|H']|[H' _]]|H']; [left; exact H' | right; left; symmetry; exact H' | right; left; symmetry; exact H' | right; right; exact H'].
      * intros [H'|[H'|H']]; [left; left; left; exact H' | left; left; right; symmetry; exact H' | right; exact H'].
    + intros k' v'. unfold allv. split.
      * intros [[H'|[H2 H3]]|[i [H2 H3]]]; [left; exact H' | subst k'; right; exists inner; split; [left; reflexivity | exact H3] | right; exists i; split; [right; exact H2 | exact H3]].
      * intros [H'|[i [[H2|H2] H3]]]; [left; left; exact H' | inversion H2; subst; left; right; split; [reflexivity | exact H3] | right; exists i; split; assumption].
Qed.

Definition step2 (c : list nat -> bool) (rst : list (str * list (option str))) (ki : str * list (option str * list nat)) :=
  fold_left (fun rst (vi : option str * list nat) => if c (snd vi) then dadd (fst ki) (fst vi) rst else rst) (snd ki) rst.
Lemma DS_O2 c : forall (t : list (str * list (option str * list nat))) rst Kp Vp, DS rst Kp Vp ->
  DS (fold_left (step2 c) t rst) (fun k' => Kp k' \/ exists v, selv c t k' v) (fun k' v' => Vp k' v' \/ selv c t k' v').
Proof.
  induction t as [|[k inner] t IH]; intros rst Kp Vp H; cbn [fold_left].
  - apply (DS_ext rst Kp Vp); [intros k'; split; [intros H'; left; exact H' | intros [H'|[v [i [it [[] _]]]]]; exact H'] | intros k' v'; split; [intros H'; left; exact H' | intros [H'|[i [it [[] _]]]]; exact H'] | exact H].
  - unfold step2 at 2. cbn [fst snd]. apply (DS_ext _ _ _ _ _) with (3 := IH _ _ _ (DS_addsel k c inner rst Kp Vp H)).
    + intros k'. unfold selv. split.
      * intros [[H'|[H1 [v [it [H2 H3]]]]]|[v [i [it [H1 [H2 H3]]]]]]; [left; exact H' | subst k'; right; exists v, inner, it; split; [left; reflexivity | split; assumption] | right; exists v, i, it; split; [right; exact H1 | split; assumption]].
      * intros [H'|[v [i [it [[H1|H1] [H2 H3]]]]]]; [left; left; exact H' | inversion H1; subst; left; right; split; [reflexivity | exists v, it; split; assumption] | right; exists v, i, it; split; [exact H1 | split; assumption]].
    + intros k' v'. unfold selv. split.
      * intros [[H'|[H1 [it [H2 H3]]]]|[i [it [H1 [H2 H3]]]]]; [left; exact H' | subst k'; right; exists inner, it; split; [left; reflexivity | split; assumption] | right; exists i, it; split; [right; exact H1 | split; assumption]].
      * intros [H'|[i [it [[H1|H1] [H2 H3]]]]]; [left; left; exact H' | inversion H1; subst; left; right; split; [reflexivity | exists it; split; assumption] | right; exists i, it; split; [exact H1 | split; assumption]].
Qed.

Lemma DS_has rst Kp Vp k : DS rst Kp Vp -> (d_has k rst = true <-> Kp k).
Proof. intros [_ [Hk _]]. rewrite (d_has_In pyeq_str_eq). apply Hk. Qed.

Definition step3 (rst : list (str * list (option str))) (ki : str * list (option str * list nat)) :=
  if d_has (fst ki) rst then fold_left (fun rst v => dadd (fst ki) v rst) (map fst (snd ki)) rst else rst.
Lemma DS_O3 : forall (t : list (str * list (option str * list nat))) rst Kp Vp, DS rst Kp Vp ->
  DS (fold_left step3 t rst) Kp (fun k' v' => Vp k' v' \/ (Kp k' /\ allv t k' v')).
Proof.
  induction t as [|[k inner] t IH]; intros rst Kp Vp H; cbn [fold_left].
  - apply (DS_ext rst Kp Vp); [intros k'; reflexivity | intros k' v'; split; [intros H'; left; exact H' | intros [H'|[_ [i [[] _]]]]; exact H'] | exact H].
  - unfold step3 at 2. cbn [fst snd]. destruct (d_has k rst) eqn:E.
    + pose proof (proj1 (DS_has rst Kp Vp k H) E) as HK.
      apply (DS_ext _ _ _ _ _) with (3 := IH _ _ _ (DS_addall k (map fst inner) rst Kp Vp H)).
      * intros k'. split; [intros [H'|[H' _]]; [exact H' | subst k'; exact HK] | intros H'; left; exact H'].
      * intros k' v'. unfold allv. split.
        -- intros [[H'|[H1 H2]]|[[H1|[H1 _]] [i [H2 H3]]]]; [left; exact H' | subst k'; right; split; [exact HK | exists inner; split; [left; reflexivity | exact H2]] |
             right; split; [exact H1 | exists i; split; [right; exact H2 | exact H3]] | subst k'; right; split; [exact HK | exists i; split; [right; exact H2 | exact H3]]].
        -- intros [H'|[H1 [i [[H2|H2] H3]]]]; [left; left; exact H' | inversion H2; subst; left; right; split; [reflexivity | exact H3] | right; split; [left; exact H1 | exists i; split; assumption]].
    + assert (HK : ~ Kp k) by (intros Hc; apply (DS_has rst Kp Vp k H) in Hc; congruence).
      apply (DS_ext _ _ _ _ _) with (3 := IH _ _ _ H).
      * intros k'. reflexivity.
      * intros k' v'. unfold allv. split.
        -- intros [H'|[H1 [i [H2 H3]]]]; [left; exact H' | right; split; [exact H1 | exists i; split; [right; exact H2 | exact H3]]].
        -- intros [H'|[H1 [i [[H2|H2] H3]]]]; [left; exact H' | inversion H2; subst; contradiction | right; split; [exact H1 | exists i; split; assumption]].
Qed.

Definition step4 (c : list nat -> bool) (rst : list (str * list (option str))) (ki : str * list (option str * list nat)) :=
  fold_left (fun rst (vi : option str * list nat) => if d_has (fst ki) rst && c (snd vi) then dadd (fst ki) (fst vi) rst else rst) (snd ki) rst.
Lemma DS_O4 c : forall (t : list (str * list (option str * list nat))) rst Kp Vp, DS rst Kp Vp ->
  DS (fold_left (step4 c) t rst) Kp (fun k' v' => Vp k' v' \/ (Kp k' /\ selv c t k' v')).
Proof.
  induction t as [|[k inner] t IH]; intros rst Kp Vp H; cbn [fold_left].
  - apply (DS_ext rst Kp Vp); [intros k'; reflexivity | intros k' v'; split; [intros H'; left; exact H' | intros [H'|[_ [i [it [[] _]]]]]; exact H'] | exact H].
  - unfold step4 at 2. cbn [fst snd]. rewrite guarded_addsel. destruct (d_has k rst) eqn:E.
    + pose proof (proj1 (DS_has rst Kp Vp k H) E) as HK.
      apply (DS_ext _ _ _ _ _) with (3 := IH _ _ _ (DS_addsel k c inner rst Kp Vp H)).
      * intros k'. split; [intros [H'|[H' _]]; [exact H' | subst k'; exact HK] | intros H'; left; exact H'].
      * intros k' v'. unfold selv. split.
        -- intros [[H'|[H1 [it [H2 H3]]]]|[[H1|[H1 _]] [i [it [H2 [H3 H4]]]]]]; [left; exact H' | subst k'; right; split; [exact HK | exists inner, it; split; [left; reflexivity | split; assumption]] |
             right; split; [exact H1 | exists i, it; split; [right; exact H2 | split; assumption]] | subst k'; right; split; [exact HK | exists i, it; split; [right; exact H2 | split; assumption]]].
        -- intros [H'|[H1 [i [it [[H2|H2] [H3 H4]]]]]]; [left; left; exact H' | inversion H2; subst; left; right; split; [reflexivity | exists it; split; assumption] |
             right; split; [left; exact H1 | exists i, it; split; [exact H2 | split; assumption]]].
    + assert (HK : ~ Kp k) by (intros Hc; apply (DS_has rst Kp Vp k H) in Hc; congruence).
      apply (DS_ext _ _ _ _ _) with (3 := IH _ _ _ H).
      * intros k'. reflexivity.
      * intros k' v'. unfold selv. split.
        -- intros [H'|[H1 [i [it [H2 [H3 H4]]]]]]; [left; exact H' | right; split; [exact H1 | exists i, it; split; [right; exact H2 | split; assumption]]].
        -- intros [H'|[H1 [i [it [[H2|H2] [H3 H4]]]]]]; [left; exact H' | inversion H2; subst; contradiction | right; split; [exact H1 | exists i, it; split; [exact H2 | split; assumption]]].
Qed.

(* {i: set({}) for i in tag_keys} *)
Lemma DS_fromkeys : forall (ks : list str) (acc : list (str * list (option str))) Kp, DS acc Kp (fun _ _ => False) ->
  DS (fold_left (fun acc i => d_set i [] acc) ks acc) (fun k => Kp k \/ In k ks) (fun _ _ => False).
Proof.
  induction ks as [|i ks IH]; intros acc Kp H; cbn [fold_left].
  - apply (DS_ext acc Kp (fun _ _ => False)); [intros k; split; [intros H'; left; exact H' | intros [H'|[]]; exact H'] | intros k v; reflexivity | exact H].
  - assert (H1 : DS (d_set i [] acc) (fun k => Kp k \/ k = i) (fun _ _ => False)).
    { destruct H as [Hn [Hk Hv]]. split; [apply (d_set_NoDup pyeq_str_eq); exact Hn | split].
      - intros k. rewrite d_set_keys_In, Hk. reflexivity.
      - intros k v. rewrite d_get_set_cases. destruct (str_eqb k i); [split; intros [] | apply Hv]. }
    apply (DS_ext _ _ _ _ _) with (3 := IH _ _ H1).
    + intros k. cbn [In]. split; [intros [[H'|H']|H']; [left; exact H' | right; left; symmetry; exact H' | right; right; exact H'] | intros [H'|[H'|H']]; [left; left; exact H' | left; right; symmetry; exact H' | right; exact H']].
    + intros k v. reflexivity.
Qed.

(* ---------- the result, canonically: keys ascending, the values of a key ascending with None last ---------- *)
Definition canon_tv (d : list (str * list (option str))) : list (str * list (option str)) :=
  map (fun k => (k, sort_none_last (d_get [] k d))) (sort_dedup (map fst d)).
Lemma canon_DS R Kp Vp keys (vals : str -> list (option str)) : DS R Kp Vp -> (forall k, Kp k <-> In k keys) ->
  (forall k, In k keys -> forall v, Vp k v <-> In v (vals k)) ->
  canon_tv R = map (fun k => (k, sort_none_last (vals k))) (sort_dedup keys).
Proof.
  intros [Hn [Hk Hv]] HK HV. unfold canon_tv.
  assert (E : sort_dedup (map fst R) = sort_dedup keys) by (apply sort_dedup_ext; intros k; rewrite Hk; apply HK).
  rewrite E. apply map_ext_in. intros k Hin. rewrite sort_dedup_In in Hin. f_equal. apply sort_none_last_ext. intros v. rewrite Hv. apply HV. exact Hin.
Qed.

Lemma In_ubuckets {K} (inner : list (K * list nat)) v b : In (v, b) (ubuckets inner) <-> exists items, In (v, items) inner /\ b = unit_bucket items.
Proof.
  unfold ubuckets. rewrite in_map_iff. split.
  - intros [[v0 it] [E H]]. cbn [fst snd] in E. injection E as E1 E2. subst. exists it. split; [exact H | reflexivity].
  - intros [it [H E]]. subst b. exists (v, it). split; [reflexivity | exact H].
Qed.
Lemma positions_unit b : positions (unit_bucket b) = b.
Proof. unfold positions, unit_bucket. rewrite map_map. cbn [fst]. apply map_id. Qed.

Section Sel.
Variable t : list (str * list (option str * list nat)).
Variable c : list nat -> bool.
Definition Bsel : imap tkey unit := filter (fun kb => c (positions (snd kb))) (flat_tags t).
Lemma Bsel_In k v b : In ((k, v), b) Bsel <-> exists inner items, In (k, inner) t /\ In (v, items) inner /\ b = unit_bucket items /\ c items = true.
Proof.
  unfold Bsel. rewrite filter_In, In_flat_tags. cbn [snd]. split.
  - intros [[inner [H1 H2]] H3]. apply In_ubuckets in H2. destruct H2 as [it [H2 E]]. subst b. rewrite positions_unit in H3. exists inner, it. repeat split; assumption.
  - intros [inner [it [H1 [H2 [E H3]]]]]. subst b. split; [exists inner; split; [exact H1 | apply In_ubuckets; exists it; split; [exact H2 | reflexivity]] | rewrite positions_unit; exact H3].
Qed.
Lemma Bsel_vals k v : In v (map (fun kb : tkey * list (nat * unit) => snd (fst kb)) (filter (fun kb => str_eqb (fst (fst kb)) k) Bsel)) <-> selv c t k v.
Proof.
  rewrite in_map_iff. unfold selv. split.
  - intros [[[k0 v0] b] [E H]]. cbn [fst snd] in E. subst v0. apply filter_In in H. destruct H as [H Hk]. cbn [fst] in Hk. apply str_eqb_eq in Hk. subst k0.
    apply Bsel_In in H. destruct H as [inner [it [H1 [H2 [_ H3]]]]]. exists inner, it. repeat split; assumption.
  - intros [inner [it [H1 [H2 H3]]]]. exists ((k, v), unit_bucket it). split; [reflexivity|]. apply filter_In. split; [| cbn [fst]; apply str_eqb_refl].
    apply Bsel_In. exists inner, it. repeat split; assumption.
Qed.
Lemma Bsel_keys k : In k (map (fun kb : tkey * list (nat * unit) => fst (fst kb)) Bsel) <-> exists v, selv c t k v.
Proof.
  rewrite in_map_iff. unfold selv. split.
  - intros [[[k0 v0] b] [E H]]. cbn [fst] in E. subst k0. apply Bsel_In in H. destruct H as [inner [it [H1 [H2 [_ H3]]]]]. exists v0, inner, it. repeat split; assumption.
  - intros [v [inner [it [H1 [H2 H3]]]]]. exists ((k, v), unit_bucket it). split; [reflexivity|]. apply Bsel_In. exists inner, it. repeat split; assumption.
Qed.
End Sel.
Lemma allv_selv t k v : allv t k v <-> selv (fun _ => true) t k v.
Proof.
  unfold allv, selv. split.
  - intros [inner [H1 H2]]. apply in_map_iff in H2. destruct H2 as [[v0 it] [E H2]]. cbn [fst] in E. subst v0. exists inner, it. repeat split; assumption.
  - intros [inner [it [H1 [H2 _]]]]. exists inner. split; [exact H1 | apply in_map_iff; exists (v, it); split; [reflexivity | exact H2]].
Qed.
Lemma Bsel_true t : Bsel t (fun _ => true) = flat_tags t.
Proof. unfold Bsel. induction (flat_tags t) as [|x l IH]; cbn [filter]; [reflexivity | rewrite IH; reflexivity]. Qed.

Lemma fold_left_ext_in {A B} (f g : A -> B -> A) (l : list B) : (forall a x, In x l -> f a x = g a x) -> forall a, fold_left f l a = fold_left g l a.
Proof. induction l as [|x l IH]; intros H a; cbn [fold_left]. - reflexivity. - rewrite (H a x (or_introl eq_refl)). apply IH. intros a' x' Hx. apply H. right. exact Hx. Qed.

(* the model's two helpers, named *)
Definition keys_of (b : imap tkey unit) : list str := sort_dedup (map (fun kb => fst (fst kb)) b).
Definition vals_of (b : imap tkey unit) (k : str) : list (option str) := sort_none_last (map (fun kb => snd (fst kb)) (filter (fun kb => str_eqb (fst (fst kb)) k) b)).

(* the four loops against the model's answers *)
Lemma tv_all t : nwf t -> tne t -> canon_tv (fold_left step1 t []) = map (fun k => (k, vals_of (flat_tags t) k)) (keys_of (flat_tags t)).
Proof.
  intros [Hn _] Ht. pose proof (DS_O1 t [] _ _ Hn (fun k _ H => H) DS_nil) as H.
  apply (canon_DS _ _ _ (map (fun kb : tkey * list (nat * unit) => fst (fst kb)) (flat_tags t))
                  (fun k => map (fun kb : tkey * list (nat * unit) => snd (fst kb)) (filter (fun kb => str_eqb (fst (fst kb)) k) (flat_tags t))) H).
  - intros k. rewrite <- (Bsel_true t) at 1. rewrite Bsel_keys. split.
    + intros [[]|Hk]. apply (tne_keys t Ht) in Hk. rewrite map_map in Hk. rewrite <- (Bsel_true t) in Hk. apply Bsel_keys in Hk. exact Hk.
    + intros Hk. right. apply (tne_keys t Ht). rewrite map_map. rewrite <- (Bsel_true t). apply Bsel_keys. exact Hk.
  - intros k _ v. rewrite <- (Bsel_true t). rewrite Bsel_vals, <- allv_selv. split; [intros [[]|H']; exact H' | intros H'; right; exact H'].
Qed.
Lemma tv_sel c t : canon_tv (fold_left (step2 c) t []) = map (fun k => (k, vals_of (Bsel t c) k)) (keys_of (Bsel t c)).
Proof.
  pose proof (DS_O2 c t [] _ _ DS_nil) as H.
  apply (canon_DS _ _ _ (map (fun kb : tkey * list (nat * unit) => fst (fst kb)) (Bsel t c))
                  (fun k => map (fun kb : tkey * list (nat * unit) => snd (fst kb)) (filter (fun kb => str_eqb (fst (fst kb)) k) (Bsel t c))) H).
  - intros k. rewrite Bsel_keys. split; [intros [[]|H']; exact H' | intros H'; right; exact H'].
  - intros k _ v. rewrite Bsel_vals. split; [intros [[]|H']; exact H' | intros H'; right; exact H'].
Qed.
Lemma DS_keys0 ks : DS (fold_left (fun acc i => d_set i [] acc) ks []) (fun k => In k ks) (fun _ _ => False).
Proof. apply (DS_ext _ _ _ _ _) with (3 := DS_fromkeys ks [] _ DS_nil); [intros k; split; [intros [[]|H]; exact H | intros H; right; exact H] | intros k v; reflexivity]. Qed.
Lemma tv_keys_all t ks : canon_tv (fold_left step3 t (fold_left (fun acc i => d_set i [] acc) ks [])) = map (fun k => (k, vals_of (flat_tags t) k)) (sort_dedup ks).
Proof.
  pose proof (DS_O3 t _ _ _ (DS_keys0 ks)) as H.
  apply (canon_DS _ _ _ ks (fun k => map (fun kb : tkey * list (nat * unit) => snd (fst kb)) (filter (fun kb => str_eqb (fst (fst kb)) k) (flat_tags t))) H).
  - intros k. reflexivity.
  - intros k Hk v. rewrite <- (Bsel_true t). rewrite Bsel_vals, <- allv_selv. split; [intros [[]|[_ H']]; exact H' | intros H'; right; split; [exact Hk | exact H']].
Qed.
Lemma tv_keys_sel c t ks : canon_tv (fold_left (step4 c) t (fold_left (fun acc i => d_set i [] acc) ks [])) = map (fun k => (k, vals_of (Bsel t c) k)) (sort_dedup ks).
Proof.
  pose proof (DS_O4 c t _ _ _ (DS_keys0 ks)) as H.
  apply (canon_DS _ _ _ ks (fun k => map (fun kb : tkey * list (nat * unit) => snd (fst kb)) (filter (fun kb => str_eqb (fst (fst kb)) k) (Bsel t c))) H).
  - intros k. reflexivity.
  - intros k Hk v. rewrite Bsel_vals. split; [intros [[]|[_ H']]; exact H' | intros H'; right; split; [exact Hk | exact H']].
Qed.
Lemma tv_keys_none ks : canon_tv (fold_left (fun acc i => d_set i [] acc) ks []) = map (fun k => (k, [])) (sort_dedup ks).
Proof.
  rewrite (canon_DS _ _ _ ks (fun _ => []) (DS_keys0 ks)); [reflexivity | intros k; reflexivity | intros k _ v; split; intros []].
Qed.

Import IndexGen.
Lemma Bsel_ext t c c' : (forall x, c x = c' x) -> Bsel t c = Bsel t c'.
Proof. intros H. unfold Bsel. apply filter_ext. intros kb. apply H. Qed.

Theorem gen_get_tag_values_eq g ks m : gwf g -> tne (_tags g) -> canon_tv (gen_get_tag_values g ks m) = ix_get_tag_values (abs g) ks m.
Proof.
  intros [Hw _] Ht. pose proof Hw as [Hn Hi].
  assert (Hinner : forall k inner, In (k, inner) (_tags g) -> d_get [] k (_tags g) = inner) by (intros k inner H; apply (d_get_In pyeq_str_eq _ [] k inner Hn H)).
  unfold gen_get_tag_values, ix_get_tag_values, abs, meas_items. cbn [ix_meas ix_tags]. unfold abs_meas. fold keys_of. 
  change (fun (b : imap tkey unit) k => sort_none_last (map (fun kb1 => snd (fst kb1)) (filter (fun kb2 => str_eqb (fst (fst kb2)) k) b))) with vals_of.
  cbv zeta.
  assert (E1 : forall rst, fold_left (fun rst '(tag_key, tag_values) => fold_left (fun rst tag_value => d_set tag_key (set_add tag_value (d_get [] tag_key rst)) rst) (map fst tag_values) (d_set tag_key [] rst)) (_tags g) rst = fold_left step1 (_tags g) rst).
  { intros rst. apply fold_left_ext. intros a [k inner]. reflexivity. }
  assert (E3 : forall rst, fold_left (fun rst '(tag_key, tag_values) => if d_has tag_key rst then fold_left (fun rst tag_value => d_set tag_key (set_add tag_value (d_get [] tag_key rst)) rst) (map fst tag_values) rst else rst) (_tags g) rst = fold_left step3 (_tags g) rst).
  { intros rst. apply fold_left_ext. intros a [k inner]. reflexivity. }
  assert (E2 : forall ms rst, fold_left (fun rst '(tag_key, tag_values) => fold_left (fun rst '(tag_value, items) =>
       if nonempty_list (set_inter ms items) then (if negb (d_has tag_key rst) then d_set tag_key [tag_value] rst else d_set tag_key (set_add tag_value (d_get [] tag_key rst)) rst) else rst)
       (d_get [] tag_key (_tags g)) rst) (_tags g) rst = fold_left (step2 (fun items => overlaps ms items)) (_tags g) rst).
  { intros ms rst. apply fold_left_ext_in. intros a [k inner] Hin. rewrite (Hinner k inner Hin). unfold step2. cbn [fst snd]. apply fold_left_ext. intros a' [v items]. cbn [fst snd].
    rewrite nonempty_inter. destruct (overlaps ms items); [apply dadd_alt | reflexivity]. }
  assert (E4 : forall ms rst, fold_left (fun rst '(tag_key, tag_values) => fold_left (fun rst '(tag_value, items) =>
       if d_has tag_key rst && nonempty_list (set_inter ms items) then d_set tag_key (set_add tag_value (d_get [] tag_key rst)) rst else rst)
       (d_get [] tag_key (_tags g)) rst) (_tags g) rst = fold_left (step4 (fun items => overlaps ms items)) (_tags g) rst).
  { intros ms rst. apply fold_left_ext_in. intros a [k inner] Hin. rewrite (Hinner k inner Hin). unfold step4. cbn [fst snd]. apply fold_left_ext. intros a' [v items]. cbn [fst snd].
    rewrite nonempty_inter. reflexivity. }
  destruct m as [[|c0 s]|]; destruct ks as [|k0 ks']; cbn [opt_truthy truthy negb nonempty_list andb opt_str].
  - (* "" , [] *) rewrite E1. apply (tv_all _ Hw Ht).
  - (* "" , keys *) rewrite E3. apply tv_keys_all.
  - (* name, [] *) rewrite <- d_has_im_has. match goal with |- context [if ?t then _ else _] => destruct t end; [| reflexivity].
    rewrite E2, <- d_get_positions. apply tv_sel.
  - (* name, keys *) rewrite <- d_has_im_has. match goal with |- context [if ?t then _ else _] => destruct t end.
    + rewrite E4, <- d_get_positions. apply tv_keys_sel.
    + apply tv_keys_none.
  - (* None, [] *) rewrite E1. apply (tv_all _ Hw Ht).
  - (* None, keys *) rewrite E3. apply tv_keys_all.
Qed.

Lemma gen_get_tag_values_NoDup g ks m : gwf g -> NoDup (map fst (gen_get_tag_values g ks m)).
Proof.
  intros [Hw _]. pose proof Hw as [Hn Hi].
  assert (Hinner : forall k inner, In (k, inner) (_tags g) -> d_get [] k (_tags g) = inner) by (intros k inner H; apply (d_get_In pyeq_str_eq _ [] k inner Hn H)).
  unfold gen_get_tag_values.
  cbv zeta.
  assert (E1 : forall rst, fold_left (fun rst '(tag_key, tag_values) => fold_left (fun rst tag_value => d_set tag_key (set_add tag_value (d_get [] tag_key rst)) rst) (map fst tag_values) (d_set tag_key [] rst)) (_tags g) rst = fold_left step1 (_tags g) rst).
  { intros rst. apply fold_left_ext. intros a [k inner]. reflexivity. }
  assert (E3 : forall rst, fold_left (fun rst '(tag_key, tag_values) => if d_has tag_key rst then fold_left (fun rst tag_value => d_set tag_key (set_add tag_value (d_get [] tag_key rst)) rst) (map fst tag_values) rst else rst) (_tags g) rst = fold_left step3 (_tags g) rst).
  { intros rst. apply fold_left_ext. intros a [k inner]. reflexivity. }
  assert (E2 : forall ms rst, fold_left (fun rst '(tag_key, tag_values) => fold_left (fun rst '(tag_value, items) =>
       if nonempty_list (set_inter ms items) then (if negb (d_has tag_key rst) then d_set tag_key [tag_value] rst else d_set tag_key (set_add tag_value (d_get [] tag_key rst)) rst) else rst)
       (d_get [] tag_key (_tags g)) rst) (_tags g) rst = fold_left (step2 (fun items => overlaps ms items)) (_tags g) rst).
  { intros ms rst. apply fold_left_ext_in. intros a [k inner] Hin. rewrite (Hinner k inner Hin). unfold step2. cbn [fst snd]. apply fold_left_ext. intros a' [v items]. cbn [fst snd].
    rewrite nonempty_inter. destruct (overlaps ms items); [apply dadd_alt | reflexivity]. }
  assert (E4 : forall ms rst, fold_left (fun rst '(tag_key, tag_values) => fold_left (fun rst '(tag_value, items) =>
       if d_has tag_key rst && nonempty_list (set_inter ms items) then d_set tag_key (set_add tag_value (d_get [] tag_key rst)) rst else rst)
       (d_get [] tag_key (_tags g)) rst) (_tags g) rst = fold_left (step4 (fun items => overlaps ms items)) (_tags g) rst).
  { intros ms rst. apply fold_left_ext_in. intros a [k inner] Hin. rewrite (Hinner k inner Hin). unfold step4. cbn [fst snd]. apply fold_left_ext. intros a' [v items]. cbn [fst snd].
    rewrite nonempty_inter. reflexivity. }
  destruct m as [[|c0 s]|]; destruct ks as [|k0 ks']; cbn [opt_truthy truthy negb nonempty_list andb opt_str].
  - rewrite E1. apply (proj1 (DS_O1 _ [] _ _ Hn (fun k _ H => H) DS_nil)).
  - rewrite E3. apply (proj1 (DS_O3 _ _ _ _ (DS_keys0 _))).
  - match goal with |- context [if ?t then _ else _] => destruct t end; [| constructor].
    rewrite E2. apply (proj1 (DS_O2 _ _ [] _ _ DS_nil)).
  - match goal with |- context [if ?t then _ else _] => destruct t end.
    + rewrite E4. apply (proj1 (DS_O4 _ _ _ _ _ (DS_keys0 _))).
    + apply (proj1 (DS_keys0 _)).
  - rewrite E1. apply (proj1 (DS_O1 _ [] _ _ Hn (fun k _ H => H) DS_nil)).
  - rewrite E3. apply (proj1 (DS_O3 _ _ _ _ (DS_keys0 _))).
Qed.

Theorem source_tag_values_exact g pts ks m : gwf g -> tne (_tags g) -> Rep (abs g) pts -> wf_points pts ->
  canon_tv (gen_get_tag_values g ks m) = scan_tag_values ks (in_meas m pts).
Proof. intros Hg Ht HR Hw. rewrite (gen_get_tag_values_eq g ks m Hg Ht). apply ix_get_tag_values_spec; assumption. Qed.
