(* DbSem.v — the primitives gen/DbGetGen.v (the getters of class TinyFlux, compiled from tinyflux/database.py by harness/py2coq_dbget.py) is written
   with: the database object as its stored rows, its index OBJECT (IndexSem.pyindex, maintained and read by the methods compiled from index.py) and
   the auto_index flag; sets of strings as lists; the read_op decorator.  Definitions only. *)
From Coq Require Import List ZArith NArith Bool Arith.
From TF Require Import Base Query Index DB IndexSem.
From TF Require gen.IndexGen.
Import ListNotations.

Record pydb := mkDb { db_rows : list point; db_index : pyindex; db_auto : bool }.

(* x in s / s.union(t) on sets of strings (lists read through ==) *)
Definition set_mem {A} {E : PyEq A} (x : A) (s : list A) : bool := existsb (pyeq x) s.
Definition set_union_s {A} {E : PyEq A} (s t : list A) : list A := fold_left (fun s x => set_add x s) t s.

(* the read_op decorator: `if self._auto_index and not self._index.valid: self.reindex()` - reindex builds the index from every stored row
   (the decorator and reindex themselves are translated by harness/py2coq_read.py into gen/ReadGen.v over the model's state; here the same
   statement over the object) *)
Definition db_prelude (d : pydb) : pydb :=
  if db_auto d && negb (IndexGen.gen_valid (db_index d)) then mkDb (db_rows d) (IndexGen.gen_build (db_index d) (db_rows d)) (db_auto d) else d.

(* the model's state the object stands for *)
Definition abs_db (d : pydb) : state := mkState (db_rows d) (abs (db_index d)) (db_auto d).
