(* Text.v — the text form of a stored row and its parsing back (point.py:
   Point._deserialize_from_list reading the strings csv.reader yields).  The text of a time
   cell (datetime.isoformat / fromisoformat) and of a number cell (float repr / float()) is
   standard-library behaviour: an oracle pair per kind, section variables here; the theorems
   in proofs/TextP.v assume only that parsing undoes formatting and that a number never prints
   as the sentinel "_none".  Everything else — which cells are keys, which loop a key sends
   its pair to, the sentinel test on values — is the code's own logic, modelled literally.
   Definitions only. *)
From Coq Require Import List ZArith NArith Bool Arith.
From TF Require Import Base Query Codec.
Import ListNotations.

Section Text.
Variable fmt_time : Z -> str.
Variable parse_time : str -> option Z.
Variable fmt_num : num -> str.
Variable parse_num : str -> option num.

Definition render (c : cell) : str :=
  match c with CTime t => fmt_time t | CNum x => fmt_num x | CText s => s end.
Definition render_row (r : list cell) : list str := map render r.

(* row[i][1] == "t" or row[i][0] == "t": the pair belongs to the tag loop; None = IndexError *)
Definition tag_key (k : str) : option bool :=
  match k with c0 :: c1 :: _ => Some (N.eqb c1 ch_t || N.eqb c0 ch_t) | _ => None end.

(* the field loop: value "_none" -> None, anything else -> float(text) *)
Fixpoint cells_fields (row : list str) : option (list cell) :=
  match row with
  | [] => Some []
  | k :: v :: r =>
      match (if str_eqb v s_none then Some (CText s_none) else option_map CNum (parse_num v)) with
      | None => None                                          (* ValueError: could not convert string to float *)
      | Some c => option_map (fun l => CText k :: c :: l) (cells_fields r)
      end
  | [_] => None                                               (* IndexError *)
  end.
(* the tag loop, which hands over to the field loop at the first key that is not a tag key *)
Fixpoint cells_tags (row : list str) : option (list cell) :=
  match row with
  | [] => Some []
  | k :: rest =>
      match tag_key k with
      | None => None
      | Some true => match rest with
                     | v :: r => option_map (fun l => CText k :: CText v :: l) (cells_tags r)
                     | [] => None
                     end
      | Some false => cells_fields row
      end
  end.

Definition parse_row (row : list str) : option (list cell) :=
  match row with
  | t :: m :: rest =>
      match parse_time t with
      | None => None
      | Some z => option_map (fun l => CTime z :: CText m :: l) (cells_tags rest)
      end
  | _ => None
  end.

(* a row of strings, as csv.reader yields it, to a point *)
Definition decode_row (row : list str) : option point := opt_bind (parse_row row) de.
(* a point to the row of strings handed to csv.writer *)
Definition encode_row (compact : bool) (p : point) : list str := render_row (ser compact p).
End Text.
