(* Property C08 — timestamps are stored as exact UTC instants and ordered correctly.
   In the model an instant is an exact integer number of microseconds since the epoch (Z):
   the datetime a caller hands in - aware in any zone, or naive meaning local time - is
   turned into that instant by the harness with Python's own arithmetic, and what comes back
   must be that instant as a timezone-aware UTC datetime (anything else is canonicalised to an
   invalid instant and diverges).  The theorems: time comparisons on the index-served path and
   on the scan path are integer comparisons of instants; time-sorted output is sorted, a
   permutation of its input and stable; insert stores and update assigns exactly the instant
   given; the instant survives the text round trip (Prop_C05).  The zone arithmetic of
   astimezone and the tz database are Python run time, not modelled: tied by running the
   histories in processes whose local zone is UTC, America/Los_Angeles, Australia/Lord_Howe
   and Asia/Kathmandu.  Stamp.v / StampP.v: the float timestamps the index keeps
   (datetime.timestamp(): one correctly rounded binary64 division of the microsecond count by 10^6)
   compare exactly as the integer instants do, for every pair of instants in 1700-2240 - proved with
   Flocq over the kernel's primitive floats - which is what lets Index.v carry exact Z microseconds. *)
From Coq Require Import List ZArith NArith Bool Sorted Permutation.
From TF Require Import Base Query Index DB Spec Stamp proofs.BaseP proofs.TimeSearchP proofs.IndexDefs proofs.DBReadP
     proofs.DBStepP proofs.DBSpecP proofs.TimeP.
From TF Require proofs.StampP.
Import ListNotations.

Theorem C08_index_compares_instants : forall (i : index) (c : cmp) (t : Z) (pts : list point),
  TimeRep (ix_ts i) (ix_pos i) pts ->
  exists items, search_time_cmp i c t = Some items /\ NoDup items /\
    forall k, In k items <-> exists p, nth_error pts k = Some p /\ pycmp c (VTime (p_time p)) (VTime t) = Some true.
Proof. exact search_time_cmp_exact. Qed.
Theorem C08_comparison_is_integer_comparison : forall c a b,
  pycmp c (VTime a) (VTime b) = Some (match c with Ceq => Z.eqb a b | Cne => negb (Z.eqb a b) | Clt => Z.ltb a b
                                               | Cle => Z.leb a b | Cgt => Z.ltb b a | Cge => Z.leb b a end).
Proof. exact pycmp_time. Qed.
Theorem C08_sorted : forall l, StronglySorted (fun a b => (p_time a <= p_time b)%Z) (sort_points l).
Proof. exact sort_points_sorted. Qed.
Theorem C08_sorted_is_permutation : forall l, Permutation (sort_points l) l.
Proof. exact sort_points_perm. Qed.
Theorem C08_sort_stable : forall l t, filter (fun p => Z.eqb (p_time p) t) (sort_points l) = filter (fun p => Z.eqb (p_time p) t) l.
Proof. exact sort_points_stable. Qed.
Theorem C08_update_assigns_instant : forall C u p p', perform_update C u p = UOk p' ->
  p_time p' = match u_time u with UNone => p_time p | UStatic t => t
                                | UCall id => match c_time C id (p_time p) with Some t => t | None => p_time p end end.
Proof. exact update_sets_time. Qed.
Theorem C08_insert_stores_points_as_given : forall norm s ps m, Inv s -> wf_insert norm ps m ->
  let r := db_insert norm s ps m in
  st_rows (fst r) = st_rows s ++ map (rename m) (prefix_points ps) /\
  snd r = (if all_points ps then ONat (length ps) else ORaise) /\ Inv (fst r).
Proof. exact db_insert_spec. Qed.
(* the float stamps of the index order instants exactly as the integers do: every pair of instants in 1700-2240 *)
Theorem C08_float_stamps_order_instants : forall a b, in_range a = true -> in_range b = true ->
  PrimFloat.ltb (stamp a) (stamp b) = Z.ltb a b /\ PrimFloat.eqb (stamp a) (stamp b) = Z.eqb a b /\
  PrimFloat.leb (stamp a) (stamp b) = Z.leb a b.
Proof. exact StampP.stamp_order_faithful. Qed.
(* a TEST evaluated by the kernel's VM over boundaries of float spacing and 20000 other instants *)
Example C08_float_stamps_adjacent_tested : forallb adjacent_ok samples = true.
Proof. exact stamp_adjacent_tested. Qed.

Print Assumptions C08_index_compares_instants.
Print Assumptions C08_comparison_is_integer_comparison.
Print Assumptions C08_sorted.
Print Assumptions C08_sorted_is_permutation.
Print Assumptions C08_sort_stable.
Print Assumptions C08_update_assigns_instant.
Print Assumptions C08_insert_stores_points_as_given.
Print Assumptions C08_float_stamps_order_instants.
Print Assumptions C08_float_stamps_adjacent_tested.
