(* CodecSem.v — the Python primitives the generated serializer (gen/CodecGen.v) is written with.  Definitions only. *)
From Coq Require Import List ZArith NArith Bool.
From TF Require Import Base Query Codec.
Import ListNotations.

(* bool(datetime): a datetime object is always true *)
Definition time_truthy (t : Z) : bool := true.
(* `a or b` on strings: the first operand unless it is empty *)
Definition py_or_str (a b : str) : str := match a with [] => b | _ => a end.
