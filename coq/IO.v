(* IO.v — the I/O scripts of CSVStorage (storages.py) and of the database operations that
   use it (database.py decorators and helpers).  A script is the list of calls that reach
   the operating system through the names open / NamedTemporaryFile / shutil / os inside
   tinyflux.storages, in program order; each step transforms a small world: the rows held by
   the primary file on disk, the rows written to the primary handle but not yet flushed, the
   temporary file, the staged copy.  Rows are kept decoded (the text layer is Csv.v).
   One flush is one atomic write in this model; the OS page cache is not modelled.
   Definitions only. *)
From Coq Require Import List ZArith NArith Bool Arith.
From TF Require Import Base Query Index DB.
Import ListNotations.

Record world := mkWorld {
  w_disk : list point;                 (* primary file content, as rows *)
  w_pend : list point;                 (* text buffer of the primary handle *)
  w_open : bool;                       (* primary handle open *)
  w_temp : option (list point * list point);   (* temp file: on disk, buffered *)
  w_staged : option (list point);      (* <path>.swap while a rewrite is being staged *)
  w_leftover : nat }.                  (* files left in the temp / database directory *)

Inductive iostep :=
(* primary handle *)
| PSeekEnd | PWrite (row : point) | PFlush | PFileno | PFsync | PTruncate   (* append *)
| PSeek0 | PNext                                                             (* reads *)
| PTruncate0                                                                 (* reset: truncate at 0 *)
| PClose | POpen
(* temporary file *)
| TCreate | TSeekEnd | TWrite (row : point) | TFlush | TFileno | TFsync | TTruncate | TClose | TRemove
(* staged copy and atomic replace *)
| CopyOpen | CopyMid | CopyDone | Replace.

Definition flush_temp (w : world) : world :=
  match w_temp w with
  | Some (d, b) => mkWorld (w_disk w) (w_pend w) (w_open w) (Some (d ++ b, [])) (w_staged w) (w_leftover w)
  | None => w
  end.

Definition apply (w : world) (s : iostep) : world :=
  match s with
  | PSeekEnd | PSeek0 =>                                       (* every seek flushes the text buffer *)
      mkWorld (w_disk w ++ w_pend w) [] (w_open w) (w_temp w) (w_staged w) (w_leftover w)
  | PWrite r => mkWorld (w_disk w) (w_pend w ++ [r]) (w_open w) (w_temp w) (w_staged w) (w_leftover w)
  | PFlush => mkWorld (w_disk w ++ w_pend w) [] (w_open w) (w_temp w) (w_staged w) (w_leftover w)
  | PFileno | PFsync | PTruncate | PNext => w
  | PTruncate0 => mkWorld [] [] (w_open w) (w_temp w) (w_staged w) (w_leftover w)
  | PClose => mkWorld (w_disk w ++ w_pend w) [] false (w_temp w) (w_staged w) (w_leftover w)
  | POpen => mkWorld (w_disk w) (w_pend w) true (w_temp w) (w_staged w) (w_leftover w)
  | TCreate => mkWorld (w_disk w) (w_pend w) (w_open w) (Some ([], [])) (w_staged w) (S (w_leftover w))
  | TSeekEnd | TFlush => flush_temp w
  | TWrite r => match w_temp w with
                | Some (d, b) => mkWorld (w_disk w) (w_pend w) (w_open w) (Some (d, b ++ [r])) (w_staged w) (w_leftover w)
                | None => w end
  | TFileno | TFsync | TTruncate => w
  | TClose => flush_temp w
  | TRemove => mkWorld (w_disk w) (w_pend w) (w_open w) None (w_staged w) (pred (w_leftover w))
  | CopyOpen => mkWorld (w_disk w) (w_pend w) (w_open w) (w_temp w) (Some []) (S (w_leftover w))
  | CopyMid => match w_temp w with
               | Some (d, _) => mkWorld (w_disk w) (w_pend w) (w_open w) (w_temp w) (Some (firstn (length d / 2) d)) (w_leftover w)
               | None => w end
  | CopyDone => match w_temp w with
                | Some (d, _) => mkWorld (w_disk w) (w_pend w) (w_open w) (w_temp w) (Some d) (w_leftover w)
                | None => w end
  | Replace => match w_staged w with
               | Some d => mkWorld d (w_pend w) (w_open w) (w_temp w) None (pred (w_leftover w))
               | None => w end
  end.

Definition run_steps (w : world) (ss : list iostep) : world := fold_left apply ss w.

(* ---- scripts of the storage methods ---------------------------------------------------- *)
Definition append_script (row : point) : list iostep := [PSeekEnd; PWrite row; PFlush; PFileno; PFsync; PTruncate].
Definition temp_append_script (row : point) : list iostep := [TSeekEnd; TWrite row; TFlush; TFileno; TFsync; TTruncate].
Definition swap_script : list iostep := [TFlush; PClose; CopyOpen; CopyMid; CopyDone; Replace; POpen].
Definition cleanup_script : list iostep := [TClose; TRemove].
Definition reset_script : list iostep := [PSeek0; PTruncate0].
(* a full scan of n rows through the csv reader: seek(0), one next per row, one more for the end *)
Definition scan_script (n : nat) : list iostep := PSeek0 :: repeat PNext (S n).

(* ---- what an operation does to storage (derived from its effect on the database state) ---- *)
Inductive plan :=
| PlNone                                   (* no storage access at all (answered by the index) *)
| PlRead                                   (* reads only *)
| PlAppend (rows : list point)             (* insert: one append per row *)
| PlTempOnly (staged : list point)         (* update/remove that ends without a swap *)
| PlRewrite (new_rows : list point)        (* update/remove: stage everything, swap, clean up *)
| PlReset (with_temp : bool).              (* truncate (remove_all, or a removal that matches everything) *)

Definition script_of (old : list point) (p : plan) : list iostep :=
  match p with
  | PlNone => []
  | PlRead => scan_script (length old)
  | PlAppend rows => flat_map append_script rows
  | PlTempOnly staged => TCreate :: scan_script (length old) ++ flat_map temp_append_script staged ++ cleanup_script
  | PlRewrite new_rows => TCreate :: scan_script (length old) ++ flat_map temp_append_script new_rows
                          ++ swap_script ++ cleanup_script
  | PlReset true => TCreate :: scan_script (length old) ++ reset_script ++ cleanup_script
  | PlReset false => reset_script
  end.

(* the plan of a database operation, read off the model's step (DB.v): what changed decides
   between append / rewrite / reset / nothing *)
Fixpoint is_prefix (a b : list point) : option (list point) :=
  match a, b with
  | [], rest => Some rest
  | x :: a', y :: b' => if point_eqb x y then is_prefix a' b' else None
  | _ :: _, [] => None
  end.
Definition rows_eqb (a b : list point) : bool :=
  match is_prefix a b with Some [] => true | _ => false end.

Definition uses_temp (o : op) : bool :=
  match o with
  | Remove _ _ | DropMeas _ | Update _ _ _ | UpdateAll _ => true
  | Handle _ (HRemove _) | Handle _ HRemoveAll | Handle _ (HUpdate _ _) | Handle _ (HUpdateAll _) => true
  | _ => false
  end.
Definition is_insert (o : op) : bool :=
  match o with Insert _ _ | Handle _ (HInsert _) => true | _ => false end.

Definition plan_of (o : op) (old new : list point) : plan :=
  if is_insert o then match is_prefix old new with Some added => PlAppend added | None => PlNone end
  else if uses_temp o then
    if rows_eqb old new then PlTempOnly old
    else match new with [] => PlReset true | _ => PlRewrite new end
  else match o with
       | RemoveAll => PlReset false
       | _ => if rows_eqb old new then PlRead else PlNone
       end.

Definition world_of (rows : list point) : world := mkWorld rows [] true None None 0.

(* the primary file content after every prefix of a script: what a crash at that boundary leaves *)
Fixpoint crash_states (w : world) (ss : list iostep) : list (list point) :=
  w_disk w :: match ss with [] => [] | s :: r => crash_states (apply w s) r end.

(* does the observed sequence of file contents walk monotonically through the model's sequence? *)
Fixpoint monotone_match (fuel : nat) (obs model : list (list point)) : bool :=
  match fuel with O => false | S f =>
  match obs, model with
  | [], _ => true
  | _ :: _, [] => false
  | o :: obs', m :: model' => if rows_eqb o m then monotone_match f obs' model
                              else monotone_match f obs model'
  end end.
