(* Property C09 — query expressions mean what the DSL says and never fail on valid points.
   `eval` (Query.v) follows SimpleQuery.__call__ / CompoundQuery.__call__ including their
   exception flow; `denote` (Spec.v) is the documented meaning.  Everything holds for every
   environment E (user map/test functions, re), every expression of any depth, every point.
   wf_query = the user's test functions are total (the DSL's own precondition). *)
From Coq Require Import List ZArith NArith Bool.
From TF Require Import Base Query Index DB Spec proofs.QueryP.
Import ListNotations.

Theorem C09_total : forall E q p, wf_query E q -> exists b, eval E q p = RB b.
Proof. exact eval_total. Qed.
Theorem C09_denote : forall E q p, wf_query E q -> eval E q p = RB (denote E q p).
Proof. exact eval_denote. Qed.
Theorem C09_not : forall E q p b, eval E q p = RB b -> eval E (QNot q) p = RB (negb b).
Proof. exact eval_not. Qed.
Theorem C09_and : forall E l r p a b, eval E l p = RB a -> eval E r p = RB b -> eval E (QAnd l r) p = RB (a && b).
Proof. exact eval_and. Qed.
Theorem C09_or : forall E l r p a b, eval E l p = RB a -> eval E r p = RB b -> eval E (QOr l r) p = RB (a || b).
Proof. exact eval_or. Qed.
Theorem C09_missing_tag_false : forall E k path t p, dget k (p_tags p) = None -> eval E (QS ATags (PKey k :: path) t) p = RB false.
Proof. exact missing_tag_false. Qed.
Theorem C09_missing_field_false : forall E k path t p, dget k (p_fields p) = None -> eval E (QS AFields (PKey k :: path) t) p = RB false.
Proof. exact missing_field_false. Qed.
Theorem C09_none_order_false : forall E c rhs, c <> Ceq -> c <> Cne -> run_test E (TCmp c rhs) VNone = RB false.
Proof. exact none_order_false. Qed.
Theorem C09_present_tag_cmp : forall E k c rhs p v, dget k (p_tags p) = Some v ->
  eval E (QS ATags [PKey k] (TCmp c rhs)) p = RB (match pycmp c (tagval v) rhs with Some b => b | None => false end).
Proof. exact present_tag_cmp. Qed.
Theorem C09_noop_true : forall E a p, eval E (QNoop a) p = RB true.
Proof. exact noop_true. Qed.

Print Assumptions C09_total.
Print Assumptions C09_denote.
Print Assumptions C09_not.
Print Assumptions C09_and.
Print Assumptions C09_or.
Print Assumptions C09_missing_tag_false.
Print Assumptions C09_none_order_false.
