(* Property C09 — query expressions mean what the DSL says and never fail on valid points.
   `eval` (Query.v) follows SimpleQuery.__call__ / CompoundQuery.__call__ including their
   exception flow; `denote` (Spec.v) is the documented meaning.  Everything holds for every
   environment E (user map/test functions, re), every expression of any depth, every point.
   wf_query = the user's test functions are total (the DSL's own precondition). *)
From Coq Require Import List ZArith NArith Bool.
From TF Require Import Base Query Index DB Spec proofs.QueryP proofs.LawsP QuerySem proofs.QueryGenP.
From TF Require gen.QueryGen.
Import ListNotations.

Theorem C09_total : forall E q p, wf_query E q -> exists b, eval E q p = RB b.
Proof. exact eval_total. Qed.
Theorem C09_denote : forall E q p, wf_query E q -> eval E q p = RB (denote E q p).
Proof. exact eval_denote. Qed.
Theorem C09_not : forall E q p b, eval E q p = RB b -> eval E (QNot q) p = RB (negb b).
Proof. exact eval_not. Qed.
Theorem C09_and : forall E l r p a b, eval E l p = RB a -> eval E r p = RB b -> eval E (QAnd l r) p = RB (a && b).
Proof. exact eval_and. Qed.
Theorem C09_or : forall E l r p a b, eval E l p = RB a -> eval E r p = RB b -> eval E (QOr l r) p = RB (a || b).
Proof. exact eval_or. Qed.
Theorem C09_missing_tag_false : forall E k path t p, dget k (p_tags p) = None -> eval E (QS ATags (PKey k :: path) t) p = RB false.
Proof. exact missing_tag_false. Qed.
Theorem C09_missing_field_false : forall E k path t p, dget k (p_fields p) = None -> eval E (QS AFields (PKey k :: path) t) p = RB false.
Proof. exact missing_field_false. Qed.
Theorem C09_none_order_false : forall E c rhs, c <> Ceq -> c <> Cne -> run_test E (TCmp c rhs) VNone = RB false.
Proof. exact none_order_false. Qed.
Theorem C09_present_tag_cmp : forall E k c rhs p v, dget k (p_tags p) = Some v ->
  eval E (QS ATags [PKey k] (TCmp c rhs)) p = RB (match pycmp c (tagval v) rhs with Some b => b | None => false end).
Proof. exact present_tag_cmp. Qed.
Theorem C09_noop_true : forall E a p, eval E (QNoop a) p = RB true.
Proof. exact noop_true. Qed.

(* the same meaning as laws on answers: a query and its negation split the (measurement-filtered) database, & is the
   intersection and | the union of the answers, both commute, ~~q is q, noop() selects everything *)
Theorem C09_query_and_negation_partition : forall E q m db,
  spec_count E q m db + spec_count E (QNot q) m db = length (filter (meas_pass m) db) /\
  (forall p, hit E q m p = true -> hit E (QNot q) m p = false).
Proof. exact query_and_negation_partition. Qed.
Theorem C09_and_is_intersection : forall E a b m db,
  spec_search E (QAnd a b) m false db = filter (fun p => denote E b p) (spec_search E a m false db).
Proof. exact and_is_intersection. Qed.
Theorem C09_or_is_union : forall E a b m db p,
  In p (spec_search E (QOr a b) m false db) <-> In p (spec_search E a m false db) \/ In p (spec_search E b m false db).
Proof. exact or_is_union. Qed.
Theorem C09_and_commutes : forall E a b m db, spec_search E (QAnd a b) m false db = spec_search E (QAnd b a) m false db.
Proof. exact and_commutes. Qed.
Theorem C09_or_commutes : forall E a b m db, spec_search E (QOr a b) m false db = spec_search E (QOr b a) m false db.
Proof. exact or_commutes. Qed.
Theorem C09_double_negation : forall E q m db, spec_search E (QNot (QNot q)) m false db = spec_search E q m false db.
Proof. exact double_negation. Qed.
Theorem C09_noop_selects_everything : forall E a m db, spec_search E (QNoop a) m false db = filter (meas_pass m) db.
Proof. exact noop_selects_everything. Qed.

(* REGENERATED from tinyflux/queries.py on every run (gen/QueryGen.v): each comparison dunder of the DSL tests with the function of
   `operator` the model's comparison stands for (== with operator.eq ... >= with operator.ge), matches calls re.match and search re.search,
   & | ~ of both query classes apply operator.and_ / or_ / not_ *)
Theorem C09_source_operator_table : (forall c, QueryGen.cmp_operator (meth_of_cmp c) = c) /\
  QueryGen.matches_is_search = false /\ QueryGen.search_is_search = true /\
  QueryGen.s_and_operator = BAnd /\ QueryGen.s_or_operator = BOr /\ QueryGen.s_not_operator = BNot /\
  QueryGen.c_and_operator = BAnd /\ QueryGen.c_or_operator = BOr /\ QueryGen.c_not_operator = BNot.
Proof. exact gen_tables. Qed.

(* evaluation as the SOURCE writes it - SimpleQuery.__call__ (a failing path resolver gives False), CompoundQuery.__call__ (both operands, then the
   operator), the test closure (comparisons swallow their exceptions, other tests propagate theirs), REGENERATED from tinyflux/queries.py on every
   run - is the model's eval, for every environment, query and point; with C09_denote: it is the documented meaning *)
Theorem C09_source_evaluation_is_the_model : forall E q p, gen_eval E q p = eval E q p.
Proof. exact gen_eval_eq. Qed.
Theorem C09_source_evaluation_is_the_documented_meaning : forall E q p, wf_query E q -> gen_eval E q p = RB (denote E q p).
Proof. exact gen_eval_denote. Qed.

Print Assumptions C09_total.
Print Assumptions C09_query_and_negation_partition.
Print Assumptions C09_and_is_intersection.
Print Assumptions C09_or_is_union.
Print Assumptions C09_and_commutes.
Print Assumptions C09_or_commutes.
Print Assumptions C09_double_negation.
Print Assumptions C09_noop_selects_everything.
Print Assumptions C09_denote.
Print Assumptions C09_not.
Print Assumptions C09_and.
Print Assumptions C09_or.
Print Assumptions C09_missing_tag_false.
Print Assumptions C09_none_order_false.
Print Assumptions C09_source_operator_table.
Print Assumptions C09_source_evaluation_is_the_model.
Print Assumptions C09_source_evaluation_is_the_documented_meaning.
