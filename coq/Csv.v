(* Csv.v — model of the standard library's csv.writer / csv.reader (Modules/_csv.c, CPython
   3.12) for the excel dialect family: any delimiter and quote character, QUOTE_MINIMAL or
   QUOTE_ALL, doublequote, lineterminator "\r\n", no escape character, not strict; the
   reader is fed the lines a text file opened with newline="" yields (split after "\n",
   after "\r\n" and after a lone "\r", terminators kept).  Standard-library behaviour:
   modelled, tied by correspondence, not verified.  Definitions only. *)
From Coq Require Import List ZArith NArith Bool Arith.
From TF Require Import Base.
Import ListNotations.

Record dialect := mkDialect { dl_delim : N; dl_quote : N; dl_quote_all : bool }.
Definition excel : dialect := mkDialect 44 34 false.
Definition CR : N := 13%N.
Definition LF : N := 10%N.

(* ---- writer -------------------------------------------------------------------------- *)
Definition special (D : dialect) (c : N) : bool :=
  N.eqb c (dl_delim D) || N.eqb c (dl_quote D) || N.eqb c CR || N.eqb c LF.
Definition write_field (D : dialect) (s : str) : str :=
  if dl_quote_all D || existsb (special D) s
  then dl_quote D :: flat_map (fun c => if N.eqb c (dl_quote D) then [c; c] else [c]) s ++ [dl_quote D]
  else s.
Fixpoint join_fields (D : dialect) (fs : list str) : str :=
  match fs with
  | [] => []
  | [f] => f
  | f :: r => f ++ dl_delim D :: join_fields D r
  end.
(* a row consisting of one empty field is written as a pair of quotes *)
Definition write_row (D : dialect) (cells : list str) : str :=
  match cells with
  | [[]] => [dl_quote D; dl_quote D; CR; LF]
  | _ => join_fields D (map (write_field D) cells) ++ [CR; LF]
  end.
Definition csv_write (D : dialect) (rows : list (list str)) : str := flat_map (write_row D) rows.

(* ---- the lines a newline="" text file yields ------------------------------------------ *)
Fixpoint split_lines (fuel : nat) (cur : str) (s : str) : list str :=
  match fuel with O => [] | S f =>
  match s with
  | [] => match cur with [] => [] | _ => [rev cur] end
  | c :: r =>
    if N.eqb c LF then rev (c :: cur) :: split_lines f [] r
    else if N.eqb c CR then
      match r with
      | c' :: r' => if N.eqb c' LF then rev (c' :: c :: cur) :: split_lines f [] r'
                    else rev (c :: cur) :: split_lines f [] r
      | [] => [rev (c :: cur)]
      end
    else split_lines f (c :: cur) r
  end end.
Definition file_lines (s : str) : list str := split_lines (S (length s)) [] s.

(* ---- reader state machine -------------------------------------------------------------- *)
Inductive rstate := StartRecord | StartField | InField | InQuoted | QuoteInQuoted | EatCRNL.

Record reader := mkReader { r_state : rstate; r_field : str (* reversed *); r_fields : list str (* reversed *) }.
Definition r_init : reader := mkReader StartRecord [] [].
Definition save_field (r : reader) (st : rstate) : reader := mkReader st [] (rev (r_field r) :: r_fields r).
Definition add_char (r : reader) (c : N) (st : rstate) : reader := mkReader st (c :: r_field r) (r_fields r).
Definition set_state (r : reader) (st : rstate) : reader := mkReader st (r_field r) (r_fields r).

(* one character (Some c) or the end-of-line marker (None); result None = _csv.Error *)
Definition feed (D : dialect) (r : reader) (c : option N) : option reader :=
  let nl := match c with Some x => N.eqb x CR || N.eqb x LF | None => false end in
  let start_field :=
    match c with
    | None => Some (save_field r StartRecord)
    | Some x => if nl then Some (save_field r EatCRNL)
                else if N.eqb x (dl_quote D) then Some (set_state r InQuoted)
                else if N.eqb x (dl_delim D) then Some (save_field r StartField)
                else Some (add_char r x InField)
    end in
  match r_state r with
  | StartRecord =>
    match c with
    | None => Some r                                           (* empty line *)
    | Some x => if nl then Some (set_state r EatCRNL) else start_field
    end
  | StartField => start_field
  | InField =>
    match c with
    | None => Some (save_field r StartRecord)
    | Some x => if nl then Some (save_field r EatCRNL)
                else if N.eqb x (dl_delim D) then Some (save_field r StartField)
                else Some (add_char r x InField)
    end
  | InQuoted =>
    match c with
    | None => Some r
    | Some x => if N.eqb x (dl_quote D) then Some (set_state r QuoteInQuoted) else Some (add_char r x InQuoted)
    end
  | QuoteInQuoted =>
    match c with
    | None => Some (save_field r StartRecord)
    | Some x => if N.eqb x (dl_quote D) then Some (add_char r x InQuoted)
                else if N.eqb x (dl_delim D) then Some (save_field r StartField)
                else if nl then Some (save_field r EatCRNL)
                else Some (add_char r x InField)
    end
  | EatCRNL =>
    match c with
    | None => Some (set_state r StartRecord)
    | Some x => if nl then Some r else None                   (* new-line character seen in unquoted field *)
    end
  end.

Fixpoint feed_line (D : dialect) (r : reader) (line : str) : option reader :=
  match line with
  | [] => feed D r None
  | c :: rest => match feed D r (Some c) with None => None | Some r' => feed_line D r' rest end
  end.

(* Reader.__next__ over the remaining lines: Some (record, rest) | end of data | error *)
Inductive next := NRecord (rec : list str) (rest : list str) | NEnd | NError.
Fixpoint read_record (D : dialect) (r : reader) (lines : list str) : next :=
  match lines with
  | [] =>
    (* end of input in the middle of a record *)
    match r_state r with
    | StartRecord => NEnd
    | _ => if match r_field r with [] => false | _ => true end || match r_state r with InQuoted => true | _ => false end
           then NRecord (rev (rev (r_field r) :: r_fields r)) []
           else NEnd
    end
  | l :: rest =>
    match feed_line D r l with
    | None => NError
    | Some r' => match r_state r' with
                 | StartRecord => NRecord (rev (r_fields r')) rest
                 | _ => read_record D r' rest
                 end
    end
  end.

Fixpoint read_all (D : dialect) (fuel : nat) (lines : list str) : option (list (list str)) :=
  match fuel with O => None | S f =>
  match read_record D r_init lines with
  | NEnd => Some []
  | NError => None
  | NRecord rec rest => option_map (cons rec) (read_all D f rest)
  end end.
Definition csv_read (D : dialect) (text : str) : option (list (list str)) :=
  let ls := file_lines text in read_all D (S (length ls)) ls.
