(* InsertSem.v — the primitives gen/InsertGen.v (generated from TinyFlux._insert_helper) is written with.  Definitions only. *)
From Coq Require Import List ZArith NArith Bool Arith.
From TF Require Import Base Query Index DB.
Import ListNotations.

(* `if measurement:` - None and the empty string are falsy *)
Definition m_truthy (m : option str) : bool := match truthy m with Some _ => true | None => false end.
(* point.measurement == measurement *)
Definition meas_is (p : point) (m : option str) : bool := match m with Some n => str_eqb (p_meas p) n | None => false end.
(* point.measurement = measurement *)
Definition set_meas_o (p : point) (m : option str) : point := match m with Some n => set_meas p n | None => p end.
(* point.time < self._index.latest_time (reached only for a non-empty index) *)
Definition time_before (p : point) (latest : option Z) : bool := match latest with Some t => Z.ltb (p_time p) t | None => false end.
