(* Property C16 — insert is append-only and its I/O cost does not depend on database size.
   About the I/O script of an insert (IO.v, plan PlAppend): the previous content is a prefix
   of the new content, the script is the same whatever is already stored, it has six calls
   per inserted point, and it contains no read, no seek to the start and no truncation at
   zero.  Out-of-order inserts touch only the index (DB.v: insert_loop appends to storage in
   every branch). *)
From Coq Require Import List ZArith NArith Bool.
From TF Require Import Base Query Index DB IO proofs.IOP proofs.IOGenP.
From TF Require gen.IOGen.
Import ListNotations.

Theorem C16_old_is_prefix : forall old rows,
  exists added, w_disk (run_steps (world_of old) (script_of old (PlAppend rows))) = old ++ added.
Proof. exact append_prefix. Qed.
Theorem C16_appends_exactly : forall old rows,
  let w := run_steps (world_of old) (script_of old (PlAppend rows)) in w_disk w = old ++ rows /\ clean w.
Proof. exact (fun old rows => run_script_complete old (PlAppend rows)). Qed.
Theorem C16_same_calls_at_every_size : forall old1 old2 rows,
  script_of old1 (PlAppend rows) = script_of old2 (PlAppend rows).
Proof. exact append_script_same_calls. Qed.
Theorem C16_constant_calls_per_point : forall old rows, length (script_of old (PlAppend rows)) = 6 * length rows.
Proof. exact append_script_length. Qed.
Theorem C16_reads_nothing : forall old rows,
  ~ In PNext (script_of old (PlAppend rows)) /\ ~ In PSeek0 (script_of old (PlAppend rows)) /\
  ~ In PTruncate0 (script_of old (PlAppend rows)).
Proof. exact append_script_no_read. Qed.

(* the I/O calls REGENERATED from tinyflux/storages.py on every run (gen/IOGen.v: symbolic execution of CSVStorage.append, _write([]) / reset,
   _init_temp_storage, _swap_temp_with_primary, _cleanup_temp_storage, __iter__ along their success path) are the scripts of the model, for every
   plan of an operation: every theorem of this file about script_of is a theorem about the calls the source makes now *)
Theorem C16_source_scripts_are_the_model : forall old p, gen_script_of old p = script_of old p.
Proof. exact gen_script_of_eq. Qed.

Print Assumptions C16_old_is_prefix.
Print Assumptions C16_appends_exactly.
Print Assumptions C16_same_calls_at_every_size.
Print Assumptions C16_constant_calls_per_point.
Print Assumptions C16_reads_nothing.
Print Assumptions C16_source_scripts_are_the_model.
