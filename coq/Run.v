(* Run.v — what the correspondence harness evaluates: run the model on an operation list
   under the twin environment and report the first step whose output differs from the
   output the implementation produced.  Definitions only. *)
From Coq Require Import List ZArith NArith Bool Arith.
From TF Require Import Base Query Index DB Codec Twins.
Import ListNotations.

Fixpoint list_eqb {A} (eqb : A -> A -> bool) (a b : list A) : bool :=
  match a, b with [], [] => true | x :: a', y :: b' => eqb x y && list_eqb eqb a' b' | _, _ => false end.
Definition opt_eqb {A} (eqb : A -> A -> bool) (a b : option A) : bool :=
  match a, b with Some x, Some y => eqb x y | None, None => true | _, _ => false end.

(* structural equality for reporting (NaN equals NaN here: outputs are compared as data) *)
Definition num_same (a b : num) : bool :=
  match a, b with NNaN, NNaN => true | _, _ => num_eqb a b end.
Definition point_same (a b : point) : bool :=
  Z.eqb (p_time a) (p_time b) && str_eqb (p_meas a) (p_meas b)
  && list_eqb (fun x y => str_eqb (fst x) (fst y) && ostr_eqb (snd x) (snd y)) (p_tags a) (p_tags b)
  && list_eqb (fun x y => str_eqb (fst x) (fst y) && opt_eqb num_same (snd x) (snd y)) (p_fields a) (p_fields b).
Definition value_same (a b : value) : bool :=
  match a, b with VNum x, VNum y => num_same x y | VDict _, _ | _, VDict _ => false | _, _ => value_eqb a b end.

Definition out_eqb (a b : out) : bool :=
  match a, b with
  | OPoints x, OPoints y => list_eqb point_same x y
  | OPoint x, OPoint y => opt_eqb point_same x y
  | ONat x, ONat y => Nat.eqb x y
  | OBool x, OBool y => Bool.eqb x y
  | OSel x, OSel y => list_eqb (list_eqb value_same) x y
  | OStrs x, OStrs y => list_eqb str_eqb x y
  | OTagVals x, OTagVals y => list_eqb (fun p q => str_eqb (fst p) (fst q) && list_eqb ostr_eqb (snd p) (snd q)) x y
  | ONums x, ONums y => list_eqb (opt_eqb num_same) x y
  | OTimes x, OTimes y => list_eqb Z.eqb x y
  | OUnit, OUnit => true
  | ORaise, ORaise => true
  | _, _ => false
  end.

Fixpoint first_diff (i : nat) (a b : list out) : option nat :=
  match a, b with
  | [], [] => None
  | x :: a', y :: b' => if out_eqb x y then first_diff (S i) a' b' else Some i
  | _, _ => Some i
  end.

Definition model_run (csv auto : bool) (ops : list op) : list out :=
  fst (run twinE twinC (if csv then csv_norm else (fun p => p)) (init auto) ops).

(* one case: configuration, operations, the implementation's outputs *)
Definition case := (bool * bool * list op * list out)%type.
Definition check_case (c : case) : option nat :=
  let '(csv, auto, ops, expected) := c in first_diff 0 (model_run csv auto ops) expected.

(* indices of diverging cases with the step of first divergence: [case; step; case; step; ...] *)
Fixpoint diverging (i : nat) (cs : list case) : list nat :=
  match cs with
  | [] => []
  | c :: r => match check_case c with None => diverging (S i) r | Some k => i :: k :: diverging (S i) r end
  end.
