(* Index.v — the in-memory index (index.py): time-sorted instants with parallel storage
   positions, inverted maps for measurements / tags / fields, incremental maintenance,
   search and getters.  Follows the code statement by statement.  Definitions only. *)
From Coq Require Import List ZArith NArith Bool Arith.
From TF Require Import Base Bisect UtilsHand Query.
Import ListNotations.

(* An inverted map: key -> bucket of (storage position, payload), in first-insertion order
   of keys; buckets in insertion order.  _measurements: payload unit; _tags: key is the
   pair (tag key, tag value) (the code nests two dicts; the flattening is not observable);
   _fields: payload is the field value. *)
Section IMap.
Context {K V : Type} (keqb : K -> K -> bool).
Definition imap := list (K * list (nat * V)).
Fixpoint im_add (k : K) (i : nat) (v : V) (m : imap) : imap :=
  match m with
  | [] => [(k, [(i, v)])]
  | (k', b) :: r => if keqb k k' then (k', b ++ [(i, v)]) :: r else (k', b) :: im_add k i v r
  end.
Fixpoint im_get (k : K) (m : imap) : list (nat * V) :=
  match m with [] => [] | (k', b) :: r => if keqb k k' then b else im_get k r end.
Definition im_has (k : K) (m : imap) : bool := existsb (fun kb => keqb k (fst kb)) m.
(* _remove_*: drop removed positions, drop emptied buckets *)
Definition im_remove (rm : nat -> bool) (m : imap) : imap :=
  filter (fun kb => match snd kb with [] => false | _ => true end)
         (map (fun kb => (fst kb, filter (fun iv => negb (rm (fst iv))) (snd kb))) m).
(* _update_*: renumber positions *)
Definition im_renumber (f : nat -> nat) (m : imap) : imap :=
  map (fun kb => (fst kb, map (fun iv => (f (fst iv), snd iv)) (snd kb))) m.
End IMap.
Arguments imap : clear implicits.

Definition tkey := (str * option str)%type.
Definition tkey_eqb (a b : tkey) : bool := str_eqb (fst a) (fst b) && ostr_eqb (snd a) (snd b).

Record index := mkIndex {
  ix_n : nat;                               (* _num_items *)
  ix_valid : bool;
  ix_ts : list Z;                           (* _timestamps, ascending *)
  ix_pos : list nat;                        (* _storage_pos_sorted_by_ts *)
  ix_meas : imap str unit;
  ix_tags : imap tkey unit;
  ix_fields : imap str (option num) }.

Definition ix_empty_valid (v : bool) : index := mkIndex 0 v [] [] [] [] [].
Definition ix_reset (i : index) : index := ix_empty_valid true.          (* _reset *)
Definition ix_invalidate (i : index) : index := ix_empty_valid false.    (* invalidate *)

(* Index.empty *)
Definition ix_is_empty (i : index) : bool :=
  Nat.eqb (ix_n i) 0 && match ix_tags i with [] => true | _ => false end
  && match ix_fields i with [] => true | _ => false end
  && match ix_meas i with [] => true | _ => false end
  && match ix_ts i with [] => true | _ => false end.

Definition add_tags (idx : nat) (tags : list (str * option str)) (m : imap tkey unit) : imap tkey unit :=
  fold_left (fun acc kv => im_add tkey_eqb kv idx tt acc) tags m.
Definition add_fields (idx : nat) (fs : list (str * option num)) (m : imap str (option num)) :=
  fold_left (fun acc kv => im_add str_eqb (fst kv) idx (snd kv) acc) fs m.

(* Index.insert([point]): the new position is len(_timestamps) *)
Definition ix_insert (i : index) (p : point) : index :=
  let idx := length (ix_ts i) in
  mkIndex (S (ix_n i)) (ix_valid i)
          (ix_ts i ++ [p_time p]) (ix_pos i ++ [idx])
          (im_add str_eqb (p_meas p) idx tt (ix_meas i))
          (add_tags idx (p_tags p) (ix_tags i))
          (add_fields idx (p_fields p) (ix_fields i)).

(* Index.build(points): maps filled in storage order, (instant, position) pairs stably
   sorted by instant. *)
Definition ix_build (pts : list point) : index :=
  let maps := fold_left (fun acc (ip : nat * point) =>
                let '(ms, ts, fs) := acc in
                (im_add str_eqb (p_meas (snd ip)) (fst ip) tt ms,
                 add_tags (fst ip) (p_tags (snd ip)) ts,
                 add_fields (fst ip) (p_fields (snd ip)) fs))
              (combine (seq 0 (length pts)) pts) ([], [], []) in
  let '(ms, ts, fs) := maps in
  let buf := stable_sort (fun a b : Z * nat => Z.leb (fst a) (fst b))
                         (combine (map p_time pts) (seq 0 (length pts))) in
  mkIndex (length pts) true (map fst buf) (map snd buf) ms ts fs.

(* Index.remove(r_items) followed by Index.update(u_items) *)
Definition ix_remove (i : index) (rm : nat -> bool) (nrm : nat) : index :=
  let kept := filter (fun tp => negb (rm (snd tp))) (combine (ix_ts i) (ix_pos i)) in
  mkIndex (ix_n i - nrm) (ix_valid i) (map fst kept) (map snd kept)
          (im_remove rm (ix_meas i)) (im_remove rm (ix_tags i)) (im_remove rm (ix_fields i)).
Definition ix_renumber (i : index) (f : nat -> nat) : index :=
  mkIndex (ix_n i) (ix_valid i) (ix_ts i) (map f (ix_pos i))
          (im_renumber f (ix_meas i)) (im_renumber f (ix_tags i)) (im_renumber f (ix_fields i)).

(* ---- search ----------------------------------------------------------------------- *)
Definition positions {V} (b : list (nat * V)) : list nat := map fst b.

Section Search.
Variable E : env.

(* a set-valued search result or an exception *)
Definition sres := option (list nat).

Definition zfind_eq := @find_eq Z Z.ltb Z.eqb.
Definition zfind_lt := @find_lt Z Z.ltb.
Definition zfind_le := @find_le Z Z.ltb.
Definition zfind_gt := @find_gt Z Z.ltb.
Definition zfind_ge := @find_ge Z Z.ltb.

(* the run of equal timestamps starting at the leftmost match *)
Fixpoint eq_run (t : Z) (tps : list (Z * nat)) : list nat :=
  match tps with
  | (t', p) :: r => if Z.eqb t' t then p :: eq_run t r else []
  | [] => []
  end.

Definition search_time_cmp (i : index) (c : cmp) (t : Z) : sres :=
  let ts := ix_ts i in let pos := ix_pos i in
  match c with
  | Ceq => match zfind_eq ts t with
           | Ret None => Some []
           | Ret (Some m) => Some (dedup (eq_run t (skipn (Z.to_nat m) (combine ts pos))))
           | Raise => None end
  | Cne => match zfind_eq ts t with
           | Ret None => Some (dedup pos)
           | Ret (Some m) => let r := eq_run t (skipn (Z.to_nat m) (combine ts pos)) in
                             Some (filter (fun x => negb (mem x r)) (dedup pos))
           | Raise => None end
  | Clt => match zfind_lt ts t with
           | Ret None => Some [] | Ret (Some m) => Some (dedup (firstn (Z.to_nat m + 1) pos)) | Raise => None end
  | Cle => match zfind_le ts t with
           | Ret None => Some [] | Ret (Some m) => Some (dedup (firstn (Z.to_nat m + 1) pos)) | Raise => None end
  | Cgt => match zfind_gt ts t with
           | Ret None => Some [] | Ret (Some m) => Some (dedup (skipn (Z.to_nat m) pos)) | Raise => None end
  | Cge => match zfind_ge ts t with
           | Ret None => Some [] | Ret (Some m) => Some (dedup (skipn (Z.to_nat m) pos)) | Raise => None end
  end.

(* fold over candidates: test each resolved value; a raising test aborts the search.
   `strict` = the path resolver is not guarded (the generic branch of _search_timestamps). *)
Fixpoint search_scan (strict : bool) (path : list part) (t : test)
         (cands : list (value * list nat)) (acc : list nat) : sres :=
  match cands with
  | [] => Some acc
  | (v, items) :: r =>
    match resolve E path v with
    | None => if strict then None else search_scan strict path t r acc
    | Some w => match run_test E t w with
                | RRaise => None
                | RB true => search_scan strict path t r (set_union acc (dedup items))
                | RB false => search_scan strict path t r acc
                end
    end
  end.

Definition search_simple (i : index) (a : attr) (path : list part) (t : test) : sres :=
  match a with
  | ATime =>
    match t with
    | TCmp c (VTime rhs) => search_time_cmp i c rhs       (* looks at operator and rhs only *)
    | _ => search_scan true path t                        (* anything that carries no datetime to bisect on is a test like any other *)
             (map (fun tp => (VTime (fst tp), [snd tp])) (combine (ix_ts i) (ix_pos i))) []
    end
  | AMeas => search_scan false path t
               (map (fun kb => (VStr (fst kb), positions (snd kb))) (ix_meas i)) []
  | ATags => search_scan false path t
               (map (fun kb => (VDict [(fst (fst kb), tagval (snd (fst kb)))], positions (snd kb))) (ix_tags i)) []
  | AFields => search_scan false path t
               (flat_map (fun kb => map (fun iv => (VDict [(fst kb, fieldval (snd iv))], [fst iv])) (snd kb))
                         (ix_fields i)) []
  end.

Definition is_field_simple (q : query) : bool :=
  match q with QS AFields _ _ | QNoop AFields => true | _ => false end.

(* _search_helper *)
Fixpoint isearch (i : index) (q : query) : sres :=
  match q with
  | QNoop _ => Some (seq 0 (ix_n i))
  | QS a path t => search_simple i a path t
  | QAnd l r => match isearch i l with None => None | Some x =>
                match isearch i r with None => None | Some y => Some (set_inter x y) end end
  | QOr l r => match isearch i l with None => None | Some x =>
               match isearch i r with None => None | Some y => Some (set_union x y) end end
  | QNot q' => match isearch i q' with None => None | Some x =>
               if is_field_simple q' then Some (seq 0 (ix_n i))       (* candidates, not matches *)
               else Some (set_compl (ix_n i) x) end
  end.
End Search.

(* ---- getters ---------------------------------------------------------------------- *)
Definition im_keys {K V} (m : imap K V) : list K := map fst m.
Definition meas_items (i : index) (m : str) : option (list nat) :=
  if im_has str_eqb m (ix_meas i) then Some (positions (im_get str_eqb m (ix_meas i))) else None.
Definition overlaps (a b : list nat) : bool := existsb (fun x => mem x b) a.

Definition truthy (m : option str) : option str := match m with Some ((_ :: _) as s) => Some s | _ => None end.

Definition ix_get_measurements (i : index) : list str := sort_dedup (im_keys (ix_meas i)).

Definition ix_get_field_keys (i : index) (m : option str) : list str :=
  match truthy m with
  | None => sort_dedup (im_keys (ix_fields i))
  | Some name => match meas_items i name with
                 | None => []
                 | Some ms => sort_dedup (map fst (filter (fun kb => overlaps ms (positions (snd kb))) (ix_fields i)))
                 end
  end.

Definition ix_get_field_values (i : index) (k : str) (m : option str) : list (option num) :=
  match truthy m with
  | None => map snd (im_get str_eqb k (ix_fields i))
  | Some name => match meas_items i name with
                 | None => []
                 | Some ms => map snd (filter (fun iv => mem (fst iv) ms) (im_get str_eqb k (ix_fields i)))
                 end
  end.

Definition ix_get_tag_keys (i : index) (m : option str) : list str :=
  match truthy m with
  | None => sort_dedup (map fst (im_keys (ix_tags i)))
  | Some name => match meas_items i name with
                 | None => []
                 | Some ms => sort_dedup (map (fun kb => fst (fst kb))
                                (filter (fun kb => overlaps ms (positions (snd kb))) (ix_tags i)))
                 end
  end.

(* get_tag_values(tag_keys, measurement) -> {key: sorted values, None last}; the result
   dict is given with keys ascending (dict equality ignores order). *)
Definition ix_get_tag_values (i : index) (ks : list str) (m : option str) : list (str * list (option str)) :=
  let buckets := match truthy m with
                 | None => Some (ix_tags i)
                 | Some name => match meas_items i name with
                                | None => None
                                | Some ms => Some (filter (fun kb => overlaps ms (positions (snd kb))) (ix_tags i))
                                end
                 end in
  let keys_of b := sort_dedup (map (fun kb => fst (fst kb)) b) in
  let vals_of b k := sort_none_last (map (fun kb => snd (fst kb)) (filter (fun kb => str_eqb (fst (fst kb)) k) b)) in
  match ks, buckets with
  | [], None => []
  | [], Some b => map (fun k => (k, vals_of b k)) (keys_of b)
  | _ :: _, None => map (fun k => (k, [])) (sort_dedup ks)
  | _ :: _, Some b => map (fun k => (k, vals_of b k)) (sort_dedup ks)
  end.

(* get_timestamps(measurement): instants in storage-position order *)
Definition ix_get_timestamps (i : index) (m : option str) : list Z :=
  let zipped := combine (ix_ts i) (ix_pos i) in
  let by_pos := stable_sort (fun a b : Z * nat => Nat.leb (snd a) (snd b)) in
  match truthy m with
  | None => map fst (by_pos zipped)
  | Some name => match meas_items i name with
                 | None => []
                 | Some ms => map fst (by_pos (filter (fun tp => mem (snd tp) ms) zipped))
                 end
  end.

(* Index.latest_time *)
Definition ix_latest (i : index) : option Z := last (map Some (ix_ts i)) None.
