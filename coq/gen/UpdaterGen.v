(* GENERATED on every run by harness/py2coq_updater.py from tinyflux/database.py (the closure perform_update of TinyFlux._generate_updater) - do not edit.
   proofs/UpdaterGenP.v proves it the model's DB.perform_update. *)
From Coq Require Import List Bool ZArith NArith.
From TF Require Import Base Query DB UpdaterSem.
Import ListNotations.

Definition refused : bool := false.

Section Updater.
Variable C : cenv.

(* the block `if time:` *)
Definition gen_step_time (u : updspec) (point0 : point) : option point :=
  if truthy_time (u_time u) then match u_time u with UCall id => option_map (fun v => set_time point0 v) (c_time C id (p_time point0)) | UStatic v => Some (set_time point0 v) | UNone => Some point0 end else Some point0.

(* the block `if measurement:` *)
Definition gen_step_measurement (u : updspec) (point0 : point) : option point :=
  if truthy_str (u_meas u) then match u_meas u with UCall id => option_map (fun v => set_meas point0 v) (c_meas C id (p_meas point0)) | UStatic v => Some (set_meas point0 v) | UNone => Some point0 end else Some point0.

(* the block `if tags:` *)
Definition gen_step_tags (u : updspec) (point0 : point) : option point :=
  if truthy_dict (u_tags u) then match u_tags u with UCall id => option_map (fun v => set_tags point0 (dupdate (p_tags point0) v)) (c_tags C id (p_tags point0)) | UStatic v => Some (set_tags point0 (dupdate (p_tags point0) v)) | UNone => Some point0 end else Some point0.

(* the block `if fields:` *)
Definition gen_step_fields (u : updspec) (point0 : point) : option point :=
  if truthy_dict (u_fields u) then match u_fields u with UCall id => option_map (fun v => set_fields point0 (dupdate (p_fields point0) v)) (c_fields C id (p_fields point0)) | UStatic v => Some (set_fields point0 (dupdate (p_fields point0) v)) | UNone => Some point0 end else Some point0.

(* the block `if unset_tags:` *)
Definition gen_step_unset_tags (u : updspec) (point0 : point) : option point :=
  if truthy_keys (u_unset_tags u) then Some (set_tags point0 (dict_without (u_unset_tags u) (p_tags point0))) else Some point0.

(* the block `if unset_fields:` *)
Definition gen_step_unset_fields (u : updspec) (point0 : point) : option point :=
  if truthy_keys (u_unset_fields u) then Some (set_fields point0 (dict_without (u_unset_fields u) (p_fields point0))) else Some point0.

(* the blocks in the order of the source; a step that raises leaves the earlier steps applied *)
Definition gen_perform_update (u : updspec) (point0 : point) : ures :=
  match gen_step_time u point0 with
  | None => UFail point0
  | Some point1 =>
  match gen_step_measurement u point1 with
  | None => UFail point1
  | Some point2 =>
  match gen_step_tags u point2 with
  | None => UFail point2
  | Some point3 =>
  match gen_step_fields u point3 with
  | None => UFail point3
  | Some point4 =>
  match gen_step_unset_tags u point4 with
  | None => UFail point4
  | Some point5 =>
  match gen_step_unset_fields u point5 with
  | None => UFail point5
  | Some point6 =>
  UOk point6
  end end end end end end.

End Updater.
