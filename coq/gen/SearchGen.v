(* GENERATED on every run by harness/py2coq_search.py from tinyflux/index.py (IndexResult, Index._search_helper,
   Index._search_timestamps) - do not edit.  proofs/SearchGenP.v proves search_helper equal, for every index, every query
   and enough fuel, to the hand model Index.isearch. *)
From Coq Require Import List ZArith Bool.
From TF Require Import Base Bisect UtilsHand Query QueryObj Index SearchSem.
Import ListNotations.

Definition ir_invert (self : iresult) : iresult :=
  mk_ir (set_difference (set_range (ir_count self)) (ir_items self)) (ir_count self).
Definition ir_and (self other : iresult) : iresult :=
  mk_ir (set_inter (ir_items self) (ir_items other)) (ir_count self).
Definition ir_or (self other : iresult) : iresult :=
  mk_ir (set_union (ir_items self) (ir_items other)) (ir_count self).

Section Gen.
Variable E : env.

Definition search_timestamps (i : index) (query : query) : sres :=
  (if (q_op_is_dt query Ceq)
    then (opt_bind (q_rhs_stamp query) (fun x =>
      find_res (zfind_eq (ix_ts i) x) (fun match_o =>
      (match match_o with
      | None => (Some (@nil nat))
      | Some match_z => (let results := eq_run_from i x match_z in
      (Some results))
      end))))
    else (if (q_op_is_dt query Cne)
    then (opt_bind (q_rhs_stamp query) (fun x =>
      find_res (zfind_eq (ix_ts i) x) (fun match_o =>
      (match match_o with
      | None => (Some (set_of (ix_pos i)))
      | Some match_z => (let results := eq_run_from i x match_z in
      (Some (set_difference (set_of (ix_pos i)) results)))
      end))))
    else (if (q_op_is_dt query Clt)
    then (opt_bind (q_rhs_stamp query) (fun x =>
      find_res (zfind_lt (ix_ts i) x) (fun match_o =>
      (match match_o with
      | None => (Some (@nil nat))
      | Some match_z => (Some (set_of (slice_to (ix_pos i) (match_z + 1)%Z)))
      end))))
    else (if (q_op_is_dt query Cle)
    then (opt_bind (q_rhs_stamp query) (fun x =>
      find_res (zfind_le (ix_ts i) x) (fun match_o =>
      (match match_o with
      | None => (Some (@nil nat))
      | Some match_z => (Some (set_of (slice_to (ix_pos i) (match_z + 1)%Z)))
      end))))
    else (if (q_op_is_dt query Cgt)
    then (opt_bind (q_rhs_stamp query) (fun x =>
      find_res (zfind_gt (ix_ts i) x) (fun match_o =>
      (match match_o with
      | None => (Some (@nil nat))
      | Some match_z => (Some (set_of (slice_from (ix_pos i) match_z)))
      end))))
    else (if (q_op_is_dt query Cge)
    then (opt_bind (q_rhs_stamp query) (fun x =>
      find_res (zfind_ge (ix_ts i) x) (fun match_o =>
      (match match_o with
      | None => (Some (@nil nat))
      | Some match_z => (Some (set_of (slice_from (ix_pos i) match_z)))
      end))))
    else (time_scan E i query))))))).

Fixpoint search_helper (fuel : nat) (i : index) (query : query) : option iresult :=
  match fuel with O => None | S fuel' =>
  let rec := search_helper fuel' i in
  (if (q_isinst KCompound query)
    then (if (opname_eqb (q_operator query) OAnd)
    then (opt_bind (rec (q_query1 query)) (fun rst1_0 =>
      (opt_bind (match (q_query2 query) with Some q2 => rec q2 | None => None end) (fun rst2_1 =>
      (Some (ir_and rst1_0 rst2_1))))))
    else (if (opname_eqb (q_operator query) OOr)
    then (opt_bind (rec (q_query1 query)) (fun rst1_0 =>
      (opt_bind (match (q_query2 query) with Some q2 => rec q2 | None => None end) (fun rst2_1 =>
      (Some (ir_or rst1_0 rst2_1))))))
    else (if (opname_eqb (q_operator query) ONot)
    then (opt_bind (rec (q_query1 query)) (fun rst_0 =>
      (if (andb (q_isinst KSimple (q_query1 query)) (attr_name_eqb (q_point_attr (q_query1 query)) AFields))
    then (let rst_1 := mk_ir (set_range (ix_n i)) (ir_count rst_0) in
      (Some rst_1))
    else (Some (ir_invert rst_0)))))
    else (if (q_isinst KSimple query)
    then (if (q_hash_is_empty query)
    then (Some (mk_ir (set_range (ix_n i)) (ix_n i)))
    else (if (attr_name_eqb (q_point_attr query) ATime)
    then (opt_bind (search_timestamps i query) (fun s => Some (mk_ir s (ix_n i))))
    else (if (attr_name_eqb (q_point_attr query) AMeas)
    then (opt_bind (m_search_measurement E i query) (fun s => Some (mk_ir s (ix_n i))))
    else (if (attr_name_eqb (q_point_attr query) ATags)
    then (opt_bind (m_search_tags E i query) (fun s => Some (mk_ir s (ix_n i))))
    else (if (attr_name_eqb (q_point_attr query) AFields)
    then (opt_bind (m_search_fields E i query) (fun s => Some (mk_ir s (ix_n i))))
    else None)))))
    else None))))
    else (if (q_isinst KSimple query)
    then (if (q_hash_is_empty query)
    then (Some (mk_ir (set_range (ix_n i)) (ix_n i)))
    else (if (attr_name_eqb (q_point_attr query) ATime)
    then (opt_bind (search_timestamps i query) (fun s => Some (mk_ir s (ix_n i))))
    else (if (attr_name_eqb (q_point_attr query) AMeas)
    then (opt_bind (m_search_measurement E i query) (fun s => Some (mk_ir s (ix_n i))))
    else (if (attr_name_eqb (q_point_attr query) ATags)
    then (opt_bind (m_search_tags E i query) (fun s => Some (mk_ir s (ix_n i))))
    else (if (attr_name_eqb (q_point_attr query) AFields)
    then (opt_bind (m_search_fields E i query) (fun s => Some (mk_ir s (ix_n i))))
    else None)))))
    else None))
  end.
End Gen.
