(* GENERATED on every run by harness/py2coq_guard.py from tinyflux/database.py (index_is_exact) - do not edit.
   proofs/GuardGenP.v proves it equal, for every query and enough fuel, to the hand model DB.index_is_exact. *)
From Coq Require Import List Bool.
From TF Require Import Base Query QueryObj.
Import ListNotations.

Fixpoint index_is_exact (fuel : nat) (query : query) : bool :=
  match fuel with O => true | S fuel' =>
  let rec := index_is_exact fuel' in
  (if (q_isinst KCompound query)
     then (if (andb (opname_eqb (q_operator query) ONot) (andb (q_isinst KSimple (q_query1 query)) (attr_name_eqb (q_point_attr (q_query1 query)) AFields)))
     then false
     else (andb (rec (q_query1 query)) (orb (match q_query2 query with None => true | Some _ => false end) (match (q_query2 query) with Some q2 => rec q2 | None => true end))))
     else (if (andb (q_isinst KSimple query) (q_hash_is_none query))
     then false
     else true))
  end.
