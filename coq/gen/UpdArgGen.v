(* GENERATED on every run by harness/py2coq_updarg.py from tinyflux/database.py (the argument checks of TinyFlux._generate_updater) - do not edit.
   proofs/UpdArgGenP.v proves them the model's Valid.upd_arg / Valid.unset_ok. *)
From Coq Require Import List Bool.
From TF Require Import Base Valid ValidSem UpdArgSem.
From TF Require gen.ValidGen.
Import ListNotations.

Definition refused : bool := false.

Definition gen_nothing_given (time measurement tags fields unset_fields unset_tags : pyval) : bool :=
  (negb (orb (truthy_v time) (orb (truthy_v measurement) (orb (truthy_v tags) (orb (truthy_v fields) (orb (truthy_v unset_fields) (truthy_v unset_tags))))))).

Definition gen_rejected_time (time : pyval) : bool :=
  (andb (truthy_v time) (andb (negb (is_callable time)) (negb (isinst CDatetime time)))).

Definition gen_rejected_measurement (measurement : pyval) : bool :=
  (andb (truthy_v measurement) (andb (negb (is_callable measurement)) (negb (isinst CStr measurement)))).

Definition gen_rejected_tags (tags : pyval) : bool :=
  (andb (andb (truthy_v tags) (negb (is_callable tags))) (negb (ValidGen.validate_tags tags))).

Definition gen_rejected_fields (fields : pyval) : bool :=
  (andb (andb (truthy_v fields) (negb (is_callable fields))) (negb (ValidGen.validate_fields fields))).

Definition gen_rejected_unset_fields (unset_fields : pyval) : bool :=
  (andb (truthy_v unset_fields) (negb (orb (isinst CStr unset_fields) (andb (is_iterable unset_fields) (forallb (fun i : pyval => (isinst CStr i)) (pv_iter unset_fields)))))).

Definition gen_rejected_unset_tags (unset_tags : pyval) : bool :=
  (andb (truthy_v unset_tags) (negb (orb (isinst CStr unset_tags) (andb (is_iterable unset_tags) (forallb (fun i : pyval => (isinst CStr i)) (pv_iter unset_tags)))))).

