(* GENERATED on every run by harness/py2coq_codec.py from tinyflux/point.py (Point._serialize_to_list) - do not edit.
   proofs/CodecGenP.v proves it equal to the hand model Codec.ser for every flag and every point. *)
From Coq Require Import List ZArith NArith Bool.
From TF Require Import Base Query Codec CodecSem.
Import ListNotations.

Definition serialize (compact : bool) (p : point) : list cell :=
  [(if (time_truthy (p_time p)) then (CTime (p_time p)) else (CText [95; 110; 111; 110; 101]%N))]
  ++ [(CText (py_or_str (p_meas p) [95; 110; 111; 110; 101]%N))]
  ++ flat_map (fun kv => [(CText ((if compact then [116; 95]%N else [95; 116; 97; 103; 95]%N) ++ (fst kv))); (CText (match (snd kv) with None => [95; 110; 111; 110; 101]%N | Some v0 => v0 end))]) (p_tags p)
  ++ flat_map (fun kv => [(CText ((if compact then [102; 95]%N else [95; 102; 105; 101; 108; 100; 95]%N) ++ (fst kv))); (match (snd kv) with None => (CText [95; 110; 111; 110; 101]%N) | Some v0 => (CNum v0) end)]) (p_fields p).
