(* GENERATED on every run by harness/py2coq_memstore.py from tinyflux/storages.py (class MemoryStorage, Storage.read) - do not edit.
   proofs/MemStoreGenP.v proves what the database layer relies on. *)
From Coq Require Import List Bool ZArith.
From TF Require Import Base Query MemSem.
Import ListNotations.

Definition refused : bool := false.

Definition gen___init__ : pymem :=
  (m_bind ATmp [] (m_bind AMem [] (m_set_initially_empty true m_new))).

Definition gen___iter__ (self : pymem) : list point :=
  m_read AMem self.

Definition gen___len__ (self : pymem) : nat :=
  length (m_read AMem self).

Definition gen__write (self : pymem) (items : list point) : pymem :=
  (m_bind AMem items self).

Definition gen_append (self : pymem) (items : list point) (temporary : bool) : pymem :=
  ((fun s0 => fold_left (fun s item => if temporary then m_append ATmp item s else m_append AMem item s) items s0) self).

Definition gen__deserialize_measurement (self : pymem) (item : point) : str :=
  p_meas item.

Definition gen__deserialize_storage_item (self : pymem) (item : point) : point :=
  item.

Definition gen__deserialize_timestamp (self : pymem) (item : point) : Z :=
  p_time item.

Definition gen_read (self : pymem) : list point :=
  map (fun i => gen__deserialize_storage_item self i) (gen___iter__ self).

Definition gen_reset (self : pymem) : pymem :=
  ((fun s => gen__write s []) self).

Definition gen__cleanup_temp_storage (self : pymem) : pymem :=
  (m_bind ATmp [] self).

Definition gen__init_temp_storage (self : pymem) : pymem :=
  (m_bind ATmp [] self).

Definition gen__serialize_point (self : pymem) (pt : point) : point :=
  pt.

Definition gen__swap_temp_with_primary (self : pymem) : pymem :=
  (m_alias AMem ATmp self).

