(* GENERATED on every run by harness/py2coq_remove.py from tinyflux/database.py (TinyFlux._remove_helper, _reset_database, remove, drop_measurement) - do not edit.
   proofs/RemoveGenP.v proves each equal to the model's remove_helper / reset_database / db_remove / db_drop. *)
From Coq Require Import List ZArith Bool Arith.
From TF Require Import Base Query Index DB InsertSem ReadSem RemoveSem.
From TF Require Import gen.ReadGen.
Import ListNotations.

Definition refused : bool := false.

Definition gen_reset (s : state) : state :=
  emptied s (if (st_auto s) then (ix_reset (st_idx s)) else (ix_invalidate (st_idx s))).

Section Gen.
Variable E : env.

Definition gen_remove_helper (s : state) (q : query) (m : option str) : state * out :=
  (if (andb (ix_valid (st_idx s)) (index_is_exact q))
     then (match (if (m_truthy m) then (index_items E s (QAnd (meas_query m) q)) else (index_items E s q)) with None => (s, ORaise) | Some items => (if (negb (nonempty items))
     then (s, ONat 0)
     else (if (Nat.eqb (length items) (index_len s))
     then ((gen_reset s), ONat (length items))
     else (let removed := loop_remove_by_items items s in (if (Nat.eqb (length removed) 0)
     then (s, ONat 0)
     else (if (Nat.eqb (keep_count removed s) 0)
     then ((gen_reset s), ONat (length removed))
     else ((swapped_in removed s (if (andb (st_auto s) true) then (index_remove_update removed s) else (ix_invalidate (st_idx s)))), ONat (length removed))))))) end)
     else (match loop_remove_by_scan E q m s with None => (s, ORaise) | Some removed => (if (Nat.eqb (length removed) 0)
     then (s, ONat 0)
     else (if (Nat.eqb (keep_count removed s) 0)
     then ((gen_reset s), ONat (length removed))
     else ((swapped_in removed s (if (andb (st_auto s) false) then (index_remove_update removed s) else (ix_invalidate (st_idx s)))), ONat (length removed)))) end)).

Definition gen_remove (s : state) (q : query) (m : option str) : state * out :=
  gen_remove_helper (gen_read_prelude s) q m.

Definition gen_drop (s : state) (name : str) : state * out :=
  gen_remove_helper (gen_read_prelude s) (meas_query (Some name)) (Some name).

End Gen.
