(* GENERATED on every run by harness/py2coq_valid.py from tinyflux/point.py - do not edit.
   proofs/ValidGenP.v proves these equal to the hand model Valid.validate_tags / validate_fields,
   so the C14 theorems are re-checked against what the source says now. *)
From Coq Require Import List Bool.
From TF Require Import Base Valid ValidSem.
Import ListNotations.

Definition validate_tags (tags : pyval) : bool :=
  if (negb (isinst CMapping tags)) then false else
  if (negb (forallb (fun i : pyval => (isinst CStr i)) (pv_keys tags))) then false else
  if (negb (forallb (fun i : pyval => (orb (is_none i) (isinst CStr i))) (pv_values tags))) then false else
  true.

Definition validate_fields (fields : pyval) : bool :=
  if (negb (isinst CMapping fields)) then false else
  if (negb (forallb (fun i : pyval => (isinst CStr i)) (pv_keys fields))) then false else
  if negb (forallb (fun i : pyval => (if (is_none i) then true else (if (orb (isinst CBool i) (negb (orb (isinst CInt i) (isinst CFloat i)))) then false else true))) (pv_values fields)) then false else
  true.

