(* GENERATED on every run by harness/py2coq_handle.py from tinyflux/measurement.py and the signatures of
   tinyflux/database.py - do not edit.  proofs/HandleGenP.v proves `forward` equal to the model's forwarding
   (Prop_C10.restrict / DB.handle_step): which database operation a handle method becomes, argument by argument. *)
From Coq Require Import List Bool.
From TF Require Import Base Query Index DB.
Import ListNotations.

Definition forward (name : str) (h : hop) : option op :=
  match h with
  | HContains q => Some (Contains q (Some name))
  | HCount q => Some (Count q (Some name))
  | HGet q => Some (Get q (Some name))
  | HSearch q srt => Some (Search q (Some name) srt)
  | HSelect ks q => Some (Select ks q (Some name))
  | HGetFieldKeys => Some (GetFieldKeys (Some name))
  | HGetFieldValues k => Some (GetFieldValues k (Some name))
  | HGetTagKeys => Some (GetTagKeys (Some name))
  | HGetTagValues ks => Some (GetTagValues ks (Some name))
  | HGetTimestamps => Some (GetTimestamps (Some name))
  | HInsert ps => Some (Insert ps (Some name))
  | HRemove q => Some (Remove q (Some name))
  | HRemoveAll => Some (DropMeas name)
  | HUpdate q u => Some (Update q (option_map (fun u0 : updspec => mkUpd (u_time u0) (u_meas u0) (u_tags u0) (u_fields u0) (u_unset_fields u0) (u_unset_tags u0)) u) (Some name))
  | HUpdateAll u => Some (Update (QNoop AMeas) (option_map (fun u0 : updspec => mkUpd (u_time u0) (u_meas u0) (u_tags u0) (u_fields u0) (u_unset_fields u0) (u_unset_tags u0)) u) (Some name))
  | HLen | HIter | HAll _ => None      (* not forwarders: they filter the stored rows themselves *)
  end.

(* Measurement.insert_multiple (the model has one insert operation for both) *)
Definition forward_insert_multiple (name : str) (ps : list (option point)) : op := Insert ps (Some name).
