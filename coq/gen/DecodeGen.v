(* GENERATED on every run by harness/py2coq_decode.py from tinyflux/point.py (Point._deserialize_from_list and the class constants) -
   do not edit.  proofs/DecodeGenP.v proves these equal to what the model's decoder (Codec.de_tags / de_fields, Text.tag_key) computes. *)
From Coq Require Import List ZArith NArith Bool.
From TF Require Import Base Query Codec.
Import ListNotations.

Definition refused : bool := false.

(* the class constants of Point, as the source spells them *)
Definition none_str : str := [95; 110; 111; 110; 101]%N.
Definition default_tag_key_prefix : str := [95; 116; 97; 103; 95]%N.
Definition default_field_key_prefix : str := [95; 102; 105; 101; 108; 100; 95]%N.
Definition compact_tag_key_prefix : str := [116; 95]%N.
Definition compact_field_key_prefix : str := [102; 95]%N.

Definition gen_tag_key (k : str) : option (option str) :=
  (match nth_error k 1 with None => None | Some c => if N.eqb c 116%N then (Some (Some (skipn (length default_tag_key_prefix) k))) else (match nth_error k 0 with None => None | Some c => if N.eqb c 116%N then (Some (Some (skipn (length compact_tag_key_prefix) k))) else (Some None) end) end).

Definition gen_tag_value (v : str) : option str :=
  if str_eqb v none_str then None else Some v.

Definition gen_field_key (k : str) : option str :=
  match (match nth_error k 1 with None => None | Some c => if N.eqb c 102%N then (Some (Some (skipn (length default_field_key_prefix) k))) else (Some (Some (skipn (length compact_field_key_prefix) k))) end) with Some (Some x) => Some x | _ => None end.

(* the value is read as an integer when it is all digits, or a minus sign followed by digits *)
Definition gen_field_is_int (is_digits : str -> bool) (v : str) : option bool :=
  if is_digits v then Some true else match v with [] => None (* IndexError *) | c :: r => Some (N.eqb c 45%N && is_digits r) end.
