(* GENERATED on every run by harness/py2coq_index.py from tinyflux/index.py (the maintenance methods of class Index) - do not edit.
   proofs/IndexGenP.v proves them, through IndexSem.abs, the model's ix_reset / ix_invalidate / ix_insert / ix_build / ix_remove / ix_renumber. *)
From Coq Require Import List ZArith Bool Arith.
From TF Require Import Base Query Index IndexSem.
Import ListNotations.

Definition refused : bool := false.

Definition gen___init__ (self : pyindex) (valid : bool) : pyindex :=
  let self := (set__num_items self 0) in
  let self := (set__tags self []) in
  let self := (set__fields self []) in
  let self := (set__measurements self []) in
  let self := (set__timestamps self []) in
  let self := (set__valid self valid) in
  let self := (set__storage_pos_sorted_by_ts self []) in
  self.

Definition gen__reset (self : pyindex) : pyindex :=
  let self := (set__num_items self 0) in
  let self := (set__tags self []) in
  let self := (set__fields self []) in
  let self := (set__measurements self []) in
  let self := (set__timestamps self []) in
  let self := (set__storage_pos_sorted_by_ts self []) in
  let self := (set__valid self true) in
  self.

Definition gen_invalidate (self : pyindex) : pyindex :=
  let self := gen__reset self in
  let self := (set__valid self false) in
  self.

Definition gen__insert_time (self : pyindex) (time : Z) : pyindex :=
  let self := (set__storage_pos_sorted_by_ts self ((_storage_pos_sorted_by_ts self) ++ [(length (_timestamps self))])) in
  let self := (set__timestamps self ((_timestamps self) ++ [time])) in
  self.

Definition gen__insert_measurements (self : pyindex) (idx : nat) (measurement : str) : pyindex :=
  let self := (if (negb (d_has measurement (_measurements self))) then (let self := (set__measurements self (d_set measurement [idx] (_measurements self))) in
  self) else (let self := (set__measurements self (d_set measurement ((d_get [] measurement (_measurements self)) ++ [idx]) (_measurements self))) in
  self)) in
  self.

Definition gen__insert_tags (self : pyindex) (idx : nat) (tags : list (str * option str)) : pyindex :=
  let self := fold_left (fun self '(tag_key, tag_value) =>
    let self := (if (negb (d_has tag_key (_tags self))) then (let self := (set__tags self (d_set tag_key [] (_tags self))) in
  self) else (self)) in
  let self := (if (negb (d_has tag_value (d_get [] tag_key (_tags self)))) then (let self := (set__tags self (d_set tag_key (d_set tag_value [idx] (d_get [] tag_key (_tags self))) (_tags self))) in
  self) else (let self := (set__tags self (d_set tag_key (d_set tag_value ((d_get [] tag_value (d_get [] tag_key (_tags self))) ++ [idx]) (d_get [] tag_key (_tags self))) (_tags self))) in
  self)) in
  self)
    tags self in
  self.

Definition gen__insert_fields (self : pyindex) (idx : nat) (fields : list (str * option num)) : pyindex :=
  let self := fold_left (fun self '(field_key, field_value) =>
    let self := (if (negb (d_has field_key (_fields self))) then (let self := (set__fields self (d_set field_key [(idx, field_value)] (_fields self))) in
  self) else (let self := (set__fields self (d_set field_key ((d_get [] field_key (_fields self)) ++ [(idx, field_value)]) (_fields self))) in
  self)) in
  self)
    fields self in
  self.

Definition gen_insert (self : pyindex) (points : list point) : pyindex :=
  let start_idx := (length (_timestamps self)) in
  let self := fold_left (fun self '(idx, point) =>
    let new_idx := (start_idx + idx) in
  let self := (set__num_items self ((_num_items self) + 1)) in
  let self := gen__insert_time self (p_time point) in
  let self := gen__insert_tags self new_idx (p_tags point) in
  let self := gen__insert_fields self new_idx (p_fields point) in
  let self := gen__insert_measurements self new_idx (p_meas point) in
  self)
    (combine (seq 0 (length points)) points) self in
  self.

Definition gen_build (self : pyindex) (points : list point) : pyindex :=
  let self := gen__reset self in
  let timestamp_buffer := [] in
  let '(self, timestamp_buffer) := fold_left (fun '(self, timestamp_buffer) '(idx, point) =>
    let self := (set__num_items self ((_num_items self) + 1)) in
  let self := gen__insert_measurements self idx (p_meas point) in
  let self := gen__insert_tags self idx (p_tags point) in
  let self := gen__insert_fields self idx (p_fields point) in
  let timestamp_buffer := (timestamp_buffer ++ [((p_time point), idx)]) in
  (self, timestamp_buffer))
    (combine (seq 0 (length points)) points) (self, timestamp_buffer) in
  let timestamp_buffer := sort_by_first timestamp_buffer in
  let self := (set__timestamps self (map (fun i => (fst i)) timestamp_buffer)) in
  let self := (set__storage_pos_sorted_by_ts self (map (fun i => (snd i)) timestamp_buffer)) in
  self.

Definition gen__remove_timestamps (self : pyindex) (r_items : list nat) : pyindex :=
  let new_timestamps := [] in
  let new_positions := [] in
  let '(new_positions, new_timestamps) := fold_left (fun '(new_positions, new_timestamps) '(ts, pos) =>
    let '(new_positions, new_timestamps) := (if (negb (mem pos r_items)) then (let new_timestamps := (new_timestamps ++ [ts]) in
  let new_positions := (new_positions ++ [pos]) in
  (new_positions, new_timestamps)) else ((new_positions, new_timestamps))) in
  (new_positions, new_timestamps))
    (combine (_timestamps self) (_storage_pos_sorted_by_ts self)) (new_positions, new_timestamps) in
  let self := (set__timestamps self new_timestamps) in
  let self := (set__storage_pos_sorted_by_ts self new_positions) in
  self.

Definition gen__remove_measurements (self : pyindex) (r_items : list nat) : pyindex :=
  let new_measurements := [] in
  let new_measurements := fold_left (fun new_measurements m =>
    let new_items := (filter (fun i => (negb (mem i r_items))) (d_get [] m (_measurements self))) in
  let new_measurements := (if (nonempty_list new_items) then (let new_measurements := (d_set m new_items new_measurements) in
  new_measurements) else (new_measurements)) in
  new_measurements)
    (map fst (_measurements self)) new_measurements in
  let self := (set__measurements self new_measurements) in
  self.

Definition gen__remove_tags (self : pyindex) (r_items : list nat) : pyindex :=
  let new_tags := [] in
  let new_tags := fold_left (fun new_tags '(tag_key, tag_values) =>
    let new_tags := fold_left (fun new_tags '(value, old_items) =>
    let new_items := (filter (fun i => (negb (mem i r_items))) old_items) in
  if (negb (nonempty_list new_items))
  then (new_tags)
  else (let new_tags := (if (negb (d_has tag_key new_tags)) then (let new_tags := (d_set tag_key [(value, new_items)] new_tags) in
  new_tags) else (let new_tags := (d_set tag_key (d_set value new_items (d_get [] tag_key new_tags)) new_tags) in
  new_tags)) in
  new_tags))
    tag_values new_tags in
  new_tags)
    (_tags self) new_tags in
  let self := (set__tags self new_tags) in
  self.

Definition gen__remove_fields (self : pyindex) (r_items : list nat) : pyindex :=
  let new_fields := [] in
  let new_fields := fold_left (fun new_fields '(field_key, old_items) =>
    let new_items := (filter (fun i => (negb (mem (fst i) r_items))) old_items) in
  let new_fields := (if (nonempty_list new_items) then (let new_fields := (d_set field_key new_items new_fields) in
  new_fields) else (new_fields)) in
  new_fields)
    (_fields self) new_fields in
  let self := (set__fields self new_fields) in
  self.

Definition gen_remove (self : pyindex) (r_items : list nat) : pyindex :=
  let self := gen__remove_timestamps self r_items in
  let self := gen__remove_measurements self r_items in
  let self := gen__remove_tags self r_items in
  let self := gen__remove_fields self r_items in
  let self := (set__num_items self ((_num_items self) - (length r_items))) in
  self.

Definition gen__update_timestamps (self : pyindex) (u_items : pydict nat nat) : pyindex :=
  let self := (set__storage_pos_sorted_by_ts self (map (fun i => (d_get i i u_items)) (_storage_pos_sorted_by_ts self))) in
  self.

Definition gen__update_measurements (self : pyindex) (u_items : pydict nat nat) : pyindex :=
  let self := fold_left (fun self '(measurement, old_items) =>
    let self := (set__measurements self (d_set measurement (map (fun i => (d_get i i u_items)) old_items) (_measurements self))) in
  self)
    (_measurements self) self in
  self.

Definition gen__update_tags (self : pyindex) (u_items : pydict nat nat) : pyindex :=
  let self := fold_left (fun self '(tag_key, tag_values) =>
    let self := fold_left (fun self '(value, old_items) =>
    let self := (set__tags self (d_set tag_key (d_set value (map (fun i => (d_get i i u_items)) old_items) (d_get [] tag_key (_tags self))) (_tags self))) in
  self)
    tag_values self in
  self)
    (_tags self) self in
  self.

Definition gen__update_fields (self : pyindex) (u_items : pydict nat nat) : pyindex :=
  let self := fold_left (fun self '(field_key, old_items) =>
    let self := (set__fields self (d_set field_key (map (fun i => (if (d_has (fst i) u_items) then ((d_get 0 (fst i) u_items), (snd i)) else i)) old_items) (_fields self))) in
  self)
    (_fields self) self in
  self.

Definition gen_update (self : pyindex) (u_items : pydict nat nat) : pyindex :=
  let self := gen__update_timestamps self u_items in
  let self := gen__update_measurements self u_items in
  let self := gen__update_tags self u_items in
  let self := gen__update_fields self u_items in
  self.

(* methods that read the object and return a value *)
Definition gen___len__ (self : pyindex) : nat :=
  (_num_items self).

Definition gen_valid (self : pyindex) : bool :=
  (_valid self).

Definition gen_empty (self : pyindex) : bool :=
  (andb (negb (negb (Nat.eqb (_num_items self) 0))) (andb (negb (nonempty_list (_tags self))) (andb (negb (nonempty_list (_fields self))) (andb (negb (nonempty_list (_measurements self))) (negb (nonempty_list (_timestamps self))))))).

Definition gen_get_measurements (self : pyindex) : list str :=
  (map fst (_measurements self)).

Definition gen_get_field_keys (self : pyindex) (measurement : option str) : list str :=
  if (negb (opt_truthy measurement))
  then ((map fst (_fields self)))
  else (let rst := [] in
  if (negb (d_has (opt_str measurement) (_measurements self)))
  then (rst)
  else (let measurement_items := (d_get [] (opt_str measurement) (_measurements self)) in
  let rst := fold_left (fun rst '(field_key, items) =>
    let rst := (if (nonempty_list (set_inter measurement_items (map (fun i => (fst i)) items))) then (let rst := (set_add field_key rst) in
  rst) else (rst)) in
  rst)
    (_fields self) rst in
  rst)).

Definition gen_get_tag_keys (self : pyindex) (measurement : option str) : list str :=
  if (negb (opt_truthy measurement))
  then ((map fst (_tags self)))
  else (let rst := [] in
  if (negb (d_has (opt_str measurement) (_measurements self)))
  then (rst)
  else (let measurement_items := (d_get [] (opt_str measurement) (_measurements self)) in
  let rst := fold_left (fun rst '(tag_key, tag_values) =>
    let rst := fold_left (fun rst items =>
    let rst := (if (nonempty_list (set_inter measurement_items items)) then (let rst := (set_add tag_key rst) in
  rst) else (rst)) in
  rst)
    (map snd tag_values) rst in
  rst)
    (_tags self) rst in
  rst)).

Definition gen_get_timestamps (self : pyindex) (measurement : option str) : list Z :=
  if (negb (opt_truthy measurement))
  then (let zipped := (map (fun '(i, j) => (i, j)) (combine (_timestamps self) (_storage_pos_sorted_by_ts self))) in
  (map (fun i => (fst i)) (sort_by_second zipped)))
  else (if (negb (d_has (opt_str measurement) (_measurements self)))
  then ([])
  else (let zipped := (map (fun '(i, j) => (i, j)) (filter (fun '(i, j) => (mem j (d_get [] (opt_str measurement) (_measurements self)))) (combine (_timestamps self) (_storage_pos_sorted_by_ts self)))) in
  (map (fun i => (fst i)) (sort_by_second zipped)))).

Definition gen_get_field_values (self : pyindex) (field_key : str) (measurement : option str) : list (option num) :=
  if (negb (opt_truthy measurement))
  then (if (d_has field_key (_fields self))
  then (let field_values := (map (fun i => (snd i)) (d_get [] field_key (_fields self))) in
  field_values)
  else ([]))
  else (let rst := [] in
  if (negb (d_has (opt_str measurement) (_measurements self)))
  then (rst)
  else (let measurement_items := (d_get [] (opt_str measurement) (_measurements self)) in
  let rst := fold_left (fun rst '(fk, items) =>
    if (negb (pyeq fk field_key))
  then (rst)
  else (let rst := (rst ++ (map (fun i => (snd i)) (filter (fun i => (mem (fst i) measurement_items)) items))) in
  rst))
    (_fields self) rst in
  rst)).

Definition gen_get_tag_values (self : pyindex) (tag_keys : list str) (measurement : option str) : list (str * list (option str)) :=
  let rst := [] in
  if (andb (negb (opt_truthy measurement)) (negb (nonempty_list tag_keys)))
  then (let rst := fold_left (fun rst '(tag_key, tag_values) =>
    let rst := (d_set tag_key [] rst) in
  let rst := fold_left (fun rst tag_value =>
    let rst := (d_set tag_key (set_add tag_value (d_get [] tag_key rst)) rst) in
  rst)
    (map fst tag_values) rst in
  rst)
    (_tags self) rst in
  rst)
  else (if (andb (opt_truthy measurement) (negb (nonempty_list tag_keys)))
  then (if (d_has (opt_str measurement) (_measurements self))
  then (let measurement_items := (d_get [] (opt_str measurement) (_measurements self)) in
  let rst := fold_left (fun rst '(tag_key, tag_values) =>
    let rst := fold_left (fun rst '(tag_value, items) =>
    let rst := (if (nonempty_list (set_inter measurement_items items)) then (let rst := (if (negb (d_has tag_key rst)) then (let rst := (d_set tag_key [tag_value] rst) in
  rst) else (let rst := (d_set tag_key (set_add tag_value (d_get [] tag_key rst)) rst) in
  rst)) in
  rst) else (rst)) in
  rst)
    (d_get [] tag_key (_tags self)) rst in
  rst)
    (_tags self) rst in
  rst)
  else (rst))
  else (if (andb (negb (opt_truthy measurement)) (nonempty_list tag_keys))
  then (let rst := (fold_left (fun acc i => d_set i [] acc) tag_keys []) in
  let rst := fold_left (fun rst '(tag_key, tag_values) =>
    let rst := (if (d_has tag_key rst) then (let rst := fold_left (fun rst tag_value =>
    let rst := (d_set tag_key (set_add tag_value (d_get [] tag_key rst)) rst) in
  rst)
    (map fst tag_values) rst in
  rst) else (rst)) in
  rst)
    (_tags self) rst in
  rst)
  else (let rst := (fold_left (fun acc i => d_set i [] acc) tag_keys []) in
  if (d_has (opt_str measurement) (_measurements self))
  then (let measurement_items := (d_get [] (opt_str measurement) (_measurements self)) in
  let rst := fold_left (fun rst '(tag_key, tag_values) =>
    let rst := fold_left (fun rst '(tag_value, items) =>
    let rst := (if (andb (d_has tag_key rst) (nonempty_list (set_inter measurement_items items))) then (let rst := (d_set tag_key (set_add tag_value (d_get [] tag_key rst)) rst) in
  rst) else (rst)) in
  rst)
    (d_get [] tag_key (_tags self)) rst in
  rst)
    (_tags self) rst in
  rst)
  else (rst)))).

