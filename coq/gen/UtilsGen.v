(* GENERATED on every run by harness/py2coq.py from tinyflux/utils.py - do not edit.
   The C18 theorems (Prop_C18.v) are stated about these definitions. *)
From Coq Require Import List ZArith Bool.
From TF Require Import Bisect.
Section UtilsGen.
Context {T : Type}.
Variable ltb : T -> T -> bool.   (* Python  a < b   on list elements *)
Variable eqb : T -> T -> bool.   (* Python  a == b  on list elements *)

Definition find_eq (sorted_list : list T) (x : T) : res :=
  let i := (bisect_left ltb sorted_list x) in
  econd (eand (ebind (Some i) (fun u => ebind (Some (py_len sorted_list)) (fun v => Some (negb (Z.eqb u v))))) (fun _ => (ebind (py_index sorted_list i) (fun u => ebind (Some x) (fun v => Some (eqb u v))))))
    (Ret (Some i))
    (Ret None).

Definition find_lt (sorted_list : list T) (x : T) : res :=
  let i := (bisect_left ltb sorted_list x) in
  econd (ebind (Some i) (fun u => Some (negb (Z.eqb u 0))))
    (Ret (Some (i - (1)%Z)%Z))
    (Ret None).

Definition find_le (sorted_list : list T) (x : T) : res :=
  let i := (bisect_right ltb sorted_list x) in
  econd (ebind (Some i) (fun u => Some (negb (Z.eqb u 0))))
    (Ret (Some (i - (1)%Z)%Z))
    (Ret None).

Definition find_gt (sorted_list : list T) (x : T) : res :=
  let i := (bisect_right ltb sorted_list x) in
  econd (ebind (Some i) (fun u => ebind (Some (py_len sorted_list)) (fun v => Some (negb (Z.eqb u v)))))
    (Ret (Some i))
    (Ret None).

Definition find_ge (sorted_list : list T) (x : T) : res :=
  let i := (bisect_left ltb sorted_list x) in
  econd (ebind (Some i) (fun u => ebind (Some (py_len sorted_list)) (fun v => Some (negb (Z.eqb u v)))))
    (Ret (Some i))
    (Ret None).

End UtilsGen.
