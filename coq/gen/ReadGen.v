(* GENERATED on every run by harness/py2coq_read.py from tinyflux/database.py (read_op, TinyFlux.reindex, contains / count / get / search) - do not edit.
   proofs/ReadGenP.v proves each equal to the model's db_contains / db_count / db_get / db_search. *)
From Coq Require Import List ZArith Bool Arith.
From TF Require Import Base Query Index DB InsertSem ReadSem.
Import ListNotations.

Definition refused : bool := false.

Definition gen_reindex (s : state) : state :=
  (if (ix_valid (st_idx s)) then s else rebuild s).

Definition gen_read_prelude (s : state) : state :=
  (if (andb (st_auto s) (negb (ix_valid (st_idx s)))) then gen_reindex s else s).

Section Gen.
Variable E : env.

Definition gen_contains (s : state) (q : query) (m : option str) : out :=
  (if (andb (ix_valid (st_idx s)) (index_is_exact q))
     then (match (if (m_truthy m) then (index_items E s (QAnd (meas_query m) q)) else (index_items E s q)) with None => ORaise | Some items => (OBool (nonempty items)) end)
     else (match loop_scan_first E q m s with None => ORaise | Some o => (OBool (match o with Some _ => true | None => false end)) end)).

Definition gen_count (s : state) (q : query) (m : option str) : out :=
  (if (andb (ix_valid (st_idx s)) (index_is_exact q))
     then (match (if (m_truthy m) then (index_items E s (QAnd (meas_query m) q)) else (index_items E s q)) with None => ORaise | Some items => (ONat (length items)) end)
     else (match loop_scan_all E q m s with None => ORaise | Some l => (ONat (length l)) end)).

Definition gen_get (s : state) (q : query) (m : option str) : out :=
  (if (andb (ix_valid (st_idx s)) (index_is_exact q))
     then (match (if (m_truthy m) then (index_items E s (QAnd (meas_query m) q)) else (index_items E s q)) with None => ORaise | Some items => (if (negb (nonempty items))
     then (OPoint None)
     else (if (Nat.eqb (length items) (index_len s))
     then (match loop_scan_first E q m s with None => ORaise | Some o => (OPoint o) end)
     else (OPoint (loop_pick_first items s)))) end)
     else (match loop_scan_first E q m s with None => ORaise | Some o => (OPoint o) end)).

Definition gen_search (s : state) (q : query) (m : option str) (srt : bool) : out :=
  (if (andb (ix_valid (st_idx s)) (index_is_exact q))
     then (match (if (m_truthy m) then (index_items E s (QAnd (meas_query m) q)) else (index_items E s q)) with None => ORaise | Some items => (if (negb (nonempty items))
     then (OPoints [])
     else (if (Nat.eqb (length items) (index_len s))
     then (match loop_scan_all E q m s with None => ORaise | Some l => (if srt
     then (OPoints (sort_by_time l))
     else (OPoints l)) end)
     else (if srt
     then (OPoints (sort_by_time (loop_pick_all items s)))
     else (OPoints (loop_pick_all items s))))) end)
     else (match loop_scan_all E q m s with None => ORaise | Some l => (if srt
     then (OPoints (sort_by_time l))
     else (OPoints l)) end)).

End Gen.
