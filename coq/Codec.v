(* Codec.v — the row codec of point.py: Point._serialize_to_list / _deserialize_from_list.
   A row is a list of cells.  Time and number cells are kept structured: their text forms
   (datetime.isoformat / fromisoformat, float repr / float()) are standard-library
   behaviour, modelled in Text.v as an oracle pair with a round-trip hypothesis; every
   other cell is the exact string the code builds, so that prefix sniffing by character
   position and the "_none" sentinel are modelled literally.  Definitions only. *)
From Coq Require Import List ZArith NArith Bool Arith.
From TF Require Import Base Query.
Import ListNotations.

Inductive cell := CTime (t : Z) | CNum (x : num) | CText (s : str).

Definition s_none : str := [95; 110; 111; 110; 101]%N.                 (* "_none" *)
Definition pre_tag : str := [95; 116; 97; 103; 95]%N.                  (* "_tag_" *)
Definition pre_field : str := [95; 102; 105; 101; 108; 100; 95]%N.     (* "_field_" *)
Definition pre_ctag : str := [116; 95]%N.                              (* "t_" *)
Definition pre_cfield : str := [102; 95]%N.                            (* "f_" *)
Definition ch_t : N := 116%N.
Definition ch_f : N := 102%N.

Definition ser (compact : bool) (p : point) : list cell :=
  let tp := if compact then pre_ctag else pre_tag in
  let fp := if compact then pre_cfield else pre_field in
  CTime (p_time p)
  :: CText (match p_meas p with [] => s_none | m => m end)              (* self._measurement or "_none" *)
  :: flat_map (fun kv => [CText (tp ++ fst kv);
                          CText (match snd kv with None => s_none | Some v => v end)]) (p_tags p)
  ++ flat_map (fun kv => [CText (fp ++ fst kv);
                          match snd kv with None => CText s_none | Some x => CNum x end]) (p_fields p).

(* the tag loop: row[i][1] == "t" -> "_tag_" prefix; elif row[i][0] == "t" -> "t_"; else break *)
Fixpoint de_tags (fuel : nat) (cells : list cell) (acc : list (str * option str))
  : option (list (str * option str) * list cell) :=
  match fuel with O => None | S f =>
  match cells with
  | [] => Some (acc, [])
  | CText k :: rest =>
    match k with
    | c0 :: c1 :: _ =>
      let key := if N.eqb c1 ch_t then Some (skipn 5 k)
                 else if N.eqb c0 ch_t then Some (skipn 2 k) else None in
      match key with
      | None => Some (acc, cells)                                       (* a field key: leave the loop *)
      | Some tk => match rest with
                   | CText v :: rest' => de_tags f rest' (dset tk (if str_eqb v s_none then None else Some v) acc)
                   | _ => None
                   end
      end
    | _ => None                                                         (* IndexError *)
    end
  | _ => None
  end end.

(* the field loop: row[i][1] == "f" -> "_field_" prefix, else "f_" *)
Fixpoint de_fields (fuel : nat) (cells : list cell) (acc : list (str * option num))
  : option (list (str * option num)) :=
  match fuel with O => None | S f =>
  match cells with
  | [] => Some acc
  | CText k :: rest =>
    match k with
    | c0 :: c1 :: _ =>
      let fk := if N.eqb c1 ch_f then skipn 7 k else skipn 2 k in
      match rest with
      | CNum x :: rest' => de_fields f rest' (dset fk (Some x) acc)     (* float(text) *)
      | CText v :: rest' => if str_eqb v s_none then de_fields f rest' (dset fk None acc)
                            else None                                   (* not produced by ser *)
      | _ => None
      end
    | _ => None
    end
  | _ => None
  end end.

Definition de (row : list cell) : option point :=
  match row with
  | CTime t :: CText m :: rest =>
    match de_tags (S (length rest)) rest [] with
    | None => None
    | Some (tags, rest') =>
      match de_fields (S (length rest')) rest' [] with
      | None => None
      | Some fields => Some (mkPoint t m tags fields)
      end
    end
  | _ => None
  end.

(* what a point looks like after one trip through CSV storage *)
Definition csv_norm (p : point) : point :=
  match de (ser false p) with Some p' => p' | None => p end.

(* the points on which the format is faithful: the sentinel is not a tag value and the
   measurement is not the empty string *)
Definition reserved_free (p : point) : bool :=
  match p_meas p with [] => false | _ => true end
  && forallb (fun kv => match snd kv with Some v => negb (str_eqb v s_none) | None => true end) (p_tags p).
