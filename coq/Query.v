(* Query.v — points, DSL values, the query AST, the faithful evaluator (queries.py:
   SimpleQuery.__call__, CompoundQuery.__call__, _generate_simple_query) and the hash
   tuples that drive == / hash.  Definitions only. *)
From Coq Require Import List ZArith NArith Bool Arith.
From TF Require Import Base.
Import ListNotations.

(* A stored point: instant in microseconds since 1970-01-01T00:00Z, measurement, tags, fields. *)
Record point := mkPoint { p_time : Z; p_meas : str;
                          p_tags : list (str * option str); p_fields : list (str * option num) }.

(* Values a path can resolve to. *)
Inductive value :=
| VTime (t : Z) | VStr (s : str) | VNone | VNum (x : num)
| VDict (d : list (str * value))            (* the tags / fields mapping itself *)
| VOther (n : N).                            (* anything else a map() function may return *)

Definition tagval (o : option str) : value := match o with Some s => VStr s | None => VNone end.
Definition fieldval (o : option num) : value := match o with Some x => VNum x | None => VNone end.
Definition vtags (d : list (str * option str)) : value := VDict (map (fun kv => (fst kv, tagval (snd kv))) d).
Definition vfields (d : list (str * option num)) : value := VDict (map (fun kv => (fst kv, fieldval (snd kv))) d).

Inductive attr := ATime | AMeas | ATags | AFields.
Definition attr_eqb (a b : attr) : bool :=
  match a, b with ATime, ATime | AMeas, AMeas | ATags, ATags | AFields, AFields => true | _, _ => false end.
Definition attr_value (a : attr) (p : point) : value :=
  match a with ATime => VTime (p_time p) | AMeas => VStr (p_meas p)
             | ATags => vtags (p_tags p) | AFields => vfields (p_fields p) end.

Inductive cmp := Ceq | Cne | Clt | Cle | Cgt | Cge.
Definition cmp_eqb (a b : cmp) : bool :=
  match a, b with Ceq, Ceq | Cne, Cne | Clt, Clt | Cle, Cle | Cgt, Cgt | Cge, Cge => true | _, _ => false end.

(* Python == between two DSL values (never raises). Dicts never occur as comparison values. *)
Definition value_eqb (a b : value) : bool :=
  match a, b with
  | VTime x, VTime y => Z.eqb x y
  | VStr x, VStr y => str_eqb x y
  | VNone, VNone => true
  | VNum x, VNum y => num_eqb x y
  | VOther x, VOther y => N.eqb x y
  | _, _ => false
  end.

(* Python ordering comparison; None = TypeError (e.g. None < 3, str < float). *)
Definition value_ltb (a b : value) : option bool :=
  match a, b with
  | VTime x, VTime y => Some (Z.ltb x y)
  | VStr x, VStr y => Some (str_ltb x y)
  | VNum x, VNum y => Some (num_ltb x y)
  | _, _ => None
  end.
Definition value_leb (a b : value) : option bool :=
  match a, b with
  | VTime x, VTime y => Some (Z.leb x y)
  | VStr x, VStr y => Some (negb (str_ltb y x))
  | VNum x, VNum y => Some (num_ltb x y || num_eqb x y)
  | _, _ => None
  end.
Definition pycmp (c : cmp) (v r : value) : option bool :=
  match c with
  | Ceq => Some (value_eqb v r)
  | Cne => Some (negb (value_eqb v r))
  | Clt => value_ltb v r
  | Cle => value_leb v r
  | Cgt => value_ltb r v
  | Cge => value_leb r v
  end.

(* User-supplied Python callables and the re module are an environment: theorems
   quantify over every environment, case files instantiate it with the twin table. *)
Record env := mkEnv {
  menv : N -> value -> option value;        (* map(func): None = func raised *)
  tenv : N -> value -> option bool;         (* test(func, *args): None = func raised *)
  rmatch : N -> N -> str -> bool;           (* re.match(pattern#, flags, s) is not None *)
  rsearch : N -> N -> str -> bool }.

Inductive part := PKey (k : str) | PMap (id : N).
Inductive test :=
| TCmp (c : cmp) (rhs : value)
| TExists
| TMatch (re flags : N) | TSearch (re flags : N)
| TUser (id : N).
Inductive query :=
| QS (a : attr) (path : list part) (t : test)
| QNoop (a : attr)
| QAnd (l r : query) | QOr (l r : query) | QNot (q : query).

Inductive res := RB (b : bool) | RRaise.

Section Eval.
Variable E : env.

(* path_resolver: None = some step raised (KeyError, TypeError, or the user's function). *)
Fixpoint resolve (path : list part) (v : value) : option value :=
  match path with
  | [] => Some v
  | PKey k :: r => match v with VDict d => opt_bind (dget k d) (resolve r) | _ => None end
  | PMap id :: r => opt_bind (menv E id v) (resolve r)
  end.

(* test(value): comparisons swallow their own errors, regex is False off strings,
   a user test function that raises propagates. *)
Definition run_test (t : test) (v : value) : res :=
  match t with
  | TCmp c rhs => RB (match pycmp c v rhs with Some b => b | None => false end)
  | TExists => RB true
  | TMatch re fl => RB (match v with VStr s => rmatch E re fl s | _ => false end)
  | TSearch re fl => RB (match v with VStr s => rsearch E re fl s | _ => false end)
  | TUser id => match tenv E id v with Some b => RB b | None => RRaise end
  end.

Definition eval_simple (a : attr) (path : list part) (t : test) (p : point) : res :=
  match resolve path (attr_value a p) with
  | None => RB false                       (* SimpleQuery.__call__: except Exception: return False *)
  | Some v => run_test t v
  end.

Definition res_and (a b : res) : res := match a, b with RB x, RB y => RB (x && y) | _, _ => RRaise end.
Definition res_or (a b : res) : res := match a, b with RB x, RB y => RB (x || y) | _, _ => RRaise end.
Definition res_not (a : res) : res := match a with RB x => RB (negb x) | RRaise => RRaise end.

(* operator.and_/or_ evaluate both operands; not_ negates. *)
Fixpoint eval (q : query) (p : point) : res :=
  match q with
  | QS a path t => eval_simple a path t p
  | QNoop _ => RB true
  | QAnd l r => res_and (eval l p) (eval r p)
  | QOr l r => res_or (eval l p) (eval r p)
  | QNot q => res_not (eval q p)
  end.
End Eval.

(* ---- hash tuples (the _hash attribute) -------------------------------------------- *)
Inductive hv :=
| HCmp (a : attr) (c : cmp) (path : list str) (rhs : value)
| HExists (a : attr) (path : list str)
| HRegex (search : bool) (a : attr) (path : list str) (re flags : N)
| HTest (a : attr) (path : list str) (id : N)
| HEmpty                                   (* noop: the falsy tuple () *)
| HAnd (x y : hv) | HOr (x y : hv)         (* ("and", frozenset([x, y])) *)
| HNot (x : hv).

Fixpoint path_keys (path : list part) : option (list str) :=
  match path with
  | [] => Some []
  | PKey k :: r => option_map (cons k) (path_keys r)
  | PMap _ :: _ => None                     (* map() kills the hash *)
  end.
(* a map() anywhere in the path, even before later keys, leaves the query unhashable *)
Fixpoint path_hashable (path : list part) : bool :=
  match path with [] => true | PKey _ :: r => path_hashable r | PMap _ :: _ => false end.

Fixpoint qhash (q : query) : option hv :=
  match q with
  | QS a path t =>
    match path_keys path with
    | None => None
    | Some ks => Some (match t with
                       | TCmp c rhs => HCmp a c ks rhs
                       | TExists => HExists a ks
                       | TMatch re fl => HRegex false a ks re fl
                       | TSearch re fl => HRegex true a ks re fl
                       | TUser id => HTest a ks id end)
    end
  | QNoop _ => Some HEmpty
  | QAnd l r => match qhash l, qhash r with Some x, Some y => Some (HAnd x y) | _, _ => None end
  | QOr l r => match qhash l, qhash r with Some x, Some y => Some (HOr x y) | _, _ => None end
  | QNot q => option_map HNot (qhash q)
  end.

Fixpoint strs_eqb (a b : list str) : bool :=
  match a, b with [] , [] => true | x :: a', y :: b' => str_eqb x y && strs_eqb a' b' | _, _ => false end.

(* tuple equality; the two-element frozensets compare as sets *)
Fixpoint hv_eqb (x y : hv) : bool :=
  match x, y with
  | HCmp a c p r, HCmp a' c' p' r' => attr_eqb a a' && cmp_eqb c c' && strs_eqb p p' && value_eqb r r'
  | HExists a p, HExists a' p' => attr_eqb a a' && strs_eqb p p'
  | HRegex s a p re fl, HRegex s' a' p' re' fl' =>
      Bool.eqb s s' && attr_eqb a a' && strs_eqb p p' && N.eqb re re' && N.eqb fl fl'
  | HTest a p id, HTest a' p' id' => attr_eqb a a' && strs_eqb p p' && N.eqb id id'
  | HEmpty, HEmpty => true
  | HAnd a b, HAnd c d | HOr a b, HOr c d =>
      (hv_eqb a c || hv_eqb a d) && (hv_eqb b c || hv_eqb b d) &&
      (hv_eqb a c || hv_eqb b c) && (hv_eqb a d || hv_eqb b d)
  | HNot a, HNot b => hv_eqb a b
  | _, _ => false
  end.

Definition hv_truthy (h : hv) : bool := match h with HEmpty => false | _ => true end.
Definition is_simple (q : query) : bool := match q with QS _ _ _ | QNoop _ => true | _ => false end.

(* q1 == q2 : SimpleQuery.__eq__ requires the other to be a SimpleQuery; both need a
   truthy hash. *)
Definition qeq (q1 q2 : query) : bool :=
  match qhash q1, qhash q2 with
  | Some h1, Some h2 =>
      hv_truthy h1 && hv_truthy h2 && hv_eqb h1 h2 && (negb (is_simple q1) || is_simple q2)
  | _, _ => false
  end.
Definition is_hashable (q : query) : bool := match qhash q with Some _ => true | None => false end.
