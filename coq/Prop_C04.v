(* Property C04 — after every completed operation the CSV file alone holds the current contents.
   Three layers.  IO.v: for every stored content and every storage plan (append, rewrite via a
   staged copy and atomic replace, truncate, nothing) the completed I/O script leaves the
   plan's target rows on disk, nothing buffered, no temporary file, the handle open
   (C04_disk_is_target).  Csv.v + Text.v + Codec.v: the text csv.writer produces for those
   rows, read by an independent csv.reader and decoded row by row, gives exactly the rows, in
   order, for every dialect of the family, either key-prefix style per row (mixed in one
   file), all strings (C04_file_decodes); and because a complete row returns the reader to its
   start state, appending to the file is sound (C04_append_decodes).  C04_operation_leaves_new_contents
   joins the two models: for EVERY operation of the API from EVERY state, the plan derived from the
   database model's own step has the model's new rows as its target, so the completed script leaves
   exactly the database's new logical contents on disk (for inserts: stored field values not NaN). *)
From Coq Require Import List ZArith NArith Bool.
From TF Require Import Base Query Index DB Codec Csv Text IO proofs.CodecP proofs.CsvP proofs.TextP proofs.IOP proofs.PlanP proofs.HistoryP proofs.IOGenP.
From TF Require gen.IOGen.
Import ListNotations.

Theorem C04_disk_is_target : forall old p,
  let w := run_steps (world_of old) (script_of old p) in w_disk w = plan_target old p /\ clean w.
Proof. exact run_script_complete. Qed.
Theorem C04_operation_leaves_new_contents : forall E C norm s o,
  (is_insert o = true -> forallb nan_free_point (st_rows s) = true) ->
  let old := st_rows s in let new := st_rows (fst (step E C norm s o)) in
  let w := run_steps (world_of old) (script_of old (plan_of o old new)) in
  w_disk w = new /\ clean w.
Proof. exact file_after_operation. Qed.
Theorem C04_file_decodes : forall fmt_time parse_time fmt_num parse_num,
  (forall t, parse_time (fmt_time t) = Some t) -> (forall x, parse_num (fmt_num x) = Some x) ->
  (forall x, str_eqb (fmt_num x) s_none = false) ->
  forall D rows, wf_dialect D -> good_rows rows ->
  option_map (map (decode_row parse_time parse_num)) (csv_read D (csv_write D (encode_rows fmt_time fmt_num rows)))
  = Some (map (fun cp => Some (snd cp)) rows).
Proof. exact file_roundtrip. Qed.
Theorem C04_append_decodes : forall fmt_time parse_time fmt_num parse_num,
  (forall t, parse_time (fmt_time t) = Some t) -> (forall x, parse_num (fmt_num x) = Some x) ->
  (forall x, str_eqb (fmt_num x) s_none = false) ->
  forall D old new, wf_dialect D -> good_rows (old ++ new) ->
  option_map (map (decode_row parse_time parse_num))
    (csv_read D (csv_write D (encode_rows fmt_time fmt_num old) ++ csv_write D (encode_rows fmt_time fmt_num new)))
  = Some (map (fun cp => Some (snd cp)) (old ++ new)).
Proof. exact file_append_roundtrip. Qed.
Theorem C04_csv_write_app : forall D r1 r2, csv_write D (r1 ++ r2) = csv_write D r1 ++ csv_write D r2.
Proof. exact csv_write_app. Qed.

(* a whole history: after its last operation the file holds exactly the model's rows and nothing is buffered or left behind *)
Theorem C04_history_leaves_contents : forall E C norm ops s, insert_ok E C norm s ops ->
  let w := run_steps (world_of (st_rows s)) (history_script E C norm s ops) in
  w_disk w = st_rows (state_after E C norm s ops) /\ clean w.
Proof. exact history_file. Qed.

(* the I/O calls REGENERATED from tinyflux/storages.py on every run (gen/IOGen.v: symbolic execution of CSVStorage.append, _write([]) / reset,
   _init_temp_storage, _swap_temp_with_primary, _cleanup_temp_storage, __iter__ along their success path) are the scripts of the model, for every
   plan of an operation: every theorem of this file about script_of is a theorem about the calls the source makes now *)
Theorem C04_source_scripts_are_the_model : forall old p, gen_script_of old p = script_of old p.
Proof. exact gen_script_of_eq. Qed.
(* ... and every handle is opened with the storage's own text options: the temporary file and the handle reopened after a rewrite use the
   storage's encoding, newline translation stays off, the temporary file stays until it is removed, the reopen never truncates *)
Theorem C04_source_handles_keep_text_options :
  IOGen.temp_uses_storage_encoding = true /\ IOGen.temp_untranslated_newlines = true /\ IOGen.temp_kept_until_removed = true /\
  IOGen.reopen_uses_storage_encoding = true /\ IOGen.reopen_uses_storage_newline = true /\ IOGen.reopen_never_truncates = true /\
  IOGen.reopen_same_file = true /\ IOGen.open_uses_given_options = true /\ IOGen.newline_default_untranslated = true.
Proof. exact gen_handle_options. Qed.

Print Assumptions C04_disk_is_target.
Print Assumptions C04_history_leaves_contents.
Print Assumptions C04_operation_leaves_new_contents.
Print Assumptions C04_file_decodes.
Print Assumptions C04_append_decodes.
Print Assumptions C04_csv_write_app.
Print Assumptions C04_source_scripts_are_the_model.
Print Assumptions C04_source_handles_keep_text_options.
