(* Refinement.v — the master theorem behind Prop_C01 / C02 / C03 / C06 / C07 / C10 / C11.
   For every environment of user callables and regexes, every storage round trip `norm` that keeps
   points well formed, every history `ops` of any length whose operations are in their
   documented domain, run on the model of the database (DB.v: both read paths, the index and
   its incremental maintenance, index_is_exact, the insert / remove / update helpers, the
   Measurement handle, exceptions) from ANY state that satisfies the invariant - in particular
   from an empty database:
     - the stored contents after the history are exactly those of the abstract specification,
       in which the database IS the list of stored points (Spec.spec_run);
     - every output (results, counts, getters, raised or not) is the specification's output
       (index.valid, which the specification does not speak about, is unconstrained);
     - the invariant holds again (an index reported valid describes exactly the stored points).
   The specification never mentions the index, the two read paths or storage. *)
From Coq Require Import List ZArith NArith Bool.
From TF Require Import Base Query Index DB Spec proofs.IndexDefs proofs.DBReadP proofs.DBStepP proofs.DBRunP proofs.RefineP.
Import ListNotations.

Theorem refinement : forall E C norm, (forall p, wf_point p -> wf_point (norm p)) ->
  forall ops s, Inv s -> wf_history_r E norm ops ->
  st_rows (snd (run E C norm s ops)) = snd (spec_run E C norm (st_rows s) ops) /\
  Forall2 out_matches (fst (run E C norm s ops)) (fst (spec_run E C norm (st_rows s) ops)) /\
  Inv (snd (run E C norm s ops)).
Proof. exact run_refines. Qed.
Theorem refinement_step : forall E C norm, (forall p, wf_point p -> wf_point (norm p)) ->
  forall s o, Inv s -> wf_op_r E norm o ->
  st_rows (fst (step E C norm s o)) = fst (spec_step E C norm (st_rows s) o) /\
  out_matches (snd (step E C norm s o)) (snd (spec_step E C norm (st_rows s) o)) /\
  Inv (fst (step E C norm s o)).
Proof. exact step_refines. Qed.
Theorem refinement_from_empty : forall E C norm, (forall p, wf_point p -> wf_point (norm p)) ->
  forall auto ops, wf_history_r E norm ops ->
  st_rows (snd (run E C norm (init auto) ops)) = snd (spec_run E C norm [] ops) /\
  Forall2 out_matches (fst (run E C norm (init auto) ops)) (fst (spec_run E C norm [] ops)).
Proof. exact refines_from_empty. Qed.

Print Assumptions refinement.
Print Assumptions refinement_step.
Print Assumptions refinement_from_empty.
