(* Property C07 — exploration getters and lengths report exactly what is stored.
   The getters of DB.v follow database.py (index-served when the index is valid, storage scan
   otherwise) and Index.v follows the index's own getters. *)
From Coq Require Import List ZArith NArith Bool.
From TF Require Import Base Query Index DB Spec proofs.IndexDefs proofs.RepP proofs.DBReadP proofs.DBRemoveP
     proofs.DBStepP proofs.DBRunP proofs.DBSpecP.
Import ListNotations.

Theorem C07_len_exact : forall s, Inv s -> db_len s = (s, ONat (length (st_rows s))).
Proof. exact db_len_spec. Qed.

Print Assumptions C07_len_exact.
