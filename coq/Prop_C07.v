(* Property C07 — exploration getters and lengths report exactly what is stored.
   The getters of DB.v follow database.py (answered by the index when it is valid, by a scan of
   storage otherwise) and Index.v follows the index's own getters.  Each getter of the model
   equals its one-line specification in Spec.v on the stored points, restricted to the
   measurement when one is given, in the documented order (sorted keys; values sorted with
   None last; field values and timestamps in insertion order) - on BOTH paths, in every state
   that satisfies the invariant (every reachable state: Prop_C06), for every measurement
   filter (present, absent, none, and "" which the code treats as none) and every tag_keys
   selection.  The index-level theorems hold for every index that describes the points. *)
From Coq Require Import List ZArith NArith Bool.
From TF Require Import Base Query Index DB Spec proofs.IndexDefs proofs.RepP proofs.DBReadP proofs.DBRemoveP
     proofs.DBStepP proofs.DBRunP proofs.DBSpecP proofs.GetterP proofs.LawsP IndexSem proofs.IndexGenP proofs.IndexGetP proofs.TagValsP DbSem proofs.DbGetGenP.
From TF Require gen.IndexGen gen.DbGetGen.
Import ListNotations.

Theorem C07_len_exact : forall s, Inv s -> db_len s = (s, ONat (length (st_rows s))).
Proof. exact db_len_spec. Qed.
Theorem C07_measurements : forall s, Inv s -> db_get_measurements s = (read_prelude s, OStrs (spec_measurements (st_rows s))).
Proof. exact db_get_measurements_spec. Qed.
Theorem C07_tag_keys : forall s m, Inv s -> db_get_tag_keys s m = (read_prelude s, OStrs (spec_tag_keys m (st_rows s))).
Proof. exact db_get_tag_keys_spec. Qed.
Theorem C07_tag_values : forall s ks m, Inv s -> db_get_tag_values s ks m = (read_prelude s, OTagVals (spec_tag_values ks m (st_rows s))).
Proof. exact db_get_tag_values_spec. Qed.
Theorem C07_field_keys : forall s m, Inv s -> db_get_field_keys s m = (read_prelude s, OStrs (spec_field_keys m (st_rows s))).
Proof. exact db_get_field_keys_spec. Qed.
Theorem C07_field_values : forall s k m, Inv s -> db_get_field_values s k m = (read_prelude s, ONums (spec_field_values k m (st_rows s))).
Proof. exact db_get_field_values_spec. Qed.
Theorem C07_timestamps : forall s m, Inv s -> db_get_timestamps s m = (read_prelude s, OTimes (spec_timestamps m (st_rows s))).
Proof. exact db_get_timestamps_spec. Qed.
Theorem C07_all : forall s srt, db_all s srt = (read_prelude s, OPoints (spec_all srt (st_rows s))).
Proof. exact db_all_spec. Qed.
Theorem C07_handle_len : forall E C norm s name, Inv s ->
  handle_step E C norm s name HLen = (s, ONat (length (filter (fun p => str_eqb (p_meas p) name) (st_rows s)))).
Proof. exact handle_len_spec. Qed.
(* the index alone *)
Theorem C07_index_tag_values : forall i pts ks m, Rep i pts -> wf_points pts -> ix_get_tag_values i ks m = scan_tag_values ks (in_meas m pts).
Proof. exact ix_get_tag_values_spec. Qed.
Theorem C07_index_timestamps : forall i pts m, Rep i pts -> ix_get_timestamps i m = map p_time (in_meas m pts).
Proof. exact ix_get_timestamps_spec. Qed.

(* laws: a dropped measurement is no longer listed (and nothing else disappears); an insert only adds to what the getters list *)
Theorem C07_drop_removes_measurement : forall E s name, Inv s -> name <> [] ->
  let db' := st_rows (fst (db_drop E s name)) in
  ~ In name (spec_measurements db') /\
  (forall m, m <> name -> In m (spec_measurements (st_rows s)) -> In m (spec_measurements db')).
Proof. exact drop_removes_measurement. Qed.
Theorem C07_getters_grow_with_inserts : forall m db new,
  (forall x, In x (spec_measurements db) -> In x (spec_measurements (db ++ new))) /\
  (forall x, In x (spec_tag_keys m db) -> In x (spec_tag_keys m (db ++ new))) /\
  (forall x, In x (spec_field_keys m db) -> In x (spec_field_keys m (db ++ new))) /\
  spec_len (db ++ new) = spec_len db + length new /\
  spec_timestamps m (db ++ new) = spec_timestamps m db ++ spec_timestamps m new.
Proof. exact getters_grow_with_inserts. Qed.

(* the index's own getters that answer with lists or counts - __len__, valid, get_measurements, get_timestamps, get_field_values - COMPILED from
   tinyflux/index.py on every run (gen/IndexGen.v, harness/py2coq_index.py; sets of positions read through `mem`, sorted(.., key=lambda x: x[1]) a
   stable sort by position) are the model's getters on the abstraction of the object (get_measurements: a set, compared after sorting), hence
   answer exactly what is stored whenever the object describes the stored points *)
Theorem C07_source_index_len_is_the_model : forall g, IndexGen.gen___len__ g = ix_n (abs g).
Proof. exact gen_len_eq. Qed.
Theorem C07_source_index_valid_is_the_model : forall g, IndexGen.gen_valid g = ix_valid (abs g).
Proof. exact gen_valid_eq. Qed.
Theorem C07_source_index_measurements_is_the_model : forall g, sort_dedup (IndexGen.gen_get_measurements g) = ix_get_measurements (abs g).
Proof. exact gen_get_measurements_eq. Qed.
Theorem C07_source_index_timestamps_is_the_model : forall g m, IndexGen.gen_get_timestamps g m = ix_get_timestamps (abs g) m.
Proof. exact gen_get_timestamps_eq. Qed.
Theorem C07_source_index_field_values_is_the_model : forall g k m, NoDup (map fst (_fields g)) ->
  IndexGen.gen_get_field_values g k m = ix_get_field_values (abs g) k m.
Proof. exact gen_get_field_values_eq. Qed.
Theorem C07_source_index_len_exact : forall g pts, Rep (abs g) pts -> IndexGen.gen___len__ g = length pts.
Proof. exact source_len_exact. Qed.
Theorem C07_source_index_measurements_exact : forall g pts, Rep (abs g) pts -> sort_dedup (IndexGen.gen_get_measurements g) = sort_dedup (map p_meas pts).
Proof. exact source_measurements_exact. Qed.
Theorem C07_source_index_timestamps_exact : forall g pts m, Rep (abs g) pts -> IndexGen.gen_get_timestamps g m = map p_time (in_meas m pts).
Proof. exact source_timestamps_exact. Qed.
Theorem C07_source_index_field_values_exact : forall g pts k m, gwf g -> Rep (abs g) pts -> wf_points pts ->
  IndexGen.gen_get_field_values g k m = flat_map (fun p => match dget k (p_fields p) with Some v => [v] | None => [] end) (in_meas m pts).
Proof. exact source_field_values_exact. Qed.

Print Assumptions C07_drop_removes_measurement.
Print Assumptions C07_getters_grow_with_inserts.
Print Assumptions C07_len_exact.
Print Assumptions C07_measurements.
Print Assumptions C07_tag_keys.
Print Assumptions C07_tag_values.
Print Assumptions C07_field_keys.
Print Assumptions C07_field_values.
Print Assumptions C07_timestamps.
Print Assumptions C07_all.
Print Assumptions C07_handle_len.
Print Assumptions C07_index_tag_values.
Print Assumptions C07_index_timestamps.
(* the set-valued getters get_field_keys / get_tag_keys (a set of strings filled by `rst.add(key)` inside a loop - a nested one for the tag map -
   whenever the positions of the measurement and of the bucket intersect), compared after sorting.  tne: no tag key with an empty inner dict - an
   invariant of every compiled method (tne_init / _reset / _insert_one / _build / _remove / _update in proofs/IndexGenP.v) *)
Theorem C07_source_index_field_keys_is_the_model : forall g m, sort_dedup (IndexGen.gen_get_field_keys g m) = ix_get_field_keys (abs g) m.
Proof. exact gen_get_field_keys_eq. Qed.
Theorem C07_source_index_tag_keys_is_the_model : forall g m, tne (_tags g) -> sort_dedup (IndexGen.gen_get_tag_keys g m) = ix_get_tag_keys (abs g) m.
Proof. exact gen_get_tag_keys_eq. Qed.
Theorem C07_source_index_field_keys_exact : forall g pts m, Rep (abs g) pts ->
  sort_dedup (IndexGen.gen_get_field_keys g m) = sort_dedup (flat_map (fun p => map fst (p_fields p)) (in_meas m pts)).
Proof. exact source_field_keys_exact. Qed.
Theorem C07_source_index_tag_keys_exact : forall g pts m, tne (_tags g) -> Rep (abs g) pts ->
  sort_dedup (IndexGen.gen_get_tag_keys g m) = sort_dedup (flat_map (fun p => map fst (p_tags p)) (in_meas m pts)).
Proof. exact source_tag_keys_exact. Qed.
Theorem C07_source_index_no_empty_tag_key : forall g pts p r u, gwf g -> tne (_tags g) ->
  tne (_tags (IndexGen.gen_build g pts)) /\ tne (_tags (IndexGen.gen_insert g [p])) /\ tne (_tags (IndexGen.gen_update (IndexGen.gen_remove g r) u)) /\ tne (_tags (IndexGen.gen__reset g)).
Proof. exact source_tne. Qed.

(* get_tag_values: a dict of sets built by four differently written loop nests (all keys or the keys asked for; every value or the values whose postings
   meet the measurement's); canon_tv = keys ascending, each key's values ascending with None last, as the database layer hands the result on *)
Theorem C07_source_index_tag_values_is_the_model : forall g ks m, gwf g -> tne (_tags g) ->
  canon_tv (IndexGen.gen_get_tag_values g ks m) = ix_get_tag_values (abs g) ks m.
Proof. exact gen_get_tag_values_eq. Qed.
Theorem C07_source_index_tag_values_exact : forall g pts ks m, gwf g -> tne (_tags g) -> Rep (abs g) pts -> wf_points pts ->
  canon_tv (IndexGen.gen_get_tag_values g ks m) = scan_tag_values ks (in_meas m pts).
Proof. exact source_tag_values_exact. Qed.

(* the getters of class TinyFlux themselves - __len__, get_measurements, get_field_keys, get_tag_keys, get_field_values, get_timestamps - COMPILED from
   tinyflux/database.py on every run (gen/DbGetGen.v, harness/py2coq_dbget.py: the database object as its stored rows and its index OBJECT, whose
   methods are the ones compiled from index.py), BOTH paths - the index's answer when it is valid, the loop over storage with its measurement
   filter otherwise - and the read_op decorator (DbSem.db_prelude) included, answer the specification on the stored rows in every state in which
   a valid index object describes the rows (DInv; established by build, kept by the decorator: DInv_prelude) *)
Theorem C07_source_db_invariant_kept_by_decorator : forall d, DInv d -> DInv (db_prelude d).
Proof. exact DInv_prelude. Qed.
Theorem C07_source_db_len_exact : forall d, DInv d -> DbGetGen.gen_db___len__ d = spec_len (db_rows d).
Proof. exact source_db_len. Qed.
Theorem C07_source_db_measurements_exact : forall d, DInv d -> DbGetGen.gen_db_get_measurements (db_prelude d) = spec_measurements (db_rows d).
Proof. exact source_db_get_measurements. Qed.
Theorem C07_source_db_field_keys_exact : forall d m, DInv d -> DbGetGen.gen_db_get_field_keys (db_prelude d) m = spec_field_keys m (db_rows d).
Proof. exact source_db_get_field_keys. Qed.
Theorem C07_source_db_tag_keys_exact : forall d m, DInv d -> DbGetGen.gen_db_get_tag_keys (db_prelude d) m = spec_tag_keys m (db_rows d).
Proof. exact source_db_get_tag_keys. Qed.
Theorem C07_source_db_field_values_exact : forall d k m, DInv d -> DbGetGen.gen_db_get_field_values (db_prelude d) k m = spec_field_values k m (db_rows d).
Proof. exact source_db_get_field_values. Qed.
Theorem C07_source_db_timestamps_exact : forall d m, DInv d -> DbGetGen.gen_db_get_timestamps (db_prelude d) m = spec_timestamps m (db_rows d).
Proof. exact source_db_get_timestamps. Qed.

(* get_tag_values of the database: the index's dict of sets with every set sorted (None last) by a dict comprehension, or the scan - a dict of sets keyed
   by the tags asked for (sorted) or by every tag met, filled row by row; compared as dicts (canon_dict: keys ascending) *)
Theorem C07_source_db_tag_values_exact : forall d ks m, DInv d -> canon_dict (DbGetGen.gen_db_get_tag_values (db_prelude d) ks m) = spec_tag_values ks m (db_rows d).
Proof. exact source_db_get_tag_values. Qed.

(* len(handle): Measurement.__len__ compiled from tinyflux/measurement.py (self._db the database object, self._name the handle's name): the postings of
   the name in the index's measurement map when the index is used, a count over storage otherwise - the model's handle length, hence the number of
   stored points of that measurement *)
Theorem C07_source_handle_len_is_the_model : forall E C norm d name, ONat (DbGetGen.gen_meas___len__ d name) = snd (handle_step E C norm (abs_db d) name HLen).
Proof. exact source_handle_len_is_the_model. Qed.
Theorem C07_source_handle_len_exact : forall d name, DInv d -> DbGetGen.gen_meas___len__ d name = length (filter (fun p => str_eqb (p_meas p) name) (db_rows d)).
Proof. exact source_handle_len_exact. Qed.

(* all(sorted): Storage.read() and a stable sort by time, compiled from database.py *)
Theorem C07_source_db_all_exact : forall d srt, DbGetGen.gen_db_all (db_prelude d) srt = spec_all srt (db_rows d).
Proof. exact source_db_all. Qed.

Print Assumptions C07_source_index_len_is_the_model.
Print Assumptions C07_source_index_valid_is_the_model.
Print Assumptions C07_source_index_measurements_is_the_model.
Print Assumptions C07_source_index_timestamps_is_the_model.
Print Assumptions C07_source_index_field_values_is_the_model.
Print Assumptions C07_source_index_len_exact.
Print Assumptions C07_source_index_measurements_exact.
Print Assumptions C07_source_index_timestamps_exact.
Print Assumptions C07_source_index_field_values_exact.
Print Assumptions C07_source_index_field_keys_is_the_model.
Print Assumptions C07_source_index_tag_keys_is_the_model.
Print Assumptions C07_source_index_field_keys_exact.
Print Assumptions C07_source_index_tag_keys_exact.
Print Assumptions C07_source_index_no_empty_tag_key.
Print Assumptions C07_source_index_tag_values_is_the_model.
Print Assumptions C07_source_index_tag_values_exact.
Print Assumptions C07_source_db_invariant_kept_by_decorator.
Print Assumptions C07_source_db_len_exact.
Print Assumptions C07_source_db_measurements_exact.
Print Assumptions C07_source_db_field_keys_exact.
Print Assumptions C07_source_db_tag_keys_exact.
Print Assumptions C07_source_db_field_values_exact.
Print Assumptions C07_source_db_timestamps_exact.
Print Assumptions C07_source_db_tag_values_exact.
Print Assumptions C07_source_handle_len_is_the_model.
Print Assumptions C07_source_handle_len_exact.
Print Assumptions C07_source_db_all_exact.
