(* UpdateSem.v — the primitives gen/UpdateGen.v (generated from tinyflux/database.py: TinyFlux._update_helper, update, update_all) is written with.
   Definitions only. *)
From Coq Require Import List ZArith NArith Bool Arith.
From TF Require Import Base Query Index DB InsertSem ReadSem.
Import ListNotations.

(* the two rewrite loops of _update_helper inside `try: ... except Exception: <put the copies back>; raise`, recognised literally by the translator.
   inl (rows, n): the rows staged in temporary storage and update_count; inr rows: an exception escaped, the stored rows are what they were.
   index-assisted: row i is updated iff the index named it (no evaluation); scan: iff it passes the measurement filter and (update_all or the query is true) *)
Definition loop_update_by_items (E : env) (C : cenv) (norm : point -> point) (u : updspec) (items : list nat) (s : state) : (list point * nat) + list point :=
  update_loop C norm u (fun i _ => RB (mem i items)) 0 (st_rows s).
Definition loop_update_by_scan (E : env) (C : cenv) (norm : point -> point) (u : updspec) (update_all : bool) (q : query) (m : option str) (s : state) : (list point * nat) + list point :=
  update_loop C norm u (fun _ p => if meas_pass m p then (if update_all then RB true else eval E q p) else RB false) 0 (st_rows s).

(* an exception escaped the loops: storage as it was left, the index untouched *)
Definition left_behind (rows : list point) (s : state) : state := mkState rows (st_idx s) (st_auto s).
(* self._index.invalidate(); self._storage._swap_temp_with_primary(); [self._index.build(<every stored point>)] *)
Definition swapped_rows (rows : list point) (s : state) (idx' : index) : state := mkState rows idx' (st_auto s).
