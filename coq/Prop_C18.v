(* Property C18 — sorted-list search helpers return the documented boundary positions.
   The theorems are about gen/UtilsGen.v, regenerated from tinyflux/utils.py on every
   run.  They hold for every element type T, every comparison `ltb` that is
   negatively transitive (implied by Python's total orders on ints, strings and
   non-NaN floats) with `eqb a b` <-> neither is below the other, every sorted list
   (duplicates allowed, any length) and every probe.  `Raise` (IndexError) is excluded
   by the statement: `leftmost`/`rightmost` are False on Raise. *)
From Coq Require Import List ZArith Bool.
From TF Require Import Bisect gen.UtilsGen proofs.BisectP proofs.UtilsP.

Section C18.
Context {T : Type} (ltb eqb : T -> T -> bool).
Hypothesis ltb_negtrans : forall a b c, ltb a c = true -> ltb a b = true \/ ltb b c = true.
Hypothesis eqb_spec : forall a b, eqb a b = true <-> ltb a b = false /\ ltb b a = false.

Theorem C18_find_eq : forall l x, sorted ltb l -> leftmost (fun a => eqb a x) l (find_eq ltb eqb l x).
Proof. exact (find_eq_spec ltb eqb ltb_negtrans eqb_spec). Qed.

Theorem C18_find_lt : forall l x, sorted ltb l -> rightmost (fun a => ltb a x) l (find_lt ltb l x).
Proof. exact (find_lt_spec ltb ltb_negtrans). Qed.

Theorem C18_find_le : forall l x, sorted ltb l -> rightmost (fun a => negb (ltb x a)) l (find_le ltb l x).
Proof. exact (find_le_spec ltb ltb_negtrans). Qed.

Theorem C18_find_gt : forall l x, sorted ltb l -> leftmost (fun a => ltb x a) l (find_gt ltb l x).
Proof. exact (find_gt_spec ltb ltb_negtrans). Qed.

Theorem C18_find_ge : forall l x, sorted ltb l -> leftmost (fun a => negb (ltb a x)) l (find_ge ltb l x).
Proof. exact (find_ge_spec ltb ltb_negtrans). Qed.

(* The modelled bisect functions themselves (CPython's Lib/bisect.py loop). *)
Theorem C18_bisect_left : forall l x, sorted ltb l ->
  let r := bisect_left_nat ltb l x in
  r <= length l /\ (forall i a, i < r -> nth_error l i = Some a -> ltb a x = true)
                /\ (forall i a, r <= i -> nth_error l i = Some a -> ltb a x = false).
Proof. exact (bisect_left_spec ltb ltb_negtrans). Qed.

Theorem C18_bisect_right : forall l x, sorted ltb l ->
  let r := bisect_right_nat ltb l x in
  r <= length l /\ (forall i a, i < r -> nth_error l i = Some a -> ltb x a = false)
                /\ (forall i a, r <= i -> nth_error l i = Some a -> ltb x a = true).
Proof. exact (bisect_right_spec ltb ltb_negtrans). Qed.
End C18.

(* Non-vacuity: Z with < and = meets the hypotheses, and a list with duplicates is sorted. *)
Example C18_hyps_Z : (forall a b c, Z.ltb a c = true -> Z.ltb a b = true \/ Z.ltb b c = true) /\
                     (forall a b, Z.eqb a b = true <-> Z.ltb a b = false /\ Z.ltb b a = false).
Proof. exact UtilsP_Z_hyps. Qed.
Example C18_example : find_eq Z.ltb Z.eqb (1 :: 3 :: 3 :: 7 :: nil)%Z 3%Z = Ret (Some 1%Z)
                   /\ find_le Z.ltb (1 :: 3 :: 3 :: 7 :: nil)%Z 3%Z = Ret (Some 2%Z)
                   /\ find_gt Z.ltb (1 :: 3 :: 3 :: 7 :: nil)%Z 7%Z = Ret None.
Proof. exact UtilsP_example. Qed.

Print Assumptions C18_find_eq.
Print Assumptions C18_find_lt.
Print Assumptions C18_find_le.
Print Assumptions C18_find_gt.
Print Assumptions C18_find_ge.
Print Assumptions C18_bisect_left.
Print Assumptions C18_bisect_right.
