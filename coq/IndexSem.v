(* IndexSem.v — the primitives gen/IndexGen.v (generated from tinyflux/index.py: the maintenance of the index - __init__, _reset, invalidate,
   the _insert_ methods, insert, build, remove, the _remove_ methods, update, the _update_ methods) is written with: Python dicts as association lists in first-insertion order,
   the attributes of an Index object as a record with the source's names and types (the tag map NESTED, a dict of dicts, as in the source), and
   the abstraction `abs` onto the model's index (which keeps the tag map flat, keyed by pairs).  Definitions only. *)
From Coq Require Import List ZArith NArith Bool Arith.
From TF Require Import Base Query Index.
Import ListNotations.

(* Python's == on the key types that occur *)
Class PyEq (A : Type) := pyeq : A -> A -> bool.
#[global] Instance PyEq_str : PyEq str := str_eqb.
#[global] Instance PyEq_ostr : PyEq (option str) := ostr_eqb.
#[global] Instance PyEq_nat : PyEq nat := Nat.eqb.

(* dict: insertion-ordered; d[k] = v on a present key replaces the value in place (the key object stays), on an absent key appends.
   d_get carries the value read when the key is absent - Python raises KeyError there; the translator accepts a subscript read only where the
   key is known to be present (a dominating `in` test, the key of a running .items() / .keys() loop, an earlier assignment), so the default of
   an accepted program is never consulted - except in `d[k] if k in d else e`, which is translated to d_get e k d *)
Notation pydict K V := (list (K * V)%type) (only parsing).
Section Dict.
Context {K V : Type} {EK : PyEq K}.
Fixpoint d_has (k : K) (d : pydict K V) : bool :=
  match d with [] => false | (k', _) :: r => if pyeq k k' then true else d_has k r end.
Fixpoint d_get (dflt : V) (k : K) (d : pydict K V) : V :=
  match d with [] => dflt | (k', v) :: r => if pyeq k k' then v else d_get dflt k r end.
Fixpoint d_set (k : K) (v : V) (d : pydict K V) : pydict K V :=
  match d with [] => [(k, v)] | (k', v') :: r => if pyeq k k' then (k', v) :: r else (k', v') :: d_set k v r end.
End Dict.
(* a set of strings as a list without repetitions, in order of first addition: s.add(x) *)
Definition set_add {A} {E : PyEq A} (x : A) (s : list A) : list A := if existsb (pyeq x) s then s else s ++ [x].
Definition nonempty_list {A} (l : list A) : bool := match l with [] => false | _ => true end.

(* the attributes of an Index object, by the source's names and declared types.  _timestamps: List[float] holds datetime.timestamp() values;
   they are carried as the exact instants in microseconds (Stamp.v / C08_float_stamps_order_instants: on 1700-2240 the floats order and
   identify instants exactly as the integers do) *)
Record pyindex := mkPy {
  _num_items : nat;
  _tags : pydict str (pydict (option str) (list nat));
  _fields : pydict str (list (nat * option num));
  _measurements : pydict str (list nat);
  _timestamps : list Z;
  _valid : bool;
  _storage_pos_sorted_by_ts : list nat }.
Definition set__num_items (s : pyindex) v := mkPy v (_tags s) (_fields s) (_measurements s) (_timestamps s) (_valid s) (_storage_pos_sorted_by_ts s).
Definition set__tags (s : pyindex) v := mkPy (_num_items s) v (_fields s) (_measurements s) (_timestamps s) (_valid s) (_storage_pos_sorted_by_ts s).
Definition set__fields (s : pyindex) v := mkPy (_num_items s) (_tags s) v (_measurements s) (_timestamps s) (_valid s) (_storage_pos_sorted_by_ts s).
Definition set__measurements (s : pyindex) v := mkPy (_num_items s) (_tags s) (_fields s) v (_timestamps s) (_valid s) (_storage_pos_sorted_by_ts s).
Definition set__timestamps (s : pyindex) v := mkPy (_num_items s) (_tags s) (_fields s) (_measurements s) v (_valid s) (_storage_pos_sorted_by_ts s).
Definition set__valid (s : pyindex) v := mkPy (_num_items s) (_tags s) (_fields s) (_measurements s) (_timestamps s) v (_storage_pos_sorted_by_ts s).
Definition set__storage_pos_sorted_by_ts (s : pyindex) v := mkPy (_num_items s) (_tags s) (_fields s) (_measurements s) (_timestamps s) (_valid s) v.

(* the object before __init__ has run: no attribute is read before it is assigned (checked by the translator), so any value does *)
Definition py_blank : pyindex := mkPy 0 [] [] [] [] false [].

(* list.sort(key=lambda x: x[0]) on (stamp, position) pairs: a stable sort by the first component *)
Definition sort_by_first (l : list (Z * nat)) : list (Z * nat) := stable_sort (fun a b => Z.leb (fst a) (fst b)) l.

(* Optional[str] parameters: truthiness (None and "" are false), and the string itself where the translator knows it to be one;
   sorted(pairs, key=lambda x: x[1]): a stable sort by the second component *)
Definition opt_truthy (m : option str) : bool := match m with Some (_ :: _) => true | _ => false end.
Definition opt_str (m : option str) : str := match m with Some s => s | None => [] end.
Definition sort_by_second (l : list (Z * nat)) : list (Z * nat) := stable_sort (fun a b => Nat.leb (snd a) (snd b)) l.

(* the abstraction onto the model's index: positions get the model's unit payload, the nested tag map is flattened key by key *)
Definition unit_bucket (b : list nat) : list (nat * unit) := map (fun i => (i, tt)) b.
Definition ubuckets {K} (d : pydict K (list nat)) : imap K unit := map (fun kb => (fst kb, unit_bucket (snd kb))) d.
Definition pref {K2 V} (k : str) (m : imap K2 V) : imap (str * K2) V := map (fun vb => ((k, fst vb), snd vb)) m.
Definition flat_tags (t : pydict str (pydict (option str) (list nat))) : imap tkey unit :=
  flat_map (fun kd => pref (fst kd) (ubuckets (snd kd))) t.
Definition abs_meas (m : pydict str (list nat)) : imap str unit := ubuckets m.
Definition abs (g : pyindex) : index :=
  mkIndex (_num_items g) (_valid g) (_timestamps g) (_storage_pos_sorted_by_ts g) (abs_meas (_measurements g)) (flat_tags (_tags g)) (_fields g).
