(* Valid.v — what a caller may hand in (any Python value) and the checks that stand between
   it and storage: validate_tags / validate_fields, Point.__init__ / _validate_kwargs, the
   attribute setters (point.py), the argument checks of _generate_updater and the checks on
   what an update callable returns (database.py), insert's isinstance test.  DB.v works on
   typed points only; this file is the boundary: the conversions below are defined exactly
   where the code accepts.  Definitions only. *)
From Coq Require Import List ZArith NArith Bool Arith.
From TF Require Import Base Query DB.
Import ListNotations.

(* a Python value, as far as the checks can tell values apart *)
Inductive pyval :=
| PvNone | PvBool (b : bool) | PvInt (z : Z) | PvFloat (x : num) | PvStr (s : str) | PvBytes (s : str)
| PvTime (t : Z) | PvList (l : list pyval) | PvDict (d : list (pyval * pyval))
| PvCall (id : N)                      (* a callable *)
| PvPoint (ok : bool)                  (* a Point instance *)
| PvOther.                             (* any other object *)

Definition truthy_v (v : pyval) : bool :=
  match v with
  | PvNone => false | PvBool b => b | PvInt z => negb (Z.eqb z 0)
  | PvFloat x => negb (num_eqb x (NFin 0 0)) | PvStr s | PvBytes s => match s with [] => false | _ => true end
  | PvList l => match l with [] => false | _ => true end | PvDict d => match d with [] => false | _ => true end
  | _ => true
  end.

Definition is_str (v : pyval) : bool := match v with PvStr _ => true | _ => false end.
Definition is_time (v : pyval) : bool := match v with PvTime _ => true | _ => false end.
Definition is_callable (v : pyval) : bool := match v with PvCall _ => true | _ => false end.
Definition is_tag_value (v : pyval) : bool := match v with PvNone | PvStr _ => true | _ => false end.
(* isinstance(i, bool) or not isinstance(i, (int, float)) -> rejected: bool is an int subclass *)
Definition is_field_value (v : pyval) : bool := match v with PvNone | PvInt _ | PvFloat _ => true | _ => false end.

(* validate_tags / validate_fields: a Mapping with str keys and str|None resp. number|None values *)
Definition validate_tags (v : pyval) : bool :=
  match v with PvDict d => forallb (fun kv => is_str (fst kv)) d && forallb (fun kv => is_tag_value (snd kv)) d | _ => false end.
Definition validate_fields (v : pyval) : bool :=
  match v with PvDict d => forallb (fun kv => is_str (fst kv)) d && forallb (fun kv => is_field_value (snd kv)) d | _ => false end.

Inductive slot := STime | SMeas | STags | SFields.
(* the check applied when a value is ASSIGNED to a slot: Point(...) kwargs, the setters, and what
   perform_update does with a callable's result (setter for time/measurement, validate_* on a fresh dict) *)
Definition slot_ok (s : slot) (v : pyval) : bool :=
  match s with STime => is_time v | SMeas => is_str v | STags => validate_tags v | SFields => validate_fields v end.

(* what perform_update does with the value a tags/fields callable returns: a fresh dict is
   update()d with it (so a mapping, or an iterable of key/value pairs - the empty str, bytes
   and list among them) and the fresh dict is validated *)
Definition as_pair (v : pyval) : option (pyval * pyval) := match v with PvList [k; x] => Some (k, x) | _ => None end.
Definition as_mapping (v : pyval) : option (list (pyval * pyval)) :=
  match v with
  | PvDict d => Some d
  | PvStr [] | PvBytes [] => Some []
  | PvList l => fold_right (fun e acc => match acc, as_pair e with Some r, Some kv => Some (kv :: r) | _, _ => None end) (Some []) l
  | _ => None
  end.
Definition call_result_ok (s : slot) (v : pyval) : bool :=
  match s with
  | STime | SMeas => slot_ok s v
  | _ => match as_mapping v with Some d => slot_ok s (PvDict d) | None => false end
  end.

(* the Point constructor with keyword arguments: None = keyword absent *)
Definition ctor_ok (time meas tags fields : option pyval) : bool :=
  let chk s o := match o with None => true | Some v => slot_ok s v end in
  chk STime time && chk SMeas meas && chk STags tags && chk SFields fields.

(* _generate_updater's check of a static argument: a falsy argument counts as "not given" *)
Inductive argres := ArgIgnored | ArgCallable | ArgStatic | ArgRejected.
Definition upd_arg (s : slot) (v : pyval) : argres :=
  if negb (truthy_v v) then ArgIgnored
  else if is_callable v then ArgCallable
  else if slot_ok s v then ArgStatic else ArgRejected.
(* unset_tags / unset_fields: a str or an iterable of str *)
Definition unset_ok (v : pyval) : bool :=
  negb (truthy_v v) || match v with PvStr _ => true | PvList l => forallb is_str l
                                    | PvDict d => forallb (fun kv => is_str (fst kv)) d       (* iterating a dict yields its keys *)
                                    | _ => false end.

(* insert / insert_multiple: isinstance(point, Point); the measurement argument goes through the setter *)
Definition insert_ok (p : pyval) (meas : pyval) : bool :=
  match p with PvPoint _ => negb (truthy_v meas) || is_str meas | _ => false end.

(* ---- the typed reading of an accepted value ---------------------------------------------- *)
Definition to_tags (v : pyval) : option (list (str * option str)) :=
  match v with
  | PvDict d => fold_right (fun kv acc => match acc, fst kv, snd kv with
                                          | Some l, PvStr k, PvNone => Some ((k, None) :: l)
                                          | Some l, PvStr k, PvStr s => Some ((k, Some s) :: l)
                                          | _, _, _ => None end) (Some []) d
  | _ => None
  end.
Definition num_of_int (z : Z) : num := NFin z 0.      (* not canonical; only "is a number" matters here *)
Definition to_fields (v : pyval) : option (list (str * option num)) :=
  match v with
  | PvDict d => fold_right (fun kv acc => match acc, fst kv, snd kv with
                                          | Some l, PvStr k, PvNone => Some ((k, None) :: l)
                                          | Some l, PvStr k, PvInt z => Some ((k, Some (num_of_int z)) :: l)
                                          | Some l, PvStr k, PvFloat x => Some ((k, Some x) :: l)
                                          | _, _, _ => None end) (Some []) d
  | _ => None
  end.
