(* Twins.v — the fixed table of user callables and regular expressions the correspondence
   harness uses, written in Gallina; harness/twins.py holds the same table in Python and
   the two are cross-checked on the whole value universe on every run.  The theorems never
   mention this file: they quantify over every environment. *)
From Coq Require Import List ZArith NArith Bool Arith.
From TF Require Import Base Query DB.
Import ListNotations.

Definition lower_ab (c : N) : N := if N.eqb c 65 then 97%N else if N.eqb c 66 then 98%N else c.
Fixpoint starts_with (fold : bool) (pat s : str) : bool :=
  match pat, s with
  | [], _ => true
  | _ :: _, [] => false
  | a :: p', b :: s' => N.eqb a (if fold then lower_ab b else b) && starts_with fold p' s'
  end.
Fixpoint contains (fold : bool) (pat s : str) : bool :=
  starts_with fold pat s || match s with [] => false | _ :: s' => contains fold pat s' end.
(* b+ anchored at the start / anywhere *)
Definition s_a : str := [97]%N.
Definition s_ab : str := [97; 98]%N.
Definition s_b : str := [98]%N.
Definition fold_of (flags : N) : bool := N.eqb flags 2.      (* re.IGNORECASE *)

(* Python's \s on str patterns, for the code points that occur in the generated strings *)
Definition is_ws (c : N) : bool :=
  existsb (N.eqb c) [9; 10; 11; 12; 13; 32; 28; 29; 30; 31; 133; 160; 8232; 8233]%N.
Definition first_is (f : N -> bool) (s : str) : bool := match s with c :: _ => f c | [] => false end.

(* patterns: 0 = "a", 1 = "^ab", 2 = "b+", 3 = "\S+", 4 = "\s+" (the flag IGNORECASE changes nothing for these two), 5 = "(?i)ab" *)
Definition t_rmatch (re flags : N) (s : str) : bool :=
  match re with
  | 0%N => starts_with (fold_of flags) s_a s
  | 1%N => starts_with (fold_of flags) s_ab s
  | 2%N => starts_with (fold_of flags) s_b s
  | 3%N => first_is (fun c => negb (is_ws c)) s
  | 4%N => first_is is_ws s
  | _ => starts_with true s_ab s          (* 5 = "(?i)ab": a global flag written inside the pattern *)
  end.
Definition t_rsearch (re flags : N) (s : str) : bool :=
  match re with
  | 0%N => contains (fold_of flags) s_a s
  | 1%N => starts_with (fold_of flags) s_ab s
  | 2%N => contains (fold_of flags) s_b s
  | 3%N => existsb (fun c => negb (is_ws c)) s
  | 4%N => existsb is_ws s
  | _ => contains true s_ab s
  end.

Definition num_neg (x : num) : num :=
  match x with NFin m e => NFin (- m)%Z e | NPInf => NNInf | NNInf => NPInf | NNaN => NNaN end.
Definition s_many : str := [109; 97; 110; 121]%N.
Definition s_few : str := [102; 101; 119]%N.

(* map functions:
   0 lambda x: x                      1 lambda s: s[0]   (str only; "" raises)
   2 lambda x: -x   (numbers only)    3 lambda d: "many" if len(d) >= 2 else "few"  (str, dict)
   4 lambda t: t + timedelta(seconds=10)  (datetime only)     5 lambda x: None
   6 lambda d: d if len(d) >= 2 else {}   (dict only: a map that looks at the WHOLE tag / field set and hands a mapping on) *)
Definition t_menv (id : N) (v : value) : option value :=
  match id with
  | 0%N => Some v
  | 1%N => match v with VStr (c :: _) => Some (VStr [c]) | _ => None end
  | 2%N => match v with VNum x => Some (VNum (num_neg x)) | _ => None end
  | 3%N => match v with
           | VStr s => Some (VStr (if Nat.leb 2 (length s) then s_many else s_few))
           | VDict d => Some (VStr (if Nat.leb 2 (length d) then s_many else s_few))
           | _ => None end
  | 4%N => match v with VTime t => Some (VTime (t + 10000000)%Z) | _ => None end
  | 5%N => Some VNone
  | _ => match v with VDict d => Some (VDict (if Nat.leb 2 (length d) then d else [])) | _ => None end
  end.

(* canonical forms (odd mantissa): 0, 1, 2 = 1*2^1, 5, 10 = 5*2^1 *)
Definition n0 : num := NFin 0 0.
Definition n1 : num := NFin 1 0.
Definition n2 : num := NFin 1 1.
Definition n5 : num := NFin 5 0.
Definition n10 : num := NFin 5 1.
(* test functions:
   0 lambda x: x == 1                 1 lambda x: x > 0   (numbers only, else raises)
   2 lambda x, a, b: a <= x <= b with (1, 5)  (numbers only)
   3 lambda x: len(x) > 1  (str, dict)          4 lambda x: True
   5 Range(0, 1).contains   6 Range(5, 9).contains   (two bound methods of ONE class: lo <= x <= hi, numbers only)
   7 operator.ge with (2,)  (numbers only)      8 operator.ne with (1,)  (total) *)
Definition n9 : num := NFin 9 0.
Definition in_range (lo hi x : num) : bool := (num_ltb lo x || num_eqb lo x) && (num_ltb x hi || num_eqb x hi).
Definition t_tenv (id : N) (v : value) : option bool :=
  match id with
  | 0%N => Some (value_eqb v (VNum n1))
  | 1%N => match v with VNum x => Some (num_ltb n0 x) | _ => None end
  | 2%N => match v with
           | VNum x => Some ((num_ltb n1 x || num_eqb n1 x) && (num_ltb x n5 || num_eqb x n5))
           | _ => None end
  | 3%N => match v with
           | VStr s => Some (Nat.ltb 1 (length s))
           | VDict d => Some (Nat.ltb 1 (length d))
           | _ => None end
  | 4%N => Some true
  | 5%N => match v with VNum x => Some (in_range n0 n1 x) | _ => None end
  | 6%N => match v with VNum x => Some (in_range n5 n9 x) | _ => None end
  | 7%N => match v with VNum x => Some (num_ltb n2 x || num_eqb n2 x) | _ => None end
  | _ => Some (negb (value_eqb v (VNum n1)))
  end.

Definition twinE : env := mkEnv t_menv t_tenv t_rmatch t_rsearch.

(* update callables *)
Definition s_x : str := [120]%N.
Definition s_y : str := [121]%N.
Definition s_k : str := [107]%N.
Definition s_n : str := [110]%N.
Definition s_bad : str := [98; 97; 100]%N.
Definition s_new : str := [110; 101; 119]%N.
Definition s_m1 : str := [109; 49]%N.
(* time: 0 +1h   1 returns a str (invalid)   2 raises   3 identity
         4 raises when t.second % 3 == 2 else +1h   5 +1h expressed in the zone +05:00 *)
Definition t_ctime (id : N) (t : Z) : option Z :=
  match id with
  | 0%N => Some (t + 3600000000)%Z
  | 1%N => None
  | 2%N => None
  | 3%N => Some t
  | 5%N => Some (t + 3600000000)%Z                 (* +1h, returned in the zone +05:00: the same instant *)
  | _ => if Z.eqb (((t / 1000000) mod 60) mod 3)%Z 2%Z then None else Some (t + 3600000000)%Z
  end.
(* measurement: 0 m + "x"   1 returns 5 (invalid)   2 identity   3 raises if m == "m1" else m + "y" *)
Definition t_cmeas (id : N) (m : str) : option str :=
  match id with
  | 0%N => Some (m ++ s_x)
  | 1%N => None
  | 2%N => Some m
  | _ => if str_eqb m s_m1 then None else Some (m ++ s_y)
  end.
(* tags: 0 {"k": "new"}   1 {"k": 1} (invalid)   2 {}   3 raises if "bad" in d else {"k": "new"}
         4 dict(d)   5 {"n": None}   6 d["k"] = "new"; return d   (the argument itself, edited in place) *)
Definition t_ctags (id : N) (d : list (str * option str)) : option (list (str * option str)) :=
  match id with
  | 0%N => Some [(s_k, Some s_new)]
  | 1%N => None
  | 2%N => Some []
  | 3%N => if dhas s_bad d then None else Some [(s_k, Some s_new)]
  | 4%N => Some d
  | 5%N => Some [(s_n, None)]
  | _ => Some (dset s_k (Some s_new) d)
  end.
Definition s_fa : str := [97]%N.
Definition s_fb : str := [98]%N.
(* fields: 0 {"a": 10}   1 {"a": "str"} (invalid)   2 {}   3 raises if d.get("a") == 2 else {"a": 10}
           4 {"b": None}   5 {"a": True} (invalid: bool)   6 d["a"] = 10; return d   (the argument itself, edited in place) *)
Definition t_cfields (id : N) (d : list (str * option num)) : option (list (str * option num)) :=
  match id with
  | 0%N => Some [(s_fa, Some n10)]
  | 1%N => None
  | 2%N => Some []
  | 3%N => match dget s_fa d with
           | Some (Some x) => if num_eqb x n2 then None else Some [(s_fa, Some n10)]
           | _ => Some [(s_fa, Some n10)] end
  | 4%N => Some [(s_fb, None)]
  | 5%N => None
  | _ => Some (dset s_fa (Some n10) d)
  end.
Definition twinC : cenv := mkCenv t_ctime t_cmeas t_ctags t_cfields.
