(* Property C11 — an operation that raises leaves the database as it was, and still usable.
   DB.v places every exception at the statement where database.py raises (a non-Point inside
   insert_multiple, statically invalid update arguments, an update callable that raises or
   returns an invalid value, an invalid select key).  Whenever an operation's outcome is ORaise
   the stored rows are what they were (insert_multiple: plus the points before the offending
   element) and the state invariant still holds — so every later operation behaves as
   Prop_C01/C02/C03/C06 say.  For both storages: MemoryStorage restores the objects an update
   changed in place when the update fails (repaired defect F16). *)
From Coq Require Import List ZArith NArith Bool.
From TF Require Import Base Query Index DB Spec proofs.IndexDefs proofs.RepP proofs.DBReadP proofs.DBRemoveP
     proofs.DBStepP proofs.DBRunP proofs.DBSpecP IO proofs.IOP proofs.PlanP proofs.RaiseFileP.
Import ListNotations.

Theorem C11_raise_is_noop : forall E C norm, (forall p, wf_point p -> wf_point (norm p)) ->
  forall s o, Inv s -> wf_op E norm o -> snd (step E C norm s o) = ORaise ->
  let s' := fst (step E C norm s o) in
  Inv s' /\
  match o with
  | Insert ps m => st_rows s' = st_rows s ++ map (rename m) (prefix_points ps)
  | Handle name (HInsert ps) => st_rows s' = st_rows s ++ map (rename (Some name)) (prefix_points ps)
  | _ => st_rows s' = st_rows s
  end.
Proof. exact raise_leaves_rows. Qed.
(* whatever happens, the invariant survives every operation *)
Theorem C11_still_usable : forall E C norm, (forall p, wf_point p -> wf_point (norm p)) ->
  forall s o, Inv s -> wf_op E norm o -> Inv (fst (step E C norm s o)).
Proof. exact step_Inv. Qed.

(* ... and at the file: a removal, update, drop or read that raises has written nothing, at any point of its I/O script *)
Theorem C11_raising_operation_leaves_file : forall E C norm, (forall p, wf_point p -> wf_point (norm p)) ->
  forall s o k, Inv s -> wf_op E norm o -> is_insert o = false -> is_remove_all o = false ->
  forallb nan_free_point (st_rows s) = true -> snd (step E C norm s o) = ORaise ->
  let old := st_rows s in
  w_disk (run_steps (world_of old) (firstn k (script_of old (plan_of o old (st_rows (fst (step E C norm s o))))))) = old.
Proof. exact raising_operation_leaves_file. Qed.

Print Assumptions C11_raise_is_noop.
Print Assumptions C11_raising_operation_leaves_file.
Print Assumptions C11_still_usable.
