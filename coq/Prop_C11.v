(* Property C11 — an operation that raises leaves the database as it was, and still usable.
   DB.v places every exception at the statement where database.py raises (a non-Point inside
   insert_multiple, statically invalid update arguments, an update callable that raises or
   returns an invalid value, an invalid select key).  For storage without in-place mutation
   (CSVStorage: inplace = false): whenever an operation's outcome is ORaise the stored rows are
   what they were (insert_multiple: plus the points before the offending element), and the
   state invariant still holds — so every later operation behaves as Prop_C01/C02/C03/C06 say.
   MemoryStorage (inplace = true) mutates stored objects during update: known finding F16,
   the refuted statement is C11_memory_refuted. *)
From Coq Require Import List ZArith NArith Bool.
From TF Require Import Base Query Index DB Spec proofs.IndexDefs proofs.RepP proofs.DBReadP proofs.DBRemoveP
     proofs.DBStepP proofs.DBRunP proofs.DBSpecP.
Import ListNotations.

Theorem C11_raise_is_noop : forall E C norm, (forall p, wf_point p -> wf_point (norm p)) ->
  forall s o, Inv s -> wf_op E norm o -> snd (step E C norm false s o) = ORaise ->
  let s' := fst (step E C norm false s o) in
  Inv s' /\
  match o with
  | Insert ps m => st_rows s' = st_rows s ++ map (rename m) (prefix_points ps)
  | Handle name (HInsert ps) => st_rows s' = st_rows s ++ map (rename (Some name)) (prefix_points ps)
  | _ => st_rows s' = st_rows s
  end.
Proof. exact (fun E C norm Hn s o HI Hw => raise_leaves_rows E C norm false Hn s o HI Hw eq_refl). Qed.
(* whatever happens, the invariant survives every operation that is not a torn in-place update *)
Theorem C11_still_usable : forall E C norm inplace, (forall p, wf_point p -> wf_point (norm p)) ->
  forall s o, Inv s -> wf_op E norm o -> no_torn_update inplace o (snd (step E C norm inplace s o)) ->
  Inv (fst (step E C norm inplace s o)).
Proof. exact step_Inv. Qed.

Print Assumptions C11_raise_is_noop.
Print Assumptions C11_still_usable.
